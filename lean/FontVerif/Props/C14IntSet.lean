/-
C14 — IntSet part: every operation of `IntSet<T>` refines the mathematical set it denotes.
Property theorems only (helper lemmas live in Lemmas/IntSet*.lean).
Model: Model/IntSet.lean ⇄ read-fonts/src/collections/int_set/{mod.rs, bitset.rs, bitpage.rs}

Vocabulary (defined in Lemmas/IntSet*.lean)
* `PageOk p`      : `p.bits < 2^512 ∧ p.len = popCount p.bits`
* `BInv s`        : pages strictly sorted by major ∧ every page `PageOk` ∧ `s.len = sumLens s.pages`
                    (empty pages are allowed: removals leave them behind)
* `IInv s`        : `BInv s.set` (either membership mode)
* `InDom d s`     : every stored value is a value of the element domain `d`
* `Hist`, `Op`    : operation histories (tree / flat list) with `run` (the model) and `spec`
                    (the denoted characteristic function `Nat → Bool`)
* `Asc xs`        : strictly ascending;  `NRInv rs` : the RangeSet invariant on `Nat` ranges;
                    `NMem rs x` : membership in the union of the ranges
* `DomWF d`       : the domain's `ordered_values()` are sorted disjoint non-empty ranges, `count()`
                    is their total size, a continuous domain is a single range
* `IInvD d s`     : `IInv s ∧ InDom d s`
* `s.elems d`     : the mathematical member sequence: the domain values `x` (ascending) with
                    `s.contains x`
* `lexOrd`        : lexicographic order on member sequences (the specification of `Ord`)
* `DRInv D rs`    : range list in *domain* normal form (end points are domain values; sorted,
                    disjoint; a domain value lies between any two ranges) — `iter_ranges` on a
                    discontinuous domain
-/
import FontVerif.Model.IntSet
import FontVerif.Lemmas.IntSetObs
import FontVerif.Lemmas.IntSetEq
import FontVerif.Lemmas.IntSetCmp
set_option linter.unusedVariables false
namespace FontVerif.C14IntSet
open FontVerif FontVerif.IntSet

/-! ## 1 + 2. `BitSet`: invariant and membership refinement of every mutator -/

/-- the empty set satisfies the invariant and has no members -/
theorem bitset_empty : BInv BitSet.empty ∧ ∀ x, BitSet.empty.contains x = false :=
  ⟨bInv_empty, fun _ => rfl⟩

/-- `BitSet::insert`: invariant kept, membership is `x = v ∨ old`, the returned flag is
exactly "was not a member" -/
theorem bitset_insert (s : BitSet) (v : Nat) (h : BInv s) :
    BInv (s.insert v).1 ∧
    (∀ x, (s.insert v).1.contains x = (decide (x = v) || s.contains x)) ∧
    (s.insert v).2 = !s.contains v :=
  ⟨BitSet.insert_inv s v h, fun x => BitSet.insert_contains s v x h, BitSet.insert_snd s v h⟩

/-- `BitSet::remove`: invariant kept (the page may become empty and stays in the list),
membership is `x ≠ v ∧ old`, the returned flag is exactly "was a member" -/
theorem bitset_remove (s : BitSet) (v : Nat) (h : BInv s) :
    BInv (s.remove v).1 ∧
    (∀ x, (s.remove v).1.contains x = (!decide (x = v) && s.contains x)) ∧
    (s.remove v).2 = s.contains v :=
  ⟨BitSet.remove_inv s v h, fun x => BitSet.remove_contains s v x h, BitSet.remove_snd s v⟩

/-- `BitSet::insert_range(a..=b)` for every `a`, `b` (also `a > b`, and ranges spanning any
number of pages) -/
theorem bitset_insertRange (s : BitSet) (a b : Nat) (h : BInv s) :
    BInv (s.insertRange a b) ∧
    ∀ x, (s.insertRange a b).contains x = (s.contains x || (decide (a ≤ x) && decide (x ≤ b))) :=
  BitSet.insertRange_spec s a b h

/-- `BitSet::remove_range(a..=b)` (first page partially cleared, inner pages zeroed and kept,
last page partially cleared, pages beyond untouched) -/
theorem bitset_removeRange (s : BitSet) (a b : Nat) (h : BInv s) :
    BInv (s.removeRange a b) ∧
    ∀ x, (s.removeRange a b).contains x = (s.contains x && !(decide (a ≤ x) && decide (x ≤ b))) :=
  BitSet.removeRange_spec s a b h

/-- `BitSet::extend` / `extend_unsorted` -/
theorem bitset_extend (s : BitSet) (vs : List Nat) (h : BInv s) :
    BInv (s.extend vs) ∧ ∀ x, (s.extend vs).contains x = (decide (x ∈ vs) || s.contains x) :=
  BitSet.extend_spec s vs h

/-- `BitSet::remove_all` -/
theorem bitset_removeAll (s : BitSet) (vs : List Nat) (h : BInv s) :
    BInv (s.removeAll vs) ∧
    ∀ x, (s.removeAll vs).contains x = (!decide (x ∈ vs) && s.contains x) :=
  BitSet.removeAll_spec s vs h

/-- `BitSet::process` for ANY page operator that acts bitwise through a Boolean function `f`
with `f false false = false` (the passthrough flags are derived from the operator exactly as
`passthrough_behavior` does): the result satisfies the invariant and membership is `f` of the
two memberships. -/
theorem bitset_process (op : Nat → Nat → Nat) (f : Bool → Bool → Bool) (hop : BitwiseOp op f)
    (s o : BitSet) (hs : BInv s) (ho : BInv o) :
    BInv (BitSet.process op s o) ∧
    ∀ x, (BitSet.process op s o).contains x = f (s.contains x) (o.contains x) :=
  ⟨BitSet.process_inv hop s o hs ho, BitSet.process_contains hop s o hs ho⟩

theorem bitset_union (a b : BitSet) (ha : BInv a) (hb : BInv b) :
    BInv (a.union b) ∧ ∀ x, (a.union b).contains x = (a.contains x || b.contains x) :=
  BitSet.union_spec a b ha hb

theorem bitset_intersect (a b : BitSet) (ha : BInv a) (hb : BInv b) :
    BInv (a.intersect b) ∧ ∀ x, (a.intersect b).contains x = (a.contains x && b.contains x) :=
  BitSet.intersect_spec a b ha hb

theorem bitset_subtract (a b : BitSet) (ha : BInv a) (hb : BInv b) :
    BInv (a.subtract b) ∧ ∀ x, (a.subtract b).contains x = (a.contains x && !b.contains x) :=
  BitSet.subtract_spec a b ha hb

theorem bitset_reversedSubtract (a b : BitSet) (ha : BInv a) (hb : BInv b) :
    BInv (a.reversedSubtract b) ∧
    ∀ x, (a.reversedSubtract b).contains x = (!a.contains x && b.contains x) :=
  BitSet.reversedSubtract_spec a b ha hb

/-! ## 1 + 2. `IntSet`: both membership modes -/

theorem intset_empty_all :
    IInv IntSet.empty ∧ (∀ x, IntSet.empty.contains x = false) ∧
    IInv IntSet.all ∧ (∀ x, IntSet.all.contains x = true) :=
  ⟨iInv_empty, fun _ => rfl, iInv_all, fun _ => rfl⟩

/-- `IntSet::insert` in either mode; the returned flag is exactly `is_new` -/
theorem intset_insert (s : IntSet) (v : Nat) (h : IInv s) :
    IInv (s.insert v).1 ∧
    (∀ x, (s.insert v).1.contains x = (decide (x = v) || s.contains x)) ∧
    (s.insert v).2 = !s.contains v :=
  ⟨IntSet.insert_inv s v h, fun x => IntSet.insert_contains s v x h, IntSet.insert_snd s v h⟩

/-- `IntSet::remove` in either mode; the returned flag is exactly `was_present` -/
theorem intset_remove (s : IntSet) (v : Nat) (h : IInv s) :
    IInv (s.remove v).1 ∧
    (∀ x, (s.remove v).1.contains x = (!decide (x = v) && s.contains x)) ∧
    (s.remove v).2 = s.contains v :=
  ⟨IntSet.remove_inv s v h, fun x => IntSet.remove_contains s v x h, IntSet.remove_snd s v h⟩

/-- `IntSet::insert_range(a..=b)`, either mode, continuous and discontinuous domains:
`inRange d a b x = a ≤ x ≤ b ∧ (d.continuous ∨ d.contains x)` -/
theorem intset_insertRange (d : Domain) (s : IntSet) (a b : Nat) (h : IInv s) :
    IInv (s.insertRange d a b) ∧
    ∀ x, (s.insertRange d a b).contains x = (s.contains x || inRange d a b x) :=
  ⟨IntSet.insertRange_inv d s a b h, fun x => IntSet.insertRange_contains d s a b x h⟩

/-- … spelled out for a continuous domain … -/
theorem intset_insertRange_continuous (d : Domain) (hc : d.continuous = true) (s : IntSet)
    (a b x : Nat) (h : IInv s) :
    (s.insertRange d a b).contains x = (s.contains x || (decide (a ≤ x) && decide (x ≤ b))) := by
  rw [IntSet.insertRange_contains d s a b x h]; simp [inRange, hc]

/-- … and for a discontinuous one (only domain values inside the interval are added, as the
code does through `ordered_values_range`). -/
theorem intset_insertRange_discontinuous (d : Domain) (hc : d.continuous = false) (s : IntSet)
    (a b x : Nat) (h : IInv s) :
    (s.insertRange d a b).contains x =
      (s.contains x || (decide (a ≤ x) && decide (x ≤ b) && d.contains x)) := by
  rw [IntSet.insertRange_contains d s a b x h]; simp [inRange, hc]

/-- `IntSet::remove_range(a..=b)`, either mode, continuous and discontinuous domains -/
theorem intset_removeRange (d : Domain) (s : IntSet) (a b : Nat) (h : IInv s) :
    IInv (s.removeRange d a b) ∧
    ∀ x, (s.removeRange d a b).contains x = (s.contains x && !inRange d a b x) :=
  ⟨IntSet.removeRange_inv d s a b h, fun x => IntSet.removeRange_contains d s a b x h⟩

theorem intset_removeRange_continuous (d : Domain) (hc : d.continuous = true) (s : IntSet)
    (a b x : Nat) (h : IInv s) :
    (s.removeRange d a b).contains x = (s.contains x && !(decide (a ≤ x) && decide (x ≤ b))) := by
  rw [IntSet.removeRange_contains d s a b x h]; simp [inRange, hc]

theorem intset_removeRange_discontinuous (d : Domain) (hc : d.continuous = false) (s : IntSet)
    (a b x : Nat) (h : IInv s) :
    (s.removeRange d a b).contains x =
      (s.contains x && !(decide (a ≤ x) && decide (x ≤ b) && d.contains x)) := by
  rw [IntSet.removeRange_contains d s a b x h]; simp [inRange, hc]

/-- `IntSet::extend` / `extend_unsorted` -/
theorem intset_extend (s : IntSet) (vs : List Nat) (h : IInv s) :
    IInv (s.extend vs) ∧ ∀ x, (s.extend vs).contains x = (decide (x ∈ vs) || s.contains x) :=
  ⟨IntSet.extend_inv s vs h, fun x => IntSet.extend_contains s vs x h⟩

/-- `IntSet::remove_all` -/
theorem intset_removeAll (s : IntSet) (vs : List Nat) (h : IInv s) :
    IInv (s.removeAll vs) ∧
    ∀ x, (s.removeAll vs).contains x = (!decide (x ∈ vs) && s.contains x) :=
  ⟨IntSet.removeAll_inv s vs h, fun x => IntSet.removeAll_contains s vs x h⟩

/-- `IntSet::invert` flips membership of every value, `IntSet::clear` empties the set (and
returns to inclusive mode) -/
theorem intset_invert_clear (s : IntSet) (h : IInv s) :
    IInv s.invert ∧ (∀ x, s.invert.contains x = !s.contains x) ∧
    IInv s.clear ∧ (∀ x, s.clear.contains x = false) ∧ s.clear.inverted = false :=
  ⟨IntSet.invert_inv s h, IntSet.invert_contains s, IntSet.clear_inv s, IntSet.clear_contains s,
    rfl⟩

/-- `IntSet::union`, all four mode combinations -/
theorem intset_union (a b : IntSet) (ha : IInv a) (hb : IInv b) :
    IInv (a.union b) ∧ ∀ x, (a.union b).contains x = (a.contains x || b.contains x) :=
  ⟨IntSet.union_inv a b ha hb, fun x => IntSet.union_contains a b x ha hb⟩

/-- `IntSet::intersect`, all four mode combinations -/
theorem intset_intersect (a b : IntSet) (ha : IInv a) (hb : IInv b) :
    IInv (a.intersect b) ∧ ∀ x, (a.intersect b).contains x = (a.contains x && b.contains x) :=
  ⟨IntSet.intersect_inv a b ha hb, fun x => IntSet.intersect_contains a b x ha hb⟩

/-- `IntSet::subtract`, all four mode combinations -/
theorem intset_subtract (a b : IntSet) (ha : IInv a) (hb : IInv b) :
    IInv (a.subtract b) ∧ ∀ x, (a.subtract b).contains x = (a.contains x && !b.contains x) :=
  ⟨IntSet.subtract_inv a b ha hb, fun x => IntSet.subtract_contains a b x ha hb⟩

/-- "stored values are domain values" is preserved by every operation whose arguments are
domain values (which the element type `T` guarantees) -/
theorem intset_inDom_preserved (d : Domain) (s t : IntSet) (hs : IInv s) (ht : IInv t)
    (ds : InDom d s) (dt : InDom d t) :
    (∀ v, d.contains v = true → InDom d (s.insert v).1 ∧ InDom d (s.remove v).1) ∧
    (∀ a b, RangeInDom d a b → InDom d (s.insertRange d a b) ∧ InDom d (s.removeRange d a b)) ∧
    (∀ vs, (∀ v ∈ vs, d.contains v = true) → InDom d (s.extend vs) ∧ InDom d (s.removeAll vs)) ∧
    InDom d s.invert ∧ InDom d s.clear ∧
    InDom d (s.union t) ∧ InDom d (s.intersect t) ∧ InDom d (s.subtract t) :=
  ⟨fun v hv => ⟨IntSet.insert_inDom d s v hs ds hv, IntSet.remove_inDom d s v hs ds hv⟩,
   fun a b hr => ⟨IntSet.insertRange_inDom d s a b hs ds hr, IntSet.removeRange_inDom d s a b hs ds hr⟩,
   fun vs hv => ⟨IntSet.extend_inDom d s vs hs ds hv, IntSet.removeAll_inDom d s vs hs ds hv⟩,
   IntSet.invert_inDom d s ds, IntSet.clear_inDom d s,
   IntSet.union_inDom d s t hs ht ds dt, IntSet.intersect_inDom d s t hs ht ds dt,
   IntSet.subtract_inDom d s t hs ht ds dt⟩

/-! ## 3. Histories: after ANY sequence of operations -/

/-- Every history (a tree: the argument of union / intersect / subtract is itself any
previously built set, so mode flips through mixed-mode unions and empty pages left by removals
are all covered): the invariant holds and `contains` is exactly the characteristic function of
the mathematical set the history denotes. No bound on length, values or sizes. -/
theorem history_refines (d : Domain) (h : Hist) :
    IInv (h.run d) ∧ ∀ x, (h.run d).contains x = h.spec d x :=
  Hist.run_spec d h

/-- … and if every operation argument is a domain value, so is every stored value. -/
theorem history_inDom (d : Domain) (h : Hist) (hw : h.WF d) : InDom d (h.run d) :=
  Hist.run_inDom d h hw

/-- The same for a flat operation list applied, left to right, to any starting set that already
refines `f` — in particular to `IntSet::empty()`. -/
theorem oplist_refines (d : Domain) (ops : List Op) (s : IntSet) (f : Nat → Bool) (h : IInv s)
    (hf : ∀ x, s.contains x = f x) :
    IInv (runOps d ops s) ∧ ∀ x, (runOps d ops s).contains x = specOps d ops f x :=
  runOps_spec d ops s f h hf

theorem oplist_from_empty (d : Domain) (ops : List Op) :
    IInv (runOps d ops IntSet.empty) ∧
    (∀ x, (runOps d ops IntSet.empty).contains x = specOps d ops (fun _ => false) x) ∧
    ((∀ op ∈ ops, op.WF d) → InDom d (runOps d ops IntSet.empty)) :=
  ⟨(runOps_spec d ops _ _ iInv_empty (fun _ => rfl)).1,
   (runOps_spec d ops _ _ iInv_empty (fun _ => rfl)).2,
   fun hw => runOps_inDom d ops _ iInv_empty (inDom_empty d) hw⟩

/-! ## 4. Observers of `BitSet` -/

/-- `BitSet::iter` yields the members in strictly ascending order, each exactly once, and
`BitSet::len` (the cached length) is their number -/
theorem bitset_members (s : BitSet) (h : BInv s) :
    Asc s.members ∧ (∀ x, x ∈ s.members ↔ s.contains x = true) ∧ s.len = s.members.length :=
  ⟨BitSet.members_asc s h, BitSet.mem_members s h, BitSet.len_eq s h⟩

/-- `BitSet::iter_ranges` satisfies the RangeSet invariant (sorted, disjoint, non-adjacent, well
formed), covers exactly the members, and expands to the member sequence; the range walk (which
does not consult cached page lengths) sees the same members as `iter` -/
theorem bitset_ranges (s : BitSet) (h : BInv s) :
    NRInv s.ranges ∧ (∀ x, NMem s.ranges x ↔ s.contains x = true) ∧
    expand s.ranges = s.members ∧ s.membersAll = s.members :=
  ⟨(BitSet.ranges_spec s h).1, (BitSet.ranges_spec s h).2, BitSet.expand_ranges s h,
   BitSet.membersAll_eq_members s h⟩

/-- range lists in this normal form are canonical: same members ⇒ same list (this is what makes
`Eq`/`Hash`/`Ord` through `iter_ranges` agree with the mathematical set) -/
theorem ranges_canonical (as bs : List (Nat × Nat)) (ha : NRInv as) (hb : NRInv bs)
    (h : ∀ x, NMem as x ↔ NMem bs x) : as = bs :=
  nrinv_ext ha hb h


/-- `NRInv` / `NMem` are literally the RangeSet invariant `RInv` / membership `Mem` of
Model/RangeSet.lean (Props/C14.lean) on the same ranges read as `Int` pairs: so
`BitSet::iter_ranges` and `IntSet::iter_ranges` (continuous domains) are valid `RangeSet`s -/
theorem ranges_are_rangesets (rs : List (Nat × Nat)) :
    (NRInv rs ↔ RangeSet.RInv (toIntRanges rs)) ∧
    ∀ x : Nat, NMem rs x ↔ RangeSet.Mem (toIntRanges rs) (x : Int) :=
  ⟨nrinv_iff_rinv rs, nmem_iff_mem rs⟩

/-! ## 4. Observers of `IntSet`, both modes -/

/-- the specification object: `elems` lists exactly the members, strictly ascending -/
theorem intset_elems (d : Domain) (hd : DomWF d) (s : IntSet) :
    Asc (s.elems d) ∧ ∀ x, x ∈ s.elems d ↔ d.contains x = true ∧ s.contains x = true :=
  ⟨elems_asc hd s, fun _ => mem_elems⟩

/-- `IntSet::len()` is the number of members in both modes; for an inverted set the `u64`
subtraction `T::count() - s.len()` never underflows (`len` is never `none`). The hypothesis
"stored values are domain values" is part of `IInvD`. -/
theorem intset_len (d : Domain) (hd : DomWF d) (s : IntSet) (h : IInvD d s) :
    s.len d = some (s.elems d).length ∧
    (s.inverted = false → s.set.len = (s.elems d).length) ∧
    (s.inverted = true → s.set.len ≤ d.count ∧ d.count - s.set.len = (s.elems d).length) := by
  have hl := IntSet.len_spec hd h
  refine ⟨hl, fun hi => ?_, fun hi => ?_⟩
  · unfold IntSet.len at hl; rw [hi] at hl; simpa using hl
  · unfold IntSet.len at hl; rw [hi] at hl
    simp only [if_true] at hl
    split at hl
    · rename_i hle; exact ⟨hle, by simpa using hl⟩
    · simp at hl

/-- `iter()`, `iter().rev()` and `iter_after(v)` yield the members in ascending / descending /
ascending-after-`v` order (every prefix length `k`, so the whole sequence) -/
theorem intset_iter (d : Domain) (hd : DomWF d) (s : IntSet) (h : IInvD d s) (k : Nat) :
    s.iterTake d k = (s.elems d).take k ∧
    s.iterBackTake d k = (s.elems d).reverse.take k ∧
    ∀ v, s.iterAfterTake d v k = ((s.elems d).filter (fun x => decide (x > v))).take k :=
  ⟨IntSet.iterTake_eq hd h k, IntSet.iterBackTake_eq hd h k, fun v => IntSet.iterAfterTake_eq hd h v k⟩

/-- `first()` is the minimum member, `None` iff the set is empty -/
theorem intset_first (d : Domain) (hd : DomWF d) (s : IntSet) (h : IInvD d s) :
    (∀ m, s.first d = some m ↔ d.contains m = true ∧ s.contains m = true ∧
      ∀ x, d.contains x = true → s.contains x = true → m ≤ x) ∧
    (s.first d = none ↔ ∀ x, d.contains x = true → s.contains x = false) := by
  rw [IntSet.first_eq hd h]
  refine ⟨fun m => ?_, ?_⟩
  · rw [asc_head?_eq_some (elems_asc hd s), mem_elems]
    constructor
    · rintro ⟨⟨h1, h2⟩, h3⟩; exact ⟨h1, h2, fun x hx hs => h3 x (mem_elems.2 ⟨hx, hs⟩)⟩
    · rintro ⟨h1, h2, h3⟩; exact ⟨⟨h1, h2⟩, fun x hx => h3 x (mem_elems.1 hx).1 (mem_elems.1 hx).2⟩
  · rw [head?_eq_none_iff']
    constructor
    · intro he x hx
      cases hs : s.contains x
      · rfl
      · have := mem_elems.2 ⟨hx, hs⟩; rw [he] at this; simp at this
    · intro hall
      cases he : s.elems d with
      | nil => rfl
      | cons y t =>
        have := mem_elems.1 (show y ∈ s.elems d by rw [he]; simp)
        rw [hall y this.1] at this; simp at this

/-- `last()` is the maximum member, `None` iff the set is empty -/
theorem intset_last (d : Domain) (hd : DomWF d) (s : IntSet) (h : IInvD d s) :
    (∀ m, s.last d = some m ↔ d.contains m = true ∧ s.contains m = true ∧
      ∀ x, d.contains x = true → s.contains x = true → x ≤ m) ∧
    (s.last d = none ↔ ∀ x, d.contains x = true → s.contains x = false) := by
  rw [IntSet.last_eq hd h]
  refine ⟨fun m => ?_, ?_⟩
  · rw [asc_getLast?_eq_some (elems_asc hd s), mem_elems]
    constructor
    · rintro ⟨⟨h1, h2⟩, h3⟩; exact ⟨h1, h2, fun x hx hs => h3 x (mem_elems.2 ⟨hx, hs⟩)⟩
    · rintro ⟨h1, h2, h3⟩; exact ⟨⟨h1, h2⟩, fun x hx => h3 x (mem_elems.1 hx).1 (mem_elems.1 hx).2⟩
  · rw [List.getLast?_eq_none_iff]
    constructor
    · intro he x hx
      cases hs : s.contains x
      · rfl
      · have := mem_elems.2 ⟨hx, hs⟩; rw [he] at this; simp at this
    · intro hall
      cases he : s.elems d with
      | nil => rfl
      | cons y t =>
        have := mem_elems.1 (show y ∈ s.elems d by rw [he]; simp)
        rw [hall y this.1] at this; simp at this

/-- `intersects_range(a..=b)` (start point a domain value, as the element type guarantees): true
iff some member lies in `[a, b]`; both modes, continuous and discontinuous domains -/
theorem intset_intersectsRange (d : Domain) (hd : DomWF d) (s : IntSet) (h : IInvD d s)
    (a b : Nat) (ha : d.contains a = true) :
    s.intersectsRange d a b = true ↔
      ∃ x, a ≤ x ∧ x ≤ b ∧ d.contains x = true ∧ s.contains x = true :=
  IntSet.intersectsRange_spec hd h a b ha

/-- `RangeIter::next_exclusive` run to exhaustion is the complement within `[min, max]`, again
in RangeSet normal form -/
theorem complementRanges_correct (min max : Nat) (rs : List (Nat × Nat)) (hr : NRInv rs)
    (hb : ∀ p ∈ rs, min ≤ p.1 ∧ p.2 ≤ max) (hmm : min ≤ max) :
    NRInv (complementRanges min max rs) ∧
    ∀ x, NMem (complementRanges min max rs) x ↔ min ≤ x ∧ x ≤ max ∧ ¬ NMem rs x :=
  ⟨(complementRanges_spec max min rs hr hb hmm).1, (complementRanges_spec max min rs hr hb hmm).2.1⟩

/-- `iter_ranges()` on a continuous domain, both modes: RangeSet normal form, covers exactly the
members, expands to the member sequence -/
theorem intset_ranges (d : Domain) (hd : DomWF d) (hc : d.continuous = true) (s : IntSet)
    (h : IInvD d s) :
    NRInv (s.ranges d) ∧
    (∀ x, NMem (s.ranges d) x ↔ d.contains x = true ∧ s.contains x = true) ∧
    expand (s.ranges d) = s.elems d :=
  IntSet.ranges_spec hd hc h

/-- `iter_excluded_ranges()` on a continuous domain, both modes: the non-members -/
theorem intset_excludedRanges (d : Domain) (hd : DomWF d) (hc : d.continuous = true) (s : IntSet)
    (h : IInvD d s) :
    NRInv (s.excludedRanges d) ∧
    (∀ x, NMem (s.excludedRanges d) x ↔ d.contains x = true ∧ s.contains x = false) ∧
    expand (s.excludedRanges d) = s.invert.elems d :=
  IntSet.excludedRanges_spec hd hc h

/-- `iter_ranges()` / `iter_excluded_ranges()` on a DISCONTINUOUS domain, both modes (the
inclusive walk merges ranges that are adjacent in the domain, the exclusive walk steps through
the domain): both are in domain normal form and cover exactly the members / non-members among
the domain values -/
theorem intset_ranges_discontinuous (d : Domain) (hd : DomWF d) (hc : d.continuous = false)
    (s : IntSet) (h : IInvD d s) :
    DRInv (expand d.ranges) (s.ranges d) ∧
    (∀ x, d.contains x = true → (NMem (s.ranges d) x ↔ s.contains x = true)) ∧
    DRInv (expand d.ranges) (s.excludedRanges d) ∧
    (∀ x, d.contains x = true → (NMem (s.excludedRanges d) x ↔ s.contains x = false)) := by
  obtain ⟨a1, a2⟩ := IntSet.rangesInvertible_disc hd hc h false
  obtain ⟨b1, b2⟩ := IntSet.rangesInvertible_disc hd hc h true
  refine ⟨a1, fun x hx => ?_, b1, fun x hx => ?_⟩
  · have := a2 x (Domain.contains_iff_mem.1 hx)
    unfold IntSet.ranges; rw [this]; simp
  · have := b2 x (Domain.contains_iff_mem.1 hx)
    unfold IntSet.excludedRanges; rw [this]; simp

/-- domain normal form is canonical: same domain members ⇒ same range list -/
theorem ranges_canonical_domain (D : List Nat) (as bs : List (Nat × Nat)) (ha : DRInv D as)
    (hb : DRInv D bs) (h : ∀ x ∈ D, (NMem as x ↔ NMem bs x)) : as = bs :=
  drinv_ext ha hb h

/-- `iter_ranges()` of two sets coincide ⇔ the sets have the same members: every well-formed
domain (continuous or not), all four mode combinations -/
theorem intset_ranges_canonical (d : Domain) (hd : DomWF d) (a b : IntSet) (ha : IInvD d a)
    (hb : IInvD d b) :
    a.ranges d = b.ranges d ↔ ∀ x, d.contains x = true → a.contains x = b.contains x :=
  IntSet.ranges_canonical hd ha hb

/-- `intersects_set`: every well-formed domain, all four mode combinations, whichever side gets
iterated -/
theorem intset_intersectsSet (d : Domain) (hd : DomWF d) (a b : IntSet) (ha : IInvD d a)
    (hb : IInvD d b) :
    a.intersectsSet d b = true ↔
      ∃ v, d.contains v = true ∧ a.contains v = true ∧ b.contains v = true :=
  IntSet.intersectsSet_spec' hd ha hb

/-! ## 5. Eq / Hash / Ord agree with the mathematical set -/

/-- `BitSet == BitSet` ⇔ same members (pages that became empty are ignored) -/
theorem bitset_beq (a b : BitSet) (ha : BInv a) (hb : BInv b) :
    a.beq b = true ↔ ∀ x, a.contains x = b.contains x :=
  BitSet.beq_spec a b ha hb

/-- `impl Ord for BitSet` is the lexicographic order on the ascending member sequences -/
theorem bitset_cmp (a b : BitSet) (ha : BInv a) (hb : BInv b) :
    a.cmp b = lexOrd a.members b.members :=
  BitSet.cmp_spec a b ha hb

/-- `impl Ord for BitSet`: `Equal` exactly when `==` -/
theorem bitset_cmp_eq (a b : BitSet) (ha : BInv a) (hb : BInv b) :
    a.cmp b = .eq ↔ a.beq b = true := by
  rw [BitSet.cmp_spec a b ha hb, lexOrd_eq_iff, BitSet.beq_spec a b ha hb]
  constructor
  · intro he x
    have h1 := BitSet.mem_members a ha x
    have h2 := BitSet.mem_members b hb x
    rw [he] at h1
    cases hx : a.contains x <;> cases hy : b.contains x <;> simp_all
  · intro hx
    apply asc_ext (BitSet.members_asc a ha) (BitSet.members_asc b hb)
    intro x
    rw [BitSet.mem_members a ha, BitSet.mem_members b hb, hx x]

/-- `IntSet == IntSet` ⇔ same members: every well-formed domain, all four mode combinations (the
mixed-mode comparison goes through `len` and `iter_ranges`) -/
theorem intset_beq (d : Domain) (hd : DomWF d) (a b : IntSet) (ha : IInvD d a) (hb : IInvD d b) :
    a.beq d b = true ↔ ∀ x, d.contains x = true → a.contains x = b.contains x :=
  IntSet.beq_spec' hd ha hb

/-- hash agreement: what `impl Hash` feeds the hasher is equal ⇔ the sets have the same members
(so `a == b → hash a = hash b`, and distinct sets feed distinct keys) -/
theorem intset_hashKey (d : Domain) (hd : DomWF d) (a b : IntSet) (ha : IInvD d a)
    (hb : IInvD d b) :
    (a.hashKey d = b.hashKey d ↔ ∀ x, d.contains x = true → a.contains x = b.contains x) ∧
    (a.hashKey d = b.hashKey d ↔ a.beq d b = true) := by
  have h1 := IntSet.hashKey_spec' hd ha hb
  exact ⟨h1, by rw [h1, IntSet.beq_spec' hd ha hb]⟩

/-- `impl Ord for IntSet` is the lexicographic order on the ascending member sequences: every
well-formed domain, all four mode combinations; and `cmp = Equal ⇔ ==` -/
theorem intset_cmp (d : Domain) (hd : DomWF d) (a b : IntSet) (ha : IInvD d a) (hb : IInvD d b) :
    a.cmp d b = lexOrd (a.elems d) (b.elems d) ∧
    (a.cmp d b = .eq ↔ a.beq d b = true) := by
  have h1 := IntSet.cmp_spec' hd ha hb
  refine ⟨h1, ?_⟩
  rw [h1, lexOrd_eq_iff, elems_eq_iff hd, IntSet.beq_spec' hd ha hb]

/-- `lexOrd` is the usual lexicographic order: `Equal` only on equal sequences -/
theorem lexOrd_eq (xs ys : List Nat) : lexOrd xs ys = .eq ↔ xs = ys := lexOrd_eq_iff xs ys

/-! ## 3 + 4 + 5 combined: every observer of every history reports the mathematical set -/

/-- For every history whose arguments are domain values: size, first / last, forward / backward
/ after-value iteration and range-intersection tests are those of the mathematical set
`h.spec d`, listed in ascending order as `E`. -/
theorem history_observers (d : Domain) (hd : DomWF d) (h : Hist) (hw : h.WF d) :
    (h.run d).len d = some ((expand d.ranges).filter (h.spec d)).length ∧
    (h.run d).first d = ((expand d.ranges).filter (h.spec d)).head? ∧
    (h.run d).last d = ((expand d.ranges).filter (h.spec d)).getLast? ∧
    (∀ k, (h.run d).iterTake d k = ((expand d.ranges).filter (h.spec d)).take k) ∧
    (∀ k, (h.run d).iterBackTake d k = ((expand d.ranges).filter (h.spec d)).reverse.take k) ∧
    (∀ v k, (h.run d).iterAfterTake d v k =
      (((expand d.ranges).filter (h.spec d)).filter (fun x => decide (x > v))).take k) ∧
    (∀ a b, d.contains a = true → ((h.run d).intersectsRange d a b = true ↔
      ∃ x, a ≤ x ∧ x ≤ b ∧ d.contains x = true ∧ h.spec d x = true)) := by
  have hs := Hist.run_spec d h
  have hinv : IInvD d (h.run d) := ⟨hs.1, Hist.run_inDom d h hw⟩
  have he : (h.run d).elems d = (expand d.ranges).filter (h.spec d) := by
    unfold IntSet.elems; congr 1; funext x; exact hs.2 x
  rw [← he]
  refine ⟨IntSet.len_spec hd hinv, IntSet.first_eq hd hinv, IntSet.last_eq hd hinv,
    IntSet.iterTake_eq hd hinv, IntSet.iterBackTake_eq hd hinv, IntSet.iterAfterTake_eq hd hinv,
    fun a b ha => ?_⟩
  rw [IntSet.intersectsRange_spec hd hinv a b ha]
  constructor
  · rintro ⟨x, h1, h2, h3, h4⟩; exact ⟨x, h1, h2, h3, by rw [← hs.2 x]; exact h4⟩
  · rintro ⟨x, h1, h2, h3, h4⟩; exact ⟨x, h1, h2, h3, by rw [hs.2 x]; exact h4⟩

/-- For every two histories: `==`, hash-key equality, `cmp` and `intersects_set` of the built
sets are equality / lexicographic order / non-empty intersection of the mathematical sets. -/
theorem history_compare (d : Domain) (hd : DomWF d) (h1 h2 : Hist) (hw1 : h1.WF d)
    (hw2 : h2.WF d) :
    ((h1.run d).beq d (h2.run d) = true ↔
      ∀ x, d.contains x = true → h1.spec d x = h2.spec d x) ∧
    ((h1.run d).hashKey d = (h2.run d).hashKey d ↔
      ∀ x, d.contains x = true → h1.spec d x = h2.spec d x) ∧
    (h1.run d).cmp d (h2.run d) =
      lexOrd ((expand d.ranges).filter (h1.spec d)) ((expand d.ranges).filter (h2.spec d)) ∧
    ((h1.run d).intersectsSet d (h2.run d) = true ↔
      ∃ x, d.contains x = true ∧ h1.spec d x = true ∧ h2.spec d x = true) := by
  have s1 := Hist.run_spec d h1
  have s2 := Hist.run_spec d h2
  have i1 : IInvD d (h1.run d) := ⟨s1.1, Hist.run_inDom d h1 hw1⟩
  have i2 : IInvD d (h2.run d) := ⟨s2.1, Hist.run_inDom d h2 hw2⟩
  have e1 : (h1.run d).elems d = (expand d.ranges).filter (h1.spec d) := by
    unfold IntSet.elems; congr 1; funext x; exact s1.2 x
  have e2 : (h2.run d).elems d = (expand d.ranges).filter (h2.spec d) := by
    unfold IntSet.elems; congr 1; funext x; exact s2.2 x
  refine ⟨?_, ?_, ?_, ?_⟩
  · rw [IntSet.beq_spec' hd i1 i2]
    constructor
    · intro h x hx; rw [← s1.2 x, ← s2.2 x]; exact h x hx
    · intro h x hx; rw [s1.2 x, s2.2 x]; exact h x hx
  · rw [IntSet.hashKey_spec' hd i1 i2]
    constructor
    · intro h x hx; rw [← s1.2 x, ← s2.2 x]; exact h x hx
    · intro h x hx; rw [s1.2 x, s2.2 x]; exact h x hx
  · rw [IntSet.cmp_spec' hd i1 i2, e1, e2]
  · rw [IntSet.intersectsSet_spec' hd i1 i2]
    constructor
    · rintro ⟨x, h, ha, hb⟩; exact ⟨x, h, by rw [← s1.2 x]; exact ha, by rw [← s2.2 x]; exact hb⟩
    · rintro ⟨x, h, ha, hb⟩; exact ⟨x, h, by rw [s1.2 x]; exact ha, by rw [s2.2 x]; exact hb⟩

/-! ## non-vacuity: concrete states -/

/-- a set with an empty page left behind by a removal … -/
example : ((BitSet.empty.insert 5).1.insert 600).1.remove 600 =
    (⟨[(0, ⟨32, 1⟩), (1, ⟨0, 0⟩)], 1⟩, true) := by decide
/-- … satisfies the invariant … -/
example : BInv ⟨[(0, ⟨32, 1⟩), (1, ⟨0, 0⟩)], 1⟩ := by
  have := BitSet.remove_inv _ 600
    (BitSet.insert_inv _ 600 (BitSet.insert_inv _ 5 bInv_empty))
  have e : ((BitSet.empty.insert 5).1.insert 600).1.remove 600 =
    (⟨[(0, ⟨32, 1⟩), (1, ⟨0, 0⟩)], 1⟩, true) := by decide
  rw [e] at this; exact this
/-- … also in inverted mode (history: insert 5, insert 600, remove 600, invert). -/
example : (Hist.invert (Hist.remove (Hist.insert (Hist.insert Hist.empty 5) 600) 600)).run
    Domain.u32 = ⟨true, ⟨[(0, ⟨32, 1⟩), (1, ⟨0, 0⟩)], 1⟩⟩ := by decide
example : (Hist.invert (Hist.remove (Hist.insert (Hist.insert Hist.empty 5) 600) 600)).WF
    Domain.u32 := by
  simp [Hist.WF, Domain.contains, Domain.u32]
/-- the page operators are bitwise -/
example : BitwiseOp opRevSubtract (fun a b => !a && b) := bitwise_revSubtract
/-- a satisfiable `RangeInDom` on a discontinuous domain and on `u16` -/
example : RangeInDom ⟨[(2, 5), (8, 16)], false, 13⟩ 0 100 := by intro h; simp at h
example : RangeInDom Domain.u16 3 65535 := by
  intro _ x h1 h2; simp [Domain.contains, Domain.u16]; omega
example : NRInv [(2, 5), (7, 9)] := by simp [NRInv]
/-- the built-in domains and a discontinuous one are well formed -/
example : DomWF Domain.u32 :=
  ⟨by simp [RSorted, Domain.u32],
   by show (4294967296 : Nat) = (expand [(0, 4294967295)]).length
      rw [length_expand_cons]; rfl,
   fun _ => ⟨_, _, rfl⟩⟩
example : DomWF Domain.u16 :=
  ⟨by simp [RSorted, Domain.u16],
   by show (65536 : Nat) = (expand [(0, 65535)]).length
      rw [length_expand_cons]; rfl,
   fun _ => ⟨_, _, rfl⟩⟩
example : DomWF ⟨[(2, 5), (8, 16), (510, 513), (1022, 1030), (65530, 65536),
    (4294967294, 4294967295)], false, 35⟩ :=
  ⟨by simp [RSorted],
   by simp only [length_expand_cons]; rfl,
   fun h => by simp at h⟩
/-- `IInvD` holds of the inverted state with an empty page above -/
example : IInvD Domain.u32
    ((Hist.invert (Hist.remove (Hist.insert (Hist.insert Hist.empty 5) 600) 600)).run Domain.u32) :=
  ⟨(Hist.run_spec _ _).1, Hist.run_inDom _ _ (by simp [Hist.WF, Domain.contains, Domain.u32])⟩
/-- a mixed-mode union flips the membership mode of the result (the set is "everything but 7") -/
example : (Hist.union (Hist.insert Hist.empty 5)
    (Hist.invert (Hist.insert (Hist.insert Hist.empty 5) 7))).run Domain.u32
    = ⟨true, ⟨[(0, ⟨128, 1⟩)], 1⟩⟩ := by decide +kernel
/-- `iter_ranges` of an inverted set on a discontinuous domain: ranges span domain gaps (5 → 8 is
adjacent in the domain, so removing 5, 8, 9 leaves the runs 2..4 and 10..513) -/
example : ((Hist.invert (Hist.insertRange (Hist.insert Hist.empty 5) 8 9)).run
    ⟨[(2, 5), (8, 16), (510, 513)], false, 17⟩).ranges ⟨[(2, 5), (8, 16), (510, 513)], false, 17⟩
    = [(2, 4), (10, 513)] := by decide +kernel
example : DRInv [2, 3, 4, 5, 8, 9] [(2, 4), (8, 9)] := by
  refine ⟨?_, by simp⟩
  simp only [List.pairwise_cons, List.mem_cons, List.mem_nil_iff, or_false, forall_eq, DGap]
  exact ⟨⟨by omega, 5, by simp, by omega, by omega⟩, by simp, by simp⟩

end FontVerif.C14IntSet
