/-
C17 — Colr part (theorems). See reports/C17.md.
-/
import FontVerif.Model.Base
namespace FontVerif.C17Colr
open FontVerif

end FontVerif.C17Colr
