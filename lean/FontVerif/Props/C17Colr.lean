/-
C17 — COLR / CPAL part (theorems). See reports/C17.md.

Models: `Model/SubsetCpal.lean` (Cpal::subset + remap_palette_indices, reader `color` …),
`Model/SubsetColr.lean` (Colr::subset, the plan's index maps), `Model/SubsetColrSer.lean` (the Serializer:
packing with sharing, link resolution, layout).  The models are tied to klippa by the byte-exact
correspondence runs of `harness/src/bin/c17/colrx.rs` (whole emitted COLR / CPAL tables).

Every statement is about the BYTES the model emits, read back through a reader model of what a client
of read-fonts computes (`SubsetCpal.color` = `color_records_array()[color_record_indices()[p] + e]` …).
-/
import FontVerif.Lemmas.SubsetCpal
import FontVerif.Lemmas.SubsetColr
set_option linter.unusedVariables false
namespace FontVerif.C17Colr
open FontVerif FontVerif.ColrSer FontVerif.SubsetCpal FontVerif.SubsetColr
open FontVerif.SubsetHvar (Err R)

/-! ## CPAL -/

/-- **Colours are preserved.**  `keys` = the palette entry indices collected by the COLR closure (an
`IntSet<u16>`: strictly ascending, below 65536; 0xFFFF = foreground colour may be among them),
`remapPaletteIndices keys` = `plan.colr_palettes`.  Whenever `Cpal::subset` produces a table from a
version 0 / 1 source, every retained entry `e` (≠ 0xFFFF, inside the source's `numPaletteEntries`) with
new index `e' = colr_palettes[e]` has, in EVERY palette `p`, the colour record it had in the source:
`colorRecords'[colorRecordIndices'[p] + e'] = colorRecords[colorRecordIndices[p] + e]`. -/
theorem cpal_colors_preserved (b out : List Nat) (keys : List Nat)
    (hb : ∀ x ∈ b, x < 256) (hs : keys.Pairwise (· < ·)) (hk : ∀ k ∈ keys, k < 65536)
    (hok : subsetCpal b (remapPaletteIndices keys) = .ok out)
    (hd : SubsetCpal.Header) (hhd : SubsetCpal.readHeader b = some hd) (hv : hd.version ≤ 1)
    (p e e' : Nat) (hp : p < hd.numPalettes) (he : e < hd.numEntries) (hne : e ≠ 0xFFFF)
    (hmap : (remapPaletteIndices keys).lookup e = some e') :
    color out p e' = color b p e := by
  have hN : (retainedOf (remapPaletteIndices keys)).length < 65536 := by
    rw [retainedOf_remap]; exact retained_length_lt keys hs hk
  obtain ⟨i, hi, hget⟩ := remap_lookup e e' hne keys 0 hs (fun k hk' => ⟨Nat.zero_le _, hk k hk'⟩)
    (by rw [← remapPaletteIndices_eq]; exact hmap)
  have hi' : e' = i := by omega
  subst hi'
  exact subset_color b out _ hb hN hok hd hhd hv p e' e hp (by rw [retainedOf_remap]; exact hget) he

/-- the palette structure survives: same number of palettes, `numPaletteEntries` = number of retained
entries, same version -/
theorem cpal_header_preserved (b out : List Nat) (keys : List Nat)
    (hb : ∀ x ∈ b, x < 256) (hs : keys.Pairwise (· < ·)) (hk : ∀ k ∈ keys, k < 65536)
    (hok : subsetCpal b (remapPaletteIndices keys) = .ok out)
    (hd : SubsetCpal.Header) (hhd : SubsetCpal.readHeader b = some hd) (hv : hd.version ≤ 1) :
    ∃ hd', SubsetCpal.readHeader out = some hd' ∧ hd'.version = hd.version ∧ hd'.numPalettes = hd.numPalettes ∧
      hd'.numEntries = (keys.filter (· ≠ 0xFFFF)).length := by
  have hN : (retainedOf (remapPaletteIndices keys)).length < 65536 := by
    rw [retainedOf_remap]; exact retained_length_lt keys hs hk
  obtain ⟨packed, root, hobj, hlay⟩ := subsetCpal_objects b _ out hok
  obtain ⟨sh⟩ := cpalObjects_shape b _ packed root hobj
  have hsame : sh.hd = hd := by
    have := sh.hhd; rw [hhd] at this; cases this; rfl
  obtain ⟨hd', pre, hrd, h1, h2, h3, _⟩ :=
    subset_header b _ packed root out hb hN sh (by rw [hsame]; exact hv) hlay
  rw [hsame] at h1 h3
  rw [retainedOf_remap] at h2
  exact ⟨hd', hrd, h1, h3, h2⟩

/-- **CPAL is dropped exactly when nothing is retained** (for a readable source with at least one palette
and a colour record array): no key other than 0xFFFF ⇒ the subsetter reports "empty" and the table is
omitted; otherwise it is never omitted for that reason. -/
theorem cpal_dropped_when_no_entries (b : List Nat) (palettes : List (Nat × Nat))
    (h : retainedOf palettes = []) : subsetCpal b palettes = .error Err.dropped := by
  unfold subsetCpal cpalObjects
  cases hr : SubsetCpal.readHeader b with
  | none => rfl
  | some hd =>
    simp only []
    rw [if_pos (by right; right; simp [h])]
    rfl

/-! ### non-vacuity -/

/-- two palettes sharing nothing, 3 entries, entries 0 and 2 retained (+ the foreground colour) -/
def exCpal : List Nat :=
  [0,0, 0,3, 0,2, 0,6, 0,0,0,16, 0,0, 0,3,
   1,2,3,255, 4,5,6,255, 7,8,9,255, 11,12,13,255, 14,15,16,255, 17,18,19,255]

example : (subsetCpal exCpal (remapPaletteIndices [0, 2, 0xFFFF])).toOption =
    some [0,0, 0,2, 0,2, 0,4, 0,0,0,16, 0,0, 0,2,
          1,2,3,255, 7,8,9,255, 11,12,13,255, 17,18,19,255] := by decide
example : color exCpal 1 2 = some [17,18,19,255] := by decide
example : (remapPaletteIndices [0, 2, 0xFFFF]).lookup 2 = some 1 := by decide

/-! ## COLR version 1: the paint graph

`colrObjects b p` is `Colr::subset` up to `end_serialize`: the serializer's packed objects and the root
object (the COLR header); `subsetColr = colrObjects >>= layout`.  `objTree packed fuel i` unfolds the
object graph from object `i` along its links, `expectTree p b fuel off` walks the SOURCE table from the
paint at `off` and renames every node through the plan (`renameNode`: glyph ids by `glyph_map`, palette
indices by `colr_palettes`, `firstLayerIndex` by `colrv1_layers`, `VarIdxBase` by `colr_varidx_delta_map`;
colour lines and affines likewise); offsets are masked in both.  Both views are tied to read-fonts by the
harness (`colr-tree-reader`: reader model = read-fonts on the original; `colr-tree-expect`: `expectTree` on
the original = read-fonts on the REAL subset table).
-/

/-- **The paint graph of every kept COLRv1 glyph is preserved** (all 32 paint formats, shared sub-paints,
any nesting).  Whenever `Colr::subset` succeeds on a table whose BaseGlyphList (records `bglRecs`, at
`bglOff`) has a glyph in `glyphset_colred`:
the header's BaseGlyphList offset (position 14) leads to an object `ob` that holds exactly the kept records
in source order — glyph id through `glyph_map`, paint offset to be resolved — and for EVERY kept record `k`
(source glyph `g`, source paint at `bglOff + o`) the link of record `k` leads to an object `i` whose
unfolding is the source paint graph of `g` renamed through the plan.  (`glyph_map[g]` exists.) -/
theorem colr_paint_graph_preserved (b : Array Nat) (p : PlanIn) (packed : List Obj) (root : Obj)
    (h : colrObjects b p = .ok (packed, root))
    (hd : SubsetColr.Header) (hhd : SubsetColr.readHeader b = some hd)
    (bglOff lOff cOff mOff sOff : Nat) (hv1 : hd.v1 = some (bglOff, lOff, cOff, mOff, sOff))
    (bglRecs : List (Nat × Nat)) (hoff : bglOff ≠ 0) (hrecs : baseGlyphPaintRecords b bglOff = some bglRecs)
    (hkeep : (bglRecs.any fun r => p.colred.contains r.1) = true) :
    ∃ ib ob, linkAt root.links 14 = some ib ∧ packed[ib]? = some ob ∧
      ob.bytes = beBytes 4 ((keptRecs p bglRecs).length % 4294967296) ++
        (keptRecs p bglRecs).flatMap (fun r => beBytes 2 ((p.glyphMap.lookup r.1).getD 0) ++ [0, 0, 0, 0]) ∧
      ∀ k (hk : k < (keptRecs p bglRecs).length),
        (p.glyphMap.lookup (keptRecs p bglRecs)[k].1).isSome ∧
        ∃ i, linkAt ob.links (6 + k * 6) = some i ∧ i < packed.length ∧
          objTree packed (paintFuel b) i =
            expectTree p b (paintFuel b) (bglOff + (keptRecs p bglRecs)[k].2) := by
  obtain ⟨⟨ib, ob, h1, h2, h3, h4⟩, _⟩ :=
    colrObjects_v1 b p packed root h hd hhd bglOff lOff cOff mOff sOff hv1 bglRecs hoff hrecs hkeep
  refine ⟨ib, ob, h1, h2, h3, ?_⟩
  intro k hk
  obtain ⟨a, i, c, d⟩ := h4 k hk
  exact ⟨a, i, c, d.1, d.2⟩

/-- **The retained layers of the LayerList are preserved and re-indexed consistently.**  When layers are
retained (`colrv1_layers` not empty) the header's LayerList offset (position 18) leads to an object with
`numLayers = |colrv1_layers|` and one offset per retained source layer, in ascending source order — so the
`k`-th retained layer gets the new index `k`, which is what `remap_indices` puts into `colrv1_layers` and
`PaintColrLayers::subset` writes into `firstLayerIndex` — and the paint behind it unfolds to the renamed
source paint graph of that layer. -/
theorem colr_layer_graphs_preserved (b : Array Nat) (p : PlanIn) (packed : List Obj) (root : Obj)
    (h : colrObjects b p = .ok (packed, root))
    (hd : SubsetColr.Header) (hhd : SubsetColr.readHeader b = some hd)
    (bglOff lOff cOff mOff sOff : Nat) (hv1 : hd.v1 = some (bglOff, lOff, cOff, mOff, sOff))
    (bglRecs : List (Nat × Nat)) (hoff : bglOff ≠ 0) (hrecs : baseGlyphPaintRecords b bglOff = some bglRecs)
    (hkeep : (bglRecs.any fun r => p.colred.contains r.1) = true)
    (hl : lOff ≠ 0) (hne : p.layers ≠ []) :
    ∃ n il ol, rd 4 b lOff = some n ∧ linkAt root.links 18 = some il ∧ packed[il]? = some ol ∧
      ol.bytes = beBytes 4 (p.layers.length % 4294967296) ++
        List.replicate (4 * (keptLayers p n).length) 0 ∧
      ∀ k (hk : k < (keptLayers p n).length),
        ∃ c i, resolveOff b 4 lOff (4 + 4 * (keptLayers p n)[k]) = some c ∧ paintOk b c = true ∧
          linkAt ol.links (4 + k * 4) = some i ∧ i < packed.length ∧
          objTree packed (paintFuel b) i = expectTree p b (paintFuel b) c := by
  obtain ⟨_, hll⟩ :=
    colrObjects_v1 b p packed root h hd hhd bglOff lOff cOff mOff sOff hv1 bglRecs hoff hrecs hkeep
  obtain ⟨n, il, ol, h1, h2, h3, h4, h5⟩ := hll hl hne
  refine ⟨n, il, ol, h1, h2, h3, h4, ?_⟩
  intro k hk
  obtain ⟨c, i, a, b', d, e⟩ := h5 k hk
  exact ⟨c, i, a, b', d, e.1, e.2⟩

/-- `remap_indices`: the `k`-th smallest retained layer index becomes `k` (so the LayerList order above IS
the map `PaintColrLayers` uses) -/
theorem remapIndices_rank (xs : List Nat) (k : Nat) (hk : k < xs.length) :
    (remapIndices xs)[k]? = some (xs[k], k) := by
  simp [remapIndices, hk]

/-! ### what renaming a node means (two representative formats; `renameNode` is the definition for all) -/

/-- PaintGlyph: the object is `[10, 0,0,0, glyph_map[gid]]` -/
theorem rename_paint_glyph (p : PlanIn) (src bytes : List Nat) (h : renameNode p 10 src = .ok bytes) :
    ∃ ng, p.glyphMap.lookup (beValue ((src.drop 4).take 2)) = some ng ∧ bytes = [10, 0, 0, 0] ++ beBytes 2 ng := by
  unfold renameNode at h
  simp only [Nat.reduceEqDiff, if_false, false_or, if_true] at h
  split at h
  · cases h
  · rename_i ng hng
    simp only [pure, Except.pure] at h
    cases h
    exact ⟨ng, hng, rfl⟩

/-- PaintSolid: the palette index field is replaced by `colr_palettes[index]`, alpha is untouched -/
theorem rename_paint_solid (p : PlanIn) (src bytes : List Nat) (h : renameNode p 2 src = .ok bytes) :
    ∃ npal, p.palettes.lookup (beValue ((src.drop 1).take 2)) = some npal ∧
      bytes = src.take 1 ++ beBytes 2 npal ++ src.drop 3 := by
  unfold renameNode at h
  simp only [Nat.reduceEqDiff, if_false, true_or, if_true] at h
  split at h
  · cases h
  · rename_i npal hnpal
    simp only [pure, Except.pure] at h
    cases h
    exact ⟨npal, hnpal, by simp [writeBE]⟩

/-- **Solid fills resolve to the same colour.**  Composition of the paint-graph theorem (a kept PaintSolid
node is its source record with the palette index renamed, `rename_paint_solid`) with
`cpal_colors_preserved`: the subset's PaintSolid names an entry `e'` of the subset CPAL that has, in every
palette, the colour the source entry `e` has in the source CPAL; alpha is copied.  (The foreground index
0xFFFF is mapped to itself by `remap_palette_indices` and needs no CPAL entry.) -/
theorem colr_colours_resolve_equal (p : PlanIn) (keys : List Nat) (hpal : p.palettes = remapPaletteIndices keys)
    (hs : keys.Pairwise (· < ·)) (hk : ∀ k ∈ keys, k < 65536)
    (src bytes : List Nat) (hren : renameNode p 2 src = .ok bytes)
    (cpal cpalOut : List Nat) (hb : ∀ x ∈ cpal, x < 256)
    (hok : subsetCpal cpal (remapPaletteIndices keys) = .ok cpalOut)
    (hd : SubsetCpal.Header) (hhd : SubsetCpal.readHeader cpal = some hd) (hv : hd.version ≤ 1)
    (he : beValue ((src.drop 1).take 2) < hd.numEntries) (hne : beValue ((src.drop 1).take 2) ≠ 0xFFFF)
    (pal : Nat) (hp : pal < hd.numPalettes) :
    ∃ e', bytes = src.take 1 ++ beBytes 2 e' ++ src.drop 3 ∧
      color cpalOut pal e' = color cpal pal (beValue ((src.drop 1).take 2)) := by
  obtain ⟨npal, hl, hbytes⟩ := rename_paint_solid p src bytes hren
  rw [hpal] at hl
  exact ⟨npal, hbytes, cpal_colors_preserved cpal cpalOut keys hb hs hk hok hd hhd hv pal _ npal hp he hne hl⟩

/-! ## COLR version 0 -/

/-- **Version 0 records (structured part).**  For the base glyph records `kept` that `serialize_v0` retains
(source record = glyph id, first layer index, layer count), the record array it writes (`rs`) and the layer
array it writes (`lb`): record `k` carries the glyph id mapped through `glyph_map`, the same layer count,
and first layer index = number of layers of the records before it; and its `j`-th layer is the source's
`j`-th layer with glyph id mapped through `glyph_map` and palette index through `colr_palettes`.

`_partial`: stated on the record lists the model encodes (`encodeRecs3 rs`, `encodeRecs2 lb`), not yet
through a byte-level reader of the emitted table (binary search of `v0_base_glyph` on the output, which
records `retainedRecords` selects): that part is covered by the byte-exact correspondence and the
`colr-paint-events-preserved` oracle (format v0). -/
theorem colr_v0_layers_preserved_partial (p : PlanIn) (layers : List (Nat × Nat))
    (kept rs : List (Nat × Nat × Nat)) (t : Nat) (lb : List (Nat × Nat))
    (h1 : baseRecordsGo p kept 0 = .ok (rs, t)) (h2 : layersGo p layers kept = .ok lb)
    (k : Nat) (hk : k < kept.length) :
    ∃ (hk' : k < rs.length),
      p.glyphMap.lookup kept[k].1 = some rs[k].1 ∧ rs[k].2.2 = kept[k].2.2 ∧
      rs[k].2.1 = layersBefore kept k ∧ t = lb.length ∧
      ∀ j, j < kept[k].2.2 → ∃ g pi ng npi, layers[kept[k].2.1 + j]? = some (g, pi) ∧
        p.glyphMap.lookup g = some ng ∧ p.palettes.lookup pi = some npi ∧
        lb[rs[k].2.1 + j]? = some (ng, npi) := by
  obtain ⟨hl, ht, hall⟩ := baseRecordsGo_spec p kept 0 rs t h1
  have hk' : k < rs.length := by omega
  obtain ⟨a, b', c⟩ := hall k hk hk'
  obtain ⟨hlb, hranges⟩ := layersGo_spec p layers kept lb h2
  obtain ⟨r, hr, hdt⟩ := hranges k hk
  obtain ⟨hrl, hrall⟩ := layerRange_spec p layers _ _ r hr
  refine ⟨hk', a, c, by rw [b']; simp, by rw [ht, hlb]; simp, ?_⟩
  intro j hj
  obtain ⟨g, pi, h3, h4, h5⟩ := hrall j hj (by omega)
  refine ⟨g, pi, r[j].1, r[j].2, h3, h4, h5, ?_⟩
  have hb2 : rs[k].2.1 = layersBefore kept k := by rw [b']; simp
  rw [hb2]
  have : (List.take kept[k].2.2 (List.drop (layersBefore kept k) lb))[j]? = some r[j] := by
    rw [hdt, List.getElem?_eq_getElem (by omega)]
  rw [List.getElem?_take_of_lt hj, List.getElem?_drop] at this
  exact this

/-! ### non-vacuity -/

/-- COLR v1: one base glyph (gid 5) = PaintGlyph(gid 2, PaintSolid(palette 1)) -/
def exColr : Array Nat :=
  #[0,1, 0,0, 0,0,0,0, 0,0,0,0, 0,0, 0,0,0,34, 0,0,0,0, 0,0,0,0, 0,0,0,0, 0,0,0,0,
    0,0,0,1, 0,5, 0,0,0,10,
    10, 0,0,6, 0,2,
    2, 0,1, 64,0]

def exPlan : PlanIn :=
  { colred := [0, 2, 5], glyphMap := [(0, 0), (2, 1), (5, 2)], palettes := [(1, 0)], layers := [],
    varIdx := [], innerMaps := [], newDs := [] }

set_option maxRecDepth 4000 in
example : (subsetColr exColr exPlan).toOption =
    some [0,1, 0,0, 0,0,0,0, 0,0,0,0, 0,0, 0,0,0,34, 0,0,0,0, 0,0,0,0, 0,0,0,0, 0,0,0,0,
          0,0,0,1, 0,2, 0,0,0,10,
          10, 0,0,6, 0,1,
          2, 0,0, 64,0] := by decide

set_option maxRecDepth 4000 in
example : (colrObjects exColr exPlan).toOption.isSome = true := by decide

end FontVerif.C17Colr
