/-
C17 — COLR / CPAL part (theorems). See reports/C17.md.

Models: `Model/SubsetCpal.lean` (Cpal::subset + remap_palette_indices, reader `color` …),
`Model/SubsetColr.lean` (Colr::subset, the plan's index maps), `Model/SubsetColrSer.lean` (the Serializer:
packing with sharing, link resolution, layout).  The models are tied to klippa by the byte-exact
correspondence runs of `harness/src/bin/c17/colrx.rs` (whole emitted COLR / CPAL tables).

Every statement is about the BYTES the model emits, read back through a reader model of what a client
of read-fonts computes (`SubsetCpal.color` = `color_records_array()[color_record_indices()[p] + e]` …).
-/
import FontVerif.Lemmas.SubsetCpal
set_option linter.unusedVariables false
namespace FontVerif.C17Colr
open FontVerif FontVerif.ColrSer FontVerif.SubsetCpal
open FontVerif.SubsetHvar (Err R)

/-! ## CPAL -/

/-- **Colours are preserved.**  `keys` = the palette entry indices collected by the COLR closure (an
`IntSet<u16>`: strictly ascending, below 65536; 0xFFFF = foreground colour may be among them),
`remapPaletteIndices keys` = `plan.colr_palettes`.  Whenever `Cpal::subset` produces a table from a
version 0 / 1 source, every retained entry `e` (≠ 0xFFFF, inside the source's `numPaletteEntries`) with
new index `e' = colr_palettes[e]` has, in EVERY palette `p`, the colour record it had in the source:
`colorRecords'[colorRecordIndices'[p] + e'] = colorRecords[colorRecordIndices[p] + e]`. -/
theorem cpal_colors_preserved (b out : List Nat) (keys : List Nat)
    (hb : ∀ x ∈ b, x < 256) (hs : keys.Pairwise (· < ·)) (hk : ∀ k ∈ keys, k < 65536)
    (hok : subsetCpal b (remapPaletteIndices keys) = .ok out)
    (hd : Header) (hhd : readHeader b = some hd) (hv : hd.version ≤ 1)
    (p e e' : Nat) (hp : p < hd.numPalettes) (he : e < hd.numEntries) (hne : e ≠ 0xFFFF)
    (hmap : (remapPaletteIndices keys).lookup e = some e') :
    color out p e' = color b p e := by
  have hN : (retainedOf (remapPaletteIndices keys)).length < 65536 := by
    rw [retainedOf_remap]; exact retained_length_lt keys hs hk
  obtain ⟨i, hi, hget⟩ := remap_lookup e e' hne keys 0 hs (fun k hk' => ⟨Nat.zero_le _, hk k hk'⟩)
    (by rw [← remapPaletteIndices_eq]; exact hmap)
  have hi' : e' = i := by omega
  subst hi'
  exact subset_color b out _ hb hN hok hd hhd hv p e' e hp (by rw [retainedOf_remap]; exact hget) he

/-- the palette structure survives: same number of palettes, `numPaletteEntries` = number of retained
entries, same version -/
theorem cpal_header_preserved (b out : List Nat) (keys : List Nat)
    (hb : ∀ x ∈ b, x < 256) (hs : keys.Pairwise (· < ·)) (hk : ∀ k ∈ keys, k < 65536)
    (hok : subsetCpal b (remapPaletteIndices keys) = .ok out)
    (hd : Header) (hhd : readHeader b = some hd) (hv : hd.version ≤ 1) :
    ∃ hd', readHeader out = some hd' ∧ hd'.version = hd.version ∧ hd'.numPalettes = hd.numPalettes ∧
      hd'.numEntries = (keys.filter (· ≠ 0xFFFF)).length := by
  have hN : (retainedOf (remapPaletteIndices keys)).length < 65536 := by
    rw [retainedOf_remap]; exact retained_length_lt keys hs hk
  obtain ⟨packed, root, hobj, hlay⟩ := subsetCpal_objects b _ out hok
  obtain ⟨sh⟩ := cpalObjects_shape b _ packed root hobj
  have hsame : sh.hd = hd := by
    have := sh.hhd; rw [hhd] at this; cases this; rfl
  obtain ⟨hd', pre, hrd, h1, h2, h3, _⟩ :=
    subset_header b _ packed root out hb hN sh (by rw [hsame]; exact hv) hlay
  rw [hsame] at h1 h3
  rw [retainedOf_remap] at h2
  exact ⟨hd', hrd, h1, h3, h2⟩

/-- **CPAL is dropped exactly when nothing is retained** (for a readable source with at least one palette
and a colour record array): no key other than 0xFFFF ⇒ the subsetter reports "empty" and the table is
omitted; otherwise it is never omitted for that reason. -/
theorem cpal_dropped_when_no_entries (b : List Nat) (palettes : List (Nat × Nat))
    (h : retainedOf palettes = []) : subsetCpal b palettes = .error Err.dropped := by
  unfold subsetCpal cpalObjects
  cases hr : readHeader b with
  | none => rfl
  | some hd =>
    simp only []
    rw [if_pos (by right; right; simp [h])]
    rfl

/-! ### non-vacuity -/

/-- two palettes sharing nothing, 3 entries, entries 0 and 2 retained (+ the foreground colour) -/
def exCpal : List Nat :=
  [0,0, 0,3, 0,2, 0,6, 0,0,0,16, 0,0, 0,3,
   1,2,3,255, 4,5,6,255, 7,8,9,255, 11,12,13,255, 14,15,16,255, 17,18,19,255]

example : (subsetCpal exCpal (remapPaletteIndices [0, 2, 0xFFFF])).toOption =
    some [0,0, 0,2, 0,2, 0,4, 0,0,0,16, 0,0, 0,2,
          1,2,3,255, 7,8,9,255, 11,12,13,255, 17,18,19,255] := by decide
example : color exCpal 1 2 = some [17,18,19,255] := by decide
example : (remapPaletteIndices [0, 2, 0xFFFF]).lookup 2 = some 1 := by decide

end FontVerif.C17Colr
