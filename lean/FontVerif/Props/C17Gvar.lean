/-
C17 — gvar subsetting preserves the variation data of every glyph it keeps.

Model: `FontVerif.SubsetGvar.subsetGvar` (klippa/src/gvar.rs after the repairs 78d5004, 9ff1630, ba2710f),
reader: `readGvar` / `dataForGid` / `sharedTuplesOf` (read-fonts `Gvar::read`, `data_for_gid`, `shared_tuples`).
Both are tied to the real code by the `gvar` / `gvar-read` correspondence groups of harness/src/bin/c17/gvar.rs.

Klippa does not parse per-glyph variation data and does not renumber shared tuples: blobs and the shared tuple
block are copied byte for byte (theorems 3 and 5), hence `gvar_applied_deltas_equal`.

Hypotheses that recur: `subsetGvar inp = .ok (lay, out)` (the subsetter succeeded; this includes the plan
shape `planOk`: new ids ascending and below `num_output_glyphs <= 0xFFFF`, which `Plan::new` guarantees — C17
theorem `glyph_map_monotone_bijection`), and for reading data back `out.length < 2^32` (an sfnt table record
cannot describe a longer table; without it the reader's u32 `checked_add` fails).
-/
import FontVerif.Lemmas.SubsetGvar
set_option linter.unusedVariables false
namespace FontVerif.C17Gvar
open FontVerif FontVerif.SubsetGvar
open FontVerif.Subset (Bytes offAt slotBytes slotSize u16At)

/-- **gvar_offsets_correct** (a).  The emitted glyphVariationDataOffsets array has glyphCount + 1 =
`num_output_glyphs + 1` entries; entry `j` is the total (in the short format: padded) size of the kept glyphs
with new id below `j`; the first entry is 0; entries ascend; in the short format all are even — no parity
hypothesis on the source is needed because odd blobs are padded — and `Gvar::read` on the emitted table
decodes the stored array (doubling u16 entries in the short format) to exactly these byte offsets. -/
theorem gvar_offsets_correct (inp : GvarIn) (lay : Layout) (out : Bytes)
    (h : subsetGvar inp = .ok (lay, out)) :
    let short := !lay.long
    let ks := keptEntries inp
    let offs := offsets short inp.nout ks
    offs.length = inp.nout + 1 ∧
    (∀ j, j ≤ inp.nout → offs[j]? = some (offAt short ks j)) ∧
    offAt short ks 0 = 0 ∧
    (∀ j k, j ≤ k → offAt short ks j ≤ offAt short ks k) ∧
    (short = true → ∀ j, offAt short ks j % 2 = 0) ∧
    (∃ r, readGvar out = some r ∧ r.glyphCount = inp.nout ∧ r.long = lay.long ∧ r.offs = offs) := by
  intro short ks offs
  obtain ⟨v0, v1, v2, v3, a0, a1, c0, c1, o0, o1, o2, o3, shared, hh, hp, hsz, hlay, hdo, hsrc, hshl, hout⟩ :=
    subsetGvar_ok inp lay out h
  obtain ⟨hs, hb, hn⟩ := kept_sorted_of_ok inp hp
  obtain ⟨r, hr, hgc, hl, _, _, _, _, hoffs⟩ := readGvar_subset inp lay out h
  have e : offs = Subset.locaOffsets short inp.nout ks := offsets_eq short inp.nout ks
  refine ⟨by rw [e]; exact Subset.locaOffsets_length short inp.nout ks hs hb,
    fun j hj => by rw [e]; exact Subset.locaOffsets_getElem short inp.nout ks hs hb j hj,
    Subset.offAt_of_all_ge short 0 ks (fun _ _ => Nat.zero_le _),
    fun j k hjk => Subset.offAt_mono short j k hjk ks,
    fun hsh j => by rw [hsh]; exact Subset.offAt_even j ks,
    r, hr, hgc, hl, hoffs⟩

/-- **gvar_format_choice_sound** (d).  The short format is chosen exactly when the padded total is at most
0x1FFFE, and then every byte offset is even and its stored value `offset / 2` fits a u16 (so the `as u16`
truncation never changes a value); the long format is chosen only when the total exceeds 0x1FFFE, and every
offset fits a u32. -/
theorem gvar_format_choice_sound (inp : GvarIn) (lay : Layout) (out : Bytes)
    (h : subsetGvar inp = .ok (lay, out)) :
    (lay.long = false ↔ dataSize (keptEntries inp) ≤ 0x1FFFE) ∧
    (lay.long = false → ∀ o ∈ offsets true inp.nout (keptEntries inp), o % 2 = 0 ∧ o / 2 ≤ 0xFFFF ∧
        o / 2 % 65536 * 2 = o) ∧
    (lay.long = true → ∀ o ∈ offsets false inp.nout (keptEntries inp), o < 4294967296) := by
  obtain ⟨v0, v1, v2, v3, a0, a1, c0, c1, o0, o1, o2, o3, shared, hh, hp, hsz, hlay, hdo, hsrc, hshl, hout⟩ :=
    subsetGvar_ok inp lay out h
  obtain ⟨hs, hb, hn⟩ := kept_sorted_of_ok inp hp
  have hlong : lay.long = decide (dataSize (keptEntries inp) > 0x1FFFE) := by rw [hlay]; rfl
  refine ⟨?_, ?_, ?_⟩
  · rw [hlong]; simp
  · intro hl o ho
    rw [offsets_eq] at ho
    obtain ⟨j, _, rfl⟩ := mem_locaOffsets true inp.nout _ hs hb o ho
    have h1 := offAt_le_dataSize true (keptEntries inp) j
    have h2 := Subset.offAt_even j (keptEntries inp)
    rw [hlong] at hl
    simp at hl
    omega
  · intro hl o ho
    rw [offsets_eq] at ho
    obtain ⟨j, _, rfl⟩ := mem_locaOffsets false inp.nout _ hs hb o ho
    have h1 := offAt_le_dataSize false (keptEntries inp) j
    omega

/-! ### read-back of the glyph variation data -/

/-- **gvar_data_roundtrip** (b).  Reading the emitted table back with the read-fonts reader:
for every plan entry (new, old) whose `data_for_gid(old)` result in the source was `s`
 * new id 0 without NOTDEF_OUTLINE: no data (the notdef rule);
 * `s` was `Ok(None)`, an error, or empty: no data;
 * otherwise, in the long format or for an even-sized blob: exactly the original bytes;
 * in the short format for an odd-sized blob: the original bytes followed by one zero byte (the offsets of
   the short format address 2-byte units; this is the precise parity statement);
and every id below `num_output_glyphs` that is not a new id of the plan (retain-gids gap) has no data. -/
theorem gvar_data_roundtrip (inp : GvarIn) (lay : Layout) (out : Bytes)
    (h : subsetGvar inp = .ok (lay, out)) (hlen : out.length < 4294967296) :
    ∃ r, readGvar out = some r ∧
      (∀ (i new old : Nat) (s : Slot), inp.n2o[i]? = some (new, old) → inp.slots[i]? = some s →
        (keeps inp.flags new = false → dataForGid out r new = .none) ∧
        (keeps inp.flags new = true → s.bytes = [] → dataForGid out r new = .none) ∧
        (keeps inp.flags new = true → s.bytes ≠ [] → (lay.long = true ∨ s.bytes.length % 2 = 0) →
          dataForGid out r new = .data s.bytes) ∧
        (keeps inp.flags new = true → lay.long = false → s.bytes.length % 2 = 1 →
          dataForGid out r new = .data (s.bytes ++ [0]))) ∧
      (∀ k, k < inp.nout → (∀ p : Nat × Nat, p ∈ inp.n2o → p.1 ≠ k) → dataForGid out r k = Slot.none) := by
  obtain ⟨v0, v1, v2, v3, a0, a1, c0, c1, o0, o1, o2, o3, shared, hh, hp, hsz, hlay, hdo, hsrc, hshl, hout⟩ :=
    subsetGvar_ok inp lay out h
  obtain ⟨hs, hb, hn⟩ := kept_sorted_of_ok inp hp
  obtain ⟨r, hr, hgc, hl, hdao, _, _, _, hoffs⟩ := readGvar_subset inp lay out h
  obtain ⟨front, hsplit, hfl⟩ := out_split inp lay out h
  rw [offsets_eq] at hoffs
  have hdao' : r.dao = front.length := by rw [hdao, hfl]
  have hlen' : (front ++ Subset.glyfBytes (!lay.long) ((keptEntries inp).map (·.2))).length < 4294967296 := by
    rw [← hsplit]; exact hlen
  have hunused : ∀ k, k < inp.nout → (∀ p ∈ keptEntries inp, p.1 ≠ k) → dataForGid out r k = .none := by
    intro k hk hne
    rw [hsplit]
    exact dataForGid_unused (!lay.long) inp.nout _ front r hs hb hdao' hoffs hlen' k hk hne
  refine ⟨r, hr, ?_, ?_⟩
  · intro i new old s hn' hsl
    have hmem : (new, old) ∈ inp.n2o := List.mem_of_getElem? hn'
    have hnew : new < inp.nout := by
      obtain ⟨_, _, hasc⟩ := planOk_spec inp hp
      exact ((ascBelow_spec inp.nout _ 0 hasc).2 new (List.mem_map_of_mem (f := (·.1)) hmem)).2
    have hkept : keeps inp.flags new = true → dataForGid out r new = readBack (!lay.long) s.bytes := by
      intro hk
      obtain ⟨pre, post, e⟩ := kept_decomp inp i new old s hn' hsl hk
      rw [hsplit]
      exact dataForGid_kept (!lay.long) inp.nout _ front r hs hb hdao' hoffs hlen' pre new s.bytes post e
    refine ⟨?_, ?_, ?_, ?_⟩
    · intro hk
      apply hunused new hnew
      intro p hp' heq
      have := (kept_key_keeps inp p hp').1
      rw [heq, hk] at this
      cases this
    · intro hk he
      rw [hkept hk, he]; rfl
    · intro hk hne hpar
      rw [hkept hk]
      unfold readBack slotBytes
      have : s.bytes.isEmpty = false := by cases hb' : s.bytes <;> simp_all
      rw [this]
      simp only [Bool.false_eq_true, ↓reduceIte, Slot.data.injEq]
      rcases hpar with hl' | hev
      · rw [hl']; simp
      · rw [if_neg]; omega
    · intro hk hl' hodd
      rw [hkept hk]
      unfold readBack slotBytes
      have : s.bytes.isEmpty = false := by
        cases hb' : s.bytes with
        | nil => rw [hb'] at hodd; simp at hodd
        | cons _ _ => rfl
      rw [this, hl']
      simp [hodd]
  · intro k hk hne
    apply hunused k hk
    intro p hp' heq
    obtain ⟨_, q, hq, hqe⟩ := kept_key_keeps inp p hp'
    exact hne q hq (by rw [hqe, heq])

/-- **gvar_roundtrip_raw.**  The same end to end on raw bytes: for a source table `t` that read-fonts accepts,
with the subsetter's inputs read off `t` by the reader model (`ofTable`), the data the reader finds for `new`
in the emitted table is the data it finds for `old` in the source (`Err` counting as no data), up to the
padding byte of the short format; new id 0 without NOTDEF_OUTLINE has none. -/
theorem gvar_roundtrip_raw (t : Bytes) (rt : Reader) (flags nout src : Nat) (n2o : List (Nat × Nat))
    (lay : Layout) (out : Bytes)
    (h : subsetGvar (ofTable t rt flags nout src n2o) = .ok (lay, out)) (hlen : out.length < 4294967296) :
    ∃ r, readGvar out = some r ∧ ∀ new old, (new, old) ∈ n2o →
      dataForGid out r new =
        if keeps flags new then readBack (!lay.long) (dataForGid t rt old).bytes else .none := by
  obtain ⟨r, hr, hkept, _⟩ := gvar_data_roundtrip _ lay out h hlen
  refine ⟨r, hr, ?_⟩
  intro new old hmem
  obtain ⟨i, hi⟩ := List.getElem?_of_mem hmem
  have hsl : (ofTable t rt flags nout src n2o).slots[i]? = some (dataForGid t rt old) := by
    simp [ofTable, hi]
  obtain ⟨c1, c2, c3, c4⟩ := hkept i new old _ hi hsl
  by_cases hk : keeps flags new = true
  · have hk' : keeps (ofTable t rt flags nout src n2o).flags new = true := hk
    rw [if_pos hk]
    by_cases he : (dataForGid t rt old).bytes = []
    · rw [c2 hk' he, he]; rfl
    · unfold readBack slotBytes
      have : (dataForGid t rt old).bytes.isEmpty = false := by
        cases hb' : (dataForGid t rt old).bytes <;> simp_all
      rw [this]
      simp only [Bool.false_eq_true, ↓reduceIte]
      by_cases hpar : lay.long = true ∨ (dataForGid t rt old).bytes.length % 2 = 0
      · rw [c3 hk' he hpar]
        rcases hpar with hl | hev
        · rw [hl]; simp
        · rw [if_neg]; omega
      · have hl : lay.long = false := by cases hll : lay.long <;> simp_all
        have hodd : (dataForGid t rt old).bytes.length % 2 = 1 := by omega
        rw [c4 hk' hl hodd, hl]
        simp [hodd]
  · have hk' : keeps (ofTable t rt flags nout src n2o).flags new = false := by
      cases hkk : keeps flags new <;> simp_all [ofTable]
    rw [if_neg hk]
    exact c1 hk'

/-! ### shared tuples and the header -/

/-- **gvar_shared_tuples_unchanged** (c).  axisCount and sharedTupleCount of the emitted table are those of
the source; the shared tuple block the reader resolves is byte-identical to the source's block and sits
directly after the offsets array, the glyph variation data directly after it:
 * count != 0, source offset != 0: sharedTuplesOffset = 20 + array size (non-null) and the
   `2 * axisCount * sharedTupleCount` bytes there are the source's;
 * count = 0: sharedTuplesOffset = 20 + array size (non-null, so that read-fonts does not fail with
   NullOffset) and the block is empty;
 * count != 0 with a null source offset: the offset stays null (the source had no readable tuples);
and glyphVariationDataArrayOffset = 20 + array size + size of the copied block.  No tuple is dropped,
reordered or renumbered, so an index embedded in per-glyph data denotes the same tuple. -/
theorem gvar_shared_tuples_unchanged (inp : GvarIn) (lay : Layout) (out : Bytes)
    (h : subsetGvar inp = .ok (lay, out)) :
    let axis := u16At inp.header 4
    let cnt := u16At inp.header 6
    let soff := u32At inp.header 8
    ∃ r shared, readGvar out = some r ∧ sharedSource inp cnt soff = some shared ∧
      r.axisCount = axis ∧ r.sharedCount = cnt ∧
      r.dao = 20 + arrSize inp.nout lay.long + shared.length ∧
      (cnt ≠ 0 → soff ≠ 0 → r.sharedOff = 20 + arrSize inp.nout lay.long ∧
        sharedTuplesOf out r = some shared ∧ inp.sharedSlice = some shared) ∧
      (cnt = 0 → r.sharedOff = 20 + arrSize inp.nout lay.long ∧ sharedTuplesOf out r = some [] ∧ shared = []) ∧
      (cnt ≠ 0 → soff = 0 → r.sharedOff = 0 ∧ sharedTuplesOf out r = none ∧ shared = []) := by
  intro axis cnt soff
  obtain ⟨v0, v1, v2, v3, a0, a1, c0, c1, o0, o1, o2, o3, shared, hh, hp, hsz, hlay, hdo, hsrc, hshl, hout⟩ :=
    subsetGvar_ok inp lay out h
  obtain ⟨hs, hb, hn⟩ := kept_sorted_of_ok inp hp
  obtain ⟨r, hr, hgc, hl, hdao, hso, hax, hcn, hoffs⟩ := readGvar_subset inp lay out h
  have eaxis : axis = a0 * 256 + a1 := by simp [axis, hh, u16At]
  have ecnt : cnt = c0 * 256 + c1 := by simp [cnt, hh, u16At]
  have esoff : soff = o0 * 16777216 + o1 * 65536 + o2 * 256 + o3 := by simp [soff, hh, u32At]
  rw [← eaxis] at hlay hshl
  rw [← ecnt, ← esoff] at hlay hsrc hshl
  have hdo2 : lay.dataOff = 20 + arrSize inp.nout lay.long + sharedSizeOf axis cnt soff := by rw [hlay]; rfl
  have hso2 : lay.sharedOff = sharedOffOf cnt soff (arrSize inp.nout lay.long) := by rw [hlay]; rfl
  -- the table up to the shared tuples
  have holen : (offsets (!lay.long) inp.nout (keptEntries inp)).length = inp.nout + 1 := by
    rw [offsets_eq]; exact Subset.locaOffsets_length _ _ _ hs hb
  have henc : (encodeOffsets (!lay.long) (offsets (!lay.long) inp.nout (keptEntries inp))).length =
      arrSize inp.nout lay.long := by
    rw [encodeOffsets_length, holen]; unfold arrSize; cases lay.long <;> rfl
  have hsplit : ∃ f2 data, out = f2 ++ (shared ++ data) ∧ f2.length = 20 + arrSize inp.nout lay.long := by
    refine ⟨[v0, v1, v2, v3, a0, a1, c0, c1] ++ Subset.be32 lay.sharedOff ++ Subset.be16 lay.numGlyphs ++
      Subset.be16 (if lay.long then 1 else 0) ++ Subset.be32 lay.dataOff ++
      encodeOffsets (!lay.long) (offsets (!lay.long) inp.nout (keptEntries inp)),
      dataGo (!lay.long) (keptEntries inp) 0, ?_, ?_⟩
    · rw [hout]; unfold assemble; simp only [List.append_assoc]
    · simp only [List.length_append, henc, Subset.be32, Subset.be16, List.length_cons, List.length_nil]
  obtain ⟨f2, data, hsp, hf2⟩ := hsplit
  have hslice : ∀ n, n = shared.length →
      Subset.sliceGet out (20 + arrSize inp.nout lay.long) (20 + arrSize inp.nout lay.long + n) = some shared := by
    intro n hn'
    subst hn'
    unfold Subset.sliceGet
    rw [if_pos (by rw [hsp]; simp only [List.length_append]; omega)]
    rw [hsp, ← hf2]
    have := drop_front f2 (shared ++ data) 0
    simp only [Nat.add_zero, List.drop_zero] at this
    rw [this]
    simp
  refine ⟨r, shared, hr, hsrc, hax, hcn, by rw [hdao, hdo2, hshl], ?_, ?_, ?_⟩
  · intro hc hso'
    have hhs : hasShared cnt soff = true := by unfold hasShared; simp [hc, hso']
    have e1 : r.sharedOff = 20 + arrSize inp.nout lay.long := by
      rw [hso, hso2]; unfold sharedOffOf; simp [hhs]
    have e2 : shared.length = 2 * axis * cnt := by rw [hshl]; unfold sharedSizeOf; simp [hhs]
    have e3 : inp.sharedSlice = some shared := by
      unfold sharedSource at hsrc; simpa [hhs] using hsrc
    refine ⟨e1, ?_, e3⟩
    unfold sharedTuplesOf
    rw [e1, if_neg (by omega), hax, hcn]
    exact hslice _ e2.symm
  · intro hc
    have hhs : hasShared cnt soff = false := by unfold hasShared; simp [hc]
    have e1 : r.sharedOff = 20 + arrSize inp.nout lay.long := by
      rw [hso, hso2]; unfold sharedOffOf; simp [hc]
    have e2 : shared = [] := by
      unfold sharedSource at hsrc; simp [hhs] at hsrc; exact hsrc
    refine ⟨e1, ?_, e2⟩
    unfold sharedTuplesOf
    have hc' : u16At inp.header 6 = 0 := hc
    rw [e1, if_neg (by omega), hcn, hc']
    have := hslice 0 (by rw [e2]; rfl)
    simpa [e2] using this
  · intro hc hso'
    have hhs : hasShared cnt soff = false := by unfold hasShared; simp [hso']
    have e1 : r.sharedOff = 0 := by
      rw [hso, hso2]; unfold sharedOffOf; simp [hc, hhs]
    have e2 : shared = [] := by
      unfold sharedSource at hsrc; simp [hhs] at hsrc; exact hsrc
    refine ⟨e1, ?_, e2⟩
    unfold sharedTuplesOf
    simp [e1]

/-- **gvar_applied_deltas_equal** (corollary of 3 and 5).  For any decoder of a glyph's variation data that
depends only on the shared tuple block, the axis count and the glyph's bytes, and that ignores the padding
byte after an odd-sized blob (`hpad`: tuple variation headers delimit the serialized data; the byte that
write-fonts / fontTools / klippa append for 2-byte alignment is never reached), the decoded result for a kept
glyph in the subset equals the decoded result in the source. -/
theorem gvar_applied_deltas_equal {α : Type} (decode : Bytes → Nat → Bytes → α)
    (hpad : ∀ sh ax d, d.length % 2 = 1 → decode sh ax (d ++ [0]) = decode sh ax d)
    (inp : GvarIn) (lay : Layout) (out : Bytes)
    (h : subsetGvar inp = .ok (lay, out)) (hlen : out.length < 4294967296) :
    ∃ r, readGvar out = some r ∧
      ∀ (i new old : Nat) (b : Bytes), inp.n2o[i]? = some (new, old) → inp.slots[i]? = some (Slot.data b) → b ≠ [] →
        keeps inp.flags new = true →
        ∃ b', dataForGid out r new = Slot.data b' ∧
          decode ((sharedTuplesOf out r).getD []) r.axisCount b' =
            decode ((sharedSource inp (u16At inp.header 6) (u32At inp.header 8)).getD []) (u16At inp.header 4) b := by
  obtain ⟨r, hr, hkept, _⟩ := gvar_data_roundtrip inp lay out h hlen
  obtain ⟨r', shared, hr', hsrc, hax, hcn, _, hA, hB, hC⟩ := gvar_shared_tuples_unchanged inp lay out h
  rw [hr] at hr'
  cases hr'
  refine ⟨r, hr, ?_⟩
  intro i new old b hn hsl hne hk
  obtain ⟨_, _, c3, c4⟩ := hkept i new old (.data b) hn hsl
  have hshared : (sharedTuplesOf out r).getD [] = shared := by
    by_cases hc : u16At inp.header 6 = 0
    · obtain ⟨_, e, e'⟩ := hB hc; rw [e, e']; rfl
    · by_cases hs : u32At inp.header 8 = 0
      · obtain ⟨_, e, e'⟩ := hC hc hs; rw [e, e']; rfl
      · obtain ⟨_, e, _⟩ := hA hc hs; rw [e]; rfl
  rw [hshared, hsrc, hax]
  by_cases hpar : lay.long = true ∨ b.length % 2 = 0
  · exact ⟨b, c3 hk hne hpar, rfl⟩
  · have hl : lay.long = false := by cases hll : lay.long <;> simp_all
    have hodd : b.length % 2 = 1 := by
      have : ¬ b.length % 2 = 0 := fun hc => hpar (Or.inr hc)
      omega
    exact ⟨b ++ [0], c4 hk hl hodd, hpad _ _ _ hodd⟩

/-! ### non-vacuity -/

/-- axis count 1, one shared tuple at source offset 30; plan keeps old 0 as new 0 and old 5 as new 2 of 3
output glyphs (retain-gids gap at 1); the blob of old 5 has odd length -/
def exIn : GvarIn :=
  { flags := 0, nout := 3, tableLen := 100, srcGlyphs := 6,
    header := [0, 1, 0, 0, 0, 1, 0, 1, 0, 0, 0, 30], sharedSlice := some [0x40, 0],
    n2o := [(0, 0), (2, 5)], slots := [.data [9, 9], .data [1, 2, 3]] }

def exOut : Bytes :=
  [0, 1, 0, 0, 0, 1, 0, 1, 0, 0, 0, 28, 0, 3, 0, 0, 0, 0, 0, 30, 0, 0, 0, 0, 0, 0, 0, 2, 0x40, 0, 1, 2, 3, 0]

example : subsetGvar exIn = .ok ({ numGlyphs := 3, long := false, sharedOff := 28, dataOff := 30 }, exOut) :=
  ok_of_toOption _ _ (by decide)

example : exOut.length < 4294967296 := by decide

example : (readGvar exOut).map (fun r => (dataForGid exOut r 0, dataForGid exOut r 1, dataForGid exOut r 2,
    sharedTuplesOf exOut r)) = some (.none, .none, .data [1, 2, 3, 0], some [0x40, 0]) := by decide

/-- with NOTDEF_OUTLINE the data of glyph 0 is kept -/
example : (subsetGvar { exIn with flags := 0x40 }).toOption.map (·.2) =
    some [0, 1, 0, 0, 0, 1, 0, 1, 0, 0, 0, 28, 0, 3, 0, 0, 0, 0, 0, 30, 0, 0, 0, 1, 0, 1, 0, 3, 0x40, 0, 9, 9, 1, 2, 3, 0] := by
  decide

/-- a decoder satisfying `hpad` that is not constant -/
example : ∀ (sh : Bytes) (ax : Nat) (d : Bytes), d.length % 2 = 1 →
    (fun (sh : Bytes) (ax : Nat) (d : Bytes) => (sh, ax, d.head?)) sh ax (d ++ [0]) =
    (fun (sh : Bytes) (ax : Nat) (d : Bytes) => (sh, ax, d.head?)) sh ax d := by
  intro sh ax d hd
  cases d with
  | nil => simp at hd
  | cons x xs => simp


/-- the hypotheses of theorems 3 and 7 hold for this instance -/
example : ∃ r, readGvar exOut = some r ∧ dataForGid exOut r 2 = Slot.data [1, 2, 3, 0] := by
  have hok : subsetGvar exIn = .ok ({ numGlyphs := 3, long := false, sharedOff := 28, dataOff := 30 }, exOut) :=
    ok_of_toOption _ _ (by decide)
  obtain ⟨r, hr, hk, _⟩ := gvar_data_roundtrip exIn _ exOut hok (by decide)
  exact ⟨r, hr, (hk 1 2 5 (.data [1, 2, 3]) rfl rfl).2.2.2 (by decide) rfl (by decide)⟩

/-- the long format: any 131071-byte blob (e.g. `List.replicate 131071 7`) kept alone -/
example (b : Bytes) (hb : b.length = 131071) :
    ∃ lay out, subsetGvar (bigIn b) = .ok (lay, out) ∧ lay.long = true ∧ out.length < 4294967296 := by
  have hne : b.isEmpty = false := by cases b <;> simp_all
  have hsz : dataSize (keptEntries (bigIn b)) = 131072 := by
    rw [bigIn_kept]; simp [dataSize, hb]
  have hlong : (layoutOf (bigIn b) 1 0 0).long = true := by
    simp [layoutOf, hsz]
  have hlay : layoutOf (bigIn b) 1 0 0 = { numGlyphs := 2, long := true, sharedOff := 32, dataOff := 32 } := by
    unfold layoutOf
    rw [hsz]
    simp [arrSize, sharedOffOf, sharedSizeOf, hasShared, bigIn]
  have hlen : (assemble [0, 1, 0, 0, 0, 1, 0, 0] (layoutOf (bigIn b) 1 0 0) (bigIn b).nout (keptEntries (bigIn b)) []).length
      = 32 + 131071 := by
    rw [hlay, bigIn_kept]
    simp [assemble, offsets, offsetsGo, dataGo, stepBytes, stepOffset, encodeOffsets, Subset.be32, Subset.be16, bigIn, hne, hb]
  refine ⟨layoutOf (bigIn b) 1 0 0,
    assemble [0, 1, 0, 0, 0, 1, 0, 0] (layoutOf (bigIn b) 1 0 0) (bigIn b).nout (keptEntries (bigIn b)) [], ?_, hlong, ?_⟩
  · show emit (bigIn b) [0, 1, 0, 0, 0, 1, 0, 0] 1 0 0 = _
    exact emit_of (bigIn b) _ 1 0 0 [] (by simp [planOk, bigIn, ascBelow]) (by omega) (by rw [hlay]; decide)
      (by simp [sharedSource, hasShared]) (by simp [sharedSizeOf, hasShared]) (by rw [hlen]; show 32 + 131071 ≤ room 140000 2 2; decide)
      (by rw [hlong]; show 20 + arrSize 2 true ≤ room 140000 2 2; decide)
  · rw [hlen]; decide

example : (List.replicate 131071 7 : Bytes).length = 131071 := List.length_replicate ..

end FontVerif.C17Gvar
