/-
C01 (hand-written code) — the byte-access primitives of read-fonts (`FontData`, `Cursor`) and the
hand-written iterators built on them terminate within a bound given by the input length and never
reach a panic.  Models: Model/HandRead.lean, Model/HandIter.lean ⇄ read-fonts/src/font_data.rs,
tables/varc.rs, tables/postscript/{index,dict,stack,charset,fd_select}.rs, tables/aat.rs; tied to the
real functions by the `hand` part of the C01 harness (`hd.*` driver commands, exhaustive small
buffers for the primitives).

The cursor facts are the ones the iterators rely on: the position saturates and moves forward even
when a read fails, so *after a failed read the cursor is at or past the end* and `is_empty()` —
`pos >= len`, not `pos == len` — is exactly "nothing more can be read".
-/
import FontVerif.Lemmas.HandIter
set_option linter.unusedVariables false
set_option linter.unusedSimpArgs false
namespace FontVerif.C01Hand
open FontVerif FontVerif.ReadIter FontVerif.HandRead FontVerif.HandIter

/-! ## `FontData` / `Cursor` -/

/-- **a successful `read_at` lies inside the data** and a failing one means the scalar does not fit:
`read_at::<T>(off)` is `Some` exactly when `off + size ≤ len` (no wrap-around: the sum is `checked`). -/
theorem readAt_some_iff (d : List Nat) (off sz : Nat) :
    (readAt d off sz).isSome = true ↔ off + sz ≤ d.length ∧ off + sz ≤ MAXU := by
  unfold readAt checkedAdd
  by_cases h : off + sz ≤ MAXU
  · simp only [h, if_true]
    by_cases h2 : off + sz ≤ d.length <;> simp [h, h2]
  · simp [h]

/-- **`read_array` hands out only whole elements inside the data**: `Ok(n)` implies
`a ≤ b ≤ len`, `elem ∣ b − a` and `n · elem = b − a`. -/
theorem readArray_ok (d : List Nat) (a b elem n : Nat) (h : readArray d a b elem = .ok n) :
    a ≤ b ∧ b ≤ d.length ∧ elem ≠ 0 ∧ n * elem = b - a := by
  unfold readArray getRange at h
  by_cases hr : a ≤ b ∧ b ≤ d.length
  · simp only [hr, and_self, if_true] at h
    by_cases he : elem = 0
    · simp [he] at h
    · simp only [he, if_false] at h
      by_cases hm : (b - a) % elem ≠ 0
      · simp [hm] at h
      · simp only [hm, if_false] at h
        injection h with h
        have hm' : (b - a) % elem = 0 := by simpa using hm
        refine ⟨hr.1, hr.2, he, ?_⟩
        rw [← h]
        exact Nat.div_mul_cancel (Nat.dvd_of_mod_eq_zero hm')
  · simp [hr] at h

/-- the position never exceeds `usize::MAX`: the saturating model is faithful to the `usize` -/
theorem cursor_pos_le_maxu (d : List Nat) (c : Cur) (op : Op) (h : c.pos ≤ MAXU) :
    (op.run d c).2.pos ≤ MAXU := by
  have hs : ∀ a b, a ≤ MAXU → satAdd a b ≤ MAXU := by
    intro a b _; unfold satAdd; split <;> omega
  have hr : ∀ (c : Cur) sz, c.pos ≤ MAXU → (c.read d sz).2.pos ≤ MAXU := by
    intro c sz hc; simp only [Cur.read, Cur.advanceBy]; exact hs _ _ hc
  cases op with
  | read sz => simp only [Op.run]; have := hr c sz h; revert this; cases c.read d sz with | mk a b => cases a <;> simp
  | adv sz => simp only [Op.run, Cur.advanceBy]; exact hs _ _ h
  | advBy n => simp only [Op.run, Cur.advanceBy]; exact hs _ _ h
  | var => simp only [Op.run]; have := readU32Var_pos_le d c h; revert this; cases c.readU32Var d with | mk a b => cases a <;> simp
  | arr elem n =>
    simp only [Op.run]
    have : (c.readArray d n elem).2.pos ≤ MAXU := by
      unfold Cur.readArray
      split
      · exact h
      · split
        · exact h
        · simp only [Cur.advanceBy]; exact hs _ _ h
    revert this
    cases c.readArray d n elem with
    | mk a b => cases a with
      | ok k => simp
      | error e => cases e <;> simp

/-- **after a failed read the cursor is empty**: `Cursor::read::<T>()` advances the (saturating)
position even when it returns `Err`, so a failed read leaves `pos ≥ len` — `is_empty()` is `true`
and an `if cursor.is_empty() { return None }` loop stops.  (`len ≤ usize::MAX` always holds.) -/
theorem read_fail_isEmpty (d : List Nat) (c : Cur) (sz : Nat) (hlen : d.length ≤ MAXU) (hp : c.pos ≤ MAXU)
    (h : (c.read d sz).1 = none) : (c.read d sz).2.isEmpty d = true := by
  have := (read_facts d c sz hp).2.2.1 h hlen
  simp [Cur.isEmpty, this]

/-- the same for the variable-length integer read (`read_u32_var`) -/
theorem readU32Var_fail_isEmpty (d : List Nat) (c : Cur) (hlen : d.length ≤ MAXU)
    (h : (c.readU32Var d).1 = none) : (c.readU32Var d).2.isEmpty d = true :=
  readU32Var_fail_empty d c hlen h

/-- **`is_empty()` is exactly "no byte can be read"**: it is `true` iff `remaining_bytes() == 0` iff
a one-byte read fails; when it is `false` the next `read::<u8>()` succeeds and the cursor moves by
exactly one byte. -/
theorem isEmpty_iff (d : List Nat) (c : Cur) (hlen : d.length ≤ MAXU) (hp : c.pos ≤ MAXU) :
    (c.isEmpty d = true ↔ c.remainingBytes d = 0) ∧
    (c.isEmpty d = true ↔ (c.read d 1).1 = none) ∧
    (c.isEmpty d = false → (c.read d 1).2.pos = c.pos + 1 ∧ (c.read d 1).2.pos ≤ d.length) := by
  have hsome := readAt_some_iff d c.pos 1
  refine ⟨?_, ?_, ?_⟩
  · simp only [Cur.isEmpty, Cur.remainingBytes, decide_eq_true_eq]; omega
  · simp only [Cur.isEmpty, decide_eq_true_eq]
    show c.pos ≥ d.length ↔ readAt d c.pos 1 = none
    cases hr : readAt d c.pos 1 with
    | none =>
      simp only [hr, Option.isSome_none, Bool.false_eq_true, false_iff] at hsome
      simp only [iff_true]; omega
    | some v =>
      simp only [hr, Option.isSome_some, true_iff] at hsome
      simp; omega
  · intro he
    simp only [Cur.isEmpty, decide_eq_false_iff_not] at he
    have := (read_facts d c 1 hp).2.2.2 (by omega) hlen
    omega

/-- `position()`, `remaining()` and `finish()` succeed exactly when `pos ≤ len`, and then agree with
`remaining_bytes()` -/
theorem cursor_bounds_checks (d : List Nat) (c : Cur) :
    ((c.position d).isSome = true ↔ c.pos ≤ d.length) ∧
    ((c.remaining d).isSome = true ↔ c.pos ≤ d.length) ∧
    (c.finish d = true ↔ c.pos ≤ d.length) ∧
    (∀ r, c.remaining d = some r → r = c.remainingBytes d) := by
  simp only [Cur.position, Cur.remaining, Cur.finish, Cur.remainingBytes, splitOff, decide_eq_true_eq]
  refine ⟨?_, ?_, trivial, ?_⟩
  · by_cases h : c.pos ≤ d.length <;> simp [h]
  · by_cases h : c.pos ≤ d.length <;> simp [h]
  · intro r; by_cases h : c.pos ≤ d.length <;> simp [h]; intro h2; omega

/-- **every cursor-driven `while !is_empty()` loop is bounded by the data length**: an iterator whose
`next` is `if cursor.is_empty() { None } else { Some(f(&mut cursor)) }` and whose `f` starts with a
read of at least one byte and never moves the cursor backwards makes at most `len` calls of `f`
(this is the shape of `VarcComponentIter`, `dict::tokens`, the kern/kerx/morx subtable iterators). -/
theorem cursor_loop_bounded (d : List Nat) (f : Cur → Cur)
    (hf : ∀ c : Cur, c.pos < d.length → c.pos < (f c).pos) (c0 : Cur) :
    ∃ evs, run (fun c => if c.isEmpty d then (Out.done, c) else (Out.yield (), f c)) (d.length + 1) c0 = some evs ∧
      evs.length ≤ d.length - c0.pos ∧ trapped evs = false := by
  let step : Cur → Out Unit × Cur := fun c => if c.isEmpty d then (Out.done, c) else (Out.yield (), f c)
  have hdec : ∀ s : Cur, True → (step s).1 ≠ .done → d.length - (step s).2.pos < d.length - s.pos := by
    intro s _ hnd
    simp only [step] at hnd ⊢
    by_cases he : s.isEmpty d = true
    · simp [he] at hnd
    · simp only [he] at hnd ⊢
      simp only [Cur.isEmpty, decide_eq_true_eq] at he
      have := hf s (by omega)
      simp only [Bool.false_eq_true, if_false]
      omega
  have hnt : ∀ s : Cur, True → (step s).1 ≠ .trap := by
    intro s _; simp only [step]; split <;> simp
  obtain ⟨evs, he, hl⟩ := run_complete step (fun s => d.length - s.pos) (fun _ => True) (fun _ _ => trivial)
    hdec (d.length + 1) c0 trivial (by omega)
  exact ⟨evs, he, hl, not_trapped step (fun _ => True) (fun _ _ => trivial) hnt _ _ _ trivial he⟩

/-! ## `ComputedArray` -/

/-- **an item handed out by `ComputedArray::get` lies wholly inside the data**: `get(i) = Ok` implies
the item starts at `i · item_len` and `start + item_len ≤ data.len()` (no overflow: `checked_mul`). -/
theorem computedGet_in_bounds (dataLen itemLen idx off : Nat) (h : compGet dataLen itemLen idx = some off) :
    off = idx * itemLen ∧ off + itemLen ≤ dataLen := by
  unfold compGet checkedMul at h
  split at h
  · cases h
  · rename_i o ho
    split at ho
    · injection ho with ho
      subst ho
      split at h
      · injection h with h; exact ⟨h.symm, by omega⟩
      · cases h
    · cases ho

/-- for a non-zero item size `get` only answers indices below `len()` … -/
theorem computedGet_lt_len (dataLen itemLen idx off : Nat) (hpos : 0 < itemLen)
    (h : compGet dataLen itemLen idx = some off) : idx < compLen dataLen itemLen := by
  obtain ⟨h1, h2⟩ := computedGet_in_bounds _ _ _ _ h
  subst h1
  unfold compLen
  have hz : itemLen ≠ 0 := by omega
  simp only [hz, if_false]
  have h3 : (idx + 1) * itemLen ≤ dataLen := by rw [Nat.succ_mul]; exact h2
  exact (Nat.le_div_iff_mul_le hpos).mpr h3

/-- … but **zero-sized items are answered at every index** (`len()` is 0: the count is not
recoverable from the byte length), so a loop over `get` must not run "until the first error" -/
theorem computedGet_zero_item (dataLen idx : Nat) : compGet dataLen 0 idx = some 0 := by
  simp [compGet, checkedMul, MAXU]

/-- **the traversal of a computed-size record array is bounded by `len()`**: the array printer and
`SomeArray::iter` (which walk `SomeArray::get` until the first `None`) make at most
`len() ≤ data.len()` trips, for every item size including 0 — `SomeArray::get` returns `None` for
`idx >= len()` whatever `ComputedArray::get` would answer. -/
theorem traverse_computed_array_bounded (dataLen itemLen : Nat) :
    ∃ evs, travTrace dataLen itemLen = some evs ∧ evs.length ≤ compLen dataLen itemLen ∧
      compLen dataLen itemLen ≤ dataLen ∧ trapped evs = false := by
  let L := compLen dataLen itemLen
  have hstep : ∀ s, (travStep dataLen itemLen s).1 ≠ .done → s < L ∧ (travStep dataLen itemLen s).2 = s + 1 := by
    intro s hnd
    unfold travStep travGet at hnd ⊢
    by_cases hge : s ≥ compLen dataLen itemLen
    · simp [hge] at hnd
    · simp only [hge, if_false] at hnd ⊢
      cases hg : compGet dataLen itemLen s with
      | none => simp [hg] at hnd
      | some off => exact ⟨by omega, rfl⟩
  have hInv : ∀ s, s ≤ L → (travStep dataLen itemLen s).2 ≤ L := by
    intro s hs
    by_cases hd : (travStep dataLen itemLen s).1 = .done
    · unfold travStep at hd ⊢
      split at hd
      · simpa using hs
      · simp at hd
    · have := hstep s hd; omega
  have hdec : ∀ s, s ≤ L → (travStep dataLen itemLen s).1 ≠ .done →
      L - (travStep dataLen itemLen s).2 < L - s := by
    intro s _ hnd; have := hstep s hnd; omega
  have hnt : ∀ s, s ≤ L → (travStep dataLen itemLen s).1 ≠ .trap := by
    intro s _; unfold travStep; split <;> simp
  obtain ⟨evs, he, hl⟩ := run_complete (travStep dataLen itemLen) (fun s => L - s) (fun s => s ≤ L)
    hInv hdec (L + 1) 0 (Nat.zero_le _) (by omega)
  refine ⟨evs, he, by simpa using hl, ?_, not_trapped _ (fun s => s ≤ L) hInv hnt _ _ _ (Nat.zero_le _) he⟩
  show compLen dataLen itemLen ≤ dataLen
  unfold compLen
  split
  · omega
  · exact Nat.div_le_self _ _

/-! ## the Debug printer's thread-local budget -/

theorem dbgEnter_facts (s : DbgSt) :
    ((dbgEnter s).1 = false → (dbgEnter s).2 = s) ∧
    ((dbgEnter s).1 = true → (dbgEnter s).2.depth = s.depth + 1) := by
  unfold dbgEnter
  simp only []
  generalize (if s.depth = 0 then 0 else s.nodes) = n
  by_cases hc : s.depth ≥ MAX_DEBUG_DEPTH ∨ n ≥ MAX_DEBUG_NODES
  · simp [hc]
  · simp [hc]

mutual
/-- printing a table / array leaves the nesting depth as it found it (guards are balanced, a refused
entry does not touch the state) -/
theorem dbgPrint_depth : ∀ (t : DTree) (s : DbgSt), (dbgPrint s t).1.depth = s.depth
  | .node kids, s => by
    unfold dbgPrint
    have hf := dbgEnter_facts s
    cases he : dbgEnter s with
    | mk ok s' =>
      rw [he] at hf
      dsimp only at hf
      cases ok with
      | false => dsimp only; rw [hf.1 rfl]
      | true =>
        simp only [dbgLeave]
        rw [dbgPrintAll_depth kids s', hf.2 rfl]
        omega
theorem dbgPrintAll_depth : ∀ (ts : List DTree) (s : DbgSt), (dbgPrintAll s ts).1.depth = s.depth
  | [], s => by simp [dbgPrintAll]
  | t :: ts, s => by
    unfold dbgPrintAll
    simp only []
    rw [dbgPrintAll_depth ts, dbgPrint_depth t]
end

/-- a top-level call (`depth == 0`) behaves as on a fresh thread, whatever node count earlier calls left
behind: `enter` discards the stale count -/
theorem dbgPrint_top_level_fresh (t : DTree) (s : DbgSt) (h : s.depth = 0) :
    dbgPrint s t = dbgPrint ⟨0, 0⟩ t := by
  have he : dbgEnter s = dbgEnter ⟨0, 0⟩ := by
    unfold dbgEnter
    simp [h, MAX_DEBUG_DEPTH, MAX_DEBUG_NODES]
  cases t with
  | node kids => unfold dbgPrint; rw [he]

/-- **the printer's budget is reset per top-level call**: after ANY sequence of top-level `{:?}` calls on
a thread (however many nodes they printed, whether or not they ran into the limits) the state at the
start of the next top-level call has depth 0 and the call enters with the initial budget (node count 1
after entering, exactly as on a fresh thread). -/
theorem debug_budget_reset_per_top_level_call (ts : List DTree) (s0 : DbgSt) (h0 : s0.depth = 0) :
    (dbgCalls s0 ts).1.depth = 0 ∧ dbgEnter (dbgCalls s0 ts).1 = (true, ⟨1, 1⟩) := by
  have hd : ∀ (ts : List DTree) (s : DbgSt), s.depth = 0 → (dbgCalls s ts).1.depth = 0 := by
    intro ts
    induction ts with
    | nil => intro s h; simpa [dbgCalls] using h
    | cons t ts ih =>
      intro s h
      unfold dbgCalls
      simp only []
      exact ih _ (by rw [dbgPrint_depth]; exact h)
  have h := hd ts s0 h0
  refine ⟨h, ?_⟩
  unfold dbgEnter
  simp [h, MAX_DEBUG_DEPTH, MAX_DEBUG_NODES]

/-- **the Debug output is a function of the printed table alone** — the same on a later call and on
another thread: every call of a sequence prints what a fresh thread prints. -/
theorem debug_output_pure (ts : List DTree) (s0 : DbgSt) (h0 : s0.depth = 0) :
    (dbgCalls s0 ts).2 = ts.map (fun t => (dbgPrint ⟨0, 0⟩ t).2) := by
  induction ts generalizing s0 with
  | nil => simp [dbgCalls]
  | cons t ts ih =>
    unfold dbgCalls
    simp only [List.map_cons]
    rw [ih _ (by rw [dbgPrint_depth]; exact h0), dbgPrint_top_level_fresh t s0 h0]

/-! ## VARC -/

/-- **`VarcComponentIter` terminates within one component per byte**: for every glyph record `d`
(any bytes) and every axis-indices table (`ax`), `glyph.components()` yields at most `d.len()` items
(`Ok` or `Err`) and then `None`; the model's fuel `len + 1` always suffices.  Every call of
`VarcComponent::parse` consumes at least the first flag byte, no read moves the cursor backwards, the
jump over the packed axis values lands inside the remaining data, and a truncated record leaves the
cursor past the end, where `is_empty()` (`pos >= len`) holds. -/
theorem varc_components_bounded (ax : Nat → Option Nat) (d : List Nat) (hlen : d.length ≤ MAXU) :
    ∃ evs, varcTrace ax d = some evs ∧ evs.length ≤ d.length ∧ trapped evs = false := by
  have h0 : VInv ⟨d, Cur.init⟩ := ⟨hlen, Nat.zero_le _⟩
  have hInv : ∀ s : VSt, VInv s → VInv (varcStep ax s).2 := fun s hi => (varcStep_facts' ax s hi).1
  obtain ⟨evs, he, hl⟩ := run_complete (varcStep ax) VSt.rem VInv hInv
    (fun s hi => (varcStep_facts' ax s hi).2.2) (d.length + 1) ⟨d, Cur.init⟩ h0
    (by simp [VSt.rem, Cur.init])
  refine ⟨evs, he, by simpa [VSt.rem, Cur.init] using hl, ?_⟩
  exact not_trapped (varcStep ax) VInv hInv (fun s hi => (varcStep_facts' ax s hi).2.1) _ _ _ h0 he

/-- **the jump over the packed axis values always completes**: `DeltaRunIter::end`
(`while self.next().is_some() {}`) stops after at most `count` items — the model's fuel `count + 1`
never runs out, so the `unreachable` branch of `Act.run` is indeed unreachable. -/
theorem deltaIter_end_total (d : List Nat) (n : Nat) : ∃ e, dlEndLoop d (n + 1) (dlInit (some n)) = some e :=
  dlEndLoop_some d (n + 1) (dlInit (some n)) (by simp [dlInit]) (by simp [C01Iter.muDl, dlInit])

/-! ## CFF INDEX -/

/-- **an INDEX object handed out by `get` lies inside the object data**, and `get_offset` only
reads inside the offset array: `Index1/Index2::get(i) = Ok(a..b)` implies `i < count`,
`a ≤ b ≤ data.len()`; the offset size is 1–4. -/
theorem index_get_in_bounds (ix : Idx) (i a b : Nat) (h : idxGet ix i = .ok (a, b)) :
    i < ix.count ∧ a ≤ b ∧ b ≤ ix.data.length ∧ 1 ≤ ix.offSize ∧ ix.offSize ≤ 4 := by
  unfold idxGet at h
  cases h1 : readOffset ix i with
  | error e => simp [h1] at h
  | ok a' =>
    cases h2 : readOffset ix (i + 1) with
    | error e => simp [h1, h2] at h
    | ok b' =>
      simp only [h1, h2] at h
      by_cases hr : a' ≤ b' ∧ b' ≤ ix.data.length
      · simp only [hr, and_self, if_true] at h
        injection h with h
        injection h with ha hb
        subst ha; subst hb
        unfold readOffset at h2
        by_cases hc : i + 1 > ix.count
        · simp [hc] at h2
        · simp only [hc, if_false] at h2
          by_cases ho : 1 ≤ ix.offSize ∧ ix.offSize ≤ 4
          · exact ⟨by omega, hr.1, hr.2, ho.1, ho.2⟩
          · simp [ho] at h2
      · simp [hr] at h

/-! ## DICT -/

/-- **`Blues::new` never indexes outside its 7-pair array**: whatever number `n` of values the
operand stack offers (0 … 513), the loop over `values.take(14).enumerate()` writes only pairs
`0..7` and returns `len = min(n, 14) / 2`. -/
theorem blues_new_safe (n : Nat) : bluesNew n = some (min n 14 / 2) := bluesNew_eq n

/-- **`dict::entries` terminates within one trip per byte and never panics**: for every DICT byte
string the closure's `loop` makes at most `len` trips in total (every token consumes at least one
byte; tokens end when `remaining_bytes() == 0`), the operand stack index stays within its 513 slots
(`top ≤ 513` is an invariant: `push` refuses at `top == MAX_STACK`), and `Blues::new` /
`StemSnaps::new` stay inside their fixed arrays whatever the operand count. -/
theorem dict_entries_bounded (d : List Nat) (hlen : d.length ≤ MAXU) :
    ∃ evs, dictTrace d = some evs ∧ evs.length ≤ d.length ∧ trapped evs = false := by
  have hInv : ∀ s : DSt, DInv s → DInv (dictStep d s).2 := fun s hi => (dictStep_facts d hlen s hi).1
  obtain ⟨evs, he, hl⟩ := run_complete (dictStep d) (fun s => s.c.remainingBytes d) DInv hInv
    (fun s hi => (dictStep_facts d hlen s hi).2.2) (d.length + 1) ⟨Cur.init, Stack.new⟩ dinv_init
    (by simp [Cur.remainingBytes, Cur.init])
  refine ⟨evs, he, by simpa [Cur.remainingBytes, Cur.init] using hl, ?_⟩
  exact not_trapped (dictStep d) DInv hInv (fun s hi => (dictStep_facts d hlen s hi).2.1) _ _ _ dinv_init he

/-! ## charset -/

/-- **`Charset::iter` terminates within `num_glyphs` items** for custom charsets of every format:
each `Some` advances the glyph id, which is checked against `num_glyphs` first (and the inner
`while gid >= self.end` loop consumes one range per trip). -/
theorem charset_iter_bounded (k : CharsetK) (numGlyphs : Nat) :
    ∃ evs, charsetTrace k numGlyphs = some evs ∧ evs.length ≤ numGlyphs ∧ trapped evs = false := by
  cases k with
  | f0 sids =>
    simp only [charsetTrace]
    obtain ⟨evs, he, hl⟩ := run_complete (simpleNext sids numGlyphs) (fun c => numGlyphs - c) (fun _ => True)
      (fun _ _ => trivial) (fun s _ => (simpleNext_facts sids numGlyphs s).2) (numGlyphs + 1) 0 trivial (by omega)
    exact ⟨evs, he, by simpa using hl, not_trapped _ (fun _ => True) (fun _ _ => trivial)
      (fun s _ => (simpleNext_facts sids numGlyphs s).1) _ _ _ trivial he⟩
  | ranges rs =>
    simp only [charsetTrace]
    obtain ⟨evs, he, hl⟩ := run_complete (rangeNext numGlyphs) (fun s => numGlyphs - s.gid) (fun _ => True)
      (fun _ _ => trivial) (fun s _ => (rangeNext_facts numGlyphs s).2) (numGlyphs + 1) (rangeInit rs) trivial
      (by have : (rangeInit rs).gid = 0 := by unfold rangeInit; split <;> rfl
          omega)
    refine ⟨evs, he, ?_, not_trapped _ (fun _ => True) (fun _ _ => trivial)
      (fun s _ => (rangeNext_facts numGlyphs s).1) _ _ _ trivial he⟩
    have : (rangeInit rs).gid = 0 := by unfold rangeInit; split <;> rfl
    simp only [this] at hl
    omega

/-! ## binary-search lookups (FDSelect 3/4, AAT lookup formats 2/4) -/

/-- **the index both branches of the binary search produce is in range**: for a non-empty key array
`match search { Ok(i) => i, Err(k) => k.saturating_sub(1) }` is a valid index, so `ranges.get(ix)`
is `Some` and nothing is indexed out of bounds. -/
theorem lastLe_lt (keys : List Nat) (g : Nat) (h : keys ≠ []) : lastLe keys g < keys.length := by
  unfold lastLe
  have h1 : (keys.filter (· ≤ g)).length ≤ keys.length := List.length_filter_le _ _
  have h2 : 0 < keys.length := List.length_pos_iff.mpr h
  omega

/-- `FdSelect::font_index` (formats 3 and 4) answers for every glyph id when there is at least one
range, and never when there is none -/
theorem fdSelect_total (rs : List (Nat × Nat)) (g : Nat) :
    (fdSelectRanges rs g).isSome = !rs.isEmpty := by
  unfold fdSelectRanges
  cases rs with
  | nil => simp
  | cons r rest =>
    have := lastLe_lt ((r :: rest).map (·.1)) g (by simp)
    rw [List.length_map] at this
    rw [List.getElem?_eq_getElem this]
    simp

/-- an AAT format 2 / 4 lookup only returns a value for a glyph inside the chosen segment -/
theorem lookup2_in_segment (segs : List (Nat × Nat × Nat)) (g v : Nat) (h : lookup2 segs g = some v) :
    ∃ s ∈ segs, s.2.1 ≤ g ∧ g ≤ s.1 ∧ s.2.2 = v := by
  unfold lookup2 at h
  cases hs : segs[lastLe (segs.map (·.2.1)) g]? with
  | none => simp [hs] at h
  | some s =>
    obtain ⟨last, first, val⟩ := s
    simp only [hs] at h
    by_cases hc : first ≤ g ∧ g ≤ last
    · simp only [hc, and_self, if_true] at h
      injection h with h
      exact ⟨(last, first, val), List.mem_of_getElem? hs, hc.1, hc.2, h⟩
    · simp [hc] at h

/-- AAT format 8 / 10 lookups never read in front of their value array (`checked_sub`) and format 10
reads exactly `unit_size ∈ {1, 2, 4}` bytes inside it -/
theorem lookup10_in_bounds (first unitSize : Nat) (vals : List Nat) (g v : Nat)
    (h : lookup10 first unitSize vals g = some v) :
    first ≤ g ∧ (unitSize = 1 ∨ unitSize = 2 ∨ unitSize = 4) ∧ (g - first) * unitSize + unitSize ≤ vals.length := by
  unfold lookup10 at h
  by_cases h1 : g < first
  · simp [h1] at h
  · simp only [h1, if_false] at h
    by_cases h2 : unitSize = 1 ∨ unitSize = 2 ∨ unitSize = 4
    · simp only [h2, if_true] at h
      have := (readAt_some_iff vals ((g - first) * unitSize) unitSize).mp (by simp [h])
      exact ⟨by omega, h2, this.1⟩
    · simp [h2] at h

/-! ## non-vacuity -/

/-- flags = 0 (16-bit gid), then a second component truncated inside its gid: `Ok`, `Err`, end -/
example : (varcTrace (fun _ => none) [0, 0, 5, 0, 1]).map items = some [true, false] := by decide +kernel

/-- the seeded shape: 2 bytes `00 01` — one `Err`, then `None` (not an endless stream of `Err`) -/
example : (varcTrace (fun _ => none) [0, 1]).map items = some [false] := by decide +kernel

/-- HAVE_AXES with a 2-value axis list: flags 2, gid, index 0, packed deltas `01 05 06` -/
example : (varcTrace (fun i => if i = 0 then some 2 else none) [2, 0, 7, 0, 1, 5, 6]).map items = some [true] := by
  decide +kernel

example : bluesNew 16 = some 7 := by decide

/-- 16 operands in front of BlueValues (the seeded shape): 7 pairs, no panic -/
example : (dictTrace (List.replicate 16 139 ++ [6])).map items = some [ER.ok "BlueValues:7"] := by decide +kernel

example : (dictTrace [139, 140, 18]).map items = some [ER.ok "PrivateDictRange:1:1"] := by decide +kernel

example : (charsetTrace (.ranges [(10, 2), (40, 0)]) 100).map items =
    some [(0, 0), (1, 10), (2, 11), (3, 12), (4, 40)] := by decide +kernel

example : fdSelectRanges [(0, 7), (10, 8)] 9 = some 7 := by decide
example : fdSelectRanges [(5, 7), (10, 8)] 3 = some 7 := by decide
example : lookup2 [(9, 5, 77)] 7 = some 77 := by decide

example : compGet 7 2 2 = some 4 ∧ compGet 7 2 3 = none ∧ compGet 7 0 100000 = some 0 := by decide
example : (travTrace 7 2).map items = some [0, 2, 4] ∧ (travTrace 7 0).map items = some [] := by decide

/-- a table with two children, printed after a call that left 2^20 nodes behind: printed in full -/
example : (dbgPrint ⟨0, 1048576⟩ (.node [.node [], .node []])).2 = [true, true, true] := by decide

/-- the hypothesis of `cursor_loop_bounded` is satisfiable: a one-byte read -/
example (d : List Nat) (hlen : d.length ≤ MAXU) : ∀ c : Cur, c.pos < d.length → c.pos < (c.read d 1).2.pos := by
  intro c h
  simp only [Cur.read, Cur.advanceBy, satAdd]
  split <;> omega

end FontVerif.C01Hand
