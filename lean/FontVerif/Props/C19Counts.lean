/-
C19 (part 2) — the recorded `IntersectionInfo` IS the size of the set intersections, and the selected
invalidating patch has the largest real intersection.
Helper lemmas: Lemmas/PatchMapCount.lean (canonical range lists, `RangeSet::insert`, cardinality,
uniqueness of the canonical list, the wrapping design-space sum), Lemmas/PatchGroupCount.lean
(candidates traced back to format-2 entries).

Vocabulary:
* `rMem c s` — `c` is a member of the range list `s` (`IntSet::contains` / `RangeSet` membership);
* `Canon s` — `s` is what `IntSet::iter_ranges` / `RangeSet::iter` yield: non-degenerate ranges,
  ascending, neither overlapping nor adjacent (`rsCanonical s = true ↔ Canon s`);
* `spanSum s = Σ (end − start)` — total length of a range list in raw 16.16 units;
  `wrapI32` — reduction to `i32` (`Fixed` `+` / `−` are `wrapping_add` / `wrapping_sub`);
* `sizeInfo e d i = IntersectionInfo::from_subset(e.subset_definition.intersection(d), i)`;
* `IsF2Offer tag m d u i e` — `u` is the uri that format-2 mapping table `m` (the font's `tag` table)
  offers for its decoded entry number `i`, which is `e`.
-/
import FontVerif.Lemmas.PatchGroupCount
import FontVerif.Lemmas.PatchMapF1
set_option linter.unusedVariables false
namespace FontVerif.C19
open FontVerif FontVerif.PatchMap FontVerif.PatchGroup FontVerif.UriTemplate

/-- **range_intersection_is_the_set_intersection.**  `IntSet::intersect` /
`a.intersection(b).collect::<RangeSet>()` (model `rInter`), for ANY two range lists: the result is
canonical, its members are exactly the common members, and it is the ONLY canonical list with these
members — so everything computed from it (`len`, total length) is a function of the set
intersection alone. -/
theorem range_intersection_is_the_set_intersection (a b : Ranges) :
    Canon (rInter a b) ∧ (∀ c, rMem c (rInter a b) = true ↔ rMem c a = true ∧ rMem c b = true) ∧
    ∀ rs, Canon rs → (∀ c, rMem c rs = true ↔ rMem c a = true ∧ rMem c b = true) → rs = rInter a b := by
  obtain ⟨h1, h2⟩ := rInter_spec a b
  refine ⟨h1, h2, fun rs hc hm => canon_unique rs _ hc h1 (fun c => by rw [hm c, h2 c])⟩

/-- **canonical_count_is_cardinality.**  `IntSet::len` of a canonical list (`rCount`) is the length
of every duplicate-free enumeration of its member set; the total length `spanSum` is the number of
members minus the number of ranges (the Lebesgue measure of the union of the closed intervals). -/
theorem canonical_count_is_cardinality (s : Ranges) (hc : Canon s) :
    (∀ l : List Int, l.Nodup → (∀ c, c ∈ l ↔ rMem c s = true) → (rCount s).toNat = l.length) ∧
    spanSum s = rCount s - s.length := by
  refine ⟨fun l hn hm => rCount_card s hc l hn hm, ?_⟩
  clear hc
  induction s with
  | nil => simp [spanSum, rCount]
  | cons r rest ih => rw [spanSum, rCount_cons, ih, List.length_cons]; omega

/-- **intersection_info_counts_exact.**  For every entry subset definition `e`, requested
definition `d` and entry order: the `IntersectionInfo` recorded for an invalidating patch
(`IntersectionInfo::from_subset(e.intersection(d), order)`) consists of

* code points: the CARDINALITY of `e.codepoints ∩ d.codepoints` (length of every duplicate-free
  enumeration of the common members).  No wildcard rule here: an entry without code points records 0;
* layout tags: the cardinality of the tag intersection; `All` on one side gives the other side's
  size, `All ∩ All` gives `usize::MAX` (exactly what `FeatureSet::len` returns);
* design space: `All ∩ All` records nothing; `All` on one side records the other side's axes; two
  explicit spaces record, for every axis of the definition that the entry also has and where the two
  segment sets share a point, the total length of the intersection reduced to `i32`
  (`rInter` = THE canonical list of the set intersection: `range_intersection_is_the_set_intersection`);
* the entry order, unchanged. -/
theorem intersection_info_counts_exact (e d : SubsetDef) (order : Nat) :
    let info := IntersectionInfo.fromSubset (e.intersection d) order
    (∀ l : List Int, l.Nodup → (∀ c, c ∈ l ↔ rMem c e.cps = true ∧ rMem c d.cps = true) →
        info.cps = l.length) ∧
    (match e.feats, d.feats with
      | .set a, .set b => a.Nodup →
          ∀ l : List Nat, l.Nodup → (∀ t, t ∈ l ↔ t ∈ a ∧ t ∈ b) → info.tags = l.length
      | .set a, .all => info.tags = a.length
      | .all, .set b => info.tags = b.length
      | .all, .all => info.tags = 18446744073709551615) ∧
    info.ds = (match e.ds, d.ds with
      | .all, .all => []
      | .all, .ranges r => r.map fun p => (p.1, wrapI32 (spanSum p.2))
      | .ranges r, .all => r.map fun p => (p.1, wrapI32 (spanSum p.2))
      | .ranges er, .ranges dr => dr.filterMap fun p =>
          match axLookup p.1 er with
          | none => none
          | some es =>
            if (rInter p.2 es).isEmpty then none else some (p.1, wrapI32 (spanSum (rInter p.2 es)))) ∧
    info.order = order := by
  refine ⟨?_, ?_, ?_, rfl⟩
  · intro l hn hm
    obtain ⟨h1, h2⟩ := rInter_spec e.cps d.cps
    exact rCount_card _ h1 l hn (fun c => by rw [hm c, h2 c])
  · cases he : e.feats <;> cases hd : d.feats <;>
      simp only [IntersectionInfo.fromSubset, SubsetDef.intersection, he, hd, FeatureSet.len]
    intro ha l hn hm
    exact tagInter_card _ _ ha l hn hm
  · cases he : e.ds <;> cases hd : d.ds <;>
      simp only [IntersectionInfo.fromSubset, SubsetDef.intersection, he, hd, dsIntersection,
        designSpaceSize, axisSize_eq]
    rw [List.map_filterMap]
    congr 1
    funext p
    cases axLookup p.1 _ with
    | none => rfl
    | some es =>
      by_cases hx : (rInter p.2 es).isEmpty = true <;> simp [hx]

/-- **selected_invalidating_has_max_intersection.**  For a font whose mapping tables are format 2
(or absent): every invalidating patch of the group `select_next_patches` returns comes from a decoded,
un-ignored, matching entry `e` (number `i`) of its table whose recorded info is
`sizeInfo e d i` — by `intersection_info_counts_exact` the REAL sizes of
`e ∩ d` (code points, layout tags, design space) — and no competing offered entry `e'` (number `j`)
has a larger real intersection, nor the same one at an earlier position:
`¬ infoLt (sizeInfo e d i) (sizeInfo e' d j)`.
Competitors: fully invalidating — the fully invalidating offers of both tables; partially
invalidating — those of the same table (for 'IFTX': except offers expanding to the uri already chosen
for 'IFT '). -/
theorem selected_invalidating_has_max_intersection (ift iftx : MapTable) (hf1 : notF1 ift)
    (hf2 : notF1 iftx) (d : SubsetDef) (G : Group) (h : selectNext ift iftx d = .ok (some G)) :
    (∀ p, G = .full p →
      ∃ tag i e u, IsF2Offer tag (match tag with | .ift => ift | .iftx => iftx) d u i e ∧
        u.enc = .tkFull ∧ toPatchInfo u = some p ∧ u.info = sizeInfo e d i ∧
        ∀ tag' j e' v, IsF2Offer tag' (match tag' with | .ift => ift | .iftx => iftx) d v j e' →
          v.enc = .tkFull → ¬ infoLt (sizeInfo e d i) (sizeInfo e' d j)) ∧
    (∀ p B, G = .mixed (.partialInv p) B →
      ∃ i e u, IsF2Offer .ift ift d u i e ∧ u.enc = .tkPartial ∧ toPatchInfo u = some p ∧
        u.info = sizeInfo e d i ∧
        ∀ j e' v, IsF2Offer .ift ift d v j e' → v.enc = .tkPartial →
          ¬ infoLt (sizeInfo e d i) (sizeInfo e' d j)) ∧
    (∀ A q, G = .mixed A (.partialInv q) →
      ∃ i e u, IsF2Offer .iftx iftx d u i e ∧ u.enc = .tkPartial ∧ toPatchInfo u = some q ∧
        u.info = sizeInfo e d i ∧
        ∀ j e' v, IsF2Offer .iftx iftx d v j e' → v.enc = .tkPartial →
          (∀ p, A = .partialInv p → uriString v ≠ some p.uri) →
          ¬ infoLt (sizeInfo e d i) (sizeInfo e' d j)) := by
  obtain ⟨cands, hc, hcase⟩ := selectNext_cases h
  rcases hcase with ⟨_, hg⟩ | ⟨_, hne, G', hg, hsel⟩
  · cases hg
  cases hg
  obtain ⟨a, b, ha, hb, rfl⟩ := intersectingPatches_split hc
  have hfa := intersectTable_from ha
  have hfb := intersectTable_from hb
  have hma := mem_intersectTable_f2 hf1 ha
  have hmb := mem_intersectTable_f2 hf2 hb
  refine ⟨?_, ?_, ?_⟩
  · intro p hp
    obtain ⟨u, hu, hue, hpi, hmax⟩ := sel_full_max hsel p hp
    have hinv : u.enc.isInvalidating = true := by rw [hue]; rfl
    have comp : ∀ i e, ∀ tag' j e' v,
        IsF2Offer tag' (match tag' with | .ift => ift | .iftx => iftx) d v j e' →
        v.enc = .tkFull → u.info = sizeInfo e d i → ¬ infoLt (sizeInfo e d i) (sizeInfo e' d j) := by
      intro i e tag' j e' v hv hve hui
      have hvinv : v.enc.isInvalidating = true := by rw [hve]; rfl
      have hvc : v ∈ a ++ b := by
        cases tag' with
        | ift => exact List.mem_append_left _ ((hma v).2 ⟨j, e', hv⟩)
        | iftx => exact List.mem_append_right _ ((hmb v).2 ⟨j, e', hv⟩)
      have := hmax v hvc hve
      rwa [hui, isF2Offer_info hv hvinv] at this
    rcases List.mem_append.1 hu with hu' | hu'
    · obtain ⟨i, e, hoff⟩ := (hma u).1 hu'
      have hui := isF2Offer_info hoff hinv
      exact ⟨.ift, i, e, u, hoff, hue, hpi, hui, fun tag' j e' v hv hve => comp i e tag' j e' v hv hve hui⟩
    · obtain ⟨i, e, hoff⟩ := (hmb u).1 hu'
      have hui := isF2Offer_info hoff hinv
      exact ⟨.iftx, i, e, u, hoff, hue, hpi, hui, fun tag' j e' v hv hve => comp i e tag' j e' v hv hve hui⟩
  · intro p B hp
    obtain ⟨u, hu, hue, hucompat, hpi, hmax⟩ := sel_partial_ift_max hsel p B hp
    have hinv : u.enc.isInvalidating = true := by rw [hue]; rfl
    have hua : u ∈ a := by
      rcases List.mem_append.1 hu with hu' | hu'
      · exact hu'
      · exact absurd (hucompat.symm.trans (hfb u hu').2) hne
    obtain ⟨i, e, hoff⟩ := (hma u).1 hua
    have hui := isF2Offer_info hoff hinv
    refine ⟨i, e, u, hoff, hue, hpi, hui, ?_⟩
    intro j e' v hv hve
    have hvinv : v.enc.isInvalidating = true := by rw [hve]; rfl
    have hva : v ∈ a := (hma v).2 ⟨j, e', hv⟩
    have := hmax v (List.mem_append_left _ hva) hve (hfa v hva).2
    rwa [hui, isF2Offer_info hv hvinv] at this
  · intro A q hq
    obtain ⟨u, hu, hue, hunot, hucompat, hpi, hmax⟩ := sel_partial_iftx_max hsel q A hq
    have hinv : u.enc.isInvalidating = true := by rw [hue]; rfl
    have hub : u ∈ b := by
      rcases List.mem_append.1 hu with hu' | hu'
      · exact absurd (hfa u hu').2 hunot
      · exact hu'
    obtain ⟨i, e, hoff⟩ := (hmb u).1 hub
    have hui := isF2Offer_info hoff hinv
    refine ⟨i, e, u, hoff, hue, hpi, hui, ?_⟩
    intro j e' v hv hve hexcl
    have hvinv : v.enc.isInvalidating = true := by rw [hve]; rfl
    have hvb : v ∈ b := (hmb v).2 ⟨j, e', hv⟩
    have hvx := (hfb v hvb).2
    have := hmax v (List.mem_append_right _ hvb) hve (fun hx => hne (hx.symm.trans hvx)) hvx hexcl
    rwa [hui, isF2Offer_info hv hvinv] at this

/-! ## non-vacuity -/

section Examples

/-- entry {10..20, 30..40} ∩ definition {15..35}: 6 + 6 = 12 common code points -/
example : (IntersectionInfo.fromSubset
    (SubsetDef.intersection ⟨[(10, 20), (30, 40)], .set [1, 5, 9], .ranges [(7, [(0, 65536)])]⟩
      ⟨[(15, 35)], .set [5, 9, 11], .ranges [(7, [(32768, 131072)]), (8, [(0, 1)])]⟩) 3)
    = ⟨12, 2, [(7, 32768)], 3⟩ := by decide

example : Canon [(10, 20), (30, 40)] := (rsCanonical_iff _).1 (by decide)
example : ¬ Canon [(10, 20), (21, 40)] := fun h => absurd ((rsCanonical_iff _).2 h) (by decide)

/-- the `Fixed` sum wraps: two segments of length 0x7FFFFFFF record −2 -/
example : designSpaceSize (.ranges [(1, [(-2147483648, -1), (0, 2147483647)])]) = [(1, -2)] := by decide

/-- a two-entry table, both partially invalidating: the second entry has the larger intersection
with {10..14} and is selected -/
private def rawCp (cps : Ranges) : RawEntry :=
  { flags := 16, feats := [], segs := [], childByte := 0, children := [], delta := 0, fmt := 0,
    bias := 0, cps := some cps, size := 2 }

private def twoEntries : F2Table :=
  { compat := 7, defaultFormat := 2, entriesOffset := 40, hasIdStrings := false, idData := [],
    template := [123, 105, 100, 125], utf8Ok := true, raws := [rawCp [(10, 11)], rawCp [(10, 13)]] }

example : (match selectNext (.f2 twoEntries) .none ⟨[(10, 14)], .set [], .ranges []⟩ with
    | .ok (some g) => g.invalidating.map (·.bit)
    | _ => []) = [40 * 8 + 6 + 16] := by decide

example : notF1 (.f2 twoEntries) ∧ notF1 .none := ⟨trivial, trivial⟩

end Examples

end FontVerif.C19
