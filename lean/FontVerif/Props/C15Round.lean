/-
C15 — `OtRound` (write-fonts/src/round.rs): `(x + 0.5).floor()` computed in the float type, then
(for integer targets) Rust's saturating `as` cast.  Property theorems only; the case analysis lives
in Lemmas/OtRound.lean.  Model: Model/Ieee.lean, Model/FixedConv.lean (`otRoundF`, `otRoundInt`,
`otRoundPoint`, `otRoundVec2`).

`halfUp neg m e` is the exact integer `⌊x + 1/2⌋` of `x = (-1)^neg · m · 2^e` ("round half up",
toward +∞ on ties), `clampI lo hi` the saturation.  The statement "OtRound = half up" is TRUE for
every finite float EXCEPT the largest float below one half (`(2^p - 1) · 2^-(p+1)`: the float sum
`x + 0.5` rounds to `1.0`), and, for the float → float impls, for magnitudes `≥ 2^(p-1)` (where
`x + 0.5` itself is not representable).  Both exceptions are what fontTools' `otRound` does too;
they are recorded as known findings C15-otround-below-half / C15-otround-odd-integer-tie.
-/
import FontVerif.Model.FixedConv
import FontVerif.Lemmas.OtRound
set_option linter.unusedVariables false
namespace FontVerif.C15Round
open FontVerif FontVerif.Ieee FontVerif.FixedConv

theorem f32_ok : FmtOk f32 := by constructor <;> decide
theorem f64_ok : FmtOk f64 := by constructor <;> decide

/-- the one exceptional input of a format: the largest float below one half. -/
def IsBelowHalf (f : Fmt) (neg : Bool) (m : Nat) (e : Int) : Prop :=
  neg = false ∧ m = 2 ^ f.p - 1 ∧ e = -((f.p : Int) + 1)

/-- `OtRound<i16>` / `OtRound<u16>` for `f32` / `f64` (any target range within `±2^(p-1)`):
for every finite float except the largest one below one half, the result is the exact value
rounded half up (toward +∞), then saturated. -/
theorem ot_round_int_is_half_up (f : Fmt) (ok : FmtOk f) (lo hi : Int) (hlh : lo ≤ 0 ∧ 0 ≤ hi)
    (hhi : hi < ((2 ^ (f.p - 1) : Nat) : Int)) (hlo : -((2 ^ (f.p - 1) : Nat) : Int) ≤ lo)
    (neg : Bool) (m : Nat) (e : Int) (hm : m < 2 ^ f.p) (he : f.emin ≤ e)
    (hx : ¬ IsBelowHalf f neg m e) :
    otRoundInt f lo hi (.fin neg m e) = clampI lo hi (halfUp neg m e) :=
  otRoundInt_full f ok lo hi hlh hhi hlo neg m e hm he hx

/-- the four scalar impls. -/
theorem ot_round_f64_i16 (neg : Bool) (m : Nat) (e : Int) (hm : m < 2 ^ 53) (he : -1074 ≤ e)
    (hx : ¬ IsBelowHalf f64 neg m e) :
    otRoundInt f64 (-32768) 32767 (.fin neg m e) = clampI (-32768) 32767 (halfUp neg m e) :=
  ot_round_int_is_half_up f64 f64_ok _ _ (by decide) (by decide) (by decide) neg m e hm he hx

theorem ot_round_f64_u16 (neg : Bool) (m : Nat) (e : Int) (hm : m < 2 ^ 53) (he : -1074 ≤ e)
    (hx : ¬ IsBelowHalf f64 neg m e) :
    otRoundInt f64 0 65535 (.fin neg m e) = clampI 0 65535 (halfUp neg m e) :=
  ot_round_int_is_half_up f64 f64_ok _ _ (by decide) (by decide) (by decide) neg m e hm he hx

theorem ot_round_f32_i16 (neg : Bool) (m : Nat) (e : Int) (hm : m < 2 ^ 24) (he : -149 ≤ e)
    (hx : ¬ IsBelowHalf f32 neg m e) :
    otRoundInt f32 (-32768) 32767 (.fin neg m e) = clampI (-32768) 32767 (halfUp neg m e) :=
  ot_round_int_is_half_up f32 f32_ok _ _ (by decide) (by decide) (by decide) neg m e hm he hx

theorem ot_round_f32_u16 (neg : Bool) (m : Nat) (e : Int) (hm : m < 2 ^ 24) (he : -149 ≤ e)
    (hx : ¬ IsBelowHalf f32 neg m e) :
    otRoundInt f32 0 65535 (.fin neg m e) = clampI 0 65535 (halfUp neg m e) :=
  ot_round_int_is_half_up f32 f32_ok _ _ (by decide) (by decide) (by decide) neg m e hm he hx

/-- the exception is real (both formats): exact half-up of `0.5 - ulp/2` is 0, the code returns 1. -/
example : halfUp false (2 ^ 53 - 1) (-54) = 0
    ∧ otRoundInt f64 (-32768) 32767 (.fin false (2 ^ 53 - 1) (-54)) = 1
    ∧ decode f64 0x3FDFFFFFFFFFFFFF = .fin false (2 ^ 53 - 1) (-54) := by decide
example : halfUp false (2 ^ 24 - 1) (-25) = 0
    ∧ otRoundInt f32 0 65535 (.fin false (2 ^ 24 - 1) (-25)) = 1
    ∧ decode f32 0x3EFFFFFF = .fin false (2 ^ 24 - 1) (-25) := by decide

/-- infinities saturate, NaN casts to 0. -/
theorem ot_round_int_specials (f : Fmt) (lo hi : Int) :
    otRoundInt f lo hi .nan = 0 ∧ otRoundInt f lo hi (.inf false) = hi
      ∧ otRoundInt f lo hi (.inf true) = lo := by
  simp [otRoundInt, otRoundF, add, half, floor, toIntSat]

/-- `OtRound<f64> for f64` / `OtRound<f32> for f32`: for every finite float (except the largest
below one half) whose rounded value is below `2^(p-1)` in magnitude, the result is exactly the
integer `⌊x + 1/2⌋` (an integer-valued float `±n·2^k`, `k ≥ 0`). -/
theorem ot_round_float_is_half_up (f : Fmt) (ok : FmtOk f) (neg : Bool) (m : Nat) (e : Int)
    (hm : m < 2 ^ f.p) (he : f.emin ≤ e) (hx : ¬ IsBelowHalf f neg m e)
    (hb : (halfUp neg m e).natAbs + 1 < 2 ^ (f.p - 1)) :
    ∃ s n k, otRoundF f (.fin neg m e) = .fin s n k ∧ 0 ≤ k ∧
      (if s then -1 else 1) * ((n : Int) * 2 ^ k.toNat) = halfUp neg m e :=
  otRoundF_full f ok neg m e hm he hx hb

/-- beyond `2^(p-1)` the float → float impl is not even the identity on integers:
`ot_round(4503599627370497.0) = 4503599627370498.0` (`x + 0.5` is a tie, rounds to even). -/
example : otRoundF f64 (.fin false (2 ^ 52 + 1) 0) = .fin false (2 ^ 52 + 2) 0 := by decide

/-- idempotence on integers: an integer `i` with `|i| < 2^(p-1) - 1` (as a float) is a fixed point,
and the integer targets return `i` saturated. -/
theorem ot_round_int_idempotent (f : Fmt) (ok : FmtOk f) (lo hi : Int) (hlh : lo ≤ 0 ∧ 0 ≤ hi)
    (hhi : hi < ((2 ^ (f.p - 1) : Nat) : Int)) (hlo : -((2 ^ (f.p - 1) : Nat) : Int) ≤ lo)
    (i : Int) (hi' : i.natAbs < 2 ^ f.p) :
    otRoundInt f lo hi (.fin (decide (i < 0)) i.natAbs 0) = clampI lo hi i := by
  have hemin := ok.hemin
  rw [otRoundInt_full f ok lo hi hlh hhi hlo _ _ 0 hi' (by omega)
    (by intro h; have := h.2.2; omega)]
  unfold halfUp
  simp only [ge_iff_le, Int.le_refl, if_true, Int.toNat_zero, Int.pow_zero, Int.mul_one]
  rw [sgn_natAbs']

theorem ot_round_float_idempotent (f : Fmt) (ok : FmtOk f) (i : Int)
    (hi' : i.natAbs + 1 < 2 ^ (f.p - 1)) :
    ∃ s n k, otRoundF f (.fin (decide (i < 0)) i.natAbs 0) = .fin s n k ∧ 0 ≤ k ∧
      (if s then -1 else 1) * ((n : Int) * 2 ^ k.toNat) = i := by
  have hemin := ok.hemin
  have hpp := two_pow_pred f.p (by have := ok.hp2; omega)
  have hh : halfUp (decide (i < 0)) i.natAbs 0 = i := by
    unfold halfUp
    simp only [ge_iff_le, Int.le_refl, if_true, Int.toNat_zero, Int.pow_zero, Int.mul_one]
    rw [sgn_natAbs']
  have := otRoundF_full f ok (decide (i < 0)) i.natAbs 0 (by omega) (by omega)
    (by intro h; have := h.2.2; omega) (by rw [hh]; exact hi')
  rw [hh] at this
  exact this

/-- `OtRound<(i16, i16)> for kurbo::Point` and `OtRound<Vec2> for Vec2` are the scalar rule applied
to each component (this is what the seeded `kurbo::Point::round` variant breaks on negative halves). -/
theorem ot_round_point_componentwise (x y : FVal) :
    otRoundPoint x y = (otRoundInt f64 (-32768) 32767 x, otRoundInt f64 (-32768) 32767 y) := rfl

theorem ot_round_vec2_componentwise (x y : FVal) :
    otRoundVec2 x y = (otRoundF f64 x, otRoundF f64 y) := rfl

/-- negative exact halves round toward +∞ (not away from zero): `-0.5 ↦ 0`, `-1.5 ↦ -1`,
`-2.5 ↦ -2`; positive halves up: `0.5 ↦ 1`, `2.5 ↦ 3`. -/
theorem ot_round_negative_half (n : Nat) (hn : 2 * n + 1 < 2 ^ 52) :
    otRoundInt f64 (-32768) 32767 (.fin true (2 * n + 1) (-1)) = clampI (-32768) 32767 (-(n : Int)) := by
  rw [ot_round_f64_i16 true (2 * n + 1) (-1) (by omega) (by omega) (by intro h; exact absurd h.1 (by decide))]
  congr 1
  unfold halfUp
  simp
  omega

example : otRoundPoint (decode f64 0xBFE0000000000000) (decode f64 0xBFF8000000000000) = (0, -1)
    ∧ otRoundPoint (decode f64 0x3FE0000000000000) (decode f64 0x4004000000000000) = (1, 3)
    ∧ otRoundVec2 (decode f64 0xC004000000000000) (decode f64 0x3FE0000000000000)
        = (.fin true 2 0, .fin false 1 0) := by decide

end FontVerif.C15Round
