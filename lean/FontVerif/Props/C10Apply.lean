/-
C10 (part 3) — APPLICATION of glyph variation deltas: tuple scalar, the run-at-a-time fast paths,
16.16 accumulation, inference of untouched points, final rounding; composite glyphs.
Property theorems only (helper lemmas: Lemmas/GvarApply*.lean, Lemmas/GvarScalar.lean).
Model: Model/GvarApply.lean ⇄ read-fonts `tables/variations.rs` (compute_scalar,
accumulate_*_deltas, read_*_deltas), skrifa `outline/glyf/deltas.rs`, `outline/glyf/mod.rs`.
-/
import FontVerif.Model.GvarApply
import FontVerif.Lemmas.GvarApply
import FontVerif.Lemmas.GvarMulti
import FontVerif.Lemmas.GvarSum
import FontVerif.Lemmas.GvarHeadline
import FontVerif.Lemmas.GvarScalar
import FontVerif.Lemmas.GvarStreams
import FontVerif.Props.C10Data
set_option linter.unusedVariables false
namespace FontVerif.C10
open FontVerif FontVerif.PackedDeltas FontVerif.GvarData FontVerif.GvarApply

/-! ### the tuple scalar -/

/-- **A dropped intermediate region changes nothing.**  When `GlyphDeltas::new` leaves the
start / end tuples out (all tents implied, `intermediate_dropped_iff_implied`), the reader computes
for EVERY location the same scalar it would compute from the explicit region
`(min(peak, 0), peak, max(peak, 0))` — in the reader's own 16.16 arithmetic, bit for bit. -/
theorem tuple_scalar_implied_region (ax : Nat) (peak coords : List Int)
    (hp : ∀ v ∈ peak, inI16 v) (hc : ∀ v ∈ coords, inI16 v) :
    tupleScalar ax peak none coords
      = tupleScalar ax peak (some (peak.map fun p => min p 0, peak.map fun p => max p 0)) coords := by
  unfold tupleScalar
  simp only [Option.isSome_none, Option.isSome_some, Option.map_none, Option.map_some,
    Option.getD_none, Option.getD_some]
  rw [scalarGo_implied peak hp 65536 coords hc]

/-- **`compute_scalar` against the exact tent.**  For i16 peaks / coordinates and well-formed
intermediate tuples (i16, no region straddling zero — for those the code follows FreeType and
switches the tuple off at coordinate 0): if the location lies outside the region on some axis the
tuple is not applied; otherwise, with `N / D` the exact product of the per-axis tent factors and
`k ≤ axes` the number of axes that needed a rounding (`mul_div`) step, the tuple is applied with a
16.16 scalar `s ∈ (0, 1]` with `|s - 65536 · N/D| ≤ k / 2`, or it is dropped because that scalar
rounded to zero (`65536 · N/D ≤ k / 2`). -/
theorem tuple_scalar_error_bound (peak coords : List Int) (inter : Option (List Int × List Int))
    (hp : ∀ v ∈ peak, inI16 v) (hc : ∀ v ∈ coords, inI16 v)
    (hi : InterOk ((inter.map (·.1)).getD []) ((inter.map (·.2)).getD [])) :
    match tentGo inter.isSome (1, 1, 0) peak ((inter.map (·.1)).getD []) ((inter.map (·.2)).getD []) coords with
    | none => tupleScalar peak.length peak inter coords = none
    | some (N, D, k) =>
      0 < D ∧ 0 ≤ N ∧ k ≤ peak.length ∧
      match tupleScalar peak.length peak inter coords with
      | some s => 0 < s ∧ s ≤ 65536 ∧ 2 * (s * D - 65536 * N) ≤ k * D ∧ 2 * (65536 * N - s * D) ≤ k * D
      | none => 2 * (65536 * N) ≤ k * D := by
  have h := scalarGo_tent inter.isSome peak ((inter.map (·.1)).getD []) ((inter.map (·.2)).getD []) coords
    65536 1 1 0 hp hc hi (by omega) (by omega) (by omega) (by simp) (by simp)
  unfold tupleScalar
  simp only [ne_eq, not_true_eq_false, if_false]
  cases htg : tentGo inter.isSome (1, 1, 0) peak ((inter.map (·.1)).getD []) ((inter.map (·.2)).getD []) coords with
  | none => rw [htg] at h; simp only [] at h; simp [h]
  | some r =>
    obtain ⟨N, D, k⟩ := r
    rw [htg] at h
    obtain ⟨s', e, s0, s1, d0, n0, hk, b1, b2⟩ := h
    simp only [e]
    refine ⟨d0, n0, by omega, ?_⟩
    by_cases hz : s' = 0
    · subst hz
      simp only [if_true]
      omega
    · simp only [hz, if_false]
      exact ⟨by omega, s1, b1, b2⟩

/-! ### the run-at-a-time fast path = the delta iterator -/

/-- **`read_sparse_deltas` = `TupleDeltaIter`, for every packed stream.**  Take any explicit point
numbers `p0 :: ps` (strictly ascending u16) as the reader decodes them from `ptBytes`, and ANY two
sequences of valid runs — every run type, length and splitting, not only what write-fonts chooses —
carrying one x and one y value per point.  Then the two passes of the fast path (behind
`accumulate_sparse_deltas`, which skrifa uses for simple glyphs) visit exactly `(point, x)` and
`(point, y)` in point order and leave the cursor at the end, and the slow iterator
(`TupleVariation::deltas()`, used for composite glyphs and phantom points) yields exactly
`(point, x, y)` for the same points.  (Seed C10-5 made the fast path skip a point per typed run.) -/
theorem sparse_fast_path_eq_iterator (p0 : Nat) (ps : List Nat) (ptBytes rest : List Nat)
    (xr yr : List Run) (hvx : ∀ r ∈ xr, ValidRun r) (hvy : ∀ r ∈ yr, ValidRun r)
    (hnx : total xr = (p0 :: ps).length) (hny : total yr = (p0 :: ps).length)
    (hp0 : p0 ≤ 65535) (hasc : SAsc p0 ps)
    (hcc : (countAndCountBytes ptBytes).1 = (p0 :: ps).length)
    (hdec : decodePoints ptBytes = some (p0 :: ps)) :
    readSparse ((p0 :: ps).length + 1) 0 (p0 :: ps).length (ptIterOf ptBytes)
        (xr.flatMap serializeRun ++ (yr.flatMap serializeRun ++ rest))
      = some ((p0 :: ps).zip (xr.flatMap (·.2)), yr.flatMap serializeRun ++ rest) ∧
    readSparse ((p0 :: ps).length + 1) 0 (p0 :: ps).length (ptIterOf ptBytes)
        (yr.flatMap serializeRun ++ rest)
      = some ((p0 :: ps).zip (yr.flatMap (·.2)), rest) ∧
    tupleDeltas ptBytes (xr.flatMap serializeRun ++ yr.flatMap serializeRun)
      = zipPts (p0 :: ps) (xr.flatMap (·.2)) (yr.flatMap (·.2)) := by
  have hit : ptIterOf ptBytes = .list (p0 :: ps) := by simp [ptIterOf, hdec]
  rw [hit]
  obtain ⟨a, b⟩ := readSparse_xy xr yr (p0 :: ps) rest hvx hvy hnx hny
  exact ⟨a, b, tupleDeltas_runs p0 ps ptBytes xr yr hvx hvy hnx hny hp0 hasc hcc hdec⟩

/-- **what `accumulate_sparse_deltas` leaves behind** (HAS_DELTA discipline inside one tuple): for
distinct listed points, entry `k` of the 16.16 buffer is incremented by `fxScaled s x_k`,
`fxScaled s y_k` and flagged iff `k` is listed; nothing else changes.  (`simple_glyph` starts every
tuple from cleared flags — `simpleSparseTuple` — which seed C10-3 broke.) -/
theorem accumulate_sparse_pointwise (pts : List Nat) (xs ys : List Int) (ptBytes dBytes bs rest : List Nat)
    (s : Int) (buf : List GvarApply.Pt) (flags : List Bool) (n : Nat) (hb : buf.length = n) (hf : flags.length = n)
    (hcount : (countAndCountBytes ptBytes).1 = pts.length) (hit : ptIterOf ptBytes = .list pts)
    (hx : readSparse (pts.length + 1) 0 pts.length (.list pts) dBytes = some (pts.zip xs, bs))
    (hy : readSparse (pts.length + 1) 0 pts.length (.list pts) bs = some (pts.zip ys, rest))
    (hnd : pts.Nodup) (hlx : xs.length = pts.length) (hly : ys.length = pts.length) :
    ∃ buf' has', accSparse ptBytes dBytes s buf flags = some (buf', has') ∧
      buf'.length = n ∧ has'.length = n ∧
      ∀ k, k < n →
        (buf'.getD k (0, 0)).1 = (match lookupV (pts.zip xs) k with
          | some x => Iup.fxAdd (buf.getD k (0, 0)).1 (fxScaled s x)
          | none => (buf.getD k (0, 0)).1) ∧
        (buf'.getD k (0, 0)).2 = (match lookupV (pts.zip ys) k with
          | some y => Iup.fxAdd (buf.getD k (0, 0)).2 (fxScaled s y)
          | none => (buf.getD k (0, 0)).2) ∧
        has'.getD k false = ((lookupV (pts.zip xs) k).isSome || flags.getD k false) :=
  accSparse_pointwise pts xs ys ptBytes dBytes bs rest s buf flags n hb hf hcount hit hx hy hnd hlx hly

/-- **scalar × delta is exact**: `Fixed::from_i32(d) * scalar` (and the `scalar == ONE` shortcut)
is the integer product `d * scalar` — no rounding happens when a delta is scaled. -/
theorem scaled_delta_exact (s d : Int) (hd : -32768 ≤ d ∧ d ≤ 32767)
    (hp : -2147483648 ≤ d * s ∧ d * s < 2147483648) : fxScaled s d = d * s :=
  fxScaled_exact s d hd hp

/-! ### inference of untouched points in 16.16 -/

/-- **one axis of `Jiggler::interpolate` in 16.16 against exact interpolation.**  Reference points
with coordinates `p1`, `p2` whose working values are `p * 65536 + e` (`e` = the scaled explicit
delta in units of 2⁻¹⁶), untouched point at `c`; coordinates within `±M ≤ 16383`, scaled deltas
within `±E`, `131072 M + 4 E + 65536 < 2³¹` (nothing wraps).  With `num / den` the exact inference
(`readerAxis` = the writer's `iup_segment`, `reader_infer_eq_writer_segment`) of the 16.16 deltas:
`|den · δ − num| ≤ den · dist / 2`, where `δ` is the 16.16 delta the code infers and `dist` is how
far `c` lies inside the reference interval — exact (`dist = 0`) at and outside the references. -/
theorem interpolate_fixed_error_bound (p1 p2 c e1 e2 M E : Int)
    (hp1 : -M ≤ p1 ∧ p1 ≤ M) (hp2 : -M ≤ p2 ∧ p2 ≤ M) (hc : -M ≤ c ∧ c ≤ M)
    (he1 : -E ≤ e1 ∧ e1 ≤ E) (he2 : -E ≤ e2 ∧ e2 ≤ E)
    (hM : 0 ≤ M ∧ M ≤ 16383) (hE : 0 ≤ E) (hfit : 131072 * M + 4 * E + 65536 ≤ 2147483647) :
    let nd := Iup.readerAxis p1 e1 p2 e2 c
    let δ := Iup.fxInterpAxis p1 (p1 * 65536 + e1) p2 (p2 * 65536 + e2) c (c * 65536) - c * 65536
    0 < nd.2 ∧ 2 * (nd.2 * δ - nd.1) ≤ nd.2 * interpDist p1 p2 c ∧
      2 * (nd.1 - nd.2 * δ) ≤ nd.2 * interpDist p1 p2 c ∧
      0 ≤ interpDist p1 p2 c ∧ interpDist p1 p2 c ≤ nd.2 - 1 := by
  intro nd δ
  obtain ⟨a, b, c'⟩ := fxInterpAxis_bound p1 p2 c e1 e2 M E hp1 hp2 hc he1 he2 hM hE hfit
  obtain ⟨d, e⟩ := interpDist_lt_den p1 e1 p2 e2 c
  exact ⟨a, b, c', d, e⟩

/- HEADLINE (what the property asks): for every simple glyph (any number of contours), every list of
tuples and every location, skrifa's adjusted coordinate = point + to_i32(T) lies within
1/2 + Σ_t (den_t − 1)/131072 font units of  point + Σ_t (s_t/65536) · I_t(k),  I_t(k) = num_t/den_t the
specification's explicit-or-inferred delta of tuple t at point k.  It is reached by composing, all
proved for all inputs: `simple_glyph_closed_formula` (the fold over the tuples is the ordered sum of
the per-tuple contributions mod 2³², the plain sum without wrap; `tuple_order_irrelevant`),
`apply_deltas_eq_spec` (one tuple, any list of contours: contribution vs specification;
`apply_deltas_eq_spec_one_contour` is its one-contour case used by the induction),
`accumulate_sparse_pointwise` + `scaled_delta_exact` (the working buffer the per-tuple theorem starts
from), `applied_coordinate_within_rounding` (sum of the per-tuple bounds + the final rounding), and
`tuple_scalar_error_bound` for the exact tent scalars.  The composition is ONE theorem from the decoded
tuples (scalar, explicit flags, deltas) to the output coordinate: `applied_outline_within_rounding` (x)
and `applied_outline_within_rounding_y` (y).  From the table BYTES: `simple_glyph_eq_applyDecoded` and
`simple_glyph_within_rounding` (both axes), for active tuples with explicit point numbers (`SparseWF`:
distinct point numbers; out-of-range numbers skipped) and all-points tuples (`DenseWF`,
`dense_contribution_eq`) alike. -/
/-- **`apply_deltas_eq_spec_one_contour` — one tuple, one contour (+ the four phantom points).**
`points` = the `n` contour points then the phantom points (coordinates within `±M`); the tuple lists
explicit deltas `ds` (zero where `has` is false, magnitudes within `Δ`) and is applied with the
16.16 scalar `0 < s ≤ 65536`; `131072 M + 4·Δ·65536 + 65536 < 2³¹`.  The working buffer after
`accumulate_sparse_deltas` is `workOf points (ds · s)` (`accumulate_sparse_pointwise`,
`scaled_delta_exact`).  Then `interpolate_deltas` succeeds and, for every contour point `k`, the
delta `simple_glyph` adds for this tuple, `δ_k = working_k − point_k·65536`, satisfies on each axis

  `|den · δ_k − s · num| ≤ den · (den − 1) / 2`,

where `num / den = inferSpec points ds has k` is the SPECIFICATION's inferred delta (unscaled):
`den = 1` — i.e. `δ_k = s · d_k` exactly — for explicit points, for the shifted points of a contour
with one explicit point and for points clamped to a reference; `den` = the coordinate distance of
the two reference points for interpolated points (error ≤ (den−1)/2 units of 2⁻¹⁶).  The phantom
points keep their working values (their delta is explicit or zero). -/
theorem apply_deltas_eq_spec_one_contour (n : Nat) (hn : 0 < n) (points ds : List Iup.Pt) (has : List Bool) (s : Int)
    (hpl : points.length = n + 4) (hhl : has.length = n + 4) (hdl : ds.length = n + 4)
    (M Δ : Int) (hM : 0 ≤ M ∧ M ≤ 16383) (hΔ : 0 ≤ Δ) (hs : 0 < s ∧ s ≤ 65536)
    (hfit : 131072 * M + 4 * (Δ * 65536) + 65536 ≤ 2147483647)
    (hpts : ∀ k, (-M ≤ (Iup.getP points k).1 ∧ (Iup.getP points k).1 ≤ M) ∧
      (-M ≤ (Iup.getP points k).2 ∧ (Iup.getP points k).2 ≤ M))
    (hds : ∀ k, (-Δ ≤ (Iup.getP ds k).1 ∧ (Iup.getP ds k).1 ≤ Δ) ∧ (-Δ ≤ (Iup.getP ds k).2 ∧ (Iup.getP ds k).2 ≤ Δ))
    (hds0 : ∀ k, has.getD k false = false → Iup.getP ds k = (0, 0)) :
    ∃ out, Iup.readerInterpolate points has [n - 1]
        (workOf points (ds.map fun d => (d.1 * s, d.2 * s))) = some out ∧ out.length = n + 4 ∧
      (∀ k, k < n →
        let I := Iup.inferSpec points (ds.take n) has k
        let δx := (Iup.getP out k).1 - (Iup.getP points k).1 * 65536
        let δy := (Iup.getP out k).2 - (Iup.getP points k).2 * 65536
        0 < I.1.2 ∧ 0 < I.2.2 ∧
        2 * (I.1.2 * δx - I.1.1 * s) ≤ I.1.2 * (I.1.2 - 1) ∧ 2 * (I.1.1 * s - I.1.2 * δx) ≤ I.1.2 * (I.1.2 - 1) ∧
        2 * (I.2.2 * δy - I.2.1 * s) ≤ I.2.2 * (I.2.2 - 1) ∧ 2 * (I.2.1 * s - I.2.2 * δy) ≤ I.2.2 * (I.2.2 - 1) ∧
        (has.getD k false = true → δx = (Iup.getP ds k).1 * s ∧ δy = (Iup.getP ds k).2 * s)) ∧
      (∀ k, n ≤ k → k < n + 4 →
        Iup.getP out k = ((Iup.getP points k).1 * 65536 + (Iup.getP ds k).1 * s,
                          (Iup.getP points k).2 * 65536 + (Iup.getP ds k).2 * s)) := by
  have hg : ∀ i, Iup.getP (ds.map fun d => (d.1 * s, d.2 * s)) i = ((Iup.getP ds i).1 * s, (Iup.getP ds i).2 * s) := by
    intro i
    unfold Iup.getP
    rw [List.getD_eq_getElem?_getD, List.getD_eq_getElem?_getD, List.getElem?_map]
    cases ds[i]? <;> simp
  have hexb : ∀ k, (-(Δ * 65536) ≤ (Iup.getP (ds.map fun d => (d.1 * s, d.2 * s)) k).1 ∧
        (Iup.getP (ds.map fun d => (d.1 * s, d.2 * s)) k).1 ≤ Δ * 65536) ∧
      (-(Δ * 65536) ≤ (Iup.getP (ds.map fun d => (d.1 * s, d.2 * s)) k).2 ∧
        (Iup.getP (ds.map fun d => (d.1 * s, d.2 * s)) k).2 ≤ Δ * 65536) := by
    intro k
    rw [hg k]
    obtain ⟨⟨a1, a2⟩, ⟨a3, a4⟩⟩ := hds k
    simp only []
    refine ⟨⟨?_, ?_⟩, ⟨?_, ?_⟩⟩ <;> nlinarith
  obtain ⟨out, e, hl, hc, hph⟩ := contour_contribution n 4 hn points (ds.map fun d => (d.1 * s, d.2 * s)) has
    hpl hhl (by simp [hdl]) M (Δ * 65536) hM (by omega) hfit hpts hexb
    (fun k hk => by rw [hg k, hds0 k hk]; simp)
  refine ⟨out, e, hl, fun k hk => ?_, fun k hk1 hk2 => ?_⟩
  · have hnear := hc k hk
    have htake : (ds.map fun d => (d.1 * s, d.2 * s)).take n = (ds.take n).map fun d => (d.1 * s, d.2 * s) := by
      rw [List.map_take]
    rw [htake, inferSpec_scale points (ds.take n) has k s (by omega)] at hnear
    obtain ⟨n1, n2, n3, n4, n5, n6⟩ := hnear
    simp only [] at n1 n2 n3 n4 n5 n6
    refine ⟨n1, n2, n3, n4, n5, n6, fun hh => ?_⟩
    -- explicit point: the denominators are 1
    have hI : Iup.inferSpec points (ds.take n) has k = (((Iup.getP ds k).1, 1), ((Iup.getP ds k).2, 1)) := by
      unfold Iup.inferSpec; rw [if_pos hh, getP_take ds n k hk]
    rw [hI] at n3 n4 n5 n6
    simp only [] at n3 n4 n5 n6
    constructor <;> omega
  · rw [hph k hk1 hk2, getP_workOf _ _ k (by omega), hg k]

/-- **`apply_deltas_eq_spec` — one tuple, ANY list of contours.**  `ends` are the contour end points
(`ContoursWF`: ascending, inside the glyph; contours are `0 ..= e₀`, `e₀+1 ..= e₁`, …), the points
from `endOf 0 ends` on (the phantom points) belong to no contour.  With the hypotheses of
`apply_deltas_eq_spec_one_contour` (coordinates within `±M`, deltas within `±Δ`, scalar `0 < s ≤ 65536`,
nothing wraps), `interpolate_deltas` over the whole glyph succeeds, and by induction over the
contour list (`glyphLoop_contribution`: a contour at `first ..= last` is processed exactly like the
same contour moved to the front — `readerContourCalls_shift`, `applyCall_shift` — changes only its own
points, and later contours never touch earlier points):
for EVERY contour `first ..= last` and every point `k` of it, the delta added for this tuple,
`δ_k = working_k − point_k·65536`, satisfies on each axis `|den · δ_k − s · num| ≤ den · (den − 1) / 2`,
where `num / den` is the SPECIFICATION's inference applied to that contour on its own
(`inferSpec` on the contour's slice of the points, deltas and explicit flags, index `k − first`),
with `δ_k = s · d_k` exactly for explicit points; the points after the last contour keep
`point·65536 + s · d` (explicit) or the point itself (`d = 0`). -/
theorem apply_deltas_eq_spec (np : Nat) (points ds : List Iup.Pt) (has : List Bool) (s : Int) (ends : List Nat)
    (hpl : points.length = np) (hhl : has.length = np) (hdl : ds.length = np)
    (hwf : ContoursWF np 0 ends)
    (M Δ : Int) (hM : 0 ≤ M ∧ M ≤ 16383) (hΔ : 0 ≤ Δ) (hs : 0 < s ∧ s ≤ 65536)
    (hfit : 131072 * M + 4 * (Δ * 65536) + 65536 ≤ 2147483647)
    (hpts : ∀ k, (-M ≤ (Iup.getP points k).1 ∧ (Iup.getP points k).1 ≤ M) ∧
      (-M ≤ (Iup.getP points k).2 ∧ (Iup.getP points k).2 ≤ M))
    (hds : ∀ k, (-Δ ≤ (Iup.getP ds k).1 ∧ (Iup.getP ds k).1 ≤ Δ) ∧ (-Δ ≤ (Iup.getP ds k).2 ∧ (Iup.getP ds k).2 ≤ Δ))
    (hds0 : ∀ k, has.getD k false = false → Iup.getP ds k = (0, 0)) :
    ∃ out, Iup.readerInterpolate points has ends
        (workOf points (ds.map fun d => (d.1 * s, d.2 * s))) = some out ∧ out.length = np ∧
      ContoursAll (fun first last => ∀ k, first ≤ k → k ≤ last →
        let I := Iup.inferSpec (points.drop first) ((ds.drop first).take (last - first + 1)) (has.drop first) (k - first)
        let δx := (Iup.getP out k).1 - (Iup.getP points k).1 * 65536
        let δy := (Iup.getP out k).2 - (Iup.getP points k).2 * 65536
        0 < I.1.2 ∧ 0 < I.2.2 ∧
        2 * (I.1.2 * δx - I.1.1 * s) ≤ I.1.2 * (I.1.2 - 1) ∧ 2 * (I.1.1 * s - I.1.2 * δx) ≤ I.1.2 * (I.1.2 - 1) ∧
        2 * (I.2.2 * δy - I.2.1 * s) ≤ I.2.2 * (I.2.2 - 1) ∧ 2 * (I.2.1 * s - I.2.2 * δy) ≤ I.2.2 * (I.2.2 - 1) ∧
        (has.getD k false = true → δx = (Iup.getP ds k).1 * s ∧ δy = (Iup.getP ds k).2 * s)) 0 ends ∧
      (∀ k, endOf 0 ends ≤ k → k < np →
        Iup.getP out k = ((Iup.getP points k).1 * 65536 + (Iup.getP ds k).1 * s,
                          (Iup.getP points k).2 * 65536 + (Iup.getP ds k).2 * s)) := by
  have hg : ∀ i, Iup.getP (ds.map fun d => (d.1 * s, d.2 * s)) i = ((Iup.getP ds i).1 * s, (Iup.getP ds i).2 * s) := by
    intro i
    unfold Iup.getP
    rw [List.getD_eq_getElem?_getD, List.getD_eq_getElem?_getD, List.getElem?_map]
    cases ds[i]? <;> simp
  have hexb : ∀ k, (-(Δ * 65536) ≤ (Iup.getP (ds.map fun d => (d.1 * s, d.2 * s)) k).1 ∧
        (Iup.getP (ds.map fun d => (d.1 * s, d.2 * s)) k).1 ≤ Δ * 65536) ∧
      (-(Δ * 65536) ≤ (Iup.getP (ds.map fun d => (d.1 * s, d.2 * s)) k).2 ∧
        (Iup.getP (ds.map fun d => (d.1 * s, d.2 * s)) k).2 ≤ Δ * 65536) := by
    intro k
    rw [hg k]
    obtain ⟨⟨a1, a2⟩, ⟨a3, a4⟩⟩ := hds k
    simp only []
    refine ⟨⟨?_, ?_⟩, ⟨?_, ?_⟩⟩ <;> nlinarith
  have hwl : (workOf points (ds.map fun d => (d.1 * s, d.2 * s))).length = np := by simp [workOf, hpl]
  obtain ⟨out, e, hl, _, hall, htail⟩ := glyphLoop_contribution np points (ds.map fun d => (d.1 * s, d.2 * s)) has
    hpl hhl (by simp [hdl]) M (Δ * 65536) hM (by omega) hfit hpts hexb
    (fun k hk => by rw [hg k, hds0 k hk]; simp) ends 0 _ hwf hwl (fun k _ _ => rfl)
  rw [← hpl, ← readerInterpolate_eq_glyphLoop] at e
  refine ⟨out, e, hl, ?_, ?_⟩
  · refine ContoursAll_mono ends 0 ?_ hall
    intro first last hnear k hk1 hk2
    have hn := hnear k hk1 hk2
    have htake : ((ds.map fun d => (d.1 * s, d.2 * s)).drop first).take (last - first + 1)
        = ((ds.drop first).take (last - first + 1)).map fun d => (d.1 * s, d.2 * s) := by
      rw [List.map_take, List.map_drop]
    rw [htake, inferSpec_scale _ _ _ _ s (by omega)] at hn
    obtain ⟨n1, n2, n3, n4, n5, n6⟩ := hn
    simp only [] at n1 n2 n3 n4 n5 n6
    refine ⟨n1, n2, n3, n4, n5, n6, fun hh => ?_⟩
    have hk' : k - first < last - first + 1 := by omega
    have hI : Iup.inferSpec (points.drop first) ((ds.drop first).take (last - first + 1)) (has.drop first) (k - first)
        = (((Iup.getP ds k).1, 1), ((Iup.getP ds k).2, 1)) := by
      unfold Iup.inferSpec
      have : (has.drop first).getD (k - first) false = true := by
        rw [getD_drop_bool]; have : first + (k - first) = k := by omega
        rw [this]; exact hh
      rw [if_pos this, getP_take _ _ _ hk', getP_drop]
      have : first + (k - first) = k := by omega
      rw [this]
    rw [hI] at n3 n4 n5 n6
    simp only [] at n3 n4 n5 n6
    constructor <;> omega
  · intro k hk1 hk2
    rw [htail k hk1 hk2, getP_workOf _ _ k (by omega), hg k]

/-! ### accumulation over tuples and the final rounding -/

/-- `simple_glyph`'s sparse path adds, for every point, exactly `working − point` (wrapping 16.16)
to the accumulated deltas; entries beyond the points are untouched. -/
theorem simple_sparse_tuple_adds (points : List GvarApply.Pt) (ends : List Nat) (t : RawTuple)
    (sp : Option (List Nat)) (scalar : Int) (deltas deltas' : List GvarApply.Pt)
    (h : simpleSparseTuple points ends t sp scalar deltas = some deltas') :
    ∃ buf has out, accSparse (t.ptsAndDeltas sp).1 (t.ptsAndDeltas sp).2 scalar
        (points.map ptFromI32) (points.map fun _ => false) = some (buf, has) ∧
      Iup.readerInterpolate points has ends buf = some out ∧
      deltas'.length = deltas.length ∧
      ∀ k, k < deltas.length → k < points.length →
        deltas'.getD k (0, 0) = ptAdd (deltas.getD k (0, 0))
          (ptSub (out.getD k (0, 0)) (ptFromI32 (points.getD k (0, 0)))) := by
  unfold simpleSparseTuple at h
  simp only [] at h
  split at h
  · cases h
  · rename_i buf has hacc
    split at h
    · cases h
    · rename_i out hout
      injection h with h
      subst h
      refine ⟨buf, has, out, hacc, hout, by simp, fun k hk hkp => ?_⟩
      rw [List.getD_eq_getElem?_getD, List.getElem?_map, List.getElem?_range hk]
      simp [hkp]

/-- **the scaler's final rounding**: `Fixed::to_i32` of an accumulated 16.16 delta `T` (no wrap) is
`⌊T / 65536 + 1/2⌋`: the adjusted coordinate is `point + R` exactly when
`65536·R − 32768 ≤ T < 65536·R + 32768`.  Hence, with `|T − 65536·E| ≤ B` from the theorems above,
the drawn (unscaled) coordinate is `round(point + E)` whenever `E` is at least `B / 65536` away from
a rounding boundary. -/
theorem final_rounding (T R : Int) (hT : -2147483648 ≤ T ∧ T < 2147450880) :
    Fixed.toI32 T = R ↔ (65536 * R - 32768 ≤ T ∧ T < 65536 * R + 32768) := by
  unfold Fixed.toI32
  rw [wrapI32_of_in (by omega) (by omega)]
  constructor
  · intro h; subst h; omega
  · intro h; omega

/-! ### all tuples: the closed formula, the order, the headline bound -/

/-- **the fold over the tuples is a sum.**  skrifa's `simple_glyph` (deltas.rs: `compute_deltas_for_glyph`
visits `var_data.active_tuples_at(coords)` in tuple order; a tuple with deltas for all points goes
through `accumulate_dense_deltas`, any other through the closure `*delta += *iup_point - point`) returns,
whenever it returns `Ok`, for every point `k` exactly

  `delta_k = ( Σ_t c_t(k).x  mod 2³² , Σ_t c_t(k).y  mod 2³² )`   (wrapping 16.16, `wrapI32`),

one contribution list `c_t` per active tuple, in order, each characterised by `TupleContribution`:
the scaled listed deltas for an all-points tuple, `working − point` after
`accumulate_sparse_deltas` + `interpolate_deltas` on a FRESH buffer with CLEARED flags for the others
(this is where `apply_deltas_eq_spec` applies).  When the column sum fits an i32 nothing wraps and
`delta_k` IS the sum. -/
theorem simple_glyph_closed_formula (ax : Nat) (shared : List (List Int)) (bytes : List Nat)
    (coords : List Int) (points : List GvarApply.Pt) (ends : List Nat) (g : GlyphRead) (deltas : List GvarApply.Pt)
    (hr : readGlyph ax bytes = some g) (hne : activeTuples ax shared g coords ≠ [])
    (h : simpleGlyph ax shared (some bytes) coords points ends = some deltas) :
    ∃ cs : List (List GvarApply.Pt), cs.length = (activeTuples ax shared g coords).length ∧
      (∀ p ∈ (activeTuples ax shared g coords).zip cs, TupleContribution points ends g.sharedPts p.1 p.2) ∧
      deltas.length = points.length ∧
      ∀ k, k < points.length →
        deltas.getD k (0, 0) = (wrapI32 (colX cs k), wrapI32 (colY cs k)) ∧
        ((-2147483648 ≤ colX cs k ∧ colX cs k < 2147483648) → (deltas.getD k (0, 0)).1 = colX cs k) ∧
        ((-2147483648 ≤ colY cs k ∧ colY cs k < 2147483648) → (deltas.getD k (0, 0)).2 = colY cs k) := by
  unfold simpleGlyph at h
  split at h
  · cases h
  · simp only [hr] at h
    have hz : (points.map fun _ => ((0 : Int), (0 : Int))).length = points.length := by simp
    obtain ⟨cs, l1, l2, l3⟩ := foldl_steps points.length
      (fun d (ts : RawTuple × Int) => if ts.1.allPoints g.sharedPts then accDense (ts.1.ptsAndDeltas g.sharedPts).2 ts.2 d
        else simpleSparseTuple points ends ts.1 g.sharedPts ts.2 d)
      (TupleContribution points ends g.sharedPts)
      (fun acc a acc' hl hs => step_contribution points ends g.sharedPts acc a acc' hl hs)
      (activeTuples ax shared g coords) _ deltas hz h
    have hcs : cs ≠ [] := by
      intro hc; subst hc; simp at l1; exact hne (List.length_eq_zero_iff.mp l1.symm)
    have hzero : (points.map fun _ => ((0 : Int), (0 : Int))) = (List.range points.length).map fun _ => ((0 : Int), (0 : Int)) := by
      apply List.ext_getElem (by simp)
      intro i h1 h2; simp
    refine ⟨cs, l1, l2, by rw [l3, foldl_stepAdd_length, hz], fun k hk => ?_⟩
    have := accumulate_closed cs points.length k hk hcs
    rw [← hzero, ← l3] at this
    refine ⟨this, fun hx => ?_, fun hy => ?_⟩
    · rw [this]; exact wrapI32_of_in hx.1 hx.2
    · rw [this]; exact wrapI32_of_in hy.1 hy.2

/-- **the order of the tuples does not matter** (wrapping addition is commutative and associative
mod 2³²): accumulating the same contributions in any other order gives the same deltas, entry by
entry — with or without wrap-around. -/
theorem tuple_order_irrelevant (cs cs' : List (List GvarApply.Pt)) (h : cs.Perm cs') (np k : Nat)
    (hk : k < np) (hne : cs ≠ []) :
    (cs.foldl stepAdd ((List.range np).map fun _ => ((0 : Int), (0 : Int)))).getD k (0, 0)
      = (cs'.foldl stepAdd ((List.range np).map fun _ => ((0 : Int), (0 : Int)))).getD k (0, 0) := by
  have hne' : cs' ≠ [] := by
    intro hc; subst hc; exact hne (List.Perm.eq_nil h)
  rw [accumulate_closed cs np k hk hne, accumulate_closed cs' np k hk hne', colX_perm cs cs' h, colY_perm cs cs' h]

/-- **headline: every output coordinate is within the stated rounding error of
`original + Σ_t scalar_t · (explicit or IUP-inferred delta_t)`.**  One axis of one point.  `terms`
lists, for every active tuple in order, its 16.16 contribution `δ_t` (a column of
`simple_glyph_closed_formula`), its 16.16 scalar `s_t` and the specification's inferred delta
`num_t / den_t`, related by `Term.Ok` — which is exactly the conclusion of `apply_deltas_eq_spec`
for a tuple with explicit points (its hypothesis on the working buffer being
`accumulate_sparse_pointwise` + `scaled_delta_exact`) and holds with `den = 1` for an all-points
tuple (`scaled_delta_exact`).  No-wrap hypothesis summed over the tuples: the total `T = Σ_t δ_t`
lies in `[-2³¹, 2³¹ - 32768)` — e.g. `T` tuples each with `|δ_t| ≤ B` and `T·B < 2³¹ - 32768`.  Then the
scaler's unscaled coordinate `p + Fixed::to_i32(T)` (skrifa glyf/mod.rs `load_simple`:
`*unscaled += delta.map(Fixed::to_i32)`, `Fixed::to_i32 = (x + 0x8000) >> 16`; the scaled path
rounds with `Fixed::to_f26dot6 = (x + 0x200) >> 10` instead) satisfies

  `| (p + R) − ( p + Σ_t (s_t / 65536) · num_t / den_t ) |  ≤  1/2 + Σ_t (den_t − 1) / 131072`,

`1/2` being the final rounding and `(den_t − 1)/131072` font units the 16.16 interpolation error of
tuple `t` (zero for explicit, shifted and clamped points).  With `tuple_scalar_error_bound`
(`|s_t − 65536·S_t| ≤ k_t/2`) the same holds against the exact tent scalars `S_t` with
`Σ_t k_t·|num_t/den_t| / 131072` added. -/
theorem applied_coordinate_within_rounding (terms : List Term) (hok : ∀ t ∈ terms, t.Ok) (p : Int)
    (hfit : -2147483648 ≤ (terms.map (·.δ)).sum ∧ (terms.map (·.δ)).sum < 2147450880) :
    |(((p + Fixed.toI32 (terms.map (·.δ)).sum : Int) : ℚ))
        - ((p : ℚ) + (terms.map fun t => (t.s : ℚ) * ((t.num : ℚ) / t.den)).sum / 65536)|
      ≤ 1 / 2 + (terms.map fun t => ((t.den : ℚ) - 1) / 2).sum / 65536 := by
  have hsum := sum_near_rat terms hok
  generalize (terms.map (·.δ)).sum = T at hsum hfit
  generalize (terms.map fun t => (t.s : ℚ) * ((t.num : ℚ) / t.den)).sum = E at hsum
  generalize (terms.map fun t => ((t.den : ℚ) - 1) / 2).sum = B at hsum
  have hR : 65536 * Fixed.toI32 T - 32768 ≤ T ∧ T < 65536 * Fixed.toI32 T + 32768 :=
    (final_rounding T (Fixed.toI32 T) hfit).mp rfl
  generalize Fixed.toI32 T = R at hR
  have h1 : (65536 : ℚ) * R - 32768 ≤ T := by exact_mod_cast hR.1
  have h2 : (T : ℚ) < 65536 * R + 32768 := by exact_mod_cast hR.2
  obtain ⟨h3, h4⟩ := abs_le.mp hsum
  push_cast
  rw [abs_le]
  constructor <;> linarith

/-- **`applied_outline_within_rounding` — the headline as ONE theorem, from the decoded tuples to the
output coordinate** (x axis; the y axis is the same statement with the second components).
Glyph: `np` points with coordinates within `±M ≤ 16383`, contour ends `ends` (`ContoursWF`).  Tuples:
any non-empty list of decoded tuples `t` (16.16 scalar `0 < t.s ≤ 65536`, explicit flags `t.has`,
deltas `t.ds` within `±Δ`, zero where not explicit; a dense tuple has every flag set), with
`131072 M + 4·Δ·65536 + 65536 < 2³¹`.  Point: `k` in the contour `c = (first, last)`.  With
`I_t = inferSpec` on that contour's slice (the specification's explicit-or-inferred delta of tuple
`t` at `k`, as `num_t / den_t`) and the no-wrap bound on the total
`|Σ_t s_t · I_t| + Σ_t (den_t − 1)/2 < 2³¹ − 32768`:
`applyDecoded` — skrifa's `simple_glyph` fold on the decoded tuples: per tuple a fresh working buffer
`point·65536 + s·d` (= what `accumulate_sparse_deltas` leaves, `accSparse_eq_workOf`), `interpolate_deltas`,
`delta += working − point` with wrapping addition in tuple order — succeeds, and the scaler's unscaled
coordinate `p + Fixed::to_i32(delta_k)` satisfies

  `| (p + R) − ( p + Σ_t (s_t/65536) · num_t/den_t ) |  ≤  1/2 + Σ_t (den_t − 1)/131072`. -/
theorem applied_outline_within_rounding (np : Nat) (points : List Iup.Pt) (ends : List Nat) (ts : List DTuple)
    (hpl : points.length = np) (hwf : ContoursWF np 0 ends) (hne : ts ≠ [])
    (M Δ : Int) (hM : 0 ≤ M ∧ M ≤ 16383) (hΔ : 0 ≤ Δ)
    (hfit : 131072 * M + 4 * (Δ * 65536) + 65536 ≤ 2147483647)
    (hpts : ∀ k, (-M ≤ (Iup.getP points k).1 ∧ (Iup.getP points k).1 ≤ M) ∧
      (-M ≤ (Iup.getP points k).2 ∧ (Iup.getP points k).2 ≤ M))
    (hts : ∀ t ∈ ts, t.has.length = np ∧ t.ds.length = np ∧ (0 < t.s ∧ t.s ≤ 65536) ∧
      (∀ k, (-Δ ≤ (Iup.getP t.ds k).1 ∧ (Iup.getP t.ds k).1 ≤ Δ) ∧ (-Δ ≤ (Iup.getP t.ds k).2 ∧ (Iup.getP t.ds k).2 ≤ Δ)) ∧
      (∀ k, t.has.getD k false = false → Iup.getP t.ds k = (0, 0)))
    (c : Nat × Nat) (hc : c ∈ contoursOf 0 ends) (k : Nat) (hk1 : c.1 ≤ k) (hk2 : k ≤ c.2)
    (hwrap : |(ts.map fun t => (t.s : ℚ) *
          (((Iup.inferSpec (points.drop c.1) ((t.ds.drop c.1).take (c.2 - c.1 + 1)) (t.has.drop c.1) (k - c.1)).1.1 : ℚ) /
            (Iup.inferSpec (points.drop c.1) ((t.ds.drop c.1).take (c.2 - c.1 + 1)) (t.has.drop c.1) (k - c.1)).1.2)).sum|
        + (ts.map fun t =>
          (((Iup.inferSpec (points.drop c.1) ((t.ds.drop c.1).take (c.2 - c.1 + 1)) (t.has.drop c.1) (k - c.1)).1.2 : ℚ) - 1) / 2).sum
        < 2147450880) :
    ∃ deltas, applyDecoded points ends ts = some deltas ∧
      |(((Iup.getP points k).1 + Fixed.toI32 (deltas.getD k (0, 0)).1 : Int) : ℚ)
        - (((Iup.getP points k).1 : ℚ) + (ts.map fun t => (t.s : ℚ) *
          (((Iup.inferSpec (points.drop c.1) ((t.ds.drop c.1).take (c.2 - c.1 + 1)) (t.has.drop c.1) (k - c.1)).1.1 : ℚ) /
            (Iup.inferSpec (points.drop c.1) ((t.ds.drop c.1).take (c.2 - c.1 + 1)) (t.has.drop c.1) (k - c.1)).1.2)).sum / 65536)|
      ≤ 1 / 2 + (ts.map fun t =>
          (((Iup.inferSpec (points.drop c.1) ((t.ds.drop c.1).take (c.2 - c.1 + 1)) (t.has.drop c.1) (k - c.1)).1.2 : ℚ) - 1) / 2).sum / 65536 := by
  -- the point lies inside the glyph
  have hcw := ContoursAll_mem ends 0 (ContoursWF_all np ends 0 hwf) c hc
  have hknp : k < np := by omega
  -- per tuple: `interpolate_deltas` succeeds and the contribution is near the specification
  have hper : ∀ t ∈ ts, ∃ out, Iup.readerInterpolate points t.has ends (t.work points) = some out ∧
      Term.Ok ⟨(Iup.getP out k).1 - (Iup.getP points k).1 * 65536, t.s,
        (Iup.inferSpec (points.drop c.1) ((t.ds.drop c.1).take (c.2 - c.1 + 1)) (t.has.drop c.1) (k - c.1)).1.1,
        (Iup.inferSpec (points.drop c.1) ((t.ds.drop c.1).take (c.2 - c.1 + 1)) (t.has.drop c.1) (k - c.1)).1.2⟩ := by
    intro t ht
    obtain ⟨h1, h2, h3, h4, h5⟩ := hts t ht
    obtain ⟨out, e, _, hall, _⟩ := apply_deltas_eq_spec np points t.ds t.has t.s ends hpl h1 h2 hwf M Δ hM hΔ h3 hfit
      hpts h4 h5
    have := ContoursAll_mem ends 0 hall c hc k hk1 hk2
    simp only [] at this
    obtain ⟨a1, _, a3, a4, _⟩ := this
    exact ⟨out, e, a1, a3, a4⟩
  -- the contributions
  let f : DTuple → List Iup.Pt := fun t =>
    (List.range points.length).map fun j => ptSub ((outOf points ends t).getD j (0, 0)) (ptFromI32 (points.getD j (0, 0)))
  have hdec : ∀ t ∈ ts, decodedContribution points ends t = some (f t) := by
    intro t ht
    obtain ⟨out, e, _⟩ := hper t ht
    simp only [decodedContribution, f, outOf, e, Option.map_some, Option.getD_some]
  have hfold : applyDecoded points ends ts = _ :=
    applyDecoded_fold points ends f ts ((List.range points.length).map fun _ => ((0 : Int), (0 : Int))) hdec
  have hmapne : ts.map f ≠ [] := by simpa using hne
  refine ⟨_, hfold, ?_⟩
  have hcl := accumulate_closed (ts.map f) points.length k (by omega) hmapne
  rw [hcl]
  simp only []
  -- the column: wrapped per-tuple differences
  have hp : Iup.fxFromI32 (Iup.getP points k).1 = (Iup.getP points k).1 * 65536 := by
    obtain ⟨⟨b1, b2⟩, _⟩ := hpts k
    unfold Iup.fxFromI32; exact wrapI32_of_in (by omega) (by omega)
  have hcol : colX (ts.map f) k = ((ts.map fun t => ((Iup.getP (outOf points ends t) k).1 - (Iup.getP points k).1 * 65536)).map wrapI32).sum := by
    unfold colX
    rw [List.map_map, List.map_map]
    congr 1
    apply List.map_congr_left
    intro t _
    simp only [Function.comp, f]
    rw [List.getD_eq_getElem?_getD, List.getElem?_map, List.getElem?_range (by omega)]
    simp only [Option.map_some, Option.getD_some, ptSub, ptFromI32, Iup.fxSub]
    have : Fixed.fromI32 (points.getD k (0, 0)).1 = (Iup.getP points k).1 * 65536 := by rw [← fxFromI32_eq]; exact hp
    rw [this]; rfl
  rw [hcol, wrap_sum_wrap]
  -- the terms
  let terms : List Term := ts.map fun t =>
    ⟨(Iup.getP (outOf points ends t) k).1 - (Iup.getP points k).1 * 65536, t.s,
      (Iup.inferSpec (points.drop c.1) ((t.ds.drop c.1).take (c.2 - c.1 + 1)) (t.has.drop c.1) (k - c.1)).1.1,
      (Iup.inferSpec (points.drop c.1) ((t.ds.drop c.1).take (c.2 - c.1 + 1)) (t.has.drop c.1) (k - c.1)).1.2⟩
  have hok : ∀ x ∈ terms, x.Ok := by
    intro x hx
    obtain ⟨t, ht, rfl⟩ := List.mem_map.mp hx
    obtain ⟨out, e, ok⟩ := hper t ht
    have : outOf points ends t = out := by simp [outOf, e]
    rw [this]; exact ok
  have e1 : (ts.map fun t => ((Iup.getP (outOf points ends t) k).1 - (Iup.getP points k).1 * 65536)) = terms.map (·.δ) := by
    simp only [terms, List.map_map]; rfl
  have e2 : (ts.map fun t => (t.s : ℚ) *
          (((Iup.inferSpec (points.drop c.1) ((t.ds.drop c.1).take (c.2 - c.1 + 1)) (t.has.drop c.1) (k - c.1)).1.1 : ℚ) /
            (Iup.inferSpec (points.drop c.1) ((t.ds.drop c.1).take (c.2 - c.1 + 1)) (t.has.drop c.1) (k - c.1)).1.2))
      = terms.map fun t => (t.s : ℚ) * ((t.num : ℚ) / t.den) := by
    simp only [terms, List.map_map]; rfl
  have e3 : (ts.map fun t =>
          (((Iup.inferSpec (points.drop c.1) ((t.ds.drop c.1).take (c.2 - c.1 + 1)) (t.has.drop c.1) (k - c.1)).1.2 : ℚ) - 1) / 2)
      = terms.map fun t => ((t.den : ℚ) - 1) / 2 := by
    simp only [terms, List.map_map]; rfl
  rw [e1]
  rw [e2, e3] at hwrap ⊢
  -- nothing wraps
  have hsum := sum_near_rat terms hok
  have hT : -2147483648 ≤ (terms.map (·.δ)).sum ∧ (terms.map (·.δ)).sum < 2147450880 := by
    obtain ⟨g1, g2⟩ := abs_le.mp hsum
    have g3 := le_abs_self ((terms.map fun t => (t.s : ℚ) * ((t.num : ℚ) / t.den)).sum)
    have g4 := neg_abs_le ((terms.map fun t => (t.s : ℚ) * ((t.num : ℚ) / t.den)).sum)
    constructor
    · have : (-2147483648 : ℚ) ≤ ((terms.map (·.δ)).sum : Int) := by linarith
      exact_mod_cast this
    · have : (((terms.map (·.δ)).sum : Int) : ℚ) < 2147450880 := by linarith
      exact_mod_cast this
  rw [wrapI32_of_in hT.1 (by omega)]
  exact applied_coordinate_within_rounding terms hok (Iup.getP points k).1 hT

/-- the y-axis twin of `applied_outline_within_rounding`: the same statement and proof with the second
components (together they cover both coordinates of every point). -/
theorem applied_outline_within_rounding_y (np : Nat) (points : List Iup.Pt) (ends : List Nat) (ts : List DTuple)
    (hpl : points.length = np) (hwf : ContoursWF np 0 ends) (hne : ts ≠ [])
    (M Δ : Int) (hM : 0 ≤ M ∧ M ≤ 16383) (hΔ : 0 ≤ Δ)
    (hfit : 131072 * M + 4 * (Δ * 65536) + 65536 ≤ 2147483647)
    (hpts : ∀ k, (-M ≤ (Iup.getP points k).1 ∧ (Iup.getP points k).1 ≤ M) ∧
      (-M ≤ (Iup.getP points k).2 ∧ (Iup.getP points k).2 ≤ M))
    (hts : ∀ t ∈ ts, t.has.length = np ∧ t.ds.length = np ∧ (0 < t.s ∧ t.s ≤ 65536) ∧
      (∀ k, (-Δ ≤ (Iup.getP t.ds k).1 ∧ (Iup.getP t.ds k).1 ≤ Δ) ∧ (-Δ ≤ (Iup.getP t.ds k).2 ∧ (Iup.getP t.ds k).2 ≤ Δ)) ∧
      (∀ k, t.has.getD k false = false → Iup.getP t.ds k = (0, 0)))
    (c : Nat × Nat) (hc : c ∈ contoursOf 0 ends) (k : Nat) (hk1 : c.1 ≤ k) (hk2 : k ≤ c.2)
    (hwrap : |(ts.map fun t => (t.s : ℚ) *
          (((Iup.inferSpec (points.drop c.1) ((t.ds.drop c.1).take (c.2 - c.1 + 1)) (t.has.drop c.1) (k - c.1)).2.1 : ℚ) /
            (Iup.inferSpec (points.drop c.1) ((t.ds.drop c.1).take (c.2 - c.1 + 1)) (t.has.drop c.1) (k - c.1)).2.2)).sum|
        + (ts.map fun t =>
          (((Iup.inferSpec (points.drop c.1) ((t.ds.drop c.1).take (c.2 - c.1 + 1)) (t.has.drop c.1) (k - c.1)).2.2 : ℚ) - 1) / 2).sum
        < 2147450880) :
    ∃ deltas, applyDecoded points ends ts = some deltas ∧
      |(((Iup.getP points k).2 + Fixed.toI32 (deltas.getD k (0, 0)).2 : Int) : ℚ)
        - (((Iup.getP points k).2 : ℚ) + (ts.map fun t => (t.s : ℚ) *
          (((Iup.inferSpec (points.drop c.1) ((t.ds.drop c.1).take (c.2 - c.1 + 1)) (t.has.drop c.1) (k - c.1)).2.1 : ℚ) /
            (Iup.inferSpec (points.drop c.1) ((t.ds.drop c.1).take (c.2 - c.1 + 1)) (t.has.drop c.1) (k - c.1)).2.2)).sum / 65536)|
      ≤ 1 / 2 + (ts.map fun t =>
          (((Iup.inferSpec (points.drop c.1) ((t.ds.drop c.1).take (c.2 - c.1 + 1)) (t.has.drop c.1) (k - c.1)).2.2 : ℚ) - 1) / 2).sum / 65536 := by
  -- the point lies inside the glyph
  have hcw := ContoursAll_mem ends 0 (ContoursWF_all np ends 0 hwf) c hc
  have hknp : k < np := by omega
  -- per tuple: `interpolate_deltas` succeeds and the contribution is near the specification
  have hper : ∀ t ∈ ts, ∃ out, Iup.readerInterpolate points t.has ends (t.work points) = some out ∧
      Term.Ok ⟨(Iup.getP out k).2 - (Iup.getP points k).2 * 65536, t.s,
        (Iup.inferSpec (points.drop c.1) ((t.ds.drop c.1).take (c.2 - c.1 + 1)) (t.has.drop c.1) (k - c.1)).2.1,
        (Iup.inferSpec (points.drop c.1) ((t.ds.drop c.1).take (c.2 - c.1 + 1)) (t.has.drop c.1) (k - c.1)).2.2⟩ := by
    intro t ht
    obtain ⟨h1, h2, h3, h4, h5⟩ := hts t ht
    obtain ⟨out, e, _, hall, _⟩ := apply_deltas_eq_spec np points t.ds t.has t.s ends hpl h1 h2 hwf M Δ hM hΔ h3 hfit
      hpts h4 h5
    have := ContoursAll_mem ends 0 hall c hc k hk1 hk2
    simp only [] at this
    obtain ⟨_, a2, _, _, a5, a6, _⟩ := this
    exact ⟨out, e, a2, a5, a6⟩
  -- the contributions
  let f : DTuple → List Iup.Pt := fun t =>
    (List.range points.length).map fun j => ptSub ((outOf points ends t).getD j (0, 0)) (ptFromI32 (points.getD j (0, 0)))
  have hdec : ∀ t ∈ ts, decodedContribution points ends t = some (f t) := by
    intro t ht
    obtain ⟨out, e, _⟩ := hper t ht
    simp only [decodedContribution, f, outOf, e, Option.map_some, Option.getD_some]
  have hfold : applyDecoded points ends ts = _ :=
    applyDecoded_fold points ends f ts ((List.range points.length).map fun _ => ((0 : Int), (0 : Int))) hdec
  have hmapne : ts.map f ≠ [] := by simpa using hne
  refine ⟨_, hfold, ?_⟩
  have hcl := accumulate_closed (ts.map f) points.length k (by omega) hmapne
  rw [hcl]
  simp only []
  -- the column: wrapped per-tuple differences
  have hp : Iup.fxFromI32 (Iup.getP points k).2 = (Iup.getP points k).2 * 65536 := by
    obtain ⟨_, ⟨b1, b2⟩⟩ := hpts k
    unfold Iup.fxFromI32; exact wrapI32_of_in (by omega) (by omega)
  have hcol : colY (ts.map f) k = ((ts.map fun t => ((Iup.getP (outOf points ends t) k).2 - (Iup.getP points k).2 * 65536)).map wrapI32).sum := by
    unfold colY
    rw [List.map_map, List.map_map]
    congr 1
    apply List.map_congr_left
    intro t _
    simp only [Function.comp, f]
    rw [List.getD_eq_getElem?_getD, List.getElem?_map, List.getElem?_range (by omega)]
    simp only [Option.map_some, Option.getD_some, ptSub, ptFromI32, Iup.fxSub]
    have : Fixed.fromI32 (points.getD k (0, 0)).2 = (Iup.getP points k).2 * 65536 := by rw [← fxFromI32_eq]; exact hp
    rw [this]; rfl
  rw [hcol, wrap_sum_wrap]
  -- the terms
  let terms : List Term := ts.map fun t =>
    ⟨(Iup.getP (outOf points ends t) k).2 - (Iup.getP points k).2 * 65536, t.s,
      (Iup.inferSpec (points.drop c.1) ((t.ds.drop c.1).take (c.2 - c.1 + 1)) (t.has.drop c.1) (k - c.1)).2.1,
      (Iup.inferSpec (points.drop c.1) ((t.ds.drop c.1).take (c.2 - c.1 + 1)) (t.has.drop c.1) (k - c.1)).2.2⟩
  have hok : ∀ x ∈ terms, x.Ok := by
    intro x hx
    obtain ⟨t, ht, rfl⟩ := List.mem_map.mp hx
    obtain ⟨out, e, ok⟩ := hper t ht
    have : outOf points ends t = out := by simp [outOf, e]
    rw [this]; exact ok
  have e1 : (ts.map fun t => ((Iup.getP (outOf points ends t) k).2 - (Iup.getP points k).2 * 65536)) = terms.map (·.δ) := by
    simp only [terms, List.map_map]; rfl
  have e2 : (ts.map fun t => (t.s : ℚ) *
          (((Iup.inferSpec (points.drop c.1) ((t.ds.drop c.1).take (c.2 - c.1 + 1)) (t.has.drop c.1) (k - c.1)).2.1 : ℚ) /
            (Iup.inferSpec (points.drop c.1) ((t.ds.drop c.1).take (c.2 - c.1 + 1)) (t.has.drop c.1) (k - c.1)).2.2))
      = terms.map fun t => (t.s : ℚ) * ((t.num : ℚ) / t.den) := by
    simp only [terms, List.map_map]; rfl
  have e3 : (ts.map fun t =>
          (((Iup.inferSpec (points.drop c.1) ((t.ds.drop c.1).take (c.2 - c.1 + 1)) (t.has.drop c.1) (k - c.1)).2.2 : ℚ) - 1) / 2)
      = terms.map fun t => ((t.den : ℚ) - 1) / 2 := by
    simp only [terms, List.map_map]; rfl
  rw [e1]
  rw [e2, e3] at hwrap ⊢
  -- nothing wraps
  have hsum := sum_near_rat terms hok
  have hT : -2147483648 ≤ (terms.map (·.δ)).sum ∧ (terms.map (·.δ)).sum < 2147450880 := by
    obtain ⟨g1, g2⟩ := abs_le.mp hsum
    have g3 := le_abs_self ((terms.map fun t => (t.s : ℚ) * ((t.num : ℚ) / t.den)).sum)
    have g4 := neg_abs_le ((terms.map fun t => (t.s : ℚ) * ((t.num : ℚ) / t.den)).sum)
    constructor
    · have : (-2147483648 : ℚ) ≤ ((terms.map (·.δ)).sum : Int) := by linarith
      exact_mod_cast this
    · have : (((terms.map (·.δ)).sum : Int) : ℚ) < 2147450880 := by linarith
      exact_mod_cast this
  rw [wrapI32_of_in hT.1 (by omega)]
  exact applied_coordinate_within_rounding terms hok (Iup.getP points k).2 hT

/-- **an all-points tuple contributes exactly its scaled deltas**: for the all-explicit decoded tuple
(every flag set, deltas `(x_k, y_k)` within `±Δ`), `interpolate_deltas` changes nothing —
every point is explicit (`apply_deltas_eq_spec`: `δ_k = s·d_k`) or behind the last contour
(`point_in_contour_or_tail`) — so its decoded contribution is `fxScaled s d` per point, which is what
`accumulate_dense_deltas` adds. -/
theorem dense_contribution_eq (np : Nat) (points : List Iup.Pt) (ends : List Nat) (s : Int) (xs ys : List Int)
    (hpl : points.length = np) (hwf : ContoursWF np 0 ends)
    (M Δ : Int) (hM : 0 ≤ M ∧ M ≤ 16383) (hΔ : 0 ≤ Δ)
    (hfit : 131072 * M + 4 * (Δ * 65536) + 65536 ≤ 2147483647)
    (hpts : ∀ k, (-M ≤ (Iup.getP points k).1 ∧ (Iup.getP points k).1 ≤ M) ∧
      (-M ≤ (Iup.getP points k).2 ∧ (Iup.getP points k).2 ≤ M))
    (hs : 0 < s ∧ s ≤ 65536)
    (hbx : ∀ k, -Δ ≤ xs.getD k 0 ∧ xs.getD k 0 ≤ Δ) (hby : ∀ k, -Δ ≤ ys.getD k 0 ∧ ys.getD k 0 ≤ Δ) :
    decodedContribution points ends ⟨s, (List.range points.length).map fun k => (xs.getD k 0, ys.getD k 0),
        (List.range points.length).map fun _ => true⟩
      = some ((List.range points.length).map fun k => (fxScaled s (xs.getD k 0), fxScaled s (ys.getD k 0))) := by
  have hgd : ∀ k, Iup.getP ((List.range points.length).map fun k => (xs.getD k 0, ys.getD k 0)) k
      = if k < points.length then (xs.getD k 0, ys.getD k 0) else (0, 0) := by
    intro k
    by_cases hk : k < points.length
    · rw [if_pos hk, getP_map_range _ _ k hk]
    · rw [if_neg hk]; unfold Iup.getP
      rw [List.getD_eq_getElem?_getD, List.getElem?_eq_none (by simp; omega)]; rfl
  have hgh : ∀ k, ((List.range points.length).map fun _ => true).getD k false = decide (k < points.length) := by
    intro k
    by_cases hk : k < points.length
    · rw [List.getD_eq_getElem?_getD, List.getElem?_map, List.getElem?_range hk]; simp [hk]
    · rw [List.getD_eq_getElem?_getD, List.getElem?_eq_none (by simp; omega)]; simp [hk]
  obtain ⟨out, e, hl, hall, htail⟩ := apply_deltas_eq_spec np points
    ((List.range points.length).map fun k => (xs.getD k 0, ys.getD k 0))
    ((List.range points.length).map fun _ => true) s ends hpl (by simp [hpl]) (by simp [hpl]) hwf M Δ hM hΔ hs hfit hpts
    (fun k => by rw [hgd k]; split
                 · exact ⟨hbx k, hby k⟩
                 · simp only []; omega)
    (fun k hk => by rw [hgh k] at hk; rw [hgd k]; simp only [decide_eq_false_iff_not] at hk; rw [if_neg hk])
  unfold decodedContribution DTuple.work
  simp only []
  rw [e]
  simp only [Option.map_some, Option.some.injEq]
  apply List.map_congr_left
  intro k hk
  have hk' : k < points.length := by simpa using hk
  -- the working value at `k`
  have hout : Iup.getP out k = ((Iup.getP points k).1 * 65536 + xs.getD k 0 * s, (Iup.getP points k).2 * 65536 + ys.getD k 0 * s) := by
    rcases point_in_contour_or_tail np ends 0 hwf k (Nat.zero_le _) with ⟨c, hc, hc1, hc2⟩ | ht
    · have := ContoursAll_mem ends 0 hall c hc k hc1 hc2
      simp only [] at this
      obtain ⟨_, _, _, _, _, _, hexp⟩ := this
      have := hexp (by rw [hgh k]; simp [hk'])
      rw [hgd k, if_pos hk'] at this
      obtain ⟨t1, t2⟩ := this
      simp only [] at t1 t2
      apply Prod.ext
      · show (Iup.getP out k).1 = _; omega
      · show (Iup.getP out k).2 = _; omega
    · rw [htail k ht (by omega), hgd k, if_pos hk']
  obtain ⟨⟨p1, p2⟩, ⟨p3, p4⟩⟩ := hpts k
  obtain ⟨x1, x2⟩ := hbx k
  obtain ⟨y1, y2⟩ := hby k
  have bx1 : xs.getD k 0 * s ≤ Δ * 65536 := by nlinarith
  have bx2 : -(Δ * 65536) ≤ xs.getD k 0 * s := by nlinarith
  have by1 : ys.getD k 0 * s ≤ Δ * 65536 := by nlinarith
  have by2 : -(Δ * 65536) ≤ ys.getD k 0 * s := by nlinarith
  have hget : out.getD k (0, 0) = Iup.getP out k := rfl
  have hgp : points.getD k (0, 0) = Iup.getP points k := rfl
  rw [hget, hgp, hout, fxScaled_exact s _ (by omega) (by omega), fxScaled_exact s _ (by omega) (by omega)]
  simp only [ptSub, ptFromI32, Iup.fxSub, Fixed.fromI32]
  have f1 : wrapI32 ((Iup.getP points k).1 * 65536) = (Iup.getP points k).1 * 65536 := wrapI32_of_in (by omega) (by omega)
  have f2 : wrapI32 ((Iup.getP points k).2 * 65536) = (Iup.getP points k).2 * 65536 := wrapI32_of_in (by omega) (by omega)
  rw [f1, f2]
  have g1 : (Iup.getP points k).1 * 65536 + xs.getD k 0 * s - (Iup.getP points k).1 * 65536 = xs.getD k 0 * s := by ring
  have g2 : (Iup.getP points k).2 * 65536 + ys.getD k 0 * s - (Iup.getP points k).2 * 65536 = ys.getD k 0 * s := by ring
  simp only [g1, g2]
  rw [wrapI32_of_in (by omega) (by omega), wrapI32_of_in (by omega) (by omega)]

/-- **bytes → decoded tuples**, either kind of tuple: when every active tuple's step is the decoded
step (`StepDecodes`: from `SparseWF` or `DenseWF`), `simple_glyph` on the bytes is `applyDecoded`. -/
theorem simple_glyph_eq_applyDecoded (ax : Nat) (shared : List (List Int)) (bytes : List Nat)
    (coords : List Int) (points : List Iup.Pt) (ends : List Nat) (g : GlyphRead) (dts : List DTuple)
    (hr : readGlyph ax bytes = some g) (h4 : 4 ≤ points.length)
    (hlen : (activeTuples ax shared g coords).length = dts.length)
    (hdec : ∀ p ∈ (activeTuples ax shared g coords).zip dts, StepDecodes points ends g.sharedPts p.1 p.2) :
    simpleGlyph ax shared (some bytes) coords points ends = applyDecoded points ends dts := by
  unfold simpleGlyph applyDecoded
  have : ¬ points.length < 4 := by omega
  simp only [this, if_false, hr]
  have hzero : (points.map fun _ => ((0 : Int), (0 : Int))) = (List.range points.length).map fun _ => ((0 : Int), (0 : Int)) := by
    apply List.ext_getElem (by simp)
    intro i h1 h2; simp
  rw [hzero]
  exact fold_eq_decoded points ends g.sharedPts _ dts _ hlen (by simp) hdec

/-- the scalar of every ACTIVE tuple is in `(0, 65536]`, derived from `compute_scalar` (`tupleScalar`):
peaks, intermediate coordinates and the location are F2Dot14 (i16) values and no intermediate region
straddles zero (`InterOk`, where the code follows FreeType). -/
theorem active_tuple_scalar_range (ax : Nat) (shared : List (List Int)) (g : GlyphRead) (coords : List Int)
    (hco : ∀ v ∈ coords, inI16 v)
    (hreg : ∀ t ∈ g.tuples, (∀ v ∈ t.peakOf shared, inI16 v) ∧
      InterOk ((t.inter.map (·.1)).getD []) ((t.inter.map (·.2)).getD [])) :
    ∀ a ∈ activeTuples ax shared g coords, 0 < a.2 ∧ a.2 ≤ 65536 := by
  intro a ha
  unfold activeTuples at ha
  obtain ⟨t, ht, hm⟩ := List.mem_filterMap.mp ha
  obtain ⟨hp, hi⟩ := hreg t ht
  cases hs : tupleScalar ax (t.peakOf shared) t.inter coords with
  | none => rw [hs] at hm; cases hm
  | some s =>
    rw [hs] at hm
    simp only [Option.map_some, Option.some.injEq] at hm
    subst hm
    show 0 < s ∧ s ≤ 65536
    unfold tupleScalar at hs
    by_cases hl : (t.peakOf shared).length ≠ ax
    · simp [hl] at hs
    · simp only [hl, if_false] at hs
      have h := scalarGo_tent t.inter.isSome (t.peakOf shared) ((t.inter.map (·.1)).getD [])
        ((t.inter.map (·.2)).getD []) coords 65536 1 1 0 hp hco hi (by omega) (by omega) (by omega)
        (by simp) (by simp)
      cases htg : tentGo t.inter.isSome (1, 1, 0) (t.peakOf shared) ((t.inter.map (·.1)).getD [])
          ((t.inter.map (·.2)).getD []) coords with
      | none => rw [htg] at h; simp only [] at h; rw [h] at hs; cases hs
      | some r =>
        obtain ⟨N, D, k⟩ := r
        rw [htg] at h
        obtain ⟨s', e, s0, s1, _⟩ := h
        rw [e] at hs
        simp only [] at hs
        by_cases hz : s' = 0
        · simp [hz] at hs
        · simp only [hz, if_false, Option.some.injEq] at hs
          omega

/-- **`simple_glyph_within_rounding`** — from the glyph-variation-data BYTES to both output coordinates
of every contour point, for sparse (`SparseWF`) and all-points (`DenseWF`) active tuples alike. -/
theorem simple_glyph_within_rounding (ax : Nat) (shared : List (List Int)) (bytes : List Nat)
    (coords : List Int) (g : GlyphRead) (hr : readGlyph ax bytes = some g)
    (np : Nat) (points : List Iup.Pt) (ends : List Nat) (ts : List DTuple)
    (hpl : points.length = np) (hwf : ContoursWF np 0 ends) (hne : ts ≠ [])
    (M Δ : Int) (hM : 0 ≤ M ∧ M ≤ 16383) (hΔ : 0 ≤ Δ)
    (hfit : 131072 * M + 4 * (Δ * 65536) + 65536 ≤ 2147483647)
    (hpts : ∀ k, (-M ≤ (Iup.getP points k).1 ∧ (Iup.getP points k).1 ≤ M) ∧
      (-M ≤ (Iup.getP points k).2 ∧ (Iup.getP points k).2 ≤ M))
    (hco : ∀ v ∈ coords, inI16 v)
    (hreg : ∀ t ∈ g.tuples, (∀ v ∈ t.peakOf shared, inI16 v) ∧
      InterOk ((t.inter.map (·.1)).getD []) ((t.inter.map (·.2)).getD []))
    (c : Nat × Nat) (hc : c ∈ contoursOf 0 ends) (k : Nat) (hk1 : c.1 ≤ k) (hk2 : k ≤ c.2)
    (h4 : 4 ≤ points.length)
    (hlen : (activeTuples ax shared g coords).length = ts.length)
    (hswf : ∀ p ∈ (activeTuples ax shared g coords).zip ts,
      SparseWF points g.sharedPts Δ p.1 p.2 ∨ DenseWF points g.sharedPts Δ p.1 p.2)
    (hwrap : |(ts.map fun t => (t.s : ℚ) *
          (((Iup.inferSpec (points.drop c.1) ((t.ds.drop c.1).take (c.2 - c.1 + 1)) (t.has.drop c.1) (k - c.1)).1.1 : ℚ) /
            (Iup.inferSpec (points.drop c.1) ((t.ds.drop c.1).take (c.2 - c.1 + 1)) (t.has.drop c.1) (k - c.1)).1.2)).sum|
        + (ts.map fun t =>
          (((Iup.inferSpec (points.drop c.1) ((t.ds.drop c.1).take (c.2 - c.1 + 1)) (t.has.drop c.1) (k - c.1)).1.2 : ℚ) - 1) / 2).sum
        < 2147450880)
    (hwrapy : |(ts.map fun t => (t.s : ℚ) *
          (((Iup.inferSpec (points.drop c.1) ((t.ds.drop c.1).take (c.2 - c.1 + 1)) (t.has.drop c.1) (k - c.1)).2.1 : ℚ) /
            (Iup.inferSpec (points.drop c.1) ((t.ds.drop c.1).take (c.2 - c.1 + 1)) (t.has.drop c.1) (k - c.1)).2.2)).sum|
        + (ts.map fun t =>
          (((Iup.inferSpec (points.drop c.1) ((t.ds.drop c.1).take (c.2 - c.1 + 1)) (t.has.drop c.1) (k - c.1)).2.2 : ℚ) - 1) / 2).sum
        < 2147450880) :
    ∃ deltas, simpleGlyph ax shared (some bytes) coords points ends = some deltas ∧
      |(((Iup.getP points k).1 + Fixed.toI32 (deltas.getD k (0, 0)).1 : Int) : ℚ)
        - (((Iup.getP points k).1 : ℚ) + (ts.map fun t => (t.s : ℚ) *
          (((Iup.inferSpec (points.drop c.1) ((t.ds.drop c.1).take (c.2 - c.1 + 1)) (t.has.drop c.1) (k - c.1)).1.1 : ℚ) /
            (Iup.inferSpec (points.drop c.1) ((t.ds.drop c.1).take (c.2 - c.1 + 1)) (t.has.drop c.1) (k - c.1)).1.2)).sum / 65536)|
      ≤ 1 / 2 + (ts.map fun t =>
          (((Iup.inferSpec (points.drop c.1) ((t.ds.drop c.1).take (c.2 - c.1 + 1)) (t.has.drop c.1) (k - c.1)).1.2 : ℚ) - 1) / 2).sum / 65536 ∧
      |(((Iup.getP points k).2 + Fixed.toI32 (deltas.getD k (0, 0)).2 : Int) : ℚ)
        - (((Iup.getP points k).2 : ℚ) + (ts.map fun t => (t.s : ℚ) *
          (((Iup.inferSpec (points.drop c.1) ((t.ds.drop c.1).take (c.2 - c.1 + 1)) (t.has.drop c.1) (k - c.1)).2.1 : ℚ) /
            (Iup.inferSpec (points.drop c.1) ((t.ds.drop c.1).take (c.2 - c.1 + 1)) (t.has.drop c.1) (k - c.1)).2.2)).sum / 65536)|
      ≤ 1 / 2 + (ts.map fun t =>
          (((Iup.inferSpec (points.drop c.1) ((t.ds.drop c.1).take (c.2 - c.1 + 1)) (t.has.drop c.1) (k - c.1)).2.2 : ℚ) - 1) / 2).sum / 65536 := by
  have hscal := active_tuple_scalar_range ax shared g coords hco hreg
  have hts : ∀ t ∈ ts, t.has.length = np ∧ t.ds.length = np ∧ (0 < t.s ∧ t.s ≤ 65536) ∧
      (∀ k, (-Δ ≤ (Iup.getP t.ds k).1 ∧ (Iup.getP t.ds k).1 ≤ Δ) ∧ (-Δ ≤ (Iup.getP t.ds k).2 ∧ (Iup.getP t.ds k).2 ≤ Δ)) ∧
      (∀ k, t.has.getD k false = false → Iup.getP t.ds k = (0, 0)) := by
    intro t ht
    obtain ⟨a, ha⟩ := mem_zip_of_mem_right _ ts hlen t ht
    have hs := hscal a (List.of_mem_zip ha).1
    rcases hswf (a, t) ha with h | h
    · obtain ⟨e1, e2, e3, e4, e5⟩ := SparseWF.bounds points _ Δ hΔ a t h
      exact ⟨by rw [e2, hpl], by rw [e3, hpl], by rw [e1]; exact hs, e4, e5⟩
    · obtain ⟨e1, e2, e3, e4, e5⟩ := DenseWF.bounds points _ Δ hΔ a t h
      exact ⟨by rw [e2, hpl], by rw [e3, hpl], by rw [e1]; exact hs, e4, e5⟩
  have hdec : ∀ p ∈ (activeTuples ax shared g coords).zip ts, StepDecodes points ends g.sharedPts p.1 p.2 := by
    intro p hp
    have hmem : p.2 ∈ ts := (List.of_mem_zip (show (p.1, p.2) ∈ _ from hp)).2
    obtain ⟨_, _, hs, _, _⟩ := hts p.2 hmem
    rcases hswf p hp with hw | hw
    · have hsc : p.2.s = p.1.2 := by
        obtain ⟨_, pts, xs, ys, bs, rest, _, _, _, _, _, _, _, _, _, e⟩ := hw
        rw [e]
      exact (hw.decodes points g.sharedPts Δ M p.1 p.2 hM.1 hΔ (by omega) (by rw [← hsc]; omega) hpts).step points ends
        g.sharedPts p.1 p.2
    · have hsc : p.2.s = p.1.2 := by
        obtain ⟨_, xs, ys, bs, rest, _, _, _, _, e⟩ := hw
        rw [e]
      exact hw.step points ends g.sharedPts Δ p.1 p.2 (fun xs ys hbx hby =>
        dense_contribution_eq np points ends p.1.2 xs ys hpl hwf M Δ hM hΔ hfit hpts (by rw [← hsc]; exact hs) hbx hby)
  rw [simple_glyph_eq_applyDecoded ax shared bytes coords points ends g ts hr h4 hlen hdec]
  obtain ⟨d1, e1, b1⟩ := applied_outline_within_rounding np points ends ts hpl hwf hne M Δ hM hΔ hfit hpts hts c hc k hk1 hk2 hwrap
  obtain ⟨d2, e2, b2⟩ := applied_outline_within_rounding_y np points ends ts hpl hwf hne M Δ hM hΔ hfit hpts hts c hc k hk1 hk2 hwrapy
  rw [e1] at e2
  injection e2 with e2
  subst e2
  exact ⟨d1, e1, b1, b2⟩

/-- the writer's explicit point numbers are distinct: `pick_best_point_number_repr` lists the
required indices in strictly ascending order, so the packed-point-number writer never emits a
duplicate (the `pts.Nodup` of `SparseWF` holds for every tuple write-fonts writes). -/
theorem writer_point_numbers_distinct (tents : List Tent) (ds : List GDelta) (t : TupleIn)
    (h : glyphDeltasNew tents ds = some t) (hlen : ds.length ≤ 65536) (pts : List Nat)
    (hb : t.best = some pts) : pts.Nodup := by
  unfold glyphDeltasNew at h
  cases hp : pickBest ds with
  | none => simp [hp] at h
  | some b =>
    simp only [hp, Option.some.injEq] at h
    subst h
    simp only at hb
    subst hb
    rcases pickBest_cases ds _ hp with hc | ⟨hc, hne⟩
    · cases hc
    · injection hc with hc
      rw [hc]
      cases hr : requiredIdx 0 ds with
      | nil => simp
      | cons p0 ps =>
        obtain ⟨_, hasc⟩ := requiredIdx_head ds 0 (by omega) p0 ps hr
        exact sasc_nodup ps p0 hasc

/-- **missing links 1 + 2 at the level of one written tuple** (explicit point numbers): the bytes the
writer emits for a tuple whose kept set is `requiredIdx 0 ds = p0 :: ps` — packed point numbers `pb`,
then `encodeDeltas` of the kept x deltas, then of the kept y deltas — satisfy every stream conjunct of
`SparseWF`: skrifa's point iterator is the list of kept indices, the count matches, both
`read_sparse_deltas` passes succeed, the numbers are distinct; and the values read are EXACTLY the
input deltas of the kept points (`(ds.filter required).map x / y`): required deltas are exact. -/
theorem written_sparse_tuple_stream_wf (ds : List GDelta) (p0 : Nat) (ps : List Nat)
    (hpts : requiredIdx 0 ds = p0 :: ps) (hlen : ds.length ≤ 32767)
    (hd : ∀ d ∈ ds, inI32 d.1 ∧ inI32 d.2.1)
    (pb : List Nat) (hpb : ppnBytes (some (p0 :: ps)) = some pb) (junk rest : List Nat) :
    ptIterOf (pb ++ junk) = .list (p0 :: ps) ∧
    (countAndCountBytes (pb ++ junk)).1 = (p0 :: ps).length ∧
    readSparse ((p0 :: ps).length + 1) 0 (p0 :: ps).length (.list (p0 :: ps))
        (encodeDeltas ((ds.filter (·.2.2)).map (·.1)) ++ (encodeDeltas ((ds.filter (·.2.2)).map (·.2.1)) ++ rest))
      = some ((p0 :: ps).zip ((ds.filter (·.2.2)).map (·.1)),
          encodeDeltas ((ds.filter (·.2.2)).map (·.2.1)) ++ rest) ∧
    readSparse ((p0 :: ps).length + 1) 0 (p0 :: ps).length (.list (p0 :: ps))
        (encodeDeltas ((ds.filter (·.2.2)).map (·.2.1)) ++ rest)
      = some ((p0 :: ps).zip ((ds.filter (·.2.2)).map (·.2.1)), rest) ∧
    (p0 :: ps).Nodup ∧
    ((ds.filter (·.2.2)).map (·.1)).length = (p0 :: ps).length ∧
    ((ds.filter (·.2.2)).map (·.2.1)).length = (p0 :: ps).length := by
  obtain ⟨hp0, hasc⟩ := requiredIdx_head ds 0 (by omega) p0 ps hpts
  have hl : (p0 :: ps).length = (ds.filter (·.2.2)).length := by
    rw [← hpts]; exact requiredIdx_length ds 0
  have hfl : (ds.filter (·.2.2)).length ≤ ds.length := List.length_filter_le _ _
  have hx : ∀ v ∈ (ds.filter (·.2.2)).map (·.1), inI32 v := by
    intro v hv; obtain ⟨d, hd', rfl⟩ := List.mem_map.mp hv
    exact (hd d (List.mem_of_mem_filter hd')).1
  have hy : ∀ v ∈ (ds.filter (·.2.2)).map (·.2.1), inI32 v := by
    intro v hv; obtain ⟨d, hd', rfl⟩ := List.mem_map.mp hv
    exact (hd d (List.mem_of_mem_filter hd')).2
  simp only [ppnBytes] at hpb
  obtain ⟨_, h2, _⟩ := tupleDeltas_sparse p0 ps junk _ _ hp0 hasc (by omega) pb hpb hx hy
    (by simp [hl]) (by simp [hl])
  have hb : ∀ p ∈ p0 :: ps, p ≤ 65535 := by
    intro p hp
    rcases List.mem_cons.mp hp with rfl | hp
    · exact hp0
    · exact (sasc_bound ps p0 hasc p hp).2
  have hpw : (p0 :: ps).Pairwise (· ≤ ·) := by
    rw [List.pairwise_cons]
    exact ⟨fun p hp => by have := sasc_bound ps p0 hasc p hp; omega, sasc_pairwise ps p0 hasc⟩
  obtain ⟨bs, e1, e2, _⟩ := points_roundtrip (p0 :: ps) (by simp) (by omega) hb hpw junk
  rw [hpb] at e1
  injection e1 with e1
  subst e1
  obtain ⟨hvx, hcx⟩ := runsOf_props _ ((ds.filter (·.2.2)).map (·.1)) (Nat.le_refl _) hx
  obtain ⟨hvy, hcy⟩ := runsOf_props _ ((ds.filter (·.2.2)).map (·.2.1)) (Nat.le_refl _) hy
  have hxy := readSparse_xy (runsOf _ ((ds.filter (·.2.2)).map (·.1))) (runsOf _ ((ds.filter (·.2.2)).map (·.2.1)))
    (p0 :: ps) rest hvx hvy (by unfold total; rw [hcx]; simp [hl]) (by unfold total; rw [hcy]; simp [hl])
  rw [hcx, hcy] at hxy
  exact ⟨by simp [ptIterOf, e2], h2, hxy.1, hxy.2, sasc_nodup ps p0 hasc, by simp [hl], by simp [hl]⟩

/-- `read_dense_deltas` over any sequence of valid runs covering exactly the remaining entries: it
succeeds, returns the values in order and leaves the cursor behind the runs -/
theorem read_dense_runs : ∀ (runs : List Run) (fuel cur count : Nat) (rest : List Nat),
    (∀ r ∈ runs, ValidRun r) → cur + total runs = count → runs.length + 1 ≤ fuel →
    readDense fuel cur count (runs.flatMap serializeRun ++ rest) = some (runs.flatMap (·.2), rest) := by
  intro runs
  induction runs with
  | nil =>
    intro fuel cur count rest _ hc hf
    obtain ⟨f, rfl⟩ : ∃ f, fuel = f + 1 := ⟨fuel - 1, by omega⟩
    have : ¬ cur < count := by simp [total] at hc; omega
    simp [readDense, this]
  | cons r rs ih =>
    intro fuel cur count rest hv hc hf
    obtain ⟨f, rfl⟩ : ∃ f, fuel = f + 1 := ⟨fuel - 1, by omega⟩
    obtain ⟨h1, h2, hfit⟩ := hv r (by simp)
    have ht : total (r :: rs) = r.2.length + total rs := by simp [total]
    rw [ht] at hc
    have hlt : cur < count := by omega
    have hgt : ¬ (cur + r.2.length > count) := by omega
    simp only [List.flatMap_cons, List.append_assoc, serializeRun, List.cons_append, readDense, hlt,
      if_true, flag_count _ _ h1 h2, flag_type _ _ h1 h2, hgt, if_false]
    rw [readArray_vals r.1 r.2 _ hfit]
    simp only []
    rw [ih f (cur + r.2.length) count rest (fun x hx => hv x (by simp [hx])) (by omega)
      (by simp at hf; omega)]

/-- **missing links 1 + 2 at the level of one written ALL-POINTS tuple**: the delta bytes the writer
emits (`encodeDeltas` of all x deltas, then of all y deltas) satisfy the stream conjuncts of `DenseWF`
— both `read_dense_deltas` passes over `ds.length` entries succeed — and the values read are EXACTLY
the input deltas. -/
theorem written_dense_tuple_stream_wf (ds : List GDelta) (hd : ∀ d ∈ ds, inI32 d.1 ∧ inI32 d.2.1)
    (rest : List Nat) :
    readDense (ds.length + 1) 0 ds.length
        (encodeDeltas (ds.map (·.1)) ++ (encodeDeltas (ds.map (·.2.1)) ++ rest))
      = some (ds.map (·.1), encodeDeltas (ds.map (·.2.1)) ++ rest) ∧
    readDense (ds.length + 1) 0 ds.length (encodeDeltas (ds.map (·.2.1)) ++ rest)
      = some (ds.map (·.2.1), rest) := by
  have hx : ∀ v ∈ ds.map (·.1), inI32 v := by
    intro v hv; obtain ⟨d, hd', rfl⟩ := List.mem_map.mp hv; exact (hd d hd').1
  have hy : ∀ v ∈ ds.map (·.2.1), inI32 v := by
    intro v hv; obtain ⟨d, hd', rfl⟩ := List.mem_map.mp hv; exact (hd d hd').2
  obtain ⟨hvx, hcx⟩ := runsOf_props _ (ds.map (·.1)) (Nat.le_refl _) hx
  obtain ⟨hvy, hcy⟩ := runsOf_props _ (ds.map (·.2.1)) (Nat.le_refl _) hy
  have lenle : ∀ rs : List Run, (∀ r ∈ rs, ValidRun r) → rs.length ≤ total rs := by
    intro rs
    induction rs with
    | nil => intro _; simp
    | cons r rs ih =>
      intro h
      have := ih (fun x hx' => h x (by simp [hx']))
      have h1 := (h r (by simp)).1
      simp [total] at this ⊢
      omega
  have tx : total (runsOf (ds.map (·.1)).length (ds.map (·.1))) = ds.length := by
    unfold total; rw [hcx]; simp
  have ty : total (runsOf (ds.map (·.2.1)).length (ds.map (·.2.1))) = ds.length := by
    unfold total; rw [hcy]; simp
  have a := read_dense_runs _ (ds.length + 1) 0 ds.length (encodeDeltas (ds.map (·.2.1)) ++ rest) hvx
    (by rw [tx]; simp) (by have := lenle _ hvx; omega)
  have b := read_dense_runs _ (ds.length + 1) 0 ds.length rest hvy
    (by rw [ty]; simp) (by have := lenle _ hvy; omega)
  rw [hcx] at a
  rw [hcy] at b
  exact ⟨a, b⟩

/-- **missing link 2, glyph-level plumbing**: for every glyph `writeGlyph` serialises (any choice of
shared peak tuples; shared point numbers as `compute_shared_points` picks them), the reader returns
raw tuples that pair up one-to-one with the input tuples, and each raw tuple's point-number bytes and
delta bytes AS SKRIFA SELECTS THEM (`RawTuple.ptsAndDeltas g.sharedPts`: private bytes when the
PRIVATE_POINT_NUMBERS bit is set, otherwise the glyph's shared bytes) are the writer's streams of its
input tuple (`StreamOf`: packed `t.best` followed by anything, and `encodeDeltas xs ++ encodeDeltas ys`
of the selected deltas) — the inputs of `written_sparse_tuple_stream_wf` /
`written_dense_tuple_stream_wf`.  The reader's view equality of `glyph_variations_roundtrip` comes
along (it fixes `allPoints`). -/
theorem written_glyph_streams (ax : Nat) (shared : List (List Int)) (hshared : shared.length ≤ 4096)
    (ts : List TupleIn) (hne : ts ≠ []) (hok : ∀ t ∈ ts, TupleOk ax t)
    (bytes : List Nat) (hw : writeGlyph shared ts = some bytes) (rest : List Nat) :
    ∃ g, readGlyph ax (bytes ++ rest) = some g ∧
      g.tuples.map (RawTuple.view shared g.sharedPts) = ts.map TupleIn.view ∧
      List.Forall₂ (fun r t => StreamOf t r g.sharedPts) g.tuples ts :=
  writeGlyph_roundtrip_s ax shared hshared ts hne hok bytes hw rest

/- FULL STATEMENT `written_then_applied_within_tolerance`: for every input to `Gvar::new` (tuples whose
deltas went through `iup_delta_optimize` at tolerance τ), skrifa's output coordinate computed from the
WRITTEN bytes is within `1/2 + Σ_t ((den_t − 1)/131072 + (s_t/65536)·τ)` of
`original + Σ_t (s_t/65536)·δ_t(input)`.  PROVED below: the composition from the bytes
(`simple_glyph_within_rounding`) with the per-tuple tolerance hypothesis `|I_t − δ_t(input)| ≤ τ` — which is
what `iup_delta_optimize_sound` gives per axis for the tuples write-fonts emits (required deltas exact,
omitted ones within τ of the specification's inference) — and `writer_point_numbers_distinct` (the
writer's streams satisfy the `Nodup` of `SparseWF`).  MISSING LINK: `glyph_variations_roundtrip` states
the reader's view (`peak`, region, `deltas()`) of the written tuples; deriving from it that the RAW
tuples of the written bytes satisfy `SparseWF ∨ DenseWF` needs the stream structure inside its proof
(`ptsAndDeltas = (packed points ++ rest, encodeDeltas xs ++ encodeDeltas ys)`) exported, plus a
`read_dense_deltas` analogue of `readSparse_runs`; and the identification of the decoded tuples' `ds`
with the input deltas restricted to the kept set.  STATE: for ONE written tuple with explicit point
numbers both are proved (`written_sparse_tuple_stream_wf`: all stream conjuncts of `SparseWF`, values read =
input deltas of the kept points); the all-points analogue is `written_dense_tuple_stream_wf`, and the glyph-level plumbing is
exported as `written_glyph_streams` (Forall₂ StreamOf); still missing: assembling these three into
`SparseWF ∨ DenseWF` per active tuple (bounds ±Δ on the input deltas, `points.length = deltas.length`,
zip with the scalars), and — formerly listed — the plumbing (which tuple reads private vs shared point numbers: `RawTuple.ptsAndDeltas g.sharedPts`
of each tuple `readGlyph` returns = the writer's `(pb ++ junk, encodeDeltas xs ++ encodeDeltas ys)`, to be
exported from `built_view` / `built_list` / `writeGlyphWith_roundtrip`), and feeding
`iup_delta_optimize_sound` for the τ hypothesis.  The active-tuple scalar range is now derived
(`active_tuple_scalar_range`). -/
/-- **`written_then_applied_within_tolerance_partial`** -/
theorem written_then_applied_within_tolerance_partial (ax : Nat) (shared : List (List Int)) (bytes : List Nat)
    (coords : List Int) (g : GlyphRead) (hr : readGlyph ax bytes = some g)
    (np : Nat) (points : List Iup.Pt) (ends : List Nat) (ts : List DTuple)
    (hpl : points.length = np) (hwf : ContoursWF np 0 ends) (hne : ts ≠ [])
    (M Δ : Int) (hM : 0 ≤ M ∧ M ≤ 16383) (hΔ : 0 ≤ Δ)
    (hfit : 131072 * M + 4 * (Δ * 65536) + 65536 ≤ 2147483647)
    (hpts : ∀ k, (-M ≤ (Iup.getP points k).1 ∧ (Iup.getP points k).1 ≤ M) ∧
      (-M ≤ (Iup.getP points k).2 ∧ (Iup.getP points k).2 ≤ M))
    (hco : ∀ v ∈ coords, inI16 v)
    (hreg : ∀ t ∈ g.tuples, (∀ v ∈ t.peakOf shared, inI16 v) ∧
      InterOk ((t.inter.map (·.1)).getD []) ((t.inter.map (·.2)).getD []))
    (c : Nat × Nat) (hc : c ∈ contoursOf 0 ends) (k : Nat) (hk1 : c.1 ≤ k) (hk2 : k ≤ c.2)
    (h4 : 4 ≤ points.length)
    (hlen : (activeTuples ax shared g coords).length = ts.length)
    (hswf : ∀ p ∈ (activeTuples ax shared g coords).zip ts,
      SparseWF points g.sharedPts Δ p.1 p.2 ∨ DenseWF points g.sharedPts Δ p.1 p.2)
    (hwrap : |(ts.map fun t => (t.s : ℚ) *
          (((Iup.inferSpec (points.drop c.1) ((t.ds.drop c.1).take (c.2 - c.1 + 1)) (t.has.drop c.1) (k - c.1)).1.1 : ℚ) /
            (Iup.inferSpec (points.drop c.1) ((t.ds.drop c.1).take (c.2 - c.1 + 1)) (t.has.drop c.1) (k - c.1)).1.2)).sum|
        + (ts.map fun t =>
          (((Iup.inferSpec (points.drop c.1) ((t.ds.drop c.1).take (c.2 - c.1 + 1)) (t.has.drop c.1) (k - c.1)).1.2 : ℚ) - 1) / 2).sum
        < 2147450880)
    (hwrapy : |(ts.map fun t => (t.s : ℚ) *
          (((Iup.inferSpec (points.drop c.1) ((t.ds.drop c.1).take (c.2 - c.1 + 1)) (t.has.drop c.1) (k - c.1)).2.1 : ℚ) /
            (Iup.inferSpec (points.drop c.1) ((t.ds.drop c.1).take (c.2 - c.1 + 1)) (t.has.drop c.1) (k - c.1)).2.2)).sum|
        + (ts.map fun t =>
          (((Iup.inferSpec (points.drop c.1) ((t.ds.drop c.1).take (c.2 - c.1 + 1)) (t.has.drop c.1) (k - c.1)).2.2 : ℚ) - 1) / 2).sum
        < 2147450880)
    (τ : ℚ) (dx dy : DTuple → ℚ)
    (htolx : ∀ t ∈ ts, |(((Iup.inferSpec (points.drop c.1) ((t.ds.drop c.1).take (c.2 - c.1 + 1)) (t.has.drop c.1) (k - c.1)).1.1 : ℚ) /
            (Iup.inferSpec (points.drop c.1) ((t.ds.drop c.1).take (c.2 - c.1 + 1)) (t.has.drop c.1) (k - c.1)).1.2) - dx t| ≤ τ)
    (htoly : ∀ t ∈ ts, |(((Iup.inferSpec (points.drop c.1) ((t.ds.drop c.1).take (c.2 - c.1 + 1)) (t.has.drop c.1) (k - c.1)).2.1 : ℚ) /
            (Iup.inferSpec (points.drop c.1) ((t.ds.drop c.1).take (c.2 - c.1 + 1)) (t.has.drop c.1) (k - c.1)).2.2) - dy t| ≤ τ) :
    ∃ deltas, simpleGlyph ax shared (some bytes) coords points ends = some deltas ∧
      |(((Iup.getP points k).1 + Fixed.toI32 (deltas.getD k (0, 0)).1 : Int) : ℚ)
        - (((Iup.getP points k).1 : ℚ) + (ts.map fun t => (t.s : ℚ) * dx t).sum / 65536)|
      ≤ 1 / 2 + (ts.map fun t =>
          (((Iup.inferSpec (points.drop c.1) ((t.ds.drop c.1).take (c.2 - c.1 + 1)) (t.has.drop c.1) (k - c.1)).1.2 : ℚ) - 1) / 2).sum / 65536 + (ts.map fun t => (t.s : ℚ) * τ).sum / 65536 ∧
      |(((Iup.getP points k).2 + Fixed.toI32 (deltas.getD k (0, 0)).2 : Int) : ℚ)
        - (((Iup.getP points k).2 : ℚ) + (ts.map fun t => (t.s : ℚ) * dy t).sum / 65536)|
      ≤ 1 / 2 + (ts.map fun t =>
          (((Iup.inferSpec (points.drop c.1) ((t.ds.drop c.1).take (c.2 - c.1 + 1)) (t.has.drop c.1) (k - c.1)).2.2 : ℚ) - 1) / 2).sum / 65536 + (ts.map fun t => (t.s : ℚ) * τ).sum / 65536 := by
  have hscal := active_tuple_scalar_range ax shared g coords hco hreg
  obtain ⟨deltas, e, b1, b2⟩ := simple_glyph_within_rounding ax shared bytes coords g hr np points ends ts hpl hwf hne M Δ hM hΔ hfit hpts hco hreg c hc k hk1 hk2 h4 hlen hswf hwrap hwrapy
  have hwpos : ∀ t ∈ ts, (0 : ℚ) ≤ (t.s : ℚ) := by
    intro t ht
    obtain ⟨a, ha⟩ := mem_zip_of_mem_right _ ts hlen t ht
    have hs := hscal a (List.of_mem_zip ha).1
    have e1 : t.s = a.2 := by
      rcases hswf (a, t) ha with h | h
      · exact (SparseWF.bounds points _ Δ hΔ a t h).1
      · exact (DenseWF.bounds points _ Δ hΔ a t h).1
    exact_mod_cast (by omega : (0 : Int) ≤ t.s)
  have hx := sum_weighted_tol τ (fun t : DTuple => (t.s : ℚ)) (fun t => (((Iup.inferSpec (points.drop c.1) ((t.ds.drop c.1).take (c.2 - c.1 + 1)) (t.has.drop c.1) (k - c.1)).1.1 : ℚ) /
            (Iup.inferSpec (points.drop c.1) ((t.ds.drop c.1).take (c.2 - c.1 + 1)) (t.has.drop c.1) (k - c.1)).1.2)) dx ts
    (fun t ht => ⟨hwpos t ht, htolx t ht⟩)
  have hy := sum_weighted_tol τ (fun t : DTuple => (t.s : ℚ)) (fun t => (((Iup.inferSpec (points.drop c.1) ((t.ds.drop c.1).take (c.2 - c.1 + 1)) (t.has.drop c.1) (k - c.1)).2.1 : ℚ) /
            (Iup.inferSpec (points.drop c.1) ((t.ds.drop c.1).take (c.2 - c.1 + 1)) (t.has.drop c.1) (k - c.1)).2.2)) dy ts
    (fun t ht => ⟨hwpos t ht, htoly t ht⟩)
  obtain ⟨x1, x2⟩ := abs_le.mp hx
  obtain ⟨y1, y2⟩ := abs_le.mp hy
  obtain ⟨c1, c2⟩ := abs_le.mp b1
  obtain ⟨d1, d2⟩ := abs_le.mp b2
  refine ⟨deltas, e, abs_le.mpr ⟨by linarith, by linarith⟩, abs_le.mpr ⟨by linarith, by linarith⟩⟩

/-- **the glue between the byte-level fast path and the decoded tuples**: with the calls of the two
passes as in `sparse_fast_path_eq_iterator` (`pts.zip xs`, `pts.zip ys`, distinct points), values
within `±Δ`, coordinates within `±M`, `M + Δ ≤ 32767` and a scalar in `[0, 65536]`, the buffer and
flags `accumulate_sparse_deltas` leaves on a fresh buffer are — as LISTS — `workOf points (scaled
explicit deltas)` and the listed-point flags: exactly the `DTuple.work` / `DTuple.has` from which
`applied_outline_within_rounding` starts. -/
theorem accumulate_sparse_buffer_eq_workOf (pts : List Nat) (xs ys : List Int) (ptBytes dBytes bs rest : List Nat)
    (s : Int) (points : List Iup.Pt)
    (hcount : (countAndCountBytes ptBytes).1 = pts.length) (hit : ptIterOf ptBytes = .list pts)
    (hx : readSparse (pts.length + 1) 0 pts.length (.list pts) dBytes = some (pts.zip xs, bs))
    (hy : readSparse (pts.length + 1) 0 pts.length (.list pts) bs = some (pts.zip ys, rest))
    (hnd : pts.Nodup) (hlx : xs.length = pts.length) (hly : ys.length = pts.length)
    (M Δ : Int) (hM : 0 ≤ M) (hΔ : 0 ≤ Δ) (hMΔ : M + Δ ≤ 32767) (hs : 0 ≤ s ∧ s ≤ 65536)
    (hpts : ∀ k, (-M ≤ (Iup.getP points k).1 ∧ (Iup.getP points k).1 ≤ M) ∧
      (-M ≤ (Iup.getP points k).2 ∧ (Iup.getP points k).2 ≤ M))
    (hxs : ∀ v ∈ xs, -Δ ≤ v ∧ v ≤ Δ) (hys : ∀ v ∈ ys, -Δ ≤ v ∧ v ≤ Δ) :
    accSparse ptBytes dBytes s (points.map ptFromI32) (points.map fun _ => false)
      = some (workOf points (scaledEx pts xs ys s points.length), listedFlags pts xs points.length) :=
  accSparse_eq_workOf pts xs ys ptBytes dBytes bs rest s points hcount hit hx hy hnd hlx hly M Δ hM hΔ hMΔ hs
    hpts hxs hys

/-! ### composite glyphs: component offsets and phantom points, no inference -/

/-- **`composite_glyph`, one sparse tuple**: every component / phantom point the tuple lists gets
`(x · s, y · s)` added in 16.16 — the exact integer products (no inference, no rounding: `den = 1`
in the terms of `apply_deltas_eq_spec_one_contour`); unlisted entries are untouched.  The scaler then adds
`Fixed::to_i32` of the accumulated value to the component's offset and to the phantom points
(`final_rounding`). -/
theorem composite_deltas_exact (t : RawTuple) (sp : Option (List Nat)) (s : Int)
    (deltas : List GvarApply.Pt) (hnd : ((t.deltas sp).map (·.1)).Nodup) (k : Nat) (hk : k < deltas.length)
    (hi16 : ∀ d ∈ t.deltas sp, (-32768 ≤ d.2.1 ∧ d.2.1 ≤ 32767) ∧ (-32768 ≤ d.2.2 ∧ d.2.2 ≤ 32767))
    (hfit : ∀ d ∈ t.deltas sp, (-2147483648 ≤ d.2.1 * s ∧ d.2.1 * s < 2147483648) ∧
      (-2147483648 ≤ d.2.2 * s ∧ d.2.2 * s < 2147483648)) :
    (compositeSparseTuple t sp s deltas).length = deltas.length ∧
    (compositeSparseTuple t sp s deltas).getD k (0, 0) = (match lookupV (t.deltas sp) k with
      | some d => ptAdd (deltas.getD k (0, 0)) (d.1 * s, d.2 * s)
      | none => deltas.getD k (0, 0)) := by
  obtain ⟨h1, h2⟩ := compositeSparseTuple_pointwise t sp s deltas hnd k hk
  refine ⟨h1, ?_⟩
  rw [h2]
  cases hl : lookupV (t.deltas sp) k with
  | none => rfl
  | some d =>
    simp only []
    have hmem : (k, d) ∈ t.deltas sp := by
      unfold lookupV at hl
      cases hf : (t.deltas sp).find? (fun c => c.1 == k) with
      | none => simp [hf] at hl
      | some c =>
        simp only [hf, Option.map_some, Option.some.injEq] at hl
        have h1 := List.mem_of_find?_eq_some hf
        have h2 := List.find?_some hf
        simp only [beq_iff_eq] at h2
        rw [← hl, ← h2]; exact h1
    obtain ⟨a1, a2⟩ := hi16 _ hmem
    obtain ⟨b1, b2⟩ := hfit _ hmem
    rw [fxMul_int_exact d.1 s a1 b1, fxMul_int_exact d.2 s a2 b2]

-- non-vacuity: a tent (0.25, 0.5, 1.0) at 0.75: exact 1/2, 16.16 scalar 32768, one rounding step
example : tupleScalar 1 [8192] (some ([4096], [16384])) [12288] = some 32768 ∧
    tentGo true (1, 1, 0) [8192] [4096] [16384] [12288] = some (4096, 8192, 1) := by decide
-- the implied region and a location outside it
example : tupleScalar 1 [16384] none [8192] = some 32768 ∧ tupleScalar 1 [16384] none [-1] = none ∧
    tupleScalar 1 [16384] (some ([0], [16384])) [8192] = some 32768 := by decide
-- 16.16 interpolation: references at x = 0 (delta 0) and x = 3 (delta 1.0 = 65536), point at x = 1:
-- exact 65536/3 = 21845.33…, the code gives 21845 (scale rounds to 21845)
example : Iup.fxInterpAxis 0 0 3 (3 * 65536 + 65536) 1 65536 - 65536 = 21845 ∧
    Iup.readerAxis 0 0 3 65536 1 = (65536, 3) := by decide

-- `SparseWF` is satisfiable: one explicit point 0 with delta (5, 7) in a glyph of 5 points …
example : SparseWF [(0, 0), (0, 0), (500, 0), (0, 0), (0, 0)] none 10
    (⟨0xA000, some [16384], none, [1, 0, 0, 0, 5, 0, 7]⟩, 65536)
    ⟨65536, listedDs [0] [5] [7] 5, listedFlags [0] [5] 5⟩ := by
  refine ⟨by decide, [0], [5], [7], [0, 7], [], rfl, by decide, by decide, by decide, by decide, rfl, rfl,
    by decide, by decide, rfl⟩
-- … and violated by a stream that lists point 0 twice (skrifa would add its deltas twice)
example (dt : DTuple) : ¬ SparseWF [(0, 0), (0, 0), (500, 0), (0, 0), (0, 0)] none 10
    (⟨0xA000, some [16384], none, [2, 1, 0, 0, 1, 5, 5, 1, 7, 7]⟩, 65536) dt := by
  rintro ⟨_, pts, xs, ys, bs, rest, hit, _, _, _, hnd, _⟩
  have : PackedDeltas.ptIterOf ((⟨0xA000, some [16384], none, [2, 1, 0, 0, 1, 5, 5, 1, 7, 7]⟩ : RawTuple).ptsAndDeltas none).1
      = .list [0, 0] := rfl
  rw [this] at hit
  injection hit with hit
  subst hit
  simp at hnd

end FontVerif.C10
