/-
C17 — the COLRv1 half of the palette closure: `plan.colr_palettes` no longer has an input.
Traversal model: C01's transcription of read-fonts closure.rs (`HandColr.v1ClosureOf`: `Colr::v1_closure` with
`Colrv1ClosureContext::dispatch` — visited set on paint positions, nesting limit 64 — over the byte-level paint graph
`graphOf`), tied to the real API by C01's `hc.clos` group and by C17's own `colr-v1pal` group (harness/src/bin/c17/palx.rs).
-/
import FontVerif.Lemmas.SubsetColrPalV1b
import FontVerif.Props.C17ColrPal
set_option linter.unusedVariables false
namespace FontVerif.C17ColrPalV1
open FontVerif FontVerif.HandColr FontVerif.SubsetColrPal FontVerif.SubsetColrPalV1 FontVerif.SubsetCpal

/-- `plan.colr_palettes` with BOTH halves of the closure modelled: `remap_palette_indices` of the `IntSet<u16>` that
`v1_closure` and `v0_closure_palette_indices` fill for `glyphset_colred` -/
def colrPalettesFull (t : Colr) (records : List (Nat × Nat × Nat)) (layers : List (Nat × Nat)) (colred : List Nat) :
    List (Nat × Nat) :=
  colrPalettes (v1Palettes t colred) records layers colred

/-- **v1_palette_indices_sound.**  SOUNDNESS of the COLRv1 palette collection, for every table, glyph set, sharing and
cycle structure (the visited set and the fuel make the traversal total): every palette index `v1_closure` collects is the
palette index of a `PaintSolid` / `PaintVarSolid` or of a colour stop of a gradient (all six kinds) that is REACHABLE in the
paint graph — through `PaintColrLayers` layers, `PaintGlyph` / transform children, `PaintColrGlyph` base paints,
`PaintComposite` source and backdrop — from the root paint of a BaseGlyphPaintRecord whose glyph is in the glyph set. -/
theorem v1_palette_indices_sound (t : Colr) (gs : List Nat) (p : Nat) (hp : p ∈ v1Palettes t gs) :
    ∃ r ∈ rootsOf (graphOf t) gs, ∃ pos n, Reach (graphOf t) r pos ∧ (graphOf t).node pos = some n ∧ p ∈ palOf n :=
  v1Palettes_sound t gs p hp

/-- **cpal_entries_kept_are_closure_full.**  `cpal_entries_kept_are_closure` without an input: the CPAL entries
`Cpal::subset` keeps are exactly the indices the modelled `v1_closure` traversal collects for `glyphset_colred` plus the
COLRv0 layer indices of its glyphs, never 0xFFFF. -/
theorem cpal_entries_kept_are_closure_full (t : Colr) (records : List (Nat × Nat × Nat)) (layers : List (Nat × Nat))
    (colred : List Nat) (e : Nat) :
    e ∈ retainedOf (colrPalettesFull t records layers colred) ↔
      e ≠ 0xFFFF ∧ (e ∈ v1Palettes t colred ∨ ∃ g ∈ colred, e ∈ v0PalOfGlyph records layers g) :=
  C17ColrPal.cpal_entries_kept_are_closure (v1Palettes t colred) records layers colred e

/-- **cpal_entries_kept_are_referenced.**  Nothing unreferenced is kept: every retained CPAL entry is the palette index of
a COLRv0 layer of a retained colour glyph or of a paint reachable from a retained colour glyph's COLRv1 root paint.
(The converse "every reachable paint's index is kept" is `cpal_entries_kept_iff_referenced_below_limit`; it holds only while the
nesting limit 64 does not fire — a paint first met at depth 64 is marked visited with its children unexplored and is not
re-explored when met again at a smaller depth; known finding C17-colr-nesting-limit; the `colr-v1pal` correspondence and the
paint-event oracle cover it on the corpus.) -/
theorem cpal_entries_kept_are_referenced (t : Colr) (records : List (Nat × Nat × Nat)) (layers : List (Nat × Nat))
    (colred : List Nat) (e : Nat) (he : e ∈ retainedOf (colrPalettesFull t records layers colred)) :
    e ≠ 0xFFFF ∧
    ((∃ r ∈ rootsOf (graphOf t) colred, ∃ pos n, Reach (graphOf t) r pos ∧ (graphOf t).node pos = some n ∧ e ∈ palOf n) ∨
     ∃ g ∈ colred, e ∈ v0PalOfGlyph records layers g) := by
  obtain ⟨h1, h2⟩ := (cpal_entries_kept_are_closure_full t records layers colred e).1 he
  refine ⟨h1, ?_⟩
  rcases h2 with h | h
  · exact Or.inl (v1_palette_indices_sound t colred e h)
  · exact Or.inr h

/-! ## non-vacuity -/

/-- an abstract paint graph with sharing and a cycle: root 10 = layers → 20 (solid 3), 30 (glyph → 40 = gradient stops 5, 7),
50 = composite (20, 10: back edge) -/
def exG : Graph :=
  { node := fun p => if p = 10 then some (.layers 3 0) else if p = 20 then some (.solid 3 none)
      else if p = 30 then some (.glyph 9 (some 40)) else if p = 40 then some (.gradient (some [(5, none), (7, some 0)]) none)
      else if p = 50 then some (.composite (some 20) (some 10)) else none
    layerList := some [some 20, some 30, some 50]
    baseList := some [(4, some 10), (6, some 50)] }

example : rootsOf exG [4] = [10] := by decide
example : Reach exG 10 40 := by
  have h1 : Reach exG 10 30 := Reach.tail (b := 10) (c := 30) (n := .layers 3 0) (Reach.refl 10) (by decide) (by decide)
  exact Reach.tail (b := 30) (c := 40) (n := .glyph 9 (some 40)) h1 (by decide) (by decide)

/-- **v1_palette_indices_complete_below_limit.**  COMPLETENESS under the decidable hypothesis `BelowLimit` (every path of
the paint graph from a retained colour glyph's root paint has fewer than 64 edges: a DAG of height < 64 below the roots,
sharing allowed), for a version ≥ 1 table whose paints lie below 2^32: the palette index of EVERY solid / colour stop
reachable from a retained colour glyph's root paint IS collected by `v1_closure`.  (DFS invariant `dispatch_complete`, by
induction on the height bound.)  With `v1_palette_indices_sound`: collected = referenced. -/
theorem v1_palette_indices_complete_below_limit (t : Colr) (hv : ¬ t.version < 1)
    (hsmall : ∀ x m, (graphOf t).node x = some m → x < 4294967296) (gs : List Nat)
    (hbl : BelowLimit (graphOf t) gs = true) (r : Nat) (hr : r ∈ rootsOf (graphOf t) gs) (y : Nat) (m : PNode)
    (hreach : Reach (graphOf t) r y) (hm : (graphOf t).node y = some m) (p : Nat) (hp : p ∈ palOf m) :
    p ∈ v1Palettes t gs :=
  v1Palettes_complete t hv hsmall gs hbl r hr y m hreach hm p hp

/-- **cpal_entries_kept_iff_referenced_below_limit.**  Under `BelowLimit`: the CPAL entries `Cpal::subset` keeps are EXACTLY
the palette indices (≠ 0xFFFF) of the COLRv0 layers of the retained colour glyphs and of the solids / colour stops
reachable from their COLRv1 root paints — kept = referenced. -/
theorem cpal_entries_kept_iff_referenced_below_limit (t : Colr) (hv : ¬ t.version < 1)
    (hsmall : ∀ x m, (graphOf t).node x = some m → x < 4294967296)
    (records : List (Nat × Nat × Nat)) (layers : List (Nat × Nat)) (colred : List Nat)
    (hbl : BelowLimit (graphOf t) colred = true) (e : Nat) :
    e ∈ retainedOf (colrPalettesFull t records layers colred) ↔
      e ≠ 0xFFFF ∧
      ((∃ r ∈ rootsOf (graphOf t) colred, ∃ pos n, Reach (graphOf t) r pos ∧ (graphOf t).node pos = some n ∧ e ∈ palOf n) ∨
       ∃ g ∈ colred, e ∈ v0PalOfGlyph records layers g) := by
  constructor
  · exact cpal_entries_kept_are_referenced t records layers colred e
  · rintro ⟨h1, h2⟩
    apply (cpal_entries_kept_are_closure_full t records layers colred e).2
    refine ⟨h1, ?_⟩
    rcases h2 with ⟨r, hr, pos, n, hreach, hn, hp⟩ | h
    · exact Or.inl (v1_palette_indices_complete_below_limit t hv hsmall colred hbl r hr pos n hreach hn e hp)
    · exact Or.inr h

/-! ## the hypothesis on both sides (`BelowLimit`, `heightLe`: Lemmas/SubsetColrPalV1b.lean) -/

/-- base glyph 1 → a chain of `n` PaintTranslate → PaintSolid(palette 7)  (the synthetic family `syn:colr-nest-n`) -/
def chainG (n : Nat) : Graph :=
  { node := fun p => if p < n then some (.unary (some (p + 1)) none) else if p = n then some (.solid 7 none) else none
    layerList := none
    baseList := some [(1, some 0)] }

/-- 63 nested transforms: below the limit, and the closure collects the solid's palette index -/
example : BelowLimit (chainG 63) [1] = true := by decide +kernel
example : (v1Roots (chainG 63) [1]).palettes = [7] := by decide +kernel
/-- 64 nested transforms (the shape of known finding C17-colr-nesting-limit): the hypothesis fails and the reachable
solid's palette index is NOT collected — completeness is false without the hypothesis -/
example : BelowLimit (chainG 64) [1] = false := by decide +kernel
example : (v1Roots (chainG 64) [1]).palettes = [] := by decide +kernel
example : Reach (chainG 2) 0 2 := by
  have h1 : Reach (chainG 2) 0 1 := Reach.tail (b := 0) (c := 1) (n := .unary (some 1) none) (Reach.refl 0) (by decide) (by decide)
  exact Reach.tail (b := 1) (c := 2) (n := .unary (some 2) none) h1 (by decide) (by decide)
/-- a cyclic graph is never below the limit (but the traversal still terminates: visited set) -/
example : BelowLimit exG [6] = false := by decide +kernel

end FontVerif.C17ColrPalV1
