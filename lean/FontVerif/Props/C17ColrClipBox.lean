/-
C17 — COLR ClipBox subsetting (klippa/src/colr.rs `ClipBox::subset`, `ClipBoxFormat1::subset`, `ClipBoxFormat2::subset`;
model `SubsetColr.clipBoxObj`, the object `clipListObj` packs for every written Clip record and which the byte-exact COLR
correspondence of harness/src/bin/c17/colrx.rs compares; oracle `colr-clip-box-preserved`).
-/
import FontVerif.Lemmas.SubsetColr
set_option linter.unusedVariables false
namespace FontVerif.C17ColrClipBox
open FontVerif FontVerif.ColrSer FontVerif.SubsetColr
open FontVerif.SubsetHvar (Err R)

theorem sl_length (b : Array Nat) (p n : Nat) (s : List Nat) (h : sl b p n = some s) : s.length = n := by
  unfold sl at h
  split at h
  · cases h; simp; omega
  · cases h

/-- **clipbox_bytes_copied.**  Whenever `ClipBox::subset` produces an object for the box behind offset `o` of the ClipList at
`off`: it has no links and
* a format 1 box is the 9 source bytes (format, xMin, yMin, xMax, yMax) copied exactly;
* a format 2 box is the 13 source bytes with the first 9 copied exactly and the `varIndexBase` field either left alone
  (0xFFFFFFFF = no variation) or replaced by the big-endian bytes of `plan.colr_varidx_delta_map[varIndexBase]` — which must
  exist, otherwise the subsetter fails; any other format byte fails. -/
theorem clipbox_bytes_copied (b : Array Nat) (p : PlanIn) (off o : Nat) (obj : Obj)
    (h : clipBoxObj b p off o = .ok obj) :
    obj.links = [] ∧
    ((rd 1 b (off + o) = some 1 ∧ sl b (off + o) 9 = some obj.bytes) ∨
     (rd 1 b (off + o) = some 2 ∧ ∃ src, sl b (off + o) 13 = some src ∧
        ((beValue ((src.drop 9).take 4) = NO_VARIATION_INDEX ∧ obj.bytes = src) ∨
         (beValue ((src.drop 9).take 4) ≠ NO_VARIATION_INDEX ∧
            ∃ nv, p.varIdx.lookup (beValue ((src.drop 9).take 4)) = some nv ∧ obj.bytes = src.take 9 ++ beBytes 4 nv)))) := by
  unfold clipBoxObj at h
  split at h
  · cases h
  cases hf : rd 1 b (off + o) with
  | none => rw [hf] at h; cases h
  | some fmt =>
    rw [hf] at h
    simp only at h
    split at h
    · rename_i h1
      subst h1
      cases hs : sl b (off + o) 9 with
      | none => rw [hs] at h; cases h
      | some src =>
        rw [hs] at h
        simp only [pure, Except.pure] at h
        cases h
        exact ⟨rfl, Or.inl ⟨rfl, rfl⟩⟩
    · split at h
      · rename_i _ h2
        subst h2
        cases hs : sl b (off + o) 13 with
        | none => rw [hs] at h; cases h
        | some src =>
          rw [hs] at h
          simp only at h
          obtain ⟨bytes, hpv, hob⟩ := bind_ok h
          simp only [pure, Except.pure] at hob
          cases hob
          refine ⟨rfl, Or.inr ⟨rfl, src, rfl, ?_⟩⟩
          have hlen := sl_length b _ _ _ hs
          unfold patchVar at hpv
          split at hpv
          · rename_i hno
            simp only [pure, Except.pure] at hpv; cases hpv
            exact Or.inl ⟨hno, rfl⟩
          · rename_i hno
            split at hpv
            · cases hpv
            · rename_i nv hnv
              simp only [pure, Except.pure] at hpv; cases hpv
              refine Or.inr ⟨hno, nv, hnv, ?_⟩
              rw [writeBE_eq]
              have : src.drop (9 + 4) = [] := List.drop_of_length_le (by omega)
              rw [this, List.append_nil]
      · cases h

/-! ## non-vacuity -/

def exB : Array Nat := #[1, 0, 0, 0, 1,   2, 0, 10, 0, 20, 0, 30, 0, 40, 0, 0, 0, 7]
def exP : PlanIn :=
  { colred := [], glyphMap := [], palettes := [], layers := [], varIdx := [(7, 2)], innerMaps := [], newDs := [] }

/-- a format 2 box at offset 5 with varIndexBase 7 ↦ 2 -/
example : (clipBoxObj exB exP 0 5).toOption = some ⟨[2, 0, 10, 0, 20, 0, 30, 0, 40, 0, 0, 0, 2], []⟩ := by decide

end FontVerif.C17ColrClipBox
