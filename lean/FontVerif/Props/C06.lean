/-
C06 — Built font files are well-formed sfnt containers that return the tables put in.
Property theorems only (helper lemmas live in Lemmas/Sfnt.lean).
Model: Model/Sfnt.lean ⇄ write-fonts/src/font_builder.rs, write-fonts/src/util.rs (SearchRange),
read-fonts/src/tables.rs (compute_checksum), read-fonts/src/lib.rs (FontRef::new, table_data).
-/
import FontVerif.Model.Sfnt
import FontVerif.Lemmas.Sfnt
import FontVerif.Lemmas.SfntBuild
set_option linter.unusedVariables false
namespace FontVerif.C06
open FontVerif FontVerif.Sfnt

/-! ### checksum arithmetic -/

/-- Key lemma: the checksum of a concatenation whose first part is a whole number of 32-bit words
is the wrapping sum of the parts' checksums — for all byte lists. -/
theorem checksum_append_aligned (a b : Bytes) (h : a.length % 4 = 0) :
    checksum (a ++ b) = (checksum a + checksum b) % 4294967296 :=
  checksum_append a b h

example : checksum ([1, 2, 3, 4] ++ [255]) = (checksum [1, 2, 3, 4] + checksum [255]) % 4294967296 := by
  decide

/-- Zero padding a table to the next multiple of four does not change its checksum. -/
theorem checksum_zero_padding (d : Bytes) :
    checksum (d ++ zeros (round4 d.length - d.length)) = checksum d :=
  checksum_pad d

/-- The checksum is a `u32`, and the four big-endian bytes of a `u32` sum to itself. -/
theorem checksum_is_u32 (d : Bytes) : checksum d < 4294967296 := checksum_lt d

/-! ### the builder's map: insertion order, copy-missing -/

/-- every history of `add_raw` / `copy_missing_tables` leaves a strictly ascending map -/
theorem history_sorted (ops : List Op) : Sorted (runOps ops) := by
  unfold runOps
  suffices h : ∀ m, Sorted m → Sorted (ops.foldl applyOp m) from h [] (by simp [Sorted])
  induction ops with
  | nil => intro m hm; exact hm
  | cons op rest ih =>
    intro m hm
    simp only [List.foldl_cons]
    apply ih
    cases op with
    | add t d => exact insert_sorted t d m hm
    | copy src =>
      simp only [applyOp]
      split
      · rename_i f _
        unfold copyMissing
        generalize records f = recs
        suffices h : ∀ (rs : List Rec) m, Sorted m → Sorted (rs.foldl (fun m r =>
            if contains m r.tag then m
            else match tableDataIn recs f.data r.tag with
              | some d => insert r.tag d m
              | none => m) m) from h recs m hm
        intro rs
        induction rs with
        | nil => intro m hm; exact hm
        | cons r rs ih2 =>
          intro m hm
          simp only [List.foldl_cons]
          apply ih2
          split
          · exact hm
          · split
            · exact insert_sorted _ _ _ hm
            · exact hm
      · exact hm

/-- `add_raw` all of `ops` (tag, bytes) in order -/
def addAll (ops : List (Nat × Bytes)) (m : Tables) : Tables :=
  ops.foldl (fun m op => addRaw m op.1 op.2) m

/-- The builder's state — hence the built file — does not depend on the order in which distinct
tags were added: for every permutation of an add-history with pairwise distinct tags, starting
from any builder state. -/
theorem insertion_order_irrelevant (ops ops' : List (Nat × Bytes)) (m : Tables)
    (hp : ops.Perm ops') (hd : (ops.map Prod.fst).Nodup) :
    addAll ops m = addAll ops' m ∧ build (addAll ops m) = build (addAll ops' m) := by
  have key : addAll ops m = addAll ops' m := by
    unfold addAll
    apply List.Perm.foldl_eq' hp
    intro x hx y hy z
    by_cases hxy : x.1 = y.1
    · have : x = y := by
        exact eq_of_nodup_map_fst hd hx hy hxy
      subst this; rfl
    · simp only [addRaw]
      exact (insert_comm x.1 y.1 x.2 y.2 z hxy).symm
  exact ⟨key, by rw [key]⟩

example : ([(1, [7]), (2, [8]), (3, [])] : List (Nat × Bytes)).Perm [(3, []), (1, [7]), (2, [8])]
    ∧ (([(1, [7]), (2, [8]), (3, [])] : List (Nat × Bytes)).map Prod.fst).Nodup := by
  refine ⟨?_, by decide⟩
  exact List.perm_append_comm (l₁ := [(1, [7]), (2, [8])]) (l₂ := [(3, [])])

/-- A table supplied to the builder is what `get` returns, whatever is added for other tags later. -/
theorem add_raw_then_lookup (m : Tables) (t : Nat) (d : Bytes) :
    lookup (addRaw m t d) t = some d ∧ ∀ t', t' ≠ t → lookup (addRaw m t d) t' = lookup m t' :=
  ⟨lookup_insert_self t d m, fun t' h => lookup_insert_ne t t' d m h⟩

/-- Copying missing tables from any opened font (well-formed or not) never overrides a table the
builder already has, and never removes one. -/
theorem copy_missing_never_overrides (f : Font) (m : Tables) (t : Nat) (d : Bytes)
    (h : lookup m t = some d) : lookup (copyMissing f m) t = some d := by
  unfold copyMissing
  generalize records f = recs
  suffices hs : ∀ (rs : List Rec) m, lookup m t = some d → lookup (rs.foldl (fun m r =>
      if contains m r.tag then m
      else match tableDataIn recs f.data r.tag with
        | some d => insert r.tag d m
        | none => m) m) t = some d from hs recs m h
  intro rs
  induction rs with
  | nil => intro m hm; exact hm
  | cons r rs ih =>
    intro m hm
    simp only [List.foldl_cons]
    apply ih
    split
    · exact hm
    · rename_i hc
      split
      · have hne : t ≠ r.tag := by
          intro e
          apply hc
          rw [contains_eq, ← e, hm]; rfl
        rw [lookup_insert_ne _ _ _ _ hne]; exact hm
      · exact hm

/-- … and the same through a whole history: once `add_raw t d` is the last add for `t`, later
`copy_missing_tables` operations leave `t ↦ d` in place. -/
theorem copies_after_add_keep (m : Tables) (t : Nat) (d : Bytes) (srcs : List Bytes) :
    lookup ((srcs.map Op.copy).foldl applyOp (addRaw m t d)) t = some d := by
  suffices hs : ∀ m, lookup m t = some d → lookup ((srcs.map Op.copy).foldl applyOp m) t = some d from
    hs _ (lookup_insert_self t d m)
  induction srcs with
  | nil => intro m hm; exact hm
  | cons s rest ih =>
    intro m hm
    simp only [List.map_cons, List.foldl_cons]
    apply ih
    simp only [applyOp]
    split
    · exact copy_missing_never_overrides _ _ _ _ hm
    · exact hm

/-! ### the built file

Hypotheses, all explicit:
* `WFMap m`  — the builder's map invariant (strictly ascending tags: `history_sorted`) and every
  tag is a `u32`;
* `Fits m`   — the container's own size limits: at most 65535 tables (`numTables` is a `u16`:
  `TableDirectory::from_table_records` asserts it) and `fileSize m` = 12 + 16·n + Σ round4(len)
  < 2^32 (`u32` positions).  (Until /repo 0cd8c18 the limit was 4095 tables: the `u16`
  `search_range` of `SearchRange::compute` panicked at 4096; the fields now saturate.);
* `build m = some f` — `f` is the file `FontBuilder::build` returns. -/

/-- Within the size limits `build` does not trap. -/
theorem build_total (m : Tables) (hf : Fits m) : ∃ f, build m = some f :=
  ⟨_, build_eq m hf⟩

/-- The built file has exactly the advertised size: header, directory, padded tables, nothing else. -/
theorem built_size (m : Tables) (hf : Fits m) (f : Bytes) (hb : build m = some f) :
    f.length = fileSize m := by
  rw [build_eq m hf] at hb
  simp only [Option.some.injEq] at hb
  subst hb
  rw [List.length_append, dirOf_length, bodyBytes_length, ents_bodyLen]
  unfold fileSize; omega

/-- The built file opens (`FontRef::new` succeeds) and announces one record per supplied table. -/
theorem build_opens (m : Tables) (hw : WFMap m) (hf : Fits m) (f : Bytes) (hb : build m = some f) :
    openFont f = .ok { data := f, numTables := m.length } :=
  (built_font m hw hf f hb).2.1

/-- The directory lists exactly the supplied tags, in strictly ascending order. -/
theorem dir_sorted_exact_tags (m : Tables) (hw : WFMap m) (hf : Fits m) (f : Bytes)
    (hb : build m = some f) :
    (records { data := f, numTables := m.length }).map (·.tag) = m.map Prod.fst ∧
      ((records { data := f, numTables := m.length }).map (·.tag)).Pairwise (· < ·) := by
  have h := (built_font m hw hf f hb).2.2
  rw [h, sortedOf_tags m hw.1]
  exact ⟨rfl, sorted_tags_pairwise m hw.1⟩

/-- `table_data(tag)` on the built file returns exactly the supplied bytes — for `head` of at
least 12 bytes with bytes 8..12 replaced by some `u32` `adj` (the checksum adjustment), see
`withAdj` — and `None` for every tag that was not supplied. -/
theorem table_data_returns (m : Tables) (hw : WFMap m) (hf : Fits m) (f : Bytes)
    (hb : build m = some f) :
    ∃ adj, adj < 4294967296 ∧
      (∀ t d, lookup m t = some d →
        tableData { data := f, numTables := m.length } t = some (withAdj adj t d)) ∧
      (∀ t, lookup m t = none → tableData { data := f, numTables := m.length } t = none) := by
  obtain ⟨hfeq, _, hrecs⟩ := built_font m hw hf f hb
  refine ⟨adjOf m, by unfold adjOf; exact Nat.mod_lt _ (by omega), ?_, ?_⟩
  · intro t d h
    unfold tableData
    rw [hrecs]
    simp only [hfeq]
    exact built_tableData m hw hf t d (lookup_mem m t d h)
  · intro t h
    unfold tableData
    rw [hrecs]
    apply built_tableData_absent m hw
    intro hmem
    obtain ⟨e, he, rfl⟩ := List.mem_map.1 hmem
    rw [mem_lookup m hw.1 e.1 e.2 he] at h
    exact absurd h (by simp)

/-- … spelled out: same length; identical bytes unless the table is a `head` of ≥ 12 bytes, and
then identical outside bytes 8..12. -/
theorem table_data_same_but_adjustment (adj t : Nat) (d : Bytes) :
    (withAdj adj t d).length = d.length ∧
      (¬ (t = TAG_head ∧ 12 ≤ d.length) → withAdj adj t d = d) ∧
      (withAdj adj t d).take 8 = d.take 8 ∧ (withAdj adj t d).drop 12 = d.drop 12 := by
  refine ⟨withAdj_length adj t d, ?_, ?_, ?_⟩
  · intro h; unfold withAdj; rw [if_neg h]
  · unfold withAdj
    split
    · rename_i h; exact take8_splice _ _ _ (by omega)
    · rfl
  · unfold withAdj
    split
    · rename_i h; exact drop12_splice _ _ _ (by omega) (be4_length adj)
    · rfl

/-- Every table starts after the directory at a 4-byte aligned offset, lies inside the file
together with its padding, and the padding bytes are zero. -/
theorem aligned_zero_padded (m : Tables) (hw : WFMap m) (hf : Fits m) (f : Bytes)
    (hb : build m = some f) :
    ∀ r ∈ records { data := f, numTables := m.length },
      r.offset % 4 = 0 ∧ 12 + 16 * m.length ≤ r.offset ∧
      r.offset + round4 r.length ≤ f.length ∧
      (f.drop (r.offset + r.length)).take (round4 r.length - r.length)
        = zeros (round4 r.length - r.length) := by
  obtain ⟨hfeq, _, hrecs⟩ := built_font m hw hf f hb
  intro r hr
  rw [hrecs] at hr
  obtain ⟨d, hd, hlen, hcs, hpos, hmod, hend, hsl⟩ := rec_props m hf r hr
  rw [← hfeq] at hend hsl
  rw [hlen]
  refine ⟨hmod, by omega, hend, ?_⟩
  have hx : (withAdj (adjOf m) r.tag (zeroAdj r.tag d)).length = d.length := by
    rw [withAdj_length, zeroAdj_length]
  have hge := round4_ge d.length
  have e1 : List.drop (r.offset + d.length) f = List.drop d.length (List.drop r.offset f) := by
    rw [List.drop_drop]
  rw [e1, List.take_drop]
  have e2 : d.length + (round4 d.length - d.length) = round4 d.length := by omega
  rw [e2, hsl, List.drop_left' hx]

/-- Every directory checksum is the checksum of the table the file returns for that tag, with the
head table's adjustment field zeroed; the directory length is the table's length. -/
theorem dir_checksums (m : Tables) (hw : WFMap m) (hf : Fits m) (f : Bytes)
    (hb : build m = some f) :
    ∀ r ∈ records { data := f, numTables := m.length },
      ∃ got, tableData { data := f, numTables := m.length } r.tag = some got ∧
        r.length = got.length ∧ r.checksum = checksum (zeroAdj r.tag got) := by
  obtain ⟨hfeq, _, hrecs⟩ := built_font m hw hf f hb
  intro r hr
  have hr' := hr
  rw [hrecs] at hr'
  obtain ⟨d, hd, hlen, hcs, _⟩ := rec_props m hf r hr'
  refine ⟨withAdj (adjOf m) r.tag d, ?_, ?_, ?_⟩
  · unfold tableData
    rw [hrecs]
    simp only [hfeq]
    exact built_tableData m hw hf r.tag d hd
  · rw [withAdj_length]; exact hlen
  · rw [zeroAdj_withAdj]; exact hcs

/-- With a head table of at least 12 bytes the checksum of the whole file is 0xB1B0AFBA. -/
theorem whole_file_checksum (m : Tables) (hw : WFMap m) (hf : Fits m) (f : Bytes)
    (hb : build m = some f) (d : Bytes) (hh : lookup m TAG_head = some d) (hl : 12 ≤ d.length) :
    checksum f = 0xB1B0AFBA := by
  rw [build_eq m hf] at hb
  simp only [Option.some.injEq] at hb
  subst hb
  exact whole_checksum m hw.1 d (lookup_mem m _ d hh) hl

/-! ### the binary-search assist fields of the header

`searchRange`, `entrySelector`, `rangeShift` only speed up a binary search (`FontRef` ignores
them).  Below 4096 tables they are the OpenType formula; from 4096 tables on `16·2^⌊log₂ n⌋` does
not fit the `u16` field and saturates (`SearchRange::compute` after /repo 0cd8c18). -/

/-- The first twelve bytes of the built file: version 0x00010000, `numTables`, and the three
search fields `SearchRange::compute(n, 16)` yields, each a `u16`. -/
theorem header_fields (m : Tables) (hf : Fits m) (f : Bytes) (hb : build m = some f) :
    f.take 12 = be4 0x00010000 ++ be2 m.length ++ be2 (searchRange m.length 16).1 ++
        be2 (searchRange m.length 16).2.1 ++ be2 (searchRange m.length 16).2.2 ∧
      (searchRange m.length 16).1 < 65536 ∧ (searchRange m.length 16).2.1 < 65536 ∧
      (searchRange m.length 16).2.2 < 65536 := by
  rw [build_eq m hf] at hb
  simp only [Option.some.injEq] at hb
  subst hb
  refine ⟨?_, searchRange_u16 _ _⟩
  unfold dirOf dirBytes
  rw [sortedOf_length]
  simp [be4, be2]

/-- Fewer than 4096 tables: the fields are exactly the OpenType formula
(`searchRange = 16·2^⌊log₂ n⌋`, `entrySelector = ⌊log₂ n⌋`, `rangeShift = 16·n − searchRange`). -/
theorem search_fields_spec (n : Nat) (h : n < 4096) :
    searchRange n 16 = (2 ^ Nat.log2 n * 16, Nat.log2 n, n * 16 - 2 ^ Nat.log2 n * 16) :=
  searchRange_ok n h

/-- 4096 to 65535 tables: `searchRange` saturates at 65535, `entrySelector` is still `⌊log₂ n⌋`
(at most 15), `rangeShift` is `16·n − 16·2^⌊log₂ n⌋` (computed from the unclamped search range)
saturated at 65535. -/
theorem search_fields_saturated (n : Nat) (h1 : 4096 ≤ n) (h2 : n ≤ 65535) :
    searchRange n 16 = (65535, Nat.log2 n, min (n * 16 - 2 ^ Nat.log2 n * 16) 65535) ∧
      12 ≤ Nat.log2 n ∧ Nat.log2 n ≤ 15 :=
  ⟨searchRange_sat n h1 h2, (Nat.le_log2 (by omega)).2 (by omega), log2_le_15 n h2⟩

example : searchRange 4095 16 = (32768, 11, 32752) := by decide
example : searchRange 4096 16 = (65535, 12, 0) := by decide
example : searchRange 4097 16 = (65535, 12, 16) := by decide
example : searchRange 8191 16 = (65535, 12, 65520) := by decide
example : searchRange 8192 16 = (65535, 13, 0) := by decide
example : searchRange 65535 16 = (65535, 15, 65535) := by decide

/-! ### the hypotheses are satisfiable, and histories produce them -/

/-- every history whose tags are `u32`s yields a well-formed map (so the theorems above apply to
the result of any sequence of `add_raw` / `copy_missing_tables`, given the size limits) -/
theorem history_wf_partial (ops : List (Nat × Bytes)) (h : ∀ op ∈ ops, op.1 < 4294967296) :
    WFMap (addAll ops []) := by
  refine ⟨?_, ?_⟩
  · have := history_sorted (ops.map (fun op => Op.add op.1 op.2))
    unfold runOps at this
    unfold addAll
    rw [List.foldl_map] at this
    exact this
  · unfold addAll
    suffices hs : ∀ m : Tables, (∀ e ∈ m, e.1 < 4294967296) →
        ∀ e ∈ ops.foldl (fun m op => addRaw m op.1 op.2) m, e.1 < 4294967296 from
      hs [] (by simp)
    induction ops with
    | nil => intro m hm; exact hm
    | cons op rest ih =>
      intro m hm
      simp only [List.foldl_cons]
      apply ih (fun o ho => h o (by simp [ho]))
      have hop := h op (by simp)
      unfold addRaw
      clear ih
      induction m with
      | nil => intro e he; simp only [Sfnt.insert, List.mem_singleton] at he; subst he; exact hop
      | cons x xs ihx =>
        intro e he
        simp only [Sfnt.insert] at he
        split at he
        · simp only [List.mem_cons] at he
          rcases he with rfl | rfl | he
          · exact hop
          · exact hm _ (by simp)
          · exact hm _ (by simp [he])
        · split at he
          · simp only [List.mem_cons] at he
            rcases he with rfl | he
            · exact hop
            · exact hm _ (by simp [he])
          · simp only [List.mem_cons] at he
            rcases he with rfl | he
            · exact hm _ (by simp)
            · exact ihx (fun e he => hm e (by simp [he])) e he

/-- non-vacuity: a concrete three-table map (head of 12 bytes, an odd-length table, an empty one)
satisfies every hypothesis, builds, and the conclusions can be observed on it. -/
example :
    let m : Tables := [(0x44534947, [1, 2, 3]), (0x68656164, [0, 1, 2, 3, 4, 5, 6, 7, 8, 9, 10, 11]),
      (0x7a7a7a7a, [])]
    WFMap m ∧ Fits m ∧ lookup m TAG_head = some [0, 1, 2, 3, 4, 5, 6, 7, 8, 9, 10, 11] ∧
      (build m).isSome = true := by
  refine ⟨⟨by simp [Sorted], by simp⟩, ⟨by simp, by simp [fileSize, bodyLen, round4]⟩, by decide, ?_⟩
  rw [build_eq _ ⟨by simp, by simp [fileSize, bodyLen, round4]⟩]; rfl

/-- non-vacuity above the old limit: 4096 empty tables (tags 0..4095) satisfy `WFMap` and `Fits`,
so the font builds, opens and its header carries the saturated fields — obtained from the theorems,
without evaluating the 4096-table build. -/
example :
    let m : Tables := (List.range 4096).map (fun i => (i, []))
    WFMap m ∧ Fits m ∧ ∃ f, build m = some f ∧ f.length = 65548 ∧
      openFont f = .ok { data := f, numTables := 4096 } ∧
      f.take 12 = [0, 1, 0, 0, 16, 0, 255, 255, 0, 12, 0, 0] := by
  intro m
  have hlen : m.length = 4096 := by simp [m]
  have hbody : ∀ k, bodyLen ((List.range k).map (fun i => ((i, []) : Nat × Bytes))) = 0 := by
    intro k
    induction k with
    | zero => rfl
    | succ k ih =>
      rw [List.range_succ, List.map_append, bodyLen_perm List.perm_append_comm]
      simp [bodyLen, round4, ih]
  have hw : WFMap m := by
    refine ⟨?_, ?_⟩
    · unfold Sorted
      simp only [m, List.pairwise_map]
      exact List.pairwise_lt_range
    · intro e he
      simp only [m, List.mem_map, List.mem_range] at he
      obtain ⟨i, hi, rfl⟩ := he
      simp only []; omega
  have hfits : Fits m := by
    refine ⟨by omega, ?_⟩
    unfold fileSize
    rw [hlen, hbody 4096]; omega
  obtain ⟨f, hb⟩ := build_total m hfits
  refine ⟨hw, hfits, f, hb, ?_, ?_, ?_⟩
  · rw [built_size m hfits f hb]; unfold fileSize; rw [hlen, hbody 4096]
  · have := build_opens m hw hfits f hb
    rw [hlen] at this; exact this
  · have := (header_fields m hfits f hb).1
    rw [hlen] at this
    rw [this]
    decide

end FontVerif.C06
