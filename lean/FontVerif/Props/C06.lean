/-
C06 — Built font files are well-formed sfnt containers that return the tables put in.
Property theorems only (helper lemmas live in Lemmas/Sfnt.lean).
Model: Model/Sfnt.lean ⇄ write-fonts/src/font_builder.rs, write-fonts/src/util.rs (SearchRange),
read-fonts/src/tables.rs (compute_checksum), read-fonts/src/lib.rs (FontRef::new, table_data).
-/
import FontVerif.Model.Sfnt
import FontVerif.Lemmas.Sfnt
set_option linter.unusedVariables false
namespace FontVerif.C06
open FontVerif FontVerif.Sfnt

/-! ### checksum arithmetic -/

/-- Key lemma: the checksum of a concatenation whose first part is a whole number of 32-bit words
is the wrapping sum of the parts' checksums — for all byte lists. -/
theorem checksum_append_aligned (a b : Bytes) (h : a.length % 4 = 0) :
    checksum (a ++ b) = (checksum a + checksum b) % 4294967296 :=
  checksum_append a b h

example : checksum ([1, 2, 3, 4] ++ [255]) = (checksum [1, 2, 3, 4] + checksum [255]) % 4294967296 := by
  decide

/-- Zero padding a table to the next multiple of four does not change its checksum. -/
theorem checksum_zero_padding (d : Bytes) :
    checksum (d ++ zeros (round4 d.length - d.length)) = checksum d :=
  checksum_pad d

/-- The checksum is a `u32`, and the four big-endian bytes of a `u32` sum to itself. -/
theorem checksum_is_u32 (d : Bytes) : checksum d < 4294967296 := checksum_lt d

/-! ### the builder's map: insertion order, copy-missing -/

/-- every history of `add_raw` / `copy_missing_tables` leaves a strictly ascending map -/
theorem history_sorted (ops : List Op) : Sorted (runOps ops) := by
  unfold runOps
  suffices h : ∀ m, Sorted m → Sorted (ops.foldl applyOp m) from h [] (by simp [Sorted])
  induction ops with
  | nil => intro m hm; exact hm
  | cons op rest ih =>
    intro m hm
    simp only [List.foldl_cons]
    apply ih
    cases op with
    | add t d => exact insert_sorted t d m hm
    | copy src =>
      simp only [applyOp]
      split
      · rename_i f _
        unfold copyMissing
        generalize records f = recs
        suffices h : ∀ (rs : List Rec) m, Sorted m → Sorted (rs.foldl (fun m r =>
            if contains m r.tag then m
            else match tableDataIn recs f.data r.tag with
              | some d => insert r.tag d m
              | none => m) m) from h recs m hm
        intro rs
        induction rs with
        | nil => intro m hm; exact hm
        | cons r rs ih2 =>
          intro m hm
          simp only [List.foldl_cons]
          apply ih2
          split
          · exact hm
          · split
            · exact insert_sorted _ _ _ hm
            · exact hm
      · exact hm

/-- `add_raw` all of `ops` (tag, bytes) in order -/
def addAll (ops : List (Nat × Bytes)) (m : Tables) : Tables :=
  ops.foldl (fun m op => addRaw m op.1 op.2) m

/-- The builder's state — hence the built file — does not depend on the order in which distinct
tags were added: for every permutation of an add-history with pairwise distinct tags, starting
from any builder state. -/
theorem insertion_order_irrelevant (ops ops' : List (Nat × Bytes)) (m : Tables)
    (hp : ops.Perm ops') (hd : (ops.map Prod.fst).Nodup) :
    addAll ops m = addAll ops' m ∧ build (addAll ops m) = build (addAll ops' m) := by
  have key : addAll ops m = addAll ops' m := by
    unfold addAll
    apply List.Perm.foldl_eq' hp
    intro x hx y hy z
    by_cases hxy : x.1 = y.1
    · have : x = y := by
        exact eq_of_nodup_map_fst hd hx hy hxy
      subst this; rfl
    · simp only [addRaw]
      exact (insert_comm x.1 y.1 x.2 y.2 z hxy).symm
  exact ⟨key, by rw [key]⟩

example : ([(1, [7]), (2, [8]), (3, [])] : List (Nat × Bytes)).Perm [(3, []), (1, [7]), (2, [8])]
    ∧ (([(1, [7]), (2, [8]), (3, [])] : List (Nat × Bytes)).map Prod.fst).Nodup := by
  refine ⟨?_, by decide⟩
  exact List.perm_append_comm (l₁ := [(1, [7]), (2, [8])]) (l₂ := [(3, [])])

/-- A table supplied to the builder is what `get` returns, whatever is added for other tags later. -/
theorem add_raw_then_lookup (m : Tables) (t : Nat) (d : Bytes) :
    lookup (addRaw m t d) t = some d ∧ ∀ t', t' ≠ t → lookup (addRaw m t d) t' = lookup m t' :=
  ⟨lookup_insert_self t d m, fun t' h => lookup_insert_ne t t' d m h⟩

/-- Copying missing tables from any opened font (well-formed or not) never overrides a table the
builder already has, and never removes one. -/
theorem copy_missing_never_overrides (f : Font) (m : Tables) (t : Nat) (d : Bytes)
    (h : lookup m t = some d) : lookup (copyMissing f m) t = some d := by
  unfold copyMissing
  generalize records f = recs
  suffices hs : ∀ (rs : List Rec) m, lookup m t = some d → lookup (rs.foldl (fun m r =>
      if contains m r.tag then m
      else match tableDataIn recs f.data r.tag with
        | some d => insert r.tag d m
        | none => m) m) t = some d from hs recs m h
  intro rs
  induction rs with
  | nil => intro m hm; exact hm
  | cons r rs ih =>
    intro m hm
    simp only [List.foldl_cons]
    apply ih
    split
    · exact hm
    · rename_i hc
      split
      · have hne : t ≠ r.tag := by
          intro e
          apply hc
          rw [contains_eq, ← e, hm]; rfl
        rw [lookup_insert_ne _ _ _ _ hne]; exact hm
      · exact hm

/-- … and the same through a whole history: once `add_raw t d` is the last add for `t`, later
`copy_missing_tables` operations leave `t ↦ d` in place. -/
theorem copies_after_add_keep (m : Tables) (t : Nat) (d : Bytes) (srcs : List Bytes) :
    lookup ((srcs.map Op.copy).foldl applyOp (addRaw m t d)) t = some d := by
  suffices hs : ∀ m, lookup m t = some d → lookup ((srcs.map Op.copy).foldl applyOp m) t = some d from
    hs _ (lookup_insert_self t d m)
  induction srcs with
  | nil => intro m hm; exact hm
  | cons s rest ih =>
    intro m hm
    simp only [List.map_cons, List.foldl_cons]
    apply ih
    simp only [applyOp]
    split
    · exact copy_missing_never_overrides _ _ _ _ hm
    · exact hm

end FontVerif.C06
