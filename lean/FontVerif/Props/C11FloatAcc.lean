/-
C11 (continued) — accuracy of the f32 tent scalar for ANY number of axes.
`compute_scalar_f32` against the exact product of the rational per-axis tents (`tentFactors`,
`prodN / prodD` of Lemmas/TentSpec.lean — the same specification the 16.16 scalar is measured
against in Props/C11Scalar.lean).  Separate module because the accumulation uses Mathlib's
`nlinarith`.  Per-step bound: Lemmas/FloatAcc.lean `step_err` (from `roundNE_half_ulp`,
`div_half_ulp`).
-/
import FontVerif.Props.C11Float
import FontVerif.Lemmas.FloatAcc
import FontVerif.Lemmas.TentSpec
import Mathlib.Tactic.Ring
import Mathlib.Tactic.Linarith
set_option linter.unusedVariables false
namespace FontVerif.C11
open FontVerif FontVerif.Ieee FontVerif.FloatDelta FontVerif.Tent

/-- one tent step adds at most `Cc` (per unit denominator) to the accumulated error. -/
theorem error_step_f32 (a a' n d P Q k U Cc : Int) (hQ : 0 < Q) (hn0 : 0 ≤ n) (hnd : n ≤ d) (hk : 0 ≤ k)
    (hC : 0 ≤ Cc)
    (h1 : a' * d - a * n ≤ Cc * d) (h2 : -(Cc * d) ≤ a' * d - a * n)
    (h3 : a * Q - U * P ≤ k * Cc * Q) (h4 : -(k * Cc * Q) ≤ a * Q - U * P) :
    a' * (Q * d) - U * (P * n) ≤ (k + 1) * Cc * (Q * d) ∧
    -((k + 1) * Cc * (Q * d)) ≤ a' * (Q * d) - U * (P * n) := by
  have e : a' * (Q * d) - U * (P * n) = Q * (a' * d - a * n) + n * (a * Q - U * P) := by ring
  have hkc : 0 ≤ k * Cc * Q := mul_nonneg (mul_nonneg hk hC) hQ.le
  constructor
  · nlinarith [mul_le_mul_of_nonneg_left h1 hQ.le, mul_le_mul_of_nonneg_left h3 hn0,
      mul_le_mul_of_nonneg_right hnd hkc]
  · nlinarith [mul_le_mul_of_nonneg_left h2 hQ.le, mul_le_mul_of_nonneg_left h4 hn0,
      mul_le_mul_of_nonneg_right hnd hkc]

/-- the unit and the per-step constant on the `2^-300` scale. -/
def U300 : Int := 2 ^ 300
def Cstep : Int := 2 ^ 277 + 2 ^ 165

theorem Cstep_nonneg : 0 ≤ Cstep := by unfold Cstep; positivity

/-- one rising / falling step in integers: from `step_err` with the `Val14` operands. -/
theorem step_err_int (ns : Nat) (qs : Int) (A B : FVal) (a b : Int)
    (hinv : ns = 0 ∨ -149 ≤ qs) (hunit : dle ns qs 1 0)
    (hA : Val14 A a) (hB : Val14 B b) (ha : 0 ≤ a) (hab : a ≤ b) (hb : 0 < b) :
    ∃ nY qY, div f32 (mul f32 (.fin false ns qs) A) B = .fin false nY qY ∧
      (nY = 0 ∨ -149 ≤ qY) ∧ dle nY qY 1 0 ∧
      (V nY qY : Int) * b - (V ns qs : Int) * a ≤ Cstep * b ∧
      -(Cstep * b) ≤ (V nY qY : Int) * b - (V ns qs : Int) * a := by
  obtain ⟨mA, eA, rfl, hmA, heA1, heA2, hvA⟩ := val14_nonneg hA ha
  obtain ⟨mB, eB, rfl, hmB, heB1, heB2, hvB⟩ := val14_nonneg hB (by omega)
  have hmB0 : mB ≠ 0 := by intro h; rw [h] at hvB; simp at hvB; omega
  have hvA' : a = ((mA * 2 ^ (eA + 14).toNat : Nat) : Int) := by
    rw [← hvA, Int.natCast_mul, Int.natCast_pow]; rfl
  have hvB' : b = ((mB * 2 ^ (eB + 14).toNat : Nat) : Int) := by
    rw [← hvB, Int.natCast_mul, Int.natCast_pow]; rfl
  have habN : mA * 2 ^ (eA + 14).toNat ≤ mB * 2 ^ (eB + 14).toNat := by
    rw [hvA', hvB'] at hab; exact_mod_cast hab
  obtain ⟨nY, qY, hdiv, hinvY, hdY, h1, h2⟩ :=
    step_err ns qs mA eA mB eB hinv hunit hmA heA1 heA2 hmB heB1 heB2 hmB0 habN
  refine ⟨nY, qY, hdiv, hinvY, hdY, ?_, ?_⟩
  · rw [hvA', hvB']
    unfold Cstep
    have : ((V nY qY * (mB * 2 ^ (eB + 14).toNat) : Nat) : Int) ≤
        ((V ns qs * (mA * 2 ^ (eA + 14).toNat) + (2 ^ 277 + 2 ^ 165) * (mB * 2 ^ (eB + 14).toNat) : Nat) : Int) := by
      exact_mod_cast h1
    push_cast at this ⊢
    linarith
  · rw [hvA', hvB']
    unfold Cstep
    have : ((V ns qs * (mA * 2 ^ (eA + 14).toNat) : Nat) : Int) ≤
        ((V nY qY * (mB * 2 ^ (eB + 14).toNat) + (2 ^ 277 + 2 ^ 165) * (mB * 2 ^ (eB + 14).toNat) : Nat) : Int) := by
      exact_mod_cast h2
    push_cast at this ⊢
    linarith

theorem f2_scale (x y : Int) : Fixed.f2dot14ToFixed x - Fixed.f2dot14ToFixed y = 4 * (x - y) := by
  unfold Fixed.f2dot14ToFixed; omega

theorem scalarGoF_product (axes : List (Int × Int × Int)) :
    ∀ (coords : List Int) (ns : Nat) (qs : Int) (P0 Q0 k0 : Int), AxesI16 axes → CoordsI16 coords →
      (ns = 0 ∨ -149 ≤ qs) → dle ns qs 1 0 → 0 < Q0 → 0 ≤ k0 →
      (V ns qs : Int) * Q0 - U300 * P0 ≤ k0 * Cstep * Q0 →
      -(k0 * Cstep * Q0) ≤ (V ns qs : Int) * Q0 - U300 * P0 →
      match tentFactors axes coords with
      | none => scalarGoF (.fin false ns qs) axes coords = zero
      | some fs =>
        0 < prodD fs ∧ ∃ n q, scalarGoF (.fin false ns qs) axes coords = .fin false n q ∧
          (V n q : Int) * (Q0 * prodD fs) - U300 * (P0 * prodN fs) ≤
            (k0 + fs.length) * Cstep * (Q0 * prodD fs) ∧
          -((k0 + fs.length) * Cstep * (Q0 * prodD fs)) ≤
            (V n q : Int) * (Q0 * prodD fs) - U300 * (P0 * prodN fs) := by
  induction axes with
  | nil =>
    intro coords ns qs P0 Q0 k0 _ _ _ _ hQ hk h3 h4
    simp only [tentFactors, scalarGoF, prodD, prodN, List.length_nil]
    refine ⟨by omega, ns, qs, rfl, ?_, ?_⟩ <;> simp <;> linarith
  | cons ax rest ih =>
    intro coords ns qs P0 Q0 k0 hax hco hinv hunit hQ hk h3 h4
    obtain ⟨s, p, e⟩ := ax
    have hh := hax (s, p, e) (by simp)
    have hrest := axesI16_tail hax
    have hct := coordsI16_tail hco
    have hc0 : inI16 (coords.headD 0) := by
      cases coords with
      | nil => simp [inI16]
      | cons c r => exact hco c (by simp)
    simp only [scalarGoF, tentFactors]
    have hIg : Ignored (Fixed.f2dot14ToFixed s) (Fixed.f2dot14ToFixed p) (Fixed.f2dot14ToFixed e) ↔
        Ignored s p e := by unfold Ignored Fixed.f2dot14ToFixed; omega
    have hOut : (Fixed.f2dot14ToFixed (coords.headD 0) < Fixed.f2dot14ToFixed s ∨
        Fixed.f2dot14ToFixed (coords.headD 0) > Fixed.f2dot14ToFixed e) ↔
        (coords.headD 0 < s ∨ coords.headD 0 > e) := by unfold Fixed.f2dot14ToFixed; omega
    have hPk : Fixed.f2dot14ToFixed (coords.headD 0) = Fixed.f2dot14ToFixed p ↔ coords.headD 0 = p := by
      unfold Fixed.f2dot14ToFixed; omega
    have hLt : Fixed.f2dot14ToFixed (coords.headD 0) < Fixed.f2dot14ToFixed p ↔ coords.headD 0 < p := by
      unfold Fixed.f2dot14ToFixed; omega
    rcases step_cases (.fin false ns qs) coords s p e hco hh.1 hh.2.1 hh.2.2 with h | h | h | h | h
    · -- ignored axis
      rw [h.2]; simp only [hIg.mpr h.1, if_true]
      exact ih coords.tail ns qs P0 Q0 k0 hrest hct hinv hunit hQ hk h3 h4
    · -- outside
      rw [h.2.2]
      have h1 : ¬ Ignored (Fixed.f2dot14ToFixed s) (Fixed.f2dot14ToFixed p) (Fixed.f2dot14ToFixed e) :=
        fun hx => h.1 (hIg.mp hx)
      simp only [h1, hOut.mpr h.2.1, if_false, if_true]
    · -- at the peak
      obtain ⟨hi, hcp, hstep⟩ := h
      have h1 : ¬ Ignored (Fixed.f2dot14ToFixed s) (Fixed.f2dot14ToFixed p) (Fixed.f2dot14ToFixed e) :=
        fun hx => hi (hIg.mp hx)
      have hno : ¬ (Fixed.f2dot14ToFixed (coords.headD 0) < Fixed.f2dot14ToFixed s ∨
          Fixed.f2dot14ToFixed (coords.headD 0) > Fixed.f2dot14ToFixed e) := by
        rw [hOut]; unfold Ignored at hi; omega
      rw [hstep]; simp only [h1, hno, if_false]
      rw [if_pos (hPk.mpr hcp)]
      exact ih coords.tail ns qs P0 Q0 k0 hrest hct hinv hunit hQ hk h3 h4
    · -- rising leg
      obtain ⟨hi, hsc, hcp, hstep⟩ := h
      have h1 : ¬ Ignored (Fixed.f2dot14ToFixed s) (Fixed.f2dot14ToFixed p) (Fixed.f2dot14ToFixed e) :=
        fun hx => hi (hIg.mp hx)
      have hno : ¬ (Fixed.f2dot14ToFixed (coords.headD 0) < Fixed.f2dot14ToFixed s ∨
          Fixed.f2dot14ToFixed (coords.headD 0) > Fixed.f2dot14ToFixed e) := by
        rw [hOut]; unfold Ignored at hi; omega
      have hne : ¬ Fixed.f2dot14ToFixed (coords.headD 0) = Fixed.f2dot14ToFixed p := by rw [hPk]; omega
      rw [hstep]; simp only [h1, hno, hne, hLt.mpr hcp, if_false, if_true]
      have hA := val14_sub (coord_val14 coords hco) (val14_f2 s hh.1) (natAbs_i16_diff hc0 hh.1)
      have hB := val14_sub (val14_f2 p hh.2.1) (val14_f2 s hh.1) (natAbs_i16_diff hh.2.1 hh.1)
      obtain ⟨nY, qY, hdiv, hinvY, hdY, e1, e2⟩ := step_err_int ns qs _ _ (coords.headD 0 - s) (p - s)
        hinv hunit hA hB (by omega) (by omega) (by omega)
      rw [hdiv]
      rw [f2_scale, f2_scale]
      have hn0 : (0 : Int) ≤ 4 * (coords.headD 0 - s) := by omega
      have hnd : 4 * (coords.headD 0 - s) ≤ 4 * (p - s) := by omega
      have hd0 : (0 : Int) < 4 * (p - s) := by omega
      have hs := error_step_f32 (V ns qs) (V nY qY) (4 * (coords.headD 0 - s)) (4 * (p - s)) P0 Q0 k0
        U300 Cstep hQ hn0 hnd hk Cstep_nonneg (by nlinarith [e1]) (by nlinarith [e2]) h3 h4
      have := ih coords.tail nY qY (P0 * (4 * (coords.headD 0 - s))) (Q0 * (4 * (p - s))) (k0 + 1)
        hrest hct hinvY hdY (mul_pos hQ hd0) (by omega) hs.1 hs.2
      cases hf : tentFactors rest coords.tail with
      | none => rw [hf] at this; simpa using this
      | some fs =>
        rw [hf] at this
        simp only [Option.map_some, prodD, prodN, List.length_cons]
        obtain ⟨hD, n, q, hres, hu, hl⟩ := this
        refine ⟨mul_pos hd0 hD, n, q, hres, ?_, ?_⟩
        · have x1 : Q0 * (4 * (p - s) * prodD fs) = Q0 * (4 * (p - s)) * prodD fs := by ring
          have x2 : P0 * (4 * (coords.headD 0 - s) * prodN fs) = P0 * (4 * (coords.headD 0 - s)) * prodN fs := by ring
          rw [x1, x2]; push_cast; push_cast at hu; linarith
        · have x1 : Q0 * (4 * (p - s) * prodD fs) = Q0 * (4 * (p - s)) * prodD fs := by ring
          have x2 : P0 * (4 * (coords.headD 0 - s) * prodN fs) = P0 * (4 * (coords.headD 0 - s)) * prodN fs := by ring
          rw [x1, x2]; push_cast; push_cast at hl; linarith
    · -- falling leg
      obtain ⟨hi, hpc, hce, hstep⟩ := h
      have h1 : ¬ Ignored (Fixed.f2dot14ToFixed s) (Fixed.f2dot14ToFixed p) (Fixed.f2dot14ToFixed e) :=
        fun hx => hi (hIg.mp hx)
      have hno : ¬ (Fixed.f2dot14ToFixed (coords.headD 0) < Fixed.f2dot14ToFixed s ∨
          Fixed.f2dot14ToFixed (coords.headD 0) > Fixed.f2dot14ToFixed e) := by
        rw [hOut]; unfold Ignored at hi; omega
      have hne : ¬ Fixed.f2dot14ToFixed (coords.headD 0) = Fixed.f2dot14ToFixed p := by rw [hPk]; omega
      have hnlt : ¬ Fixed.f2dot14ToFixed (coords.headD 0) < Fixed.f2dot14ToFixed p := by rw [hLt]; omega
      rw [hstep]; simp only [h1, hno, hne, hnlt, if_false]
      have hA := val14_sub (val14_f2 e hh.2.2) (coord_val14 coords hco) (natAbs_i16_diff hh.2.2 hc0)
      have hB := val14_sub (val14_f2 e hh.2.2) (val14_f2 p hh.2.1) (natAbs_i16_diff hh.2.2 hh.2.1)
      obtain ⟨nY, qY, hdiv, hinvY, hdY, e1, e2⟩ := step_err_int ns qs _ _ (e - coords.headD 0) (e - p)
        hinv hunit hA hB (by omega) (by omega) (by omega)
      rw [hdiv]
      rw [f2_scale, f2_scale]
      have hn0 : (0 : Int) ≤ 4 * (e - coords.headD 0) := by omega
      have hnd : 4 * (e - coords.headD 0) ≤ 4 * (e - p) := by omega
      have hd0 : (0 : Int) < 4 * (e - p) := by omega
      have hs := error_step_f32 (V ns qs) (V nY qY) (4 * (e - coords.headD 0)) (4 * (e - p)) P0 Q0 k0
        U300 Cstep hQ hn0 hnd hk Cstep_nonneg (by nlinarith [e1]) (by nlinarith [e2]) h3 h4
      have := ih coords.tail nY qY (P0 * (4 * (e - coords.headD 0))) (Q0 * (4 * (e - p))) (k0 + 1)
        hrest hct hinvY hdY (mul_pos hQ hd0) (by omega) hs.1 hs.2
      cases hf : tentFactors rest coords.tail with
      | none => rw [hf] at this; simpa using this
      | some fs =>
        rw [hf] at this
        simp only [Option.map_some, prodD, prodN, List.length_cons]
        obtain ⟨hD, n, q, hres, hu, hl⟩ := this
        refine ⟨mul_pos hd0 hD, n, q, hres, ?_, ?_⟩
        · have x1 : Q0 * (4 * (e - p) * prodD fs) = Q0 * (4 * (e - p)) * prodD fs := by ring
          have x2 : P0 * (4 * (e - coords.headD 0) * prodN fs) = P0 * (4 * (e - coords.headD 0)) * prodN fs := by ring
          rw [x1, x2]; push_cast; push_cast at hu; linarith
        · have x1 : Q0 * (4 * (e - p) * prodD fs) = Q0 * (4 * (e - p)) * prodD fs := by ring
          have x2 : P0 * (4 * (e - coords.headD 0) * prodN fs) = P0 * (4 * (e - coords.headD 0)) * prodN fs := by ring
          rw [x1, x2]; push_cast; push_cast at hl; linarith

/-- **scalar_f32_product_spec** (accuracy of `compute_scalar_f32`, any number of axes): the f32
scalar is `0.0` outside the support of a used axis, and otherwise a finite float `n · 2^q` with
`|n · 2^q − N/D| ≤ k · (2⁻²³ + 2⁻¹³⁵)`, where `N/D = Π (coordᵢ − startᵢ)/(peakᵢ − startᵢ)` (resp. the
falling-leg quotients) is the EXACT rational product of the OpenType per-axis tents and `k` the
number of axes that contribute a factor — on the scale `2⁻³⁰⁰`:
`|V(n, q) · D − 2³⁰⁰ · N| ≤ k · (2²⁷⁷ + 2¹⁶⁵) · D`.  One axis: `scalar_f32_accuracy_partial` has the
sharp half-ulp constant. -/
theorem scalar_f32_product_spec (axes : List (Int × Int × Int)) (coords : List Int)
    (ha : AxesI16 axes) (hc : CoordsI16 coords) :
    match tentFactors axes coords with
    | none => computeScalarF32 axes coords = zero
    | some fs =>
      0 < prodD fs ∧ ∃ n q, computeScalarF32 axes coords = .fin false n q ∧
        (V n q : Int) * prodD fs - U300 * prodN fs ≤ fs.length * Cstep * prodD fs ∧
        -(fs.length * Cstep * prodD fs) ≤ (V n q : Int) * prodD fs - U300 * prodN fs := by
  have hV1 : (V 1 0 : Int) = U300 := by unfold V U300; simp
  have := scalarGoF_product axes coords 1 0 1 1 0 ha hc (Or.inr (by decide)) (dle_refl 1 0)
    (by omega) (by omega) (by rw [hV1]; simp) (by rw [hV1]; simp)
  unfold computeScalarF32
  cases hf : tentFactors axes coords with
  | none => rw [hf] at this; exact this
  | some fs =>
    rw [hf] at this
    simp only [one_mul, zero_add] at this
    exact this

-- non-vacuity: two contributing axes, (1/3) · (1/2); the bound instance `k = 2`
example : tentFactors [(0, 3, 16384), (0, 8192, 16384)] [1, 4096] = some [(4, 12), (16384, 32768)] := by
  decide
example : AxesI16 [(0, 3, 16384), (0, 8192, 16384)] ∧ CoordsI16 [1, 4096] := by
  constructor
  · intro a ha; simp at ha; rcases ha with rfl | rfl <;> decide
  · intro c hc; simp at hc; rcases hc with rfl | rfl <;> decide
example : encode f32 (computeScalarF32 [(0, 3, 16384), (0, 8192, 16384)] [1, 4096]) = 0x3E2AAAAB := by
  decide +kernel

end FontVerif.C11
