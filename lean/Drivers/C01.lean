import FontVerif.DriverMain
import FontVerif.Drv.C01
import FontVerif.Drv.C01Iter
import FontVerif.Drv.C01Hand
import FontVerif.Drv.C01HandGlyf
import FontVerif.Drv.C01HandVar
import FontVerif.Drv.C01HandLayout
import FontVerif.Drv.C01HandColr
import FontVerif.Drv.C01HandBitmap
import FontVerif.Drv.C01HandText
import FontVerif.Drv.C01HandAat
import FontVerif.Drv.C01HandStack
import FontVerif.Drv.C01HandBytecode
import FontVerif.Drv.C01HandBlend

def main : IO Unit := FontVerif.driverMain [FontVerif.Drv.C01.handle, FontVerif.Drv.C01Iter.handle, FontVerif.Drv.C01Hand.handle,
  FontVerif.Drv.C01HandGlyf.handle,
  FontVerif.Drv.C01HandVar.handle,
  FontVerif.Drv.C01HandLayout.handle,
  FontVerif.Drv.C01HandColr.handle,
  FontVerif.Drv.C01HandBitmap.handle,
  FontVerif.Drv.C01HandText.handle,
  FontVerif.Drv.C01HandAat.handle,
  FontVerif.Drv.C01HandStack.handle,
  FontVerif.Drv.C01HandBytecode.handle,
  FontVerif.Drv.C01HandBlend.handle]
