import FontVerif.DriverMain
import FontVerif.Drv.C01

def main : IO Unit := FontVerif.driverMain [FontVerif.Drv.C01.handle]
