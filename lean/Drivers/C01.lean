import FontVerif.DriverMain
import FontVerif.Drv.C01
import FontVerif.Drv.C01Iter
import FontVerif.Drv.C01Hand

def main : IO Unit := FontVerif.driverMain [FontVerif.Drv.C01.handle, FontVerif.Drv.C01Iter.handle, FontVerif.Drv.C01Hand.handle]
