import FontVerif.DriverMain
import FontVerif.Drv.C10

def main : IO Unit := FontVerif.driverMain [FontVerif.Drv.C10.handle]
