import FontVerif.DriverMain
import FontVerif.Drv.C20

def main : IO Unit := FontVerif.driverMain [FontVerif.Drv.C20.handle]
