import FontVerif.DriverMain
import FontVerif.Drv.C14

def main : IO Unit := FontVerif.driverMain [FontVerif.Drv.C14.handle]
