import FontVerif.DriverMain
import FontVerif.Drv.C02

def main : IO Unit := FontVerif.driverMain [FontVerif.Drv.C02.handle]
