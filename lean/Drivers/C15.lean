import FontVerif.DriverMain
import FontVerif.Drv.C15

def main : IO Unit := FontVerif.driverMain [FontVerif.Drv.C15.handle]
