import FontVerif.DriverMain
import FontVerif.Drv.C03

def main : IO Unit := FontVerif.driverMain [FontVerif.Drv.C03.handle]
