import FontVerif.DriverMain
import FontVerif.Drv.C07

def main : IO Unit := FontVerif.driverMain [FontVerif.Drv.C07.handle]
