import FontVerif.DriverMain
import FontVerif.Drv.C18

def main : IO Unit := FontVerif.driverMain [FontVerif.Drv.C18.handle]
