import FontVerif.DriverMain
import FontVerif.Drv.C17

def main : IO Unit := FontVerif.driverMain [FontVerif.Drv.C17.handle]
