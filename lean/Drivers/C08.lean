import FontVerif.DriverMain
import FontVerif.Drv.C08

def main : IO Unit := FontVerif.driverMain [FontVerif.Drv.C08.handle]
