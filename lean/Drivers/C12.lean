import FontVerif.DriverMain
import FontVerif.Drv.C12

def main : IO Unit := FontVerif.driverMain [FontVerif.Drv.C12.handle]
