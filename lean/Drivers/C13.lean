import FontVerif.DriverMain
import FontVerif.Drv.C13

def main : IO Unit := FontVerif.driverMain [FontVerif.Drv.C13.handle]
