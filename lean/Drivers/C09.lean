import FontVerif.DriverMain
import FontVerif.Drv.C09

def main : IO Unit := FontVerif.driverMain [FontVerif.Drv.C09.handle]
