import FontVerif.DriverMain
import FontVerif.Drv.C06

def main : IO Unit := FontVerif.driverMain [FontVerif.Drv.C06.handle]
