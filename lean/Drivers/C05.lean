import FontVerif.DriverMain
import FontVerif.Drv.C05

def main : IO Unit := FontVerif.driverMain [FontVerif.Drv.C05.handle]
