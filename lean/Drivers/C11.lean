import FontVerif.DriverMain
import FontVerif.Drv.C11

def main : IO Unit := FontVerif.driverMain [FontVerif.Drv.C11.handle]
