import FontVerif.DriverMain
import FontVerif.Drv.C04

def main : IO Unit := FontVerif.driverMain [FontVerif.Drv.C04.handle]
