import FontVerif.DriverMain
import FontVerif.Drv.C19

def main : IO Unit := FontVerif.driverMain [FontVerif.Drv.C19.handle]
