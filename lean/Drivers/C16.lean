import FontVerif.DriverMain
import FontVerif.Drv.C16

def main : IO Unit := FontVerif.driverMain [FontVerif.Drv.C16.handle]
