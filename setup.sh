#!/bin/sh
# Build the framework from files on disk only (offline): Lean theorems + per-property drivers,
# Rust harness binaries.  Individual failures are reported by the per-property checks.
cd "$(dirname "$0")"
export CARGO_NET_OFFLINE=true
mkdir -p out evidence replays
for t in translate/*.py; do
  [ -f "$t" ] && python3 "$t" --repo /repo --out lean/FontVerif/Gen --report "out/setup.$(basename $t).json" >/dev/null 2>&1
done
(cd lean && lake build FontVerif || true)
for p in props/C*.json; do
  id=$(basename "$p" .json); low=$(echo "$id" | tr 'A-Z' 'a-z')
  mods=$(python3 -c "import json,sys; print(' '.join(json.load(open('$p'))['props']))")
  (cd lean && lake build $mods drv_$low) || echo "setup: lean build for $id failed"
done
cp /repo/Cargo.lock harness/Cargo.lock 2>/dev/null || true
(cd harness && cargo build --release --quiet --bins) || \
  for p in props/C*.json; do
    low=$(basename "$p" .json | tr 'A-Z' 'a-z')
    (cd harness && cargo build --release --quiet --bin $low) || echo "setup: harness build for $low failed"
  done
for p in props/C*.json; do
  hd=$(python3 -c "import json; print(json.load(open('$p')).get('harness_dir',''))")
  if [ -n "$hd" ] && [ -d "$hd" ]; then
    low=$(basename "$p" .json | tr 'A-Z' 'a-z')
    cp /repo/Cargo.lock "$hd/Cargo.lock" 2>/dev/null || true
    (cd "$hd" && cargo build --release --quiet --bin $low) || echo "setup: harness build for $low ($hd) failed"
  fi
done
echo "setup done"
exit 0
