#!/bin/sh
# Build the framework from files on disk only (offline): Lean theorems + driver, Rust harness.
set -e
cd "$(dirname "$0")"
export CARGO_NET_OFFLINE=true
mkdir -p out evidence replays
(cd lean && lake build FontVerif fvdriver)
cp /repo/Cargo.lock harness/Cargo.lock 2>/dev/null || true
(cd harness && cargo build --release --quiet)
echo "setup done"
