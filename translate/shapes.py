#!/usr/bin/env python3
"""
translate/shapes.py — C01 translator tie.

Parses every generated table reader in <repo>/read-fonts/generated/*.rs (marker struct, the
`*_byte_range` fns, the `FontRead::read` / `FontReadWithArgs::read_with_args` body, the getters,
and the generated `ComputeSize` impls of records) into the DSL of lean/FontVerif/Model/Shape.lean
and emits

  <out>/ReadShapes<k>.lean   one `def <T>_shape : Shape` + `theorem <T>_wf : WF <T>_shape := by decide`
  <out>/ReadShapes.lean      registry (`allShapes`, `recSizes`, `sizeNames`, `customNames`) for the driver
  (optionally) --rust FILE   a Rust dispatch table calling the real readers (harness include!)

Self-check: every consumed item (statement, range fn, getter, marker struct, compute_size body) is
re-rendered from the parsed structure and compared with the normalised source text; anything that
does not round-trip, or any statement form outside the DSL, goes to `unparsed` (breaks the check).
Readers that parse but whose safety the generic theorem does not cover (WF would be false for a
*known, listed* reason) go to `unsupported` with a reason — they are still executed differentially.

usage: shapes.py --repo /repo --out lean/FontVerif/Gen --report out.json [--rust harness/src/bin/c01/gen.rs]
"""
import argparse, glob, json, os, re, sys

# ------------------------------------------------------------------------------------------------
# normalisation

def strip_comments(src):
    out = []
    for line in src.split("\n"):
        s = line.strip()
        if s.startswith("//"):
            continue
        out.append(line)
    return "\n".join(out)

def tight(s):
    """collapse whitespace; drop spaces next to punctuation; drop trailing commas"""
    s = re.sub(r"\s+", " ", s).strip()
    s = re.sub(r" ?([^A-Za-z0-9_ ]) ?", r"\1", s)
    s = s.replace(",)", ")").replace(",}", "}").replace(",>", ">")
    return s

def balanced(src, i, open_ch="{", close_ch="}"):
    """src[i] == open_ch; return index just past the matching close"""
    assert src[i] == open_ch, (src[i - 20:i + 20])
    depth = 0
    j = i
    while j < len(src):
        c = src[j]
        if c == open_ch:
            depth += 1
        elif c == close_ch:
            depth -= 1
            if depth == 0:
                return j + 1
        j += 1
    raise ValueError("unbalanced")

def split_top(s, sep=","):
    """split at top-level separators (outside () <> [] {})"""
    parts, depth, cur = [], 0, ""
    for ch in s:
        if ch in "([{<":
            depth += 1
        elif ch in ")]}>":
            depth -= 1
        if ch == sep and depth == 0:
            parts.append(cur)
            cur = ""
        else:
            cur += ch
    if cur != "":
        parts.append(cur)
    return parts

# ------------------------------------------------------------------------------------------------
# type sizes

BUILTIN = {
    "u8": (1, False), "i8": (1, True), "u16": (2, False), "i16": (2, True), "u32": (4, False),
    "i32": (4, True), "u64": (8, False), "i64": (8, True),
    "Uint24": (3, False), "Int24": (3, True), "Fixed": (4, True), "F2Dot14": (2, True),
    "F26Dot6": (4, True), "FWord": (2, True), "UfWord": (2, False), "LongDateTime": (8, True),
    "Tag": (4, False), "Version16Dot16": (4, False), "MajorMinor": (4, False),
    "GlyphId16": (2, False), "GlyphId": (4, False), "NameId": (2, False),
    "Offset16": (2, False), "Offset24": (3, False), "Offset32": (4, False),
}

class Types:
    def __init__(self, repo):
        self.scalar = dict(BUILTIN)
        self.fixed_expr = {}
        self.flags = {}     # (Type, NAME) -> int
        srcs = []
        for pat in ("read-fonts/generated/*.rs", "read-fonts/src/**/*.rs", "font-types/src/*.rs"):
            srcs += glob.glob(os.path.join(repo, pat), recursive=True)
        for f in sorted(srcs):
            txt = strip_comments(open(f).read())
            for m in re.finditer(r"impl\s+(?:[\w:]+::)?Scalar\s+for\s+(\w+)\s*\{\s*type\s+Raw\s*=\s*(\[u8;\s*\d+\]|[^;]+);", txt):
                name, raw = m.group(1), m.group(2).strip()
                m2 = re.match(r"<(\w+) as (?:[\w:]+::)?Scalar>::Raw", raw)
                m3 = re.match(r"\[u8;\s*(\d+)\]", raw)
                if m2 and m2.group(1) in BUILTIN:
                    self.scalar.setdefault(name, BUILTIN[m2.group(1)])
                elif m3:
                    self.scalar.setdefault(name, (int(m3.group(1)), False))
            for m in re.finditer(r"impl(?:<[^>]*>)?\s+FixedSize\s+for\s+(\w+)(?:<[^>]*>)?\s*\{\s*const\s+RAW_BYTE_LEN:\s*usize\s*=\s*([^;]+);", txt):
                self.fixed_expr.setdefault(m.group(1), tight(m.group(2)))
            # bitflags constants
            for m in re.finditer(r"impl\s+(\w+)\s*\{", txt):
                ty = m.group(1)
                end = balanced(txt, m.end() - 1)
                body = txt[m.end():end]
                for c in re.finditer(r"pub const (\w+): Self = Self \{\s*bits: (0x[0-9a-fA-F_]+|0b[01_]+|\d[\d_]*)\s*,?\s*\};", body):
                    self.flags[(ty, c.group(1))] = int(c.group(2).replace("_", ""), 0)
                for c in re.finditer(r"pub const (\w+): Self = %s\((0x[0-9a-fA-F_]+|\d[\d_]*)\);" % ty, body):
                    self.flags[(ty, c.group(1))] = int(c.group(2).replace("_", ""), 0)

    def size(self, ty):
        if ty in self.scalar:
            return self.scalar[ty][0]
        if ty in self.fixed_expr:
            total = 0
            for term in self.fixed_expr[ty].split("+"):
                m = re.fullmatch(r"(\w+)::RAW_BYTE_LEN", term)
                if not m:
                    raise KeyError(f"size expr of {ty}: {self.fixed_expr[ty]}")
                total += self.size(m.group(1))
            return total
        raise KeyError(ty)

    def signed(self, ty):
        return self.scalar[ty][1] if ty in self.scalar else False

# hand-written `VarSize` impls (read-fonts/src/tables/{avar,post,meta}.rs, codegen_test.rs):
# (prefix size, multiplier, addend) of `read_len_at`
VARKIND = {"SegmentMaps": (2, 4, 2), "VarSizeDummy": (2, 1, 2), "PString": (1, 1, 1)}

XFORMS = {"subtract": "subtract", "add": "add", "bitmap_len": "bitmapLen",
          "max_value_bitmap_len": "maxValueBitmapLen", "add_multiply": "addMultiply",
          "multiply_add": "multiplyAdd", "half": "half", "subtract_add_two": "subtractAddTwo"}

class Unparsed(Exception):
    pass

# ------------------------------------------------------------------------------------------------
# per-shape parser

class Ctx:
    """interning of names to the Nat ids used in the Lean data"""
    def __init__(self):
        self.size_names = []    # records with ComputeSize
        self.custom_names = []  # hand-written count fns

    def size_id(self, name):
        if name not in self.size_names:
            self.size_names.append(name)
        return self.size_names.index(name)

    def custom_id(self, name):
        if name not in self.custom_names:
            self.custom_names.append(name)
        return self.custom_names.index(name)

class Shape:
    def __init__(self, name, file):
        self.name, self.file = name, file
        self.args = []          # [(var, type)]
        self.vars = {}          # var -> (id, type)
        self.field_ids = {}     # field -> id
        self.steps = []         # lean strings
        self.fields = []        # (name, cond, flen_lean)
        self.prog = []          # lean strings
        self.getters = []       # lean strings
        self.getter_calls = []  # rust getter names
        self.unsupported = None
        self.generic = False
        self.is_args = False
        self.arg_types = []
        self.n_offset_getters = 0
        self.consumed = 0
        self.cond_fields = {}   # field -> cond lean (for traversal checks)
        self.var_off = {}       # local -> (static byte offset, size) when every earlier field has a fixed size
        self.var_hints = {}     # local -> set of raw values that sit on a branch of a condition / count
        self.static_off = 0     # None once a variable-length or conditional field was passed

    def var_id(self, v, ty=None):
        if v not in self.vars:
            self.vars[v] = (len(self.vars), ty)
        return self.vars[v][0]

    def hint(self, v, vals):
        self.var_hints.setdefault(v, set()).update(x for x in vals if x >= 0)

    def fid(self, f):
        if f not in self.field_ids:
            self.field_ids[f] = len(self.field_ids)
        return self.field_ids[f]

def lean_ty(T, ty):
    return f"⟨{T.size(ty)}, {'true' if T.signed(ty) else 'false'}⟩"

def parse_cond(sh, T, c):
    """c is tight text; returns (lean, canonical tight text)"""
    m = re.fullmatch(r"(\w+)\.compatible\((\d+)u16\)", c)
    if m:
        v = m.group(1)
        if v not in sh.vars:
            raise Unparsed(f"cond on unbound {v}")
        if sh.vars[v][1] != "u16":
            raise Unparsed(f"compatible(u16) on {sh.vars[v][1]}")
        k = int(m.group(2))
        sh.hint(v, [k - 1, k, k + 1, 0, 0xFFFF])
        return f".geU16 {sh.var_id(v)} {m.group(2)}", f"{v}.compatible({m.group(2)}u16)"
    m = re.fullmatch(r"(\w+)\.compatible\(\((\d+)u16,(\d+)u16\)\)", c)
    if m:
        v = m.group(1)
        if v not in sh.vars:
            raise Unparsed(f"cond on unbound {v}")
        ty = sh.vars[v][1]
        kind = {"MajorMinor": "compatMM", "Version16Dot16": "compatV16"}.get(ty)
        if not kind:
            raise Unparsed(f"compatible((a,b)) on {ty}")
        maj, mnr = int(m.group(2)), int(m.group(3))
        sft = 0 if kind == "compatMM" else 12
        sh.hint(v, [(maj << 16) | (mnr << sft), (maj << 16) | ((mnr + 1) << sft), (maj << 16) | ((mnr - 1) << sft) if mnr else 0,
                    ((maj + 1) << 16) | (mnr << sft), (maj << 16) | 0xFFFF, maj << 16])
        return f".{kind} {sh.var_id(v)} {m.group(2)} {m.group(3)}", f"{v}.compatible(({m.group(2)}u16,{m.group(3)}u16))"
    m = re.fullmatch(r"(\w+)\.(contains|intersects)\(([\w:|]+)\)", c)
    if m:
        v = m.group(1)
        if v not in sh.vars:
            raise Unparsed(f"cond on unbound {v}")
        bits = 0
        for term in m.group(3).split("|"):
            mm = re.fullmatch(r"(\w+)::(\w+)", term)
            if not mm or (mm.group(1), mm.group(2)) not in T.flags:
                raise Unparsed(f"flag constant {term}")
            if mm.group(1) != sh.vars[v][1]:
                raise Unparsed(f"flag type {mm.group(1)} vs var type {sh.vars[v][1]}")
            bits |= T.flags[(mm.group(1), mm.group(2))]
        sh.hint(v, [bits, 0, (1 << (8 * T.size(sh.vars[v][1]))) - 1] + [1 << i for i in range(32) if bits >> i & 1])
        return f".{m.group(2)} {sh.var_id(v)} {bits}", f"{v}.{m.group(2)}({m.group(3)})"
    raise Unparsed(f"condition form: {c}")

def parse_atom(sh, T, a):
    m = re.fullmatch(r"(\d+)_usize", a)
    if m:
        return f".lit {m.group(1)}", a
    if re.fullmatch(r"\w+", a) and a in sh.vars:
        return f".var {sh.var_id(a)} {lean_ty(T, sh.vars[a][1])}", a
    raise Unparsed(f"atom {a}")

def parse_count(sh, T, ctx, c):
    m = re.fullmatch(r"(\w+) as usize", c)
    if m and m.group(1) in sh.vars:
        v = m.group(1)
        return f".asUsize {sh.var_id(v)} {lean_ty(T, sh.vars[v][1])}", c
    m = re.fullmatch(r"(\d+)_usize", c)
    if m:
        return f".lit {m.group(1)}", c
    m = re.fullmatch(r"transforms::(\w+)\((.*)\)", c)
    if m and m.group(1) in XFORMS:
        atoms = [parse_atom(sh, T, a) for a in split_top(m.group(2))]
        return (f".xform .{XFORMS[m.group(1)]} [{', '.join(a[0] for a in atoms)}]",
                f"transforms::{m.group(1)}({','.join(a[1] for a in atoms)})")
    m = re.fullmatch(r"usize::try_from\((\w+)\)\.unwrap_or_default\(\)", c)
    if m and m.group(1) in sh.vars:
        v = m.group(1)
        name = f"usize::try_from<{sh.vars[v][1]}>"
        return f".custom {ctx.custom_id(name)} [.var {sh.var_id(v)} {lean_ty(T, sh.vars[v][1])}]", c
    m = re.fullmatch(r"(\w+)::(\w+)\((.*)\)", c)
    if m:
        atoms = [parse_atom(sh, T, a) for a in split_top(m.group(3))]
        name = f"{m.group(1)}::{m.group(2)}"
        return (f".custom {ctx.custom_id(name)} [{', '.join(a[0] for a in atoms)}]",
                f"{name}({','.join(a[1] for a in atoms)})")
    raise Unparsed(f"count form: {c}")

def parse_args_tuple(sh, a):
    """`x` or `(a,b,c)` -> list of var names"""
    if a.startswith("("):
        names = split_top(a[1:-1])
    else:
        names = [a]
    for n in names:
        if n not in sh.vars:
            raise Unparsed(f"arg {n} unbound")
    return names

def render_args_tuple(names, paren_single=False):
    if len(names) == 1 and not paren_single:
        return names[0]
    return "(" + ",".join(names) + ")"

def parse_size(sh, T, ctx, s):
    m = re.fullmatch(r"(\w+)::RAW_BYTE_LEN", s)
    if m:
        return f".const {T.size(m.group(1))}", s, ("const", T.size(m.group(1)))
    m = re.fullmatch(r"<(\w+) as ComputeSize>::compute_size\(&(.*)\)\?", s)
    if m:
        names = parse_args_tuple(sh, m.group(2))
        ids = ", ".join(str(sh.var_id(n)) for n in names)
        was_tuple = m.group(2).startswith("(")
        return (f".compute {ctx.size_id(m.group(1))} [{ids}]",
                f"<{m.group(1)} as ComputeSize>::compute_size(&{render_args_tuple(names, was_tuple)})?",
                ("compute", m.group(1), names))
    raise Unparsed(f"size form: {s}")

def parse_len(sh, T, ctx, l):
    """returns (lean, canonical text, info)"""
    m = re.fullmatch(r"\((.*)\)\.checked_mul\((.*)\)\.ok_or\(ReadError::OutOfBounds\)\?", l)
    if m:
        c = parse_count(sh, T, ctx, m.group(1))
        s = parse_size(sh, T, ctx, m.group(2))
        return (f".mul ({c[0]}) ({s[0]})", f"({c[1]}).checked_mul({s[1]}).ok_or(ReadError::OutOfBounds)?", ("mul", s[2]))
    m = re.fullmatch(r"cursor\.remaining_bytes\(\)/(\w+)::RAW_BYTE_LEN\*(\w+)::RAW_BYTE_LEN", l)
    if m and m.group(1) == m.group(2):
        n = T.size(m.group(1))
        return f".remFloor {n}", l, ("remFloor", n)
    if l == "cursor.remaining_bytes()":
        return ".rem", l, ("rem",)
    m = re.fullmatch(r"\{let data=cursor\.remaining\(\)\.ok_or\(ReadError::OutOfBounds\)\?;<(\w+) as VarSize>::total_len_for_count\(data,(.*)\)\?\}", l)
    if m:
        if m.group(1) not in VARKIND:
            raise Unparsed(f"VarSize impl of {m.group(1)} not transcribed")
        k = VARKIND[m.group(1)]
        c = parse_count(sh, T, ctx, m.group(2))
        return (f".varLen ⟨{k[0]}, {k[1]}, {k[2]}⟩ ({c[0]})",
                "{let data=cursor.remaining().ok_or(ReadError::OutOfBounds)?;<%s as VarSize>::total_len_for_count(data,%s)?}" % (m.group(1), c[1]),
                ("varLen",))
    try:
        s = parse_size(sh, T, ctx, l)
        return f".one ({s[0]})", s[1], ("one", s[2])
    except Unparsed:
        pass
    raise Unparsed(f"len form: {l}")

def split_statements(body):
    """split a fn body (raw text) into top-level statements"""
    stmts, depth, cur = [], 0, ""
    i = 0
    while i < len(body):
        ch = body[i]
        cur += ch
        if ch in "({[":
            depth += 1
        elif ch in ")}]":
            depth -= 1
            if depth == 0 and ch == "}" and tight(cur).startswith("if let"):
                stmts.append(cur); cur = ""
        elif ch == ";" and depth == 0:
            stmts.append(cur); cur = ""
        i += 1
    if cur.strip():
        stmts.append(cur)
    return [tight(s) for s in stmts]

def parse_read_body(sh, T, ctx, body, argtype, marker_fields, report):
    stmts = split_statements(body)
    idx = 0
    if argtype is not None:
        # `let x = *args;` / `let (a, b) = *args;`
        m = re.fullmatch(r"let ?(\(?[\w,]+\)?)=\*args;", stmts[idx])
        if not m:
            raise Unparsed(f"{sh.name}: args destructuring {stmts[idx]}")
        names = split_top(m.group(1).strip("()"))
        types = split_top(argtype.strip("()")) if argtype.startswith("(") else [argtype]
        if len(names) != len(types):
            raise Unparsed(f"{sh.name}: args arity")
        for n, t in zip(names, types):
            if t not in T.scalar:
                raise Unparsed(f"{sh.name}: arg type {t}")
            sh.var_id(n, t)
            sh.args.append((n, t))
        sh.consumed += 1
        idx += 1
    if len(stmts) <= idx or stmts[idx] not in ("let mut cursor=data.cursor();", "let cursor=data.cursor();"):
        raise Unparsed(f"{sh.name}: prologue {stmts[:idx + 1]}")
    sh.consumed += 1
    idx += 1
    # group statements per field while parsing
    pending = None  # (field, cond_lean) after a markStart
    i = idx
    fin = None
    while i < len(stmts):
        s = stmts[i]
        if s.startswith("cursor.finish("):
            fin = s
            if i != len(stmts) - 1:
                raise Unparsed(f"{sh.name}: statements after finish")
            break
        canon = None
        m = re.fullmatch(r"cursor\.advance::<(\w+)>\(\);", s)
        if m:
            sz = T.size(m.group(1))
            sh.steps.append(f".adv {sz}")
            sh.prog.append(("scalar", None, sz, None))
            if sh.static_off is not None:
                sh.static_off += sz
            canon = s
        if canon is None:
            m = re.fullmatch(r"let (\w+):(\w+)=cursor\.read\(\)\?;", s)
            if m:
                v, ty = m.group(1), m.group(2)
                if ty not in T.scalar:
                    raise Unparsed(f"{sh.name}: read of non-scalar {ty}")
                if v in sh.vars:
                    raise Unparsed(f"{sh.name}: rebinding {v}")
                x = sh.var_id(v, ty)
                sh.steps.append(f".readVar {x} {T.size(ty)}")
                sh.prog.append(("scalar", None, T.size(ty), x))
                if sh.static_off is not None:
                    sh.var_off[v] = (sh.static_off, T.size(ty))
                    sh.static_off += T.size(ty)
                canon = s
        if canon is None:
            # everything below makes later offsets data dependent
            sh.static_off = None
        if canon is None:
            m = re.fullmatch(r"let (\w+)_byte_start=(.*)\.then\(\|\|cursor\.position\(\)\)\.transpose\(\)\?;", s)
            if m:
                f = m.group(1)
                c = parse_cond(sh, T, m.group(2))
                sh.steps.append(f".markStart {sh.fid(f)} ({c[0]})")
                if pending is not None:
                    raise Unparsed(f"{sh.name}: nested markStart")
                pending = (f, c[0])
                canon = f"let {f}_byte_start={c[1]}.then(||cursor.position()).transpose()?;"
        if canon is None:
            m = re.fullmatch(r"(.*)\.then\(\|\|cursor\.advance::<(\w+)>\(\)\);", s)
            if m:
                c = parse_cond(sh, T, m.group(1))
                sz = T.size(m.group(2))
                sh.steps.append(f".condAdv ({c[0]}) {sz}")
                if pending is None:
                    raise Unparsed(f"{sh.name}: condAdv without markStart")
                sh.prog.append(("condScalar", pending[0], c[0], sz, None, pending[1]))
                pending = None
                canon = f"{c[1]}.then(||cursor.advance::<{m.group(2)}>());"
        if canon is None:
            m = re.fullmatch(r"let (\w+)=(.*)\.then\(\|\|cursor\.read::<(\w+)>\(\)\)\.transpose\(\)\?\.unwrap_or_default\(\);", s)
            if m:
                v, ty = m.group(1), m.group(3)
                c = parse_cond(sh, T, m.group(2))
                if ty not in T.scalar:
                    raise Unparsed(f"{sh.name}: read of non-scalar {ty}")
                if v in sh.vars:
                    raise Unparsed(f"{sh.name}: rebinding {v}")
                x = sh.var_id(v, ty)
                sh.steps.append(f".condRead ({c[0]}) {x} {T.size(ty)}")
                if pending is None:
                    raise Unparsed(f"{sh.name}: condRead without markStart")
                sh.prog.append(("condScalar", pending[0], c[0], T.size(ty), x, pending[1]))
                pending = None
                canon = f"let {v}={c[1]}.then(||cursor.read::<{ty}>()).transpose()?.unwrap_or_default();"
        if canon is None:
            m = re.fullmatch(r"let (\w+)_byte_len=(.*)\.then_some\((.*)\);", s)
            if m and ".then_some(" not in m.group(3):
                f = m.group(1)
                c = parse_cond(sh, T, m.group(2))
                l = parse_len(sh, T, ctx, m.group(3))
                sh.steps.append(f".letLenCond {sh.fid(f)} ({c[0]}) ({l[0]})")
                nxt = stmts[i + 1] if i + 1 < len(stmts) else ""
                want = "if let Some(value)=%s_byte_len{cursor.advance_by(value);}" % f
                if nxt != want:
                    raise Unparsed(f"{sh.name}: expected `{want}` got `{nxt}`")
                sh.steps.append(f".advByCond {sh.fid(f)}")
                if pending is None or pending[0] != f:
                    raise Unparsed(f"{sh.name}: letLenCond without markStart for {f}")
                sh.prog.append(("condComputed", f, c[0], l[0], l[2], pending[1]))
                pending = None
                canon = f"let {f}_byte_len={c[1]}.then_some({l[1]});"
                if canon != s:
                    raise Unparsed(f"{sh.name}: round-trip `{s}` vs `{canon}`")
                sh.consumed += 2
                i += 2
                continue
        if canon is None:
            m = re.fullmatch(r"let (\w+)_byte_len=(.*);", s)
            if m:
                f = m.group(1)
                l = parse_len(sh, T, ctx, m.group(2))
                sh.steps.append(f".letLen {sh.fid(f)} ({l[0]})")
                nxt = stmts[i + 1] if i + 1 < len(stmts) else ""
                want = f"cursor.advance_by({f}_byte_len);"
                if nxt != want:
                    raise Unparsed(f"{sh.name}: expected `{want}` got `{nxt}`")
                sh.steps.append(f".advBy {sh.fid(f)}")
                if pending is not None:
                    raise Unparsed(f"{sh.name}: letLen inside conditional field")
                sh.prog.append(("computed", f, l[0], l[2]))
                canon = f"let {f}_byte_len={l[1]};"
                if canon != s:
                    raise Unparsed(f"{sh.name}: round-trip `{s}` vs `{canon}`")
                sh.consumed += 2
                i += 2
                continue
        if canon is None:
            raise Unparsed(f"{sh.name}: statement form: {s}")
        if canon != s:
            raise Unparsed(f"{sh.name}: round-trip `{s}` vs `{canon}`")
        sh.consumed += 1
        i += 1
    if pending is not None:
        raise Unparsed(f"{sh.name}: dangling markStart")
    if fin is None:
        raise Unparsed(f"{sh.name}: no cursor.finish")
    m = re.fullmatch(r"cursor\.finish\((\w+)\{(.*)\}\)", fin)
    if not m or m.group(1) != sh.name + "Marker":
        raise Unparsed(f"{sh.name}: finish form {fin}")
    inits = [x for x in split_top(m.group(2)) if x]
    want = list(marker_fields)
    got = []
    for x in inits:
        if x == "offset_type:std::marker::PhantomData":
            got.append("offset_type")
        elif re.fullmatch(r"\w+", x):
            got.append(x)
        else:
            raise Unparsed(f"{sh.name}: finish initialiser {x}")
    if got != want:
        raise Unparsed(f"{sh.name}: finish fields {got} vs marker struct {want}")
    sh.consumed += 1

# ------------------------------------------------------------------------------------------------

def parse_marker_struct(sh, body):
    """returns ordered list of marker field names; checks types"""
    fields = []
    for part in split_top(tight(body)):
        if not part:
            continue
        m = re.fullmatch(r"(\w+):(.*)", part)
        if not m:
            raise Unparsed(f"{sh.name}: marker field {part}")
        n, t = m.group(1), m.group(2)
        if n == "offset_type":
            if t != "std::marker::PhantomData<*const T>":
                raise Unparsed(f"{sh.name}: phantom {t}")
        elif n.endswith("_byte_len") or n.endswith("_byte_start"):
            if t not in ("usize", "Option<usize>"):
                raise Unparsed(f"{sh.name}: marker field type {part}")
        fields.append((n, t))
    return fields

def parse_range_fns(sh, T, body):
    """body of `impl XMarker { ... }`"""
    fns = []
    pos = 0
    for m in re.finditer(r"pub fn (\w+)_byte_range\(&self\)\s*->\s*(Option<Range<usize>>|Range<usize>)\s*\{", body):
        end = balanced(body, m.end() - 1)
        fns.append((m.group(1), m.group(2), tight(body[m.end():end - 1])))
        pos = end
    # nothing else may live in the impl
    rest = body
    for m in reversed(list(re.finditer(r"pub fn (\w+)_byte_range\(&self\)\s*->\s*(Option<Range<usize>>|Range<usize>)\s*\{", body))):
        end = balanced(rest, m.end() - 1)
        rest = rest[:m.start()] + rest[end:]
    if tight(rest) != "":
        raise Unparsed(f"{sh.name}: extra items in marker impl: {tight(rest)[:120]}")
    prev = "0"
    for (f, ret, b) in fns:
        if ret == "Range<usize>":
            m = re.fullmatch(r"let start=(.*);start\.\.start\+(.*)", b)
            if not m or m.group(1).replace("{", "").replace("}", "") != prev:
                raise Unparsed(f"{sh.name}: range fn {f}: `{b}` (expected start `{prev}`)")
            cond = False
            lenx = m.group(2)
        else:
            m = re.fullmatch(r"let start=self\.(\w+)_byte_start\?;Some\(start\.\.start\+(.*)\)", b)
            if not m or m.group(1) != f:
                raise Unparsed(f"{sh.name}: cond range fn {f}: `{b}`")
            cond = True
            lenx = m.group(2)
        m = re.fullmatch(r"(\w+)::RAW_BYTE_LEN", lenx)
        if m:
            flen = f".const {T.size(m.group(1))}"
            stored = False
        elif lenx == f"self.{f}_byte_len" + ("?" if cond else ""):
            flen = ".stored"
            stored = True
        else:
            raise Unparsed(f"{sh.name}: range fn {f}: len `{lenx}`")
        sh.fid(f)
        sh.fields.append((f, cond, flen, stored))
        sh.consumed += 1
        if cond:
            prev = f"self.{f}_byte_range().map(|range|range.end).unwrap_or_else(||{prev})"
        else:
            prev = f"self.{f}_byte_range().end"

def parse_getters(sh, T, ctx, body, report):
    """body of `impl<'a> X<'a> { ... }` (the generated getters)"""
    pos = 0
    fields = {f[0]: f for f in sh.fields}
    argnames = [a[0] for a in sh.args]
    for m in re.finditer(r"pub(\(crate\))? fn (\w+)(?:<'a>)?\(&self\)\s*->\s*([^{]+?)\s*(where[^{]*)?\{", body):
        name, ret = m.group(2), tight(m.group(3))
        # the Rust dispatch can only call public getters, and (for `Table<()>`) those without a bound on T
        callable = m.group(1) is None and not (sh.generic and m.group(4))
        end = balanced(body, m.end() - 1)
        b = tight(body[m.end():end - 1])
        if "unwrap" not in b and "expect" not in b and "[" not in b and "panic" not in b and "unreachable" not in b:
            # offset getters / stored-arg getters: no unwrap, nothing to prove
            if re.fullmatch(r"self\.shape\.(\w+)", b):
                if b.split(".")[-1] not in argnames:
                    raise Unparsed(f"{sh.name}: getter {name} reads unknown shape field")
            sh.n_offset_getters += 1
            sh.consumed += 1
            if callable:
                sh.getter_calls.append(name)
            continue
        cond = False
        m1 = re.fullmatch(r"let range=self\.shape\.(\w+)_byte_range\(\)(\??);(.*)", b)
        if not m1:
            raise Unparsed(f"{sh.name}: getter {name}: {b[:160]}")
        f, q, rd = m1.group(1), m1.group(2), m1.group(3)
        if f != name or f not in fields:
            raise Unparsed(f"{sh.name}: getter {name} uses range of {f}")
        cond = q == "?"
        if cond != fields[f][1]:
            raise Unparsed(f"{sh.name}: getter {name}: conditional mismatch")
        if cond:
            m2 = re.fullmatch(r"Some\((.*)\)", rd)
            if not m2:
                raise Unparsed(f"{sh.name}: getter {name}: {rd}")
            rd = m2.group(1)
            mret = re.fullmatch(r"Option<(.*)>", ret)
            if not mret:
                raise Unparsed(f"{sh.name}: getter {name}: return type {ret}")
            ret = mret.group(1)
        fid = sh.fid(f)
        if rd == "self.data.read_at(range.start).unwrap()":
            ty = ret
            mm = re.fullmatch(r"Nullable<(\w+)>", ty)
            if mm:
                ty = mm.group(1)
            if ty not in T.scalar:
                raise Unparsed(f"{sh.name}: getter {name}: read_at of {ret}")
            sh.getters.append(f"⟨{fid}, .readAt {T.size(ty)}⟩")
        elif rd == "self.data.read_array(range).unwrap()":
            mm = re.fullmatch(r"&'a\[(.*)\]", ret)
            if not mm:
                raise Unparsed(f"{sh.name}: getter {name}: array type {ret}")
            el = mm.group(1)
            mm2 = re.fullmatch(r"BigEndian<(?:Nullable<)?(\w+)>?>", el)
            if mm2:
                el = mm2.group(1)
            sh.getters.append(f"⟨{fid}, .readArray {T.size(el)}⟩")
        elif rd == "VarLenArray::read(self.data.split_off(range.start).unwrap()).unwrap()":
            sh.getters.append(f"⟨{fid}, .varLen⟩")
        elif rd == "VarLenArray::read(self.data.slice(range).unwrap()).unwrap()":
            sh.getters.append(f"⟨{fid}, .varLenSlice⟩")
        else:
            mm = re.fullmatch(r"self\.data\.read_with_args\(range,&(.*)\)\.unwrap\(\)", rd)
            if not mm:
                raise Unparsed(f"{sh.name}: getter {name}: {rd}")
            a = mm.group(1)
            parts = split_top(a[1:-1]) if a.startswith("(") else [a]
            gargs = []
            for p in parts:
                mp = re.fullmatch(r"self\.(\w+)\(\)", p)
                if not mp:
                    raise Unparsed(f"{sh.name}: getter {name}: arg {p}")
                g = mp.group(1)
                if g in argnames:
                    gargs.append(f".arg {sh.var_id(g)}")
                elif g in fields:
                    # the field's getter type gives the re-read width
                    gargs.append(("field", g))
                else:
                    raise Unparsed(f"{sh.name}: getter {name}: arg getter {g}")
            mm3 = re.fullmatch(r"ComputedArray<'a,(\w+)(?:<'a>)?>", ret)
            if mm3:
                sh.getters.append(("args", fid, "readArgsArray", mm3.group(1), gargs))
            else:
                rec = re.sub(r"<'a>", "", ret)
                if not re.fullmatch(r"\w+", rec):
                    raise Unparsed(f"{sh.name}: getter {name}: return {ret}")
                sh.getters.append(("args", fid, "readArgsStruct", rec, gargs))
        if callable:
            sh.getter_calls.append(name)
        sh.consumed += 1
    # anything that is not a fn in the impl?
    # (doc comments were stripped; attributes are allowed)

def finalize_getters(sh, T, ctx):
    """resolve `.field` getter args now that all scalar getters are known"""
    width = {}
    for kind in sh.prog:
        pass
    # scalar widths from the field layout (const)
    fl = {f[0]: f for f in sh.fields}
    out = []
    for g in sh.getters:
        if isinstance(g, str):
            out.append(g)
            continue
        _, fid, k, rec, gargs = g
        ga = []
        for a in gargs:
            if isinstance(a, str):
                ga.append(a)
            else:
                f = a[1]
                m = re.fullmatch(r"\.const (\d+)", fl[f][2])
                if not m:
                    raise Unparsed(f"{sh.name}: getter arg {f} is not a scalar field")
                ga.append(f".field {sh.fid(f)} {m.group(1)}")
        out.append(f"⟨{fid}, .{k} {ctx.size_id(rec)} [{', '.join(ga)}]⟩")
    # min_byte_range: evaluates the range fn of the last unconditional field
    sh.getters = out

def assemble_prog(sh):
    """attach field ids to the grouped program (field order == marker fn order)"""
    if len(sh.prog) != len(sh.fields):
        raise Unparsed(f"{sh.name}: {len(sh.prog)} field groups in read vs {len(sh.fields)} range fns")
    out = []
    for p, f in zip(sh.prog, sh.fields):
        fname = f[0]
        fid = sh.fid(fname)
        if p[0] == "scalar":
            rd = "none" if p[3] is None else f"(some {p[3]})"
            out.append(f"⟨{fid}, .scalar {p[2]} {rd}⟩")
        elif p[0] == "computed":
            if p[1] != fname:
                raise Unparsed(f"{sh.name}: field order: {p[1]} vs {fname}")
            out.append(f"⟨{fid}, .computed ({p[2]})⟩")
        elif p[0] == "condScalar":
            if p[1] != fname:
                raise Unparsed(f"{sh.name}: field order: {p[1]} vs {fname}")
            rd = "none" if p[4] is None else f"(some {p[4]})"
            out.append(f"⟨{fid}, .condScalar ({p[2]}) {p[3]} {rd}⟩")
            sh.cond_fields[fname] = p[2]
        elif p[0] == "condComputed":
            if p[1] != fname:
                raise Unparsed(f"{sh.name}: field order: {p[1]} vs {fname}")
            out.append(f"⟨{fid}, .condComputed ({p[2]}) ({p[3]})⟩")
            sh.cond_fields[fname] = p[2]
    return out

def find_item(src, regex):
    """yield (match, body, end) for `header {` items"""
    for m in re.finditer(regex, src):
        end = balanced(src, m.end() - 1)
        yield m, src[m.end():end - 1], end

def parse_compute_size(T, ctx, name, argtype, body):
    """generated `impl ComputeSize for R` -> (arg types, [len lean], [canonical])"""
    sh = Shape(name, "")
    stmts = split_statements(body)
    m = re.fullmatch(r"let ?(\(?[\w,]+\)?)=\*args;", stmts[0])
    if not m:
        raise Unparsed(f"compute_size {name}: {stmts[0]}")
    names = split_top(m.group(1).strip("()"))
    types = split_top(argtype.strip("()")) if argtype.startswith("(") else [argtype]
    for n, t in zip(names, types):
        if t not in T.scalar:
            raise Unparsed(f"compute_size {name}: arg type {t}")
        sh.var_id(n, t)
    lens = []
    if len(stmts) == 2:
        m = re.fullmatch(r"Ok\((.*)\)", stmts[1])
        if not m:
            raise Unparsed(f"compute_size {name}: {stmts[1]}")
        l = parse_len(sh, T, ctx, m.group(1))
        if f"Ok({l[1]})" != stmts[1]:
            raise Unparsed(f"compute_size {name}: round-trip")
        lens.append(l[0])
    else:
        if stmts[1] != "let mut result=0usize;" or stmts[-1] != "Ok(result)":
            raise Unparsed(f"compute_size {name}: frame {stmts[1]} … {stmts[-1]}")
        for s in stmts[2:-1]:
            m = re.fullmatch(r"result=result\.checked_add\((.*)\)\.ok_or\(ReadError::OutOfBounds\)\?;", s)
            if not m:
                raise Unparsed(f"compute_size {name}: {s}")
            l = parse_len(sh, T, ctx, m.group(1))
            if l[1] != m.group(1):
                raise Unparsed(f"compute_size {name}: round-trip {s}")
            lens.append(l[0])
    return [T.size(t) for t in types], lens

# ------------------------------------------------------------------------------------------------

def wf_chain(n):
    """proof of AllWF (chunk0 ++ chunk1 ++ …) — `++` associates to the left"""
    e = "chunk0_wf"
    for k in range(1, n):
        e = f"AllWF.append ({e}) chunk{k}_wf"
    return e

def write_if_changed(path, text, written):
    """lake/cargo rebuild on content (lake) or mtime (cargo): never touch a file whose text is unchanged"""
    written.add(os.path.abspath(path))
    if os.path.exists(path) and open(path).read() == text:
        return False
    with open(path, "w") as f:
        f.write(text)
    return True

def module_paths(repo):
    """generated file stem -> rust module path(s) that include! it"""
    out = {}
    for f in glob.glob(os.path.join(repo, "read-fonts/src/**/*.rs"), recursive=True):
        txt = open(f).read()
        for m in re.finditer(r'include!\("[./]*generated/([\w.]+)"\)', txt):
            rel = os.path.relpath(f, os.path.join(repo, "read-fonts/src"))[:-3]
            mod = "read_fonts::" + rel.replace("/", "::")
            if rel == "lib":
                mod = "read_fonts"
            is_test = "codegen_test" in rel
            out.setdefault(m.group(1), []).append((mod, is_test))
    return out

def main():
    ap = argparse.ArgumentParser()
    ap.add_argument("--repo", default="/repo")
    ap.add_argument("--out", required=True)
    ap.add_argument("--report", required=True)
    ap.add_argument("--rust", default=None)
    ap.add_argument("--chunks", type=int, default=8)
    a = ap.parse_args()
    if a.rust is None:
        a.rust = os.path.join(os.path.dirname(os.path.abspath(__file__)), "..", "harness", "src", "bin", "c01", "gen.rs")
    T = Types(a.repo)
    ctx = Ctx()
    mods = module_paths(a.repo)
    shapes, unparsed, unsupported, recsizes, traversal = [], [], [], [], []
    n_readers = 0
    other_readers = []
    files = sorted(glob.glob(os.path.join(a.repo, "read-fonts/generated/*.rs")))
    for f in files:
        stem = os.path.basename(f)
        src = strip_comments(open(f).read())
        short = re.sub(r"^generated_", "", stem[:-3])
        spans = []
        # every generated reader in the file (for the coverage count)
        for m in re.finditer(r"impl<'a(?:,\s*T)?>\s+(FontRead|FontReadWithArgs)<'a>\s+for\s+(\w+)", src):
            n_readers += 1
        # --- marker tables
        for m, body, end in find_item(src, r"pub struct (\w+)Marker(?:<T = \(\)>)?\s*\{"):
            name = m.group(1)
            sh = Shape(name, stem)
            sh.lean_name = f"{short}_{name}"
            try:
                sh.generic = "<T" in m.group(0)
                mfields = parse_marker_struct(sh, body)
                sh.consumed += 1
                spans.append((m.start(), end))
                # marker impl
                mi = re.search(r"impl\s*(?:<T>)?\s+%sMarker\s*(?:<T>)?\s*\{" % name, src)
                if not mi:
                    raise Unparsed(f"{name}: no marker impl")
                iend = balanced(src, mi.end() - 1)
                parse_range_fns(sh, T, src[mi.end():iend - 1])
                spans.append((mi.start(), iend))
                # read impl
                mr = re.search(r"impl<'a(?:,\s*T)?>\s+FontRead<'a>\s+for\s+%s<'a(?:,\s*T)?>\s*\{\s*fn read\(data: FontData<'a>\)\s*->\s*Result<Self,\s*ReadError>\s*\{" % name, src)
                argtype = None
                if not mr:
                    mr = re.search(r"impl<'a>\s+FontReadWithArgs<'a>\s+for\s+%s<'a>\s*\{\s*fn read_with_args\(\s*data: FontData<'a>,\s*args: &([^)]*?\)?),?\s*\)\s*->\s*Result<Self,\s*ReadError>\s*\{" % name, src)
                    if not mr:
                        raise Unparsed(f"{name}: no read impl")
                    argtype = tight(mr.group(1))
                    sh.is_args = True
                rend = balanced(src, mr.end() - 1)
                spans.append((mr.start(), rend + 0))
                # marker fields: stored args first, then byte_start/byte_len in field order
                parse_read_body(sh, T, ctx, src[mr.end():rend - 1], argtype, [n for n, _ in mfields], unparsed)
                sh.prog_lean = assemble_prog(sh)
                # stored marker fields must be exactly what the layout needs
                want = []
                argn = [x[0] for x in sh.args]
                for (n, t) in mfields:
                    if n in argn or n == "offset_type":
                        continue
                    want.append((n, t))
                exp = []
                for (fn, cond, flen, stored) in sh.fields:
                    if cond:
                        exp.append((fn + "_byte_start", "Option<usize>"))
                    if stored:
                        exp.append((fn + "_byte_len", "Option<usize>" if cond else "usize"))
                if want != exp:
                    raise Unparsed(f"{name}: marker fields {want} vs layout {exp}")
                # getters (and, for tables with read args, the `read(data, args…)` constructor impl)
                for mg in re.finditer(r"impl<'a(?:,\s*T)?>\s+%s<'a(?:,\s*T)?>\s*\{" % name, src):
                    gend = balanced(src, mg.end() - 1)
                    gbody = src[mg.end():gend - 1]
                    tb = tight(gbody)
                    mc = re.fullmatch(r"pub fn read\(data:FontData<'a>,(.*)\)->Result<Self,ReadError>\{let args=(.*);Self::read_with_args\(data,&args\)\}", tb)
                    if mc:
                        sh.consumed += 1
                    else:
                        parse_getters(sh, T, ctx, gbody, unparsed)
                    spans.append((mg.start(), gend))
                finalize_getters(sh, T, ctx)
                # MinByteRange impl evaluates one more range fn
                mm = re.search(r"impl(?:<T>)?\s+MinByteRange\s+for\s+%sMarker(?:<T>)?\s*\{\s*fn min_byte_range\(&self\)\s*->\s*Range<usize>\s*\{\s*0\.\.self\.(\w+)_byte_range\(\)\.end\s*\}\s*\}" % name, src)
                if mm:
                    if mm.group(1) not in sh.field_ids:
                        raise Unparsed(f"{name}: min_byte_range of unknown field")
                    sh.getters.append(f"⟨{sh.fid(mm.group(1))}, .rangeOnly⟩")
                    sh.consumed += 1
                    sh.has_min = mm.group(1)
                    spans.append((mm.start(), mm.end()))
                else:
                    sh.has_min = None
                sh.arg_types = [x[1] for x in sh.args]
                shapes.append(sh)
            except Unparsed as e:
                unparsed.append({"file": stem, "item": name, "why": str(e)})
            except KeyError as e:
                unparsed.append({"file": stem, "item": name, "why": f"unknown type size {e}"})
        # --- what is left of the file: any `unwrap`/`expect`/panic outside consumed items?
        residual = src
        for (st, en) in sorted(spans, reverse=True):
            residual = residual[:st] + " " * (en - st) + residual[en:]
        for mt, tbody, tend in find_item(residual, r"impl<'a(?:,\s*T(?::[^{;]*?)?)?>\s+SomeTable<'a>\s+for\s+(\w+)<'a(?:,\s*T)?>\s*\{"):
            n_unw = len(re.findall(r"\.unwrap\(\)", tbody))
            traversal.append({"file": stem, "table": mt.group(1), "unwraps": n_unw})
            residual = residual[:mt.start()] + " " * (tend - mt.start()) + residual[tend:]
        for mt in re.finditer(r"\.unwrap\(\)|\.expect\(|panic!|unreachable!|unimplemented!|todo!|\bunsafe\b", residual):
            line = residual[:mt.start()].count("\n") + 1
            unparsed.append({"file": stem, "item": f"line~{line}", "why": f"`{mt.group(0)}` outside any consumed item"})
        # --- generated ComputeSize impls
        for m, body, end in find_item(src, r"impl ComputeSize for (\w+)(?:<'_>)?\s*\{\s*(?:#\[allow\([\w:]+\)\])?\s*fn compute_size\(args: &([^)]*?\)?)\)\s*->\s*Result<usize,\s*ReadError>\s*\{"):
            try:
                at = tight(m.group(2))
                sizes, lens = parse_compute_size(T, ctx, m.group(1), at, body[:body.rindex("}")] if False else src[m.end():balanced(src, m.end() - 1) - 1])
                recsizes.append((m.group(1), sizes, lens))
            except (Unparsed, KeyError) as e:
                unparsed.append({"file": stem, "item": f"ComputeSize for {m.group(1)}", "why": str(e)})

    # ---------------------------------------------------------------- emit Lean
    os.makedirs(a.out, exist_ok=True)
    written = set()
    chunks = [[] for _ in range(a.chunks)]
    for i, sh in enumerate(shapes):
        chunks[i % a.chunks].append(sh)
    obligations = 0
    for k, ch in enumerate(chunks):
        lines = ["/- GENERATED by translate/shapes.py from read-fonts/generated/*.rs — do not edit -/",
                 "import FontVerif.Model.Shape", "set_option maxRecDepth 4096",
                 f"namespace FontVerif.Gen.ReadShapes", "open FontVerif.Shape", ""]
        for sh in ch:
            argids = ", ".join(str(sh.var_id(x[0])) for x in sh.args)
            flds = ", ".join(f"⟨{sh.fid(f[0])}, {'true' if f[1] else 'false'}, {f[2]}⟩" for f in sh.fields)
            lines.append(f"/-- `{sh.name}` ({sh.file}) -/")
            lines.append(f"def {sh.lean_name}_shape : Shape :=")
            lines.append(f"  {{ args := [{argids}]")
            lines.append(f"    steps := [{', '.join(sh.steps)}]")
            lines.append(f"    fields := [{flds}]")
            lines.append(f"    prog := [{', '.join(sh.prog_lean)}]")
            lines.append(f"    getters := [{', '.join(sh.getters)}] }}")
            lines.append(f"theorem {sh.lean_name}_wf : WF {sh.lean_name}_shape := by decide +kernel")
            lines.append("")
            obligations += 1
        lines.append(f"def chunk{k} : List (String × Shape) := [")
        lines.append(",\n".join(f'  ("{sh.lean_name}", {sh.lean_name}_shape)' for sh in ch))
        lines.append("]")
        lines.append(f"theorem chunk{k}_wf : AllWF chunk{k} :=")
        lines.append("  " + "".join(f"AllWF.cons {sh.lean_name}_wf (" for sh in ch) + "AllWF.nil" + ")" * len(ch))
        lines.append("")
        lines.append("end FontVerif.Gen.ReadShapes")
        write_if_changed(os.path.join(a.out, f"ReadShapes{k}.lean"), "\n".join(lines) + "\n", written)
    reg = ["/- GENERATED by translate/shapes.py — registry of all generated table readers -/"]
    for k in range(a.chunks):
        reg.append(f"import FontVerif.Gen.ReadShapes{k}")
    reg += ["namespace FontVerif.Gen.ReadShapes", "open FontVerif.Shape", "",
            "def allShapes : List (String × Shape) := " + " ++ ".join(f"chunk{k}" for k in range(a.chunks)), "",
            "/-- every translated reader is well-formed (hence covered by `C01.shape_getters_safe`) -/",
            "theorem allShapes_wf : AllWF allShapes :=",
            "  " + wf_chain(a.chunks)]
    reg.append("")
    reg.append("/-- names of the records with `ComputeSize` (index = id used in `Size.compute`) -/")
    reg.append("def sizeNames : List String := [" + ", ".join(f'"{n}"' for n in ctx.size_names) + "]")
    reg.append("/-- names of the hand-written count functions (index = id used in `Expr.custom`) -/")
    reg.append("def customNames : List String := [" + ", ".join(f'"{n}"' for n in ctx.custom_names) + "]")
    reg.append("/-- generated `ComputeSize` impls: (record, argument widths, summed lengths; local `i` = i-th argument) -/")
    reg.append("def recSizes : List (String × List Nat × List Len) := [")
    reg.append(",\n".join(f'  ("{n}", [{", ".join(map(str, sz))}], [{", ".join(lens)}])' for (n, sz, lens) in recsizes))
    reg.append("]")
    reg.append("")
    reg.append("end FontVerif.Gen.ReadShapes")
    write_if_changed(os.path.join(a.out, "ReadShapes.lean"), "\n".join(reg) + "\n", written)
    # stale chunk files of an earlier run with a different --chunks
    for old in glob.glob(os.path.join(a.out, "ReadShapes*.lean")):
        if os.path.abspath(old) not in written:
            os.remove(old)

    # ---------------------------------------------------------------- emit Rust dispatch
    if a.rust:
        emit_rust(a.rust, shapes, mods, T)

    report = {
        "obligations": obligations,
        "readers_in_generated": n_readers,
        "marker_tables_translated": len(shapes),
        "statements_consumed": sum(s.consumed for s in shapes),
        "getters_with_unwrap": sum(len(s.getters) for s in shapes),
        "getters_without_unwrap": sum(s.n_offset_getters for s in shapes),
        "compute_size_impls": len(recsizes),
        "size_names": ctx.size_names,
        "custom_names": ctx.custom_names,
        "samples": [{"shape": s.lean_name, "steps": s.steps[:6], "getters": s.getters[:4]} for s in shapes[:3]],
        "traversal_impls": len(traversal),
        "traversal_unwraps_not_modelled": sum(t["unwraps"] for t in traversal),
        "unparsed": unparsed,
        "unsupported": unsupported,
    }
    json.dump(report, open(a.report, "w"), indent=1)
    print(f"shapes.py: {len(shapes)} marker tables translated ({n_readers} generated FontRead impls), "
          f"{report['statements_consumed']} items consumed, {len(unparsed)} unparsed, {len(recsizes)} compute_size")
    return 0

def emit_rust(path, shapes, mods, T):
    L = ["// GENERATED by translate/shapes.py — dispatch table over the real generated readers.",
         "// (name, number of args, number of fields, fn(data, args) -> observation)",
         "#[allow(unused_imports)]", "use read_fonts::{FontData, FontRead, FontReadWithArgs, ReadError};",
         "use super::{mk, obs_err, rr, rro, Entry};", "",
         "pub fn table() -> Vec<Entry> {", "    let mut v: Vec<Entry> = Vec::new();"]
    n = 0
    for sh in shapes:
        ms = mods.get(sh.file, [])
        real = [m for (m, t) in ms if not t]
        if not real:
            continue
        mod = real[0]
        tyname = f"{mod}::{sh.name}" + ("::<()>" if sh.generic else "")
        if sh.is_args:
            if len(sh.arg_types) == 1:
                args = f"&mk::<{full_ty(sh.arg_types[0], mod)}>(args[0])"
            else:
                args = "&(" + ", ".join(f"mk::<{full_ty(t, mod)}>(args[{i}])" for i, t in enumerate(sh.arg_types)) + ")"
            call = f"<{tyname} as FontReadWithArgs>::read_with_args(FontData::new(data), {args})"
        else:
            call = f"<{tyname} as FontRead>::read(FontData::new(data))"
        rng = []
        for (f, cond, flen, stored) in sh.fields:
            rng.append(f"rro(sh.{f}_byte_range())" if cond else f"rr(sh.{f}_byte_range())")
        getters = "".join(f" let _ = t.{g}();" for g in sh.getter_calls)
        minr = " let _ = t.min_byte_range(); let _ = t.min_table_bytes();" if sh.has_min else ""
        argn = [x[0] for x in sh.args]
        hints = ", ".join(f"({sh.var_off[v][0]}, {sh.var_off[v][1]}, &{sorted(vals)})"
                          for v, vals in sorted(sh.var_hints.items()) if v in sh.var_off)
        ahints = ", ".join(f"({argn.index(v)}, &{sorted(vals)})" for v, vals in sorted(sh.var_hints.items()) if v in argn)
        L.append(f'    v.push(Entry {{ name: "{sh.lean_name}", nargs: {len(sh.args)}, arg_sizes: &{[T.size(t) for t in sh.arg_types]}, hints: &[{hints}], arg_hints: &[{ahints}], read: |data, args| {{')
        L.append(f"        match {call} {{")
        L.append(f"            Err(e) => obs_err(e),")
        L.append(f"            Ok(t) => {{ let sh = t.shape(); let parts: Vec<String> = vec![{', '.join(rng)}]; format!(\"ok {{}}\", parts.join(\" \")) }}")
        L.append(f"        }}")
        if sh.is_args:
            rcall = f"read_fonts::ResolveOffset::resolve_with_args::<{tyname}>(&font_types::Offset32::new(off), FontData::new(data), {args})"
        else:
            rcall = f"read_fonts::ResolveOffset::resolve::<{tyname}>(&font_types::Offset32::new(off), FontData::new(data))"
        L.append(f"    }}, resolve: |data, off, args| {{")
        L.append(f"        match {rcall} {{")
        L.append(f"            Err(ReadError::NullOffset) => \"null\".to_string(),")
        L.append(f"            Err(e) => obs_err(e),")
        L.append(f"            Ok(t) => {{ let sh = t.shape(); let parts: Vec<String> = vec![{', '.join(rng)}]; let _ = &t; format!(\"ok {{}}\", parts.join(\" \")) }}")
        L.append(f"        }}")
        L.append(f"    }}, getters: |data, args| {{")
        L.append(f"        if let Ok(t) = {call} {{{getters}{minr} let _ = &t; }}")
        L.append(f"    }} }});")
        n += 1
    L.append("    v")
    L.append("}")
    write_if_changed(path, "\n".join(L) + "\n", set())

def full_ty(t, mod):
    if t in BUILTIN:
        if t in ("u8", "i8", "u16", "i16", "u32", "i32", "u64", "i64"):
            return t
        return f"font_types::{t}"
    return f"{mod}::{t}"

if __name__ == "__main__":
    sys.exit(main())
