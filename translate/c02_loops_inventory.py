#!/usr/bin/env python3
"""
translate/c02_loops_inventory.py — C02 translator: SYSTEMATIC inventory of the open-ended loops of skrifa's outline
code and of the PostScript (CFF/CFF2 charstring) code of read-fonts.

On every run it enumerates every `loop { … }`, `while c { … }` and `while let p = e { … }` (not `for` over a finite
iterator) in

    skrifa/src/outline/**/*.rs          read-fonts/src/tables/postscript/**/*.rs

outside `#[cfg(test)]` modules, keys each by  file :: enclosing fn # ordinal-in-that-fn  and a hash of the CODE TOKEN
stream of the loop header and body (comments / whitespace do not matter), and compares with the committed, reviewed table
translate/c02_loops_cover.json, which must give every loop a cover of one of the forms

    "theorem:<PropsModule>.<theorem>"      a termination theorem about a model REGENERATED from / text-pinned to this loop;
                                           lean/FontVerif/Props/<PropsModule>.lean must contain `theorem <theorem>`
    "model:<ModelFile>:<harness group>"    the loop is part of a function modelled in lean/FontVerif/Model/<ModelFile>.lean
                                           (termination proved in Props/C02*.lean) and tied to the Rust by the
                                           correspondence group <harness group> of harness/src/bin/c02.rs — both must exist
    "explored:<harness family>"            no proof; reached by that generator family of harness/src/bin/c02.rs under the
                                           watchdog (must exist), `why` says why there is no proof
    "explored:none"                        nothing reaches it: a visible gap (`why` required)

A loop that is NEW, CHANGED (hash differs from the reviewed one), UNCOVERED (no cover / TODO / names something that does
not exist) or REMOVED is reported in `unparsed`, which makes `./check C02` fail until the table is re-reviewed
(`--update` refreshes hashes and adds new loops as TODO; covers are then edited by hand).

usage: c02_loops_inventory.py [--repo /repo] --out <ignored> [--report out.json] [--update] [--dump] [--cover table.json]
"""
import argparse
import glob
import hashlib
import json
import os
import re
import sys

HERE = os.path.dirname(os.path.abspath(__file__))
ROOT = os.path.dirname(HERE)
sys.path.insert(0, HERE)
import handwritten as H  # noqa: E402   (strip(): blanks comments, string and char literals, keeps offsets)

SCOPES = ["skrifa/src/**/*.rs", "read-fonts/src/tables/postscript/**/*.rs", "incremental-font-transfer/src/**/*.rs"]
SKIP = re.compile(r"/(bin|tests?|benches)/|/main\.rs$|_tests?\.rs$|/test_[^/]*\.rs$")
TOKEN = re.compile(r"[A-Za-z_]\w*|\d[\w.]*|'\w+|\S")


def match_brace(s, i):
    d = 0
    for j in range(i, len(s)):
        if s[j] == "{":
            d += 1
        elif s[j] == "}":
            d -= 1
            if d == 0:
                return j
    return len(s) - 1


def blank_test_modules(s):
    out = s
    for m in re.finditer(r"#\[cfg\(\s*test\s*\)\]\s*(?:pub(?:\([^)]*\))?\s+)?mod\s+\w+\s*\{", s):
        b = m.end() - 1
        e = match_brace(s, b)
        out = out[:m.start()] + re.sub(r"[^\n]", " ", out[m.start():e + 1]) + out[e + 1:]
    return out


def functions(s):
    """(name, body_start, body_end) of every fn with a body"""
    fns = []
    for m in re.finditer(r"\bfn\s+([A-Za-z_]\w*)", s):
        d = 0
        j = m.end()
        while j < len(s):
            c = s[j]
            if c in "([":
                d += 1
            elif c in ")]":
                d -= 1
            elif d == 0 and c == ";":
                j = -1
                break
            elif d == 0 and c == "{":
                break
            j += 1
        if j < 0 or j >= len(s):
            continue
        fns.append((m.group(1), j, match_brace(s, j)))
    return fns


def loops_of(rel, text):
    s = blank_test_modules(H.strip(text))
    fns = functions(s)
    found = []
    for m in re.finditer(r"\b(loop|while)\b", s):
        kw = m.group(1)
        # header: up to the `{` at ()/[] depth 0
        d, j = 0, m.end()
        while j < len(s):
            c = s[j]
            if c in "([":
                d += 1
            elif c in ")]":
                d -= 1
            elif d == 0 and c in "{;":
                break
            j += 1
        if j >= len(s) or s[j] != "{":
            continue
        header = s[m.start():j]
        if kw == "loop" and header.strip() != "loop":
            continue
        kind = "loop" if kw == "loop" else ("while let" if re.match(r"while\s+let\b", header) else "while")
        e = match_brace(s, j)
        toks = TOKEN.findall(s[m.start():e + 1])
        h = hashlib.sha1(" ".join(toks).encode()).hexdigest()[:12]
        encl = [f for f in fns if f[1] < m.start() <= f[2]]
        fn = min(encl, key=lambda f: f[2] - f[1])[0] if encl else "<top>"
        found.append({"file": rel, "fn": fn, "kind": kind, "line": s.count("\n", 0, m.start()) + 1, "hash": h,
                      "header": " ".join(header.split())[:100]})
    counts = {}
    for it in found:
        k = (it["file"], it["fn"])
        counts[k] = counts.get(k, 0) + 1
        it["key"] = f"{it['file']}::{it['fn']}#{counts[k]}"
    return found


def harness_text():
    out = ""
    for p in [os.path.join(ROOT, "harness/src/bin/c02.rs")] + sorted(glob.glob(os.path.join(ROOT, "harness/src/bin/c02/**/*.rs"), recursive=True)):
        if os.path.exists(p):
            out += open(p).read()
    return out


def check_cover(entry, htext):
    """None if fine, else the complaint"""
    cover = entry.get("cover", "")
    if not cover or "TODO" in cover:
        return "UNCOVERED: no cover"
    kind, _, rest = cover.partition(":")
    if kind == "theorem":
        mod, _, thm = rest.partition(".")
        p = os.path.join(ROOT, "lean/FontVerif/Props", mod + ".lean")
        if not os.path.exists(p):
            return f"UNCOVERED: Props module {mod} does not exist"
        if not re.search(r"^theorem\s+" + re.escape(thm) + r"\b", open(p).read(), flags=re.M):
            return f"UNCOVERED: no `theorem {thm}` in Props/{mod}.lean"
        return None
    if kind == "model":
        mf, _, grp = rest.partition(":")
        if not os.path.exists(os.path.join(ROOT, "lean/FontVerif/Model", mf + ".lean")):
            return f"UNCOVERED: Model/{mf}.lean does not exist"
        if not grp or f'"{grp}' not in htext:
            return f"UNCOVERED: harness group `{grp}` not found in harness/src/bin/c02*"
        return None
    if kind == "explored":
        if not entry.get("why"):
            return "UNCOVERED: `explored` needs a `why`"
        if rest == "none":
            return None
        if f'"{rest}' not in htext and rest not in htext:
            return f"UNCOVERED: harness family `{rest}` not found in harness/src/bin/c02*"
        return None
    return f"UNCOVERED: unknown cover kind `{kind}`"


def main():
    ap = argparse.ArgumentParser()
    ap.add_argument("--repo", default="/repo")
    ap.add_argument("--out", default=None)
    ap.add_argument("--report")
    ap.add_argument("--update", action="store_true")
    ap.add_argument("--dump", action="store_true")
    ap.add_argument("--cover", default=os.path.join(HERE, "c02_loops_cover.json"))
    a = ap.parse_args()
    items = []
    for pat in SCOPES:
        for p in sorted(glob.glob(os.path.join(a.repo, pat), recursive=True)):
            rel = os.path.relpath(p, a.repo)
            if SKIP.search("/" + rel):
                continue
            items += loops_of(rel, open(p).read())
    table = json.load(open(a.cover)) if os.path.exists(a.cover) else {}
    htext = harness_text()
    unparsed = []
    by_kind = {}
    for it in items:
        ent = table.get(it["key"])
        if ent is None:
            unparsed.append({"item": it["key"], "line": it["line"], "why": f"NEW {it['kind']} `{it['header']}`: not in translate/c02_loops_cover.json"})
            continue
        if ent.get("hash") != it["hash"]:
            unparsed.append({"item": it["key"], "line": it["line"], "why": f"CHANGED: token hash {it['hash']} differs from the reviewed {ent.get('hash')}"})
            continue
        bad = check_cover(ent, htext)
        if bad:
            unparsed.append({"item": it["key"], "line": it["line"], "why": bad})
            continue
        ck = ent["cover"].split(":")[0] + (":none" if ent["cover"] == "explored:none" else "")
        by_kind[ck] = by_kind.get(ck, 0) + 1
    keys = {it["key"] for it in items}
    for k in table:
        if k not in keys:
            unparsed.append({"item": k, "why": "REMOVED: listed in translate/c02_loops_cover.json but no longer in the source"})
    if a.update:
        new = {}
        for it in items:
            old = table.get(it["key"], {})
            ent = {"hash": it["hash"], "kind": it["kind"], "header": it["header"], "cover": old.get("cover", "TODO")}
            if old.get("why"):
                ent["why"] = old["why"]
            new[it["key"]] = ent
        json.dump(new, open(a.cover, "w"), indent=1, sort_keys=True, ensure_ascii=False)
        print(f"updated {a.cover}: {len(new)} loops ({sum(1 for v in new.values() if 'TODO' in v['cover'])} TODO)")
        return 0
    if a.dump:
        for it in items:
            print(it["key"], it["line"], it["kind"], it["hash"], "|", it["header"], "|", table.get(it["key"], {}).get("cover"))
    if a.report:
        explored = [{"loop": k, "cover": v["cover"], "why": v.get("why", "")} for k, v in sorted(table.items())
                    if v.get("cover", "").startswith("explored")]
        json.dump({"obligations": 0,
                   "samples": [{"c02_loops_inventory": {"loops": len(items), "by_cover": by_kind}},
                               {"explored": [e["loop"] + " -> " + e["cover"] for e in explored][:40]}],
                   "unparsed": unparsed, "changed": False}, open(a.report, "w"), indent=1)
    print(f"c02_loops_inventory: {len(items)} loops, cover {by_kind}, {len(unparsed)} unparsed")
    for u in unparsed[:10]:
        print("   ", u["item"], u.get("line", ""), u["why"][:140])
    return 1 if unparsed else 0


if __name__ == "__main__":
    sys.exit(main())
