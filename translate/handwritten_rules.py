#!/usr/bin/env python3
"""
handwritten_rules.py — (re)assign the `cover` of every item of translate/handwritten_cover.json from the rules below.

Run by hand after `handwritten.py --update` when items were added or when a harness group / Lean model was added:
    python3 translate/handwritten.py --repo /repo --out /tmp/x --report /tmp/x.json --update
    python3 translate/handwritten_rules.py
The rules are (file regex, item-name regex, covers, why).  First match wins.  `traverse` entries need `why`; an item
with risky features (loop / iter / index / unwrap / rec) that ends up `traverse`-only is left for manual review (the
translator reports it UNCOVERED) unless the rule carries `reviewed=True` together with its justification.
"""
import glob, json, os, re, sys

HERE = os.path.dirname(os.path.abspath(__file__))
T = "traverse"
TRIV = "straight-line accessor / conversion / Display: no loop, no indexing, no unwrap; reached by the files walk"
TRAV = "experimental_traverse field dispatch (SomeTable/SomeRecord get_field, type_name, traverse_*): exercised generically by the whole-file walk of the `files` part"


def R(file, name, covers, why=None, reviewed=False):
    return (re.compile(file), re.compile(name), covers if isinstance(covers, list) else [covers], why, reviewed)


M = lambda d: "model:" + d
H = lambda g: "harness:" + g

RULES = [
    # ---- Display impls that loop over font data are driven by their family's group
    R(r"glyf/bytecode/instruction\.rs", r"Instruction<Display>::fmt$", [H("glyf.bytecode")]),
    R(r"tables/name\.rs", r"NameString<Display>::fmt$", [H("name")]),
    R(r"postscript/string\.rs", r"Latin1String<Display>::fmt$", [H("ps.string")]),
    # ---- read-fonts/src/traversal.rs (experimental_traverse): the Debug printer and its budget, the generic iterators
    R(r"src/traversal\.rs", r"DebugGuard::enter$", [M("HandIter.dbgEnter"), H("traverse.debug")]),
    R(r"src/traversal\.rs", r"DebugGuard<Drop>::drop$", [M("HandIter.dbgLeave"), H("traverse.debug")]),
    R(r"src/traversal\.rs", r"DebugPrint(Table|Array)<Debug>::fmt$", [M("HandIter.dbgPrint"), H("traverse.debug"), H("files")]),
    R(r"src/traversal\.rs", r"ComputedArrayOfRecords<SomeArray>::(get|len)$", [M("HandIter.travGet"), H("traverse.debug"), H("files")]),
    R(r"src/traversal\.rs", r"(ArrayIter|FieldIter)<Iterator>::next$|::iter$", [M("HandIter.travStep"), H("traverse.debug"), H("files")]),
    R(r"src/traversal\.rs", r".*", [H("files"), H("traverse.debug")]),
    # ---- traversal plumbing everywhere
    R(r".*", r".*<(SomeTable|SomeRecord)>::|::traverse_\w+$|<Debug>::fmt$|<Display>::fmt$", T, TRAV),
    # ---- core
    R(r"font_data\.rs", r"FontData::(read_at|read_be_at|read_ref_at)$", [M("HandRead.readAt"), H("fontdata")]),
    R(r"font_data\.rs", r"FontData::read_array$", [M("HandRead.readArray"), H("fontdata")]),
    R(r"font_data\.rs", r"FontData::slice$", [M("HandRead.sliceExcl"), H("fontdata")]),
    R(r"font_data\.rs", r"FontData::split_off$", [M("HandRead.splitOff"), H("fontdata")]),
    R(r"font_data\.rs", r"FontData::take_up_to$", [M("HandRead.takeUpTo"), H("fontdata")]),
    R(r"font_data\.rs", r"FontData::check_in_bounds$", [M("HandRead.Cur.position"), H("cursor")]),
    R(r"font_data\.rs", r"Cursor::(advance|advance_by)$", [M("HandRead.Cur.advanceBy"), H("cursor")]),
    R(r"font_data\.rs", r"Cursor::(read|read_be)$", [M("HandRead.Cur.read"), H("cursor")]),
    R(r"font_data\.rs", r"Cursor::read_u32_var$", [M("HandRead.Cur.readU32Var"), H("cursor")]),
    R(r"font_data\.rs", r"Cursor::read_array$", [M("HandRead.Cur.readArray"), H("cursor")]),
    R(r"font_data\.rs", r"Cursor::position$", [M("HandRead.Cur.position"), H("cursor")]),
    R(r"font_data\.rs", r"Cursor::remaining_bytes$", [M("HandRead.Cur.remainingBytes"), H("cursor")]),
    R(r"font_data\.rs", r"Cursor::remaining$", [M("HandRead.Cur.remaining"), H("cursor")]),
    R(r"font_data\.rs", r"Cursor::is_empty$", [M("HandRead.Cur.isEmpty"), H("cursor")]),
    R(r"font_data\.rs", r"Cursor::finish$", [M("HandRead.Cur.finish"), H("cursor")]),
    R(r"font_data\.rs", r"(FontData|Cursor)::(read_with_args|read_computed_array)$", [M("Shape.step"), H("shapes")]),
    R(r"font_data\.rs", r".*", [H("fontdata")]),
    R(r"read\.rs", r"VarSize::read_len_at$", [M("ReadIter.readLenAt"), H("iters")]),
    R(r"read\.rs", r"VarSize::total_len_for_count$", [M("ReadIter.totalLenForCount"), H("iters")]),
    R(r"read\.rs", r".*", [H("shapes")]),
    R(r"src/array\.rs", r"ComputedArray::(new|len|is_empty)$", [M("HandRead.compLen"), M("ReadIter.computedLen"), H("iters"), H("traverse.debug")]),
    R(r"src/array\.rs", r"ComputedArray::iter$", [M("ReadIter.computedIterStep"), H("iters")]),
    R(r"src/array\.rs", r"ComputedArray::get$", [M("HandRead.compGet"), M("HandIter.travGet"), M("ReadIter.computedGet"), H("iters"), H("traverse.debug")]),
    R(r"src/array\.rs", r"VarLenArray::iter$", [M("ReadIter.varIterStep"), H("iters")]),
    R(r"src/array\.rs", r"VarLenArray::get$", [M("ReadIter.varGet"), H("iters")]),
    R(r"src/array\.rs", r".*", [H("iters")]),
    R(r"src/offset\.rs", r".*", [M("Shape.resolve"), H("shapes")]),
    R(r"src/offset_array\.rs", r".*", [H("misc")]),
    R(r"src/table_ref\.rs", r".*", [H("shapes")]),
    R(r"src/tables\.rs", r".*", [H("misc")]),
    # ---- VARC
    R(r"tables/varc\.rs", r"VarcComponentIter<Iterator>::next$", [M("HandIter.varcStep"), H("varc")]),
    R(r"tables/varc\.rs", r"VarcComponent::parse$", [M("HandIter.varcParse"), H("varc")]),
    R(r"tables/varc\.rs", r"DecomposedTransform|<Transform>::transform$", T,
      "float matrix arithmetic with CONSTANT indices into [f64; 6]; no font-derived index, no loop", True),
    R(r"tables/varc\.rs", r".*", [H("varc")]),
    # ---- postscript
    R(r"postscript/index\.rs", r"read_offset$|::get_offset$", [M("HandIter.readOffset"), H("ps.index")]),
    R(r"postscript/index\.rs", r"::get$", [M("HandIter.idxGet"), H("ps.index")]),
    R(r"postscript/index\.rs", r"::size_in_bytes$", [M("HandIter.idxSize"), H("ps.index")]),
    R(r"postscript/index\.rs", r"Index::new$", [M("HandIter.indexNew"), H("ps.index")]),
    R(r"postscript/index\.rs", r".*", [H("ps.index")]),
    R(r"postscript/dict\.rs", r"^(tokens|parse_token)$", [M("HandIter.parseToken"), H("ps.dict")]),
    R(r"postscript/dict\.rs", r"^entries$", [M("HandIter.dictStep"), H("ps.dict"), H("ps.blend")]),
    R(r"postscript/dict\.rs", r"^parse_entry$", [M("HandIter.parseEntry"), H("ps.dict")]),
    R(r"postscript/dict\.rs", r"^parse_int$", [M("HandIter.parseToken"), H("ps.dict")]),
    R(r"postscript/dict\.rs", r"^parse_bcd$", [M("HandIter.bcdLoop"), H("ps.dict")]),
    R(r"postscript/dict\.rs", r"Blues::new$", [M("HandIter.bluesNew"), H("ps.dict")]),
    R(r"postscript/dict\.rs", r"StemSnaps::new$", [M("HandIter.stemSnapsNew"), H("ps.dict")]),
    R(r"postscript/dict\.rs", r".*", [H("ps.dict")]),
    R(r"postscript/stack\.rs", r"Stack::(push|push_impl)$", [M("HandIter.Stack.push"), H("ps.stack")]),
    R(r"postscript/stack\.rs", r"Stack::get_i32$", [M("HandIter.Stack.getI32"), H("ps.stack")]),
    R(r"postscript/stack\.rs", r"Stack::get_fixed$", [M("HandIter.Stack.getFixed"), H("ps.stack")]),
    R(r"postscript/stack\.rs", r"Stack::(pop_i32|pop)$", [M("HandIter.Stack.popI32"), H("ps.stack")]),
    R(r"postscript/stack\.rs", r"Stack::pop_fixed$", [M("HandIter.Stack.popFixed"), H("ps.stack")]),
    R(r"postscript/stack\.rs", r"Stack::apply_delta_prefix_sum$", [M("HandIter.Stack.prefixSum"), H("ps.stack")]),
    R(r"postscript/stack\.rs", r"Stack::apply_blend$", [H("ps.blend"), H("ps.charstring")]),
    R(r"postscript/stack\.rs", r".*", [H("ps.stack")]),
    R(r"postscript/blend\.rs", r".*", [H("ps.blend")]),
    R(r"postscript/charset\.rs", r"string_id_from_ranges$|CharsetFormat[12]::string_id$", [M("HandIter.sidFromRanges"), H("ps.charset")]),
    R(r"postscript/charset\.rs", r"Charset::string_id$|CharsetFormat0::string_id$", [M("HandIter.charsetSid"), H("ps.charset")]),
    R(r"postscript/charset\.rs", r"RangeIter::(new|next)$|^next_range$", [M("HandIter.rangeNext"), H("ps.charset")]),
    R(r"postscript/charset\.rs", r"CharsetIter<Iterator>::next$", [M("HandIter.simpleNext"), H("ps.charset")]),
    R(r"postscript/charset\.rs", r".*", [H("ps.charset")]),
    R(r"postscript/fd_select\.rs", r".*", [M("HandIter.fdSelectRanges"), H("ps.fdselect")]),
    R(r"postscript/string\.rs", r".*", [H("ps.string")]),
    R(r"postscript/charstring\.rs", r".*", [H("ps.charstring")]),
    R(r"tables/postscript\.rs", r".*", T, TRIV),
    R(r"tables/cff2?\.rs", r".*", [H("ps.cff")]),
    # ---- AAT
    R(r"tables/aat\.rs", r"Lookup0::value$", [M("HandIter.lookup0"), H("aat.model"), H("aat.lookup")]),
    R(r"tables/aat\.rs", r"Lookup2::(value|segments)$", [M("HandIter.lookup2"), H("aat.model"), H("aat.lookup")]),
    R(r"tables/aat\.rs", r"Lookup4::value$", [M("HandIter.lookup4"), H("aat.model"), H("aat.lookup")]),
    R(r"tables/aat\.rs", r"Lookup6::(value|entries)$", [M("HandIter.lookup6"), H("aat.model"), H("aat.lookup")]),
    R(r"tables/aat\.rs", r"Lookup8::value$", [M("HandIter.lookup8"), H("aat.model"), H("aat.lookup")]),
    R(r"tables/aat\.rs", r"Lookup10::value$", [M("HandIter.lookup10"), H("aat.model"), H("aat.lookup")]),
    R(r"tables/aat\.rs", r"Lookup|<LookupValue>", [H("aat.lookup")]),
    R(r"tables/aat\.rs", r".*", [H("aat.state")]),
    R(r"tables/kern\.rs", r".*", [H("aat.kern")]),
    R(r"tables/kerx\.rs", r".*", [H("aat.kerx")]),
    R(r"tables/morx\.rs", r".*", [H("aat.morx")]),
    R(r"tables/(ankr|feat|trak|ltag)\.rs", r".*", [H("aat.misc")]),
    # ---- cmap / post / name / misc
    R(r"tables/cmap\.rs", r"Cmap4Iter<Iterator>::next$|Cmap4Iter::new$", [M("ReadIter.Cmap4.step"), H("iters"), H("cmap")]),
    R(r"tables/cmap\.rs", r"Cmap4::(code_range|lookup_glyph_id)$", [M("ReadIter.Cmap4.lookupGlyphId"), H("iters"), H("cmap")]),
    R(r"tables/cmap\.rs", r"Cmap12Iter<Iterator>::next$|Cmap12Iter::new$|Cmap12::group$", [M("ReadIter.step12"), H("iters"), H("cmap")]),
    R(r"tables/cmap\.rs", r".*", [H("cmap")]),
    R(r"tables/post\.rs", r".*", [H("post")]),
    R(r"tables/name\.rs", r".*", [H("name")]),
    R(r"tables/(meta|hdmx|hmtx|vmtx|vorg|os2|head|hhea|gasp|stat|svg|cpal|base|maxp|vhea)\.rs", r".*", [H("misc")]),
    # ---- layout / colr
    R(r"tables/(gsub|gpos|layout)/closure\.rs", r".*", [H("layout.closure")]),
    R(r"tables/colr(/closure)?\.rs", r".*", [H("colr")]),
    R(r"tables/(layout|gdef|gpos|gsub|value_record)\.rs|tables/layout/", r".*", [H("layout")]),
    # ---- glyf / bitmap
    R(r"tables/glyf/bytecode", r".*", [H("glyf.bytecode")]),
    R(r"tables/(glyf|loca)\.rs", r".*", [H("glyf")]),
    R(r"tables/(bitmap|cbdt|cblc|ebdt|eblc|sbix)\.rs", r".*", [H("bitmap")]),
    # ---- variations
    R(r"tables/variations\.rs", r"PackedPointNumbers::(count|count_and_count_bytes)$", [M("ReadIter.countAndCountBytes"), H("iters")]),
    R(r"tables/variations\.rs", r"PackedPointNumbers::(total_len|split_off_front)$", [M("ReadIter.totalLen"), H("iters")]),
    R(r"tables/variations\.rs", r"PackedPointNumbersIter|PointRunIter|read_control_byte|PackedPointNumbers::iter$", [M("ReadIter.ptNext"), H("iters")]),
    R(r"tables/variations\.rs", r"DeltaRunIter::skip_fast$", [M("ReadIter.skipFastLoop"), H("iters")]),
    R(r"tables/variations\.rs", r"DeltaRunIter::end$", [M("HandIter.dlEndLoop"), H("varc")]),
    R(r"tables/variations\.rs", r"DeltaRunIter|DeltaRunType::new$|PackedDeltas::", [M("ReadIter.dlNext"), H("iters")]),
    R(r"tables/variations\.rs", r"^count_all_deltas$", [M("ReadIter.countAllLoop"), H("iters")]),
    R(r"tables/variations\.rs", r"TupleDeltaIter", [M("ReadIter.tdStep"), H("iters")]),
    R(r"tables/variations\.rs", r"TupleVariation::deltas$|point_numbers_and_packed_deltas$", [M("ReadIter.tdInit"), H("iters"), H("vars")]),
    R(r"tables/variations\.rs", r"TupleIndex::tuple_len$|EntryFormat::map_size$", [M("ShapeExt.customByName"), H("shapes"), H("vars")]),
    R(r"tables/variations\.rs", r".*", [H("vars")]),
    R(r"tables/(gvar|cvar|hvar|vvar|mvar|avar|fvar|instance_record)\.rs", r".*", [H("vars")]),
    R(r"tables/ift\.rs", r".*", [H("ift")]),
]


def extra_rules():
    """per-subsystem rule files translate/hw_rules.d/*.json: lists of [file regex, item-name regex, [covers…]]
    (model:<Lean def> / harness:<group>); they name single functions and take precedence over RULES."""
    out = []
    for f in sorted(glob.glob(os.path.join(HERE, "hw_rules.d", "*.json"))):
        for ent in json.load(open(f)):
            out.append(R(ent[0], ent[1], ent[2]))
    return out


def main():
    p = os.path.join(HERE, "handwritten_cover.json")
    out_p = p
    if "--out" in sys.argv:            # dry run into another file (sub-system work in progress)
        out_p = sys.argv[sys.argv.index("--out") + 1]
    table = json.load(open(p))
    n_rule = {}
    RULES[:0] = extra_rules()
    for key, ent in table["items"].items():
        file, name = key.split("::", 1)
        name = re.sub(r"#\d+$", "", name)
        for (fr, nr, covers, why, reviewed) in RULES:
            if fr.search(file) and nr.search(name):
                ent["cover"] = covers
                ent.pop("why", None)
                ent.pop("risk_reviewed", None)
                if why:
                    ent["why"] = why
                if reviewed:
                    ent["risk_reviewed"] = True
                break
        else:
            ent["cover"] = ["TODO"]
        k = ",".join(ent["cover"])
        n_rule[k] = n_rule.get(k, 0) + 1
    json.dump(table, open(out_p, "w"), indent=1, sort_keys=True)
    for k, v in sorted(n_rule.items(), key=lambda kv: -kv[1])[:60]:
        print(f"{v:4} {k}")


if __name__ == "__main__":
    main()
