#!/usr/bin/env python3
"""
translate/c12_wbr.py — C12 translator: write-before-read discipline of the glyf scaler's scratch memory,
instance / interpreter state inventory, interior mutability inventory.

  1. SCRATCH FLOW.  For every function on the `Outlines::draw` path that touches a slice carved from the
     caller's buffer
         skrifa/src/outline/glyf/mod.rs      FreeTypeScaler::{load_simple, load_composite, scale},
                                             HarfBuzzScaler::{load_simple, load_composite, scale}
         skrifa/src/outline/glyf/deltas.rs   simple_glyph, composite_glyph, compute_deltas_for_glyph
         skrifa/src/outline/glyf/hint/instance.rs   HintInstance::hint
     the body is parsed into statements and every statement that mentions a tracked slice
     (`self.memory.F`, a local alias of it, a slice parameter, a value built from one) must match one of
     the access forms below; it is emitted as an event (`Ev` of lean/FontVerif/Model/ScratchFlow.lean):
         acc / zip / opaque / modelled, set / ifFlag / branch / exit / loop, call / callback.
     Ranges are linear forms over the symbols of the function (`let` bound scalars are evaluated
     symbolically: `points_end = points_start + point_count + 4` …).  The top-level functions are cut
     into the segments the control skeleton (`ScratchFlow.Trace`) strings together: load_simple,
     load_composite before / inside / after the component loop, scale.
     A statement that mentions a tracked slice and matches no form goes to `unparsed` (breaks the check).
     Props/C12Wbr.lean decides (kernel) `pipelineOK` for both scalers: no read of an element that has
     not been written earlier in the same draw.
  2. STATE TABLE.  Every field of `HintingInstance`, `glyf::HintInstance`, `Engine`, `GraphicsState`,
     `RetainedGraphicsState`, `ValueStack`, `ProgramState`, `LoopBudget`, `CowSlice`, `Zone` with the site
     that (re)initialises it on the reconfigure / draw path -> persistSrc.
  3. INTERIOR MUTABILITY.  Every `RwLock | Mutex | OnceCell | OnceLock | LazyLock | LazyCell | Cell<
     | RefCell | Atomic* | thread_local! | static mut | UnsafeCell` under skrifa/src/outline/** and
     skrifa/src/color/** keyed by (file, function) with the hash of the function body, compared with the
     reviewed table translate/c12_sites_review.json (NEW / CHANGED / unclassified -> unparsed); the lock
     protocol of `UnscaledStyleMetricsSet::get` is extracted as a list of actions -> lazyGetSrc.

usage: c12_wbr.py --repo /repo --out lean/FontVerif/Gen --report out.json [--dump] [--update-review]
"""
import argparse, glob, hashlib, json, os, re, sys

HERE = os.path.dirname(os.path.abspath(__file__))
PHANTOM = 4

# =============================================================================================
# generic source helpers

def strip_comments(src):
    out = []
    for l in src.split("\n"):
        # line comments (no string literal in the analysed functions contains `//` except URLs in comments)
        i = l.find("//")
        if i >= 0 and l[:i].count('"') % 2 == 0:
            l = l[:i]
        out.append(l)
    src = "\n".join(out)
    # string literal contents never matter here (and may contain words like "contour")
    return re.sub(r'"(?:[^"\\\n]|\\.)*"', '""', src)

def match_close(src, i):
    """index of the bracket closing the one at src[i]"""
    pairs = {"(": ")", "[": "]", "{": "}"}
    stack = []
    j = i
    while j < len(src):
        c = src[j]
        if c == '"':
            j += 1
            while src[j] != '"':
                j += 2 if src[j] == "\\" else 1
        elif c in pairs:
            stack.append(pairs[c])
        elif c in ")]}":
            if not stack or stack.pop() != c:
                raise ValueError("unbalanced at %d" % j)
            if not stack:
                return j
        j += 1
    raise ValueError("no close")

def find_fn(src, header_re):
    """(params_text, body_text) of the first fn whose header matches"""
    m = re.search(header_re, src)
    if not m:
        return None
    mf = re.compile(r"\bfn\s+\w+").search(src, m.start())
    p0 = src.index("(", mf.end())
    p1 = match_close(src, p0)
    b0 = src.index("{", p1)
    # skip where clauses etc.: the body is the first `{` after the parameter list at depth 0
    b1 = match_close(src, b0)
    return src[p0 + 1:p1], src[b0 + 1:b1]

def impl_block(src, header_re):
    m = re.search(header_re, src)
    if not m:
        return None
    b0 = src.index("{", m.end() - 1)
    return src[b0 + 1:match_close(src, b0)]

def split_top(s, sep=","):
    """split at separators at bracket depth 0 (angle brackets of generics counted when balanced)"""
    out, depth, cur = [], 0, ""
    i = 0
    while i < len(s):
        c = s[i]
        if c in "([{":
            depth += 1
        elif c in ")]}":
            depth -= 1
        elif c == "|" and sep == ",":
            pass
        if c == sep and depth == 0:
            out.append(cur); cur = ""
        else:
            cur += c
        i += 1
    if cur.strip():
        out.append(cur)
    return [x.strip() for x in out]

def split_args(s):
    """split call arguments; a closure `|a, b| …` is one argument"""
    out, depth, cur, i = [], 0, "", 0
    while i < len(s):
        c = s[i]
        if c == "|" and depth == 0 and cur.strip() == "":
            j = s.index("|", i + 1)
            cur += s[i:j + 1]
            i = j + 1
            continue
        if c in "([{":
            depth += 1
        elif c in ")]}":
            depth -= 1
        if c == "," and depth == 0:
            out.append(cur); cur = ""
        else:
            cur += c
        i += 1
    if cur.strip():
        out.append(cur)
    return [x.strip() for x in out]

def split_params(s):
    out, depth, cur = [], 0, ""
    for i, c in enumerate(s):
        if c in "([{<":
            depth += 1
        elif c in ")]}":
            depth -= 1
        elif c == ">" and not (i > 0 and s[i - 1] in "-="):
            depth -= 1
        if c == "," and depth == 0:
            out.append(cur); cur = ""
        else:
            cur += c
    if cur.strip():
        out.append(cur)
    return [x.strip() for x in out]

def ws(s):
    s = re.sub(r"\s+", " ", s).strip()
    # method chains broken over lines: `x .iter() .zip(y)` -> `x.iter().zip(y)`
    return re.sub(r" \.(?=[A-Za-z_])", ".", s)

# =============================================================================================
# statement tree

def parse_block(text):
    """-> list of statements:
         ('simple', text) | ('if', cond, then, else_or_None) | ('for', pat, iter, body) | ('fnitem',)
         | ('letmatch', lhs, scrutinee, [(pat, body_stmts)]) | ('block', stmts)"""
    stmts = []
    i, n = 0, len(text)
    while i < n:
        while i < n and text[i].isspace():
            i += 1
        if i >= n:
            break
        rest = text[i:]
        if re.match(r"(pub(\(\w+\))? )?fn\s", rest):
            b0 = text.index("{", i)
            i = match_close(text, b0) + 1
            stmts.append(("fnitem",))
            continue
        if re.match(r"if\b", rest):
            st, i = parse_if(text, i)
            stmts.append(st)
            continue
        if re.match(r"for\b", rest):
            b0 = brace_at_depth0(text, i)
            header = text[i + 3:b0]
            m = re.match(r"\s*(.+?)\s+in\s+(.+)$", ws(header))
            b1 = match_close(text, b0)
            stmts.append(("for", m.group(1), m.group(2), parse_block(text[b0 + 1:b1])))
            i = b1 + 1
            continue
        if rest.startswith("{"):
            b1 = match_close(text, i)
            stmts.append(("block", parse_block(text[i + 1:b1])))
            i = b1 + 1
            continue
        m = re.match(r"let\s+(\w+)\s*=\s*match\s", rest)
        if m:
            b0 = brace_at_depth0(text, i)
            scrut = ws(text[i + m.end():b0])
            b1 = match_close(text, b0)
            stmts.append(("letmatch", m.group(1), scrut, parse_arms(text[b0 + 1:b1])))
            i = b1 + 1
            while i < n and text[i] in " \n;":
                i += 1
            continue
        if re.match(r"match\b", rest):
            b0 = brace_at_depth0(text, i)
            scrut = ws(text[i + 5:b0])
            b1 = match_close(text, b0)
            stmts.append(("letmatch", None, scrut, parse_arms(text[b0 + 1:b1])))
            i = b1 + 1
            continue
        # simple statement: up to `;` at depth 0 or end of block
        j, depth = i, 0
        while j < n:
            c = text[j]
            if c == '"':
                j += 1
                while text[j] != '"':
                    j += 2 if text[j] == "\\" else 1
            elif c in "([{":
                depth += 1
            elif c in ")]}":
                depth -= 1
            elif c == ";" and depth == 0:
                break
            j += 1
        stmts.append(("simple", ws(text[i:j])))
        i = j + 1
    return stmts

def brace_at_depth0(text, i):
    depth = 0
    j = i
    while j < len(text):
        c = text[j]
        if c in "([":
            depth += 1
        elif c in ")]":
            depth -= 1
        elif c == "{" and depth == 0:
            return j
        j += 1
    raise ValueError("no block")

def parse_if(text, i):
    b0 = brace_at_depth0(text, i)
    cond = ws(text[i + 2:b0])
    b1 = match_close(text, b0)
    then = parse_block(text[b0 + 1:b1])
    j = b1 + 1
    m = re.match(r"\s*else\b\s*", text[j:])
    if not m:
        return ("if", cond, then, None), j
    j += m.end()
    if text[j:].startswith("if"):
        st, j = parse_if(text, j)
        return ("if", cond, then, [st]), j
    e1 = match_close(text, j)
    return ("if", cond, then, parse_block(text[j + 1:e1])), e1 + 1

def parse_arms(text):
    arms = []
    i, n = 0, len(text)
    while i < n:
        while i < n and (text[i].isspace() or text[i] == ","):
            i += 1
        if i >= n:
            break
        j = text.index("=>", i)
        pat = ws(text[i:j])
        j += 2
        while text[j].isspace():
            j += 1
        if text[j] == "{":
            e = match_close(text, j)
            arms.append((pat, parse_block(text[j + 1:e])))
            i = e + 1
        else:
            depth, k = 0, j
            while k < n and not (text[k] == "," and depth == 0):
                if text[k] in "([{":
                    depth += 1
                elif text[k] in ")]}":
                    depth -= 1
                k += 1
            arms.append((pat, [("simple", ws(text[j:k]))]))
            i = k + 1
    return arms

# =============================================================================================
# linear forms

class Lin:
    def __init__(self, d=None, c=0):
        self.d = {k: v for k, v in (d or {}).items() if v}
        self.c = c
    def __add__(self, o):
        o = o if isinstance(o, Lin) else Lin(c=o)
        d = dict(self.d)
        for k, v in o.d.items():
            d[k] = d.get(k, 0) + v
        return Lin(d, self.c + o.c)
    def __sub__(self, o):
        o = o if isinstance(o, Lin) else Lin(c=o)
        d = dict(self.d)
        for k, v in o.d.items():
            d[k] = d.get(k, 0) - v
        return Lin(d, self.c - o.c)
    def nonneg(self):
        return all(v >= 0 for v in self.d.values()) and self.c >= 0
    def __eq__(self, o):
        return isinstance(o, Lin) and self.d == o.d and self.c == o.c
    def __repr__(self):
        t = [("%d*" % v if v != 1 else "") + k for k, v in self.d.items()]
        if self.c or not t:
            t.append(str(self.c))
        return " + ".join(t)

class Unparsed(Exception):
    pass

# =============================================================================================
# analysis

MEM_FIELDS = {}     # scaler -> ordered field names (from memory.rs)
FIELD_IDS = {}      # global field ids: 0 = not scratch memory
ANALYSED = {}       # callee name -> {'params': [names], 'body': stmts, 'callback': [arg positions] or None, ...}
MODELLED_CALLS = {
    # method name -> (theorem, modes of the tracked args in order)
    "read_points_fast": ("read_points_writes_all", ["wr", "wr"]),
}
CTOR_KINDS = {"ValueStack::new": "stack", "CowSlice::new": "cow"}
MODELLED_KINDS = {
    "stack": ("ValueStack", "value_stack_buffer_independent"),
    "cow": ("CowSlice", "cow_buffer_independent"),
}
UNTRACKED_LEN = {"self.phantom": PHANTOM}

class Slice:
    """a (sub)slice: root = ('mem', field) with lo/hi Lin (absolute), or ('par'|'cpar', index) with part"""
    def __init__(self, root, lo=None, hi=None, part="all"):
        self.root, self.lo, self.hi, self.part = root, lo, hi, part
    def is_mem(self):
        return self.root[0] == "mem"

class Ctx:
    def __init__(self, fname, kind, syms=None, flags=None):
        self.fname = fname
        self.kind = kind            # 'top' | 'callee' | 'closure'
        self.syms = syms if syms is not None else []   # ordered symbol names (top only)
        self.scalars = {}           # name -> Lin | ('range', lo, hi)
        self.slices = {}            # name -> Slice
        self.aggs = {}              # name -> {field: Slice | None}
        self.taint = {}             # name -> [(Slice, kind)]
        self.untracked_len = dict(UNTRACKED_LEN)
        self.flagvars = flags if flags is not None else {}   # name -> flag id
        self.fieldlen = {}          # mem field -> Lin
        self.counters = {}          # 'self.point_count' -> Lin
        self.unparsed = []
        self.modelled = set()
        self.loop_index_len = {}    # enumerate index name -> number of iterations (Lin) of the loop
        self.callback_positions = None
        self.callback_name = None
        self.counter_updates = []

    def sym(self, name):
        if name not in self.syms:
            self.syms.append(name)
        return Lin({name: 1})

FLAG_IDS = {}
def flag_id(fname, var):
    key = (fname.split("#")[0], var)
    if key not in FLAG_IDS:
        FLAG_IDS[key] = len(FLAG_IDS)
    return FLAG_IDS[key]

IDENT = r"[A-Za-z_][A-Za-z_0-9]*"

def mentions(text, name):
    return re.search(r"(?<![\w.])" + re.escape(name) + r"(?![\w])", text) is not None

def tracked_names(ctx):
    names = set(ctx.slices) | set(ctx.aggs) | set(ctx.taint)
    return names

def strip_len_uses(text):
    # `.len()` / `.is_empty()` of a slice are not element accesses
    return re.sub(r"[\w.]+(\[[^\]]*\])?\.(len|is_empty)\(\)", "LEN", text)

def mentions_tracked(ctx, text, ignore=()):
    t = strip_len_uses(text)
    if "self.memory" in t:
        return True
    for nme in tracked_names(ctx):
        if nme in ignore:
            continue
        if nme in ctx.aggs and nme not in ctx.slices and nme not in ctx.taint:
            for f, sl in ctx.aggs[nme].items():
                if sl is not None and re.search(r"(?<![\w.])%s\.%s(?![\w])" % (re.escape(nme), re.escape(f)), t):
                    return True
            if re.search(r"(?<![\w.])%s(?![\w.])" % re.escape(nme), t):
                return True
            continue
        if mentions(t, nme):
            return True
    return False

# ---- scalar evaluation ------------------------------------------------------------------------

def eval_scalar(ctx, expr):
    """symbolic value (Lin) of a usize expression"""
    e = ws(expr)
    while e.startswith("(") and match_close(e, 0) == len(e) - 1:
        e = e[1:-1].strip()
    e = re.sub(r"\s+as\s+usize$", "", e)
    # sums / differences at depth 0
    depth = 0
    for k in range(len(e) - 1, 0, -1):
        c = e[k]
        if c in ")]":
            depth += 1
        elif c in "([":
            depth -= 1
        elif depth == 0 and c in "+-" and e[k - 1] == " " and e[k + 1] == " ":
            a, b = eval_scalar(ctx, e[:k]), eval_scalar(ctx, e[k + 1:])
            return a + b if c == "+" else a - b
    if re.fullmatch(r"\d+", e):
        return Lin(c=int(e))
    if e == "PHANTOM_POINT_COUNT":
        return Lin(c=PHANTOM)
    if e in ctx.counters:
        return ctx.counters[e]
    if e in ctx.scalars and isinstance(ctx.scalars[e], Lin):
        return ctx.scalars[e]
    m = re.fullmatch(r"(%s)\.len\(\)" % IDENT, e)
    if m:
        nm = m.group(1)
        if nm in ctx.scalars and isinstance(ctx.scalars[nm], tuple):
            return ctx.scalars[nm][2] - ctx.scalars[nm][1]
        if nm in ctx.slices and ctx.slices[nm].is_mem():
            return ctx.slices[nm].hi - ctx.slices[nm].lo
    if ctx.kind != "top":
        raise Unparsed("scalar `%s` in a function analysed relative to its parameters" % e)
    if re.fullmatch(r"[\w.]+(\(\))?(\.\w+\(\))*", e):
        return ctx.sym(e)
    raise Unparsed("scalar expression `%s`" % e)

def eval_range(ctx, expr):
    """(lo, hi) with None for an open end"""
    e = ws(expr)
    e = re.sub(r"\.clone\(\)$", "", e)
    if e in ctx.scalars and isinstance(ctx.scalars[e], tuple):
        return ctx.scalars[e][1], ctx.scalars[e][2]
    m = re.fullmatch(r"(.*?)\.\.(=?)(.*)", e)
    if not m:
        raise Unparsed("range `%s`" % e)
    lo = eval_scalar(ctx, m.group(1)) if m.group(1).strip() else None
    hi = eval_scalar(ctx, m.group(3)) if m.group(3).strip() else None
    if m.group(2) and hi is not None:
        hi = hi + 1
    return lo, hi

def bind_let_scalar(ctx, name, rhs):
    """remember `let name = rhs` (evaluated on demand)"""
    r = ws(rhs)
    try:
        if re.fullmatch(r"[^.]*\.\.[^.]*", r) and ".." in r and "(" not in r.split("..")[0][-1:]:
            lo, hi = eval_range(ctx, r)
            if lo is not None and hi is not None:
                ctx.scalars[name] = ("range", lo, hi)
                return
        ctx.scalars[name] = eval_scalar(ctx, r)
    except Unparsed:
        ctx.scalars.pop(name, None)

# ---- slice expressions ----------------------------------------------------------------------------

def field_len(ctx, field):
    if field not in ctx.fieldlen:
        ctx.fieldlen[field] = ctx.sym("len(%s)" % field)
    return ctx.fieldlen[field]

def note_bound(ctx, field, hi):
    """a successful slicing `field[..hi]` shows hi <= len(field): express len(field) as hi + slack"""
    if field not in ctx.fieldlen:
        ctx.fieldlen[field] = hi + ctx.sym("slack(%s)" % field)

def sub_slice(ctx, s, lo, hi):
    if s.is_mem():
        nlo = s.lo + lo if lo is not None else s.lo
        nhi = s.lo + hi if hi is not None else s.hi
        if not (nlo.nonneg() and nhi.nonneg()):
            raise Unparsed("negative bound")
        return Slice(s.root, nlo, nhi)
    # parameter relative
    if lo is None and hi is None:
        return s
    if s.part == "all" and hi is None and lo == "LEN-4":
        return Slice(s.root, part="last4")
    raise Unparsed("sub-slice of a parameter other than `[..]` / `[len - 4..]`")

def slice_of(ctx, expr, bind_ok=False):
    """Slice denoted by an expression, or None if it does not denote a tracked slice"""
    e = ws(expr)
    changed = True
    while changed:
        changed = False
        for pre in ("&mut ", "&", "*"):
            if e.startswith(pre):
                e = e[len(pre):].strip(); changed = True
        if e.startswith("(") and match_close(e, 0) == len(e) - 1:
            e = e[1:-1].strip(); changed = True
        for suf in (".iter_mut()", ".iter()", ".clone()", ".as_mut()", ".into_iter()"):
            if e.endswith(suf):
                e = e[:-len(suf)].strip(); changed = True
    # trailing index
    if e.endswith("]"):
        depth, k = 0, len(e) - 1
        while k >= 0:
            if e[k] == "]":
                depth += 1
            elif e[k] == "[":
                depth -= 1
                if depth == 0:
                    break
            k -= 1
        base = slice_of(ctx, e[:k])
        if base is None:
            return None
        idx = e[k + 1:-1]
        idx_name = re.sub(r"\.clone\(\)$", "", ws(idx))
        if ".." not in idx and not (idx_name in ctx.scalars and isinstance(ctx.scalars[idx_name], tuple)):
            raise Unparsed("element index `%s`" % e)
        if not base.is_mem():
            idx_n = ws(idx)
            if idx_n == "..":
                return base
            m = re.fullmatch(r"(.+)\.len\(\) - (?:4|PHANTOM_POINT_COUNT)\.\.", idx_n)
            if m and slice_of(ctx, m.group(1)) is not None and slice_of(ctx, m.group(1)).root == base.root:
                return sub_slice(ctx, base, "LEN-4", None)
            raise Unparsed("range `%s` of a parameter slice" % idx_n)
        lo, hi = eval_range(ctx, idx)
        return sub_slice(ctx, base, lo, hi)
    m = re.fullmatch(r"self\.memory\.(\w+)", e)
    if m:
        if ctx.kind != "top":
            raise Unparsed("self.memory in a callee")
        f = m.group(1)
        return Slice(("mem", f), Lin(), field_len(ctx, f))
    if e in ctx.slices:
        return ctx.slices[e]
    m = re.fullmatch(r"(%s)\.(%s)" % (IDENT, IDENT), e)
    if m and m.group(1) in ctx.aggs and m.group(2) in ctx.aggs[m.group(1)]:
        return ctx.aggs[m.group(1)][m.group(2)]
    return None

# ---- events -------------------------------------------------------------------------------------------

def ev_acc(label, items): return {"k": "acc", "label": label, "items": items}
def ev_zip(label, items, lens): return {"k": "zip", "label": label, "items": items, "lens": lens}
def ev_opaque(label, items): return {"k": "opaque", "label": label, "items": items}
def ev_modelled(label, thm, items): return {"k": "modelled", "label": label, "thm": thm, "items": items}
def ev_branch(label, t, e): return {"k": "branch", "label": label, "t": t, "e": e}
def ev_exit(ok): return {"k": "exit", "ok": ok}
QFORK = lambda what: ev_branch("`?` of " + what, [ev_exit(False)], [])

def has_events(evs):
    return len(evs) > 0

def loop_var_modes(body_stmts, names):
    """mode of each pattern variable of a `for` loop from its body: 'wr' (assigned, never read),
    'rw', 'rd', or None (not used); plus whether an assignment is conditional"""
    plain, compound, read, cond_assign = set(), set(), set(), set()
    def visit(stmts, conditional):
        for st in stmts:
            if st[0] == "simple":
                t = st[1]
                for nm in names:
                    if not mentions(t, nm):
                        continue
                    m = re.match(r"\*%s\s*=\s*(.*)$" % re.escape(nm), t)
                    if m and not m.group(1).startswith("="):
                        (cond_assign if conditional else plain).add(nm)
                        if mentions(m.group(1), nm):
                            read.add(nm)
                        continue
                    if re.match(r"\*?%s(\.\w+)?\s*(\+|-|\*|/|\||&|\^)=" % re.escape(nm), t):
                        compound.add(nm); continue
                    if re.match(r"%s\.\w+\s*=[^=]" % re.escape(nm), t):
                        compound.add(nm); continue
                    if re.match(r"%s\.(clear_marker|set_marker)\(" % re.escape(nm), t):
                        compound.add(nm); continue
                    read.add(nm)
                # other names assigned from this one are plain reads: nothing to do
            elif st[0] == "if":
                for nm in names:
                    if mentions(st[1], nm):
                        read.add(nm)
                visit(st[2], True)
                if st[3]:
                    visit(st[3], True)
            elif st[0] in ("for", "block"):
                visit(st[-1], True)
            elif st[0] == "letmatch":
                for _, b in st[3]:
                    visit(b, True)
    visit(body_stmts, False)
    modes = {}
    for nm in names:
        if nm in compound or nm in cond_assign and nm in read or (nm in plain and nm in read):
            modes[nm] = "rw"
        elif nm in plain:
            modes[nm] = "wr"
        elif nm in cond_assign:
            modes[nm] = "maywr"
        elif nm in read:
            modes[nm] = "rd"
        else:
            modes[nm] = None
    return modes

def flatten_pat(pat):
    p = ws(pat)
    names = re.findall(IDENT, re.sub(r"\bmut\b|\bref\b|&", " ", p))
    return names

def split_zip(expr):
    """components of `a.zip(b).zip(c)`, and whether `.enumerate()` wraps the whole"""
    e = ws(expr)
    enum = False
    if e.endswith(".enumerate()"):
        e = e[:-len(".enumerate()")]
        enum = True
    comps = []
    # find `.zip(` at depth 0 from the left
    depth, k, start = 0, 0, 0
    while k < len(e):
        c = e[k]
        if c in "([{":
            depth += 1
        elif c in ")]}":
            depth -= 1
        elif depth == 0 and e.startswith(".zip(", k):
            comps.append(e[start:k])
            close = match_close(e, k + 4)
            comps.append(e[k + 5:close])
            rest = e[close + 1:]
            while rest.startswith(".zip("):
                c2 = match_close(rest, 4)
                comps.append(rest[5:c2])
                rest = rest[c2 + 1:]
            if rest.strip():
                raise Unparsed("iterator adaptor `%s`" % rest)
            return comps, enum
        k += 1
    return [e], enum

def has_early_return(stmts):
    for st in stmts:
        if st[0] == "simple" and re.search(r"\breturn\b", st[1]):
            return True
        if st[0] == "if" and (has_early_return(st[2]) or (st[3] and has_early_return(st[3]))):
            return True
        if st[0] in ("for", "block") and has_early_return(st[-1]):
            return True
    return False

class Analyser:
    def __init__(self, ctx):
        self.ctx = ctx

    def item(self, mode, s):
        ctx = self.ctx
        if s.is_mem():
            if ctx.kind != "top":
                raise Unparsed("memory range in callee")
            for l in (s.lo, s.hi):
                for k in l.d:
                    ctx.sym(k)
            return {"mode": mode, "ref": ("abs", s.root[1], s.lo, s.hi)}
        return {"mode": mode, "ref": (s.root[0], s.root[1], s.part)}

    # ---- statements -----------------------------------------------------------------------------
    def block(self, stmts):
        evs = []
        for st in stmts:
            try:
                evs += self.stmt(st)
            except Unparsed as u:
                self.ctx.unparsed.append({"item": self.ctx.fname, "why": str(u), "stmt": (st[1] if st[0] == "simple" else st[0] + " " + str(st[1]))[:200]})
        return evs

    def stmt(self, st):
        ctx = self.ctx
        k = st[0]
        if k == "fnitem":
            return []
        if k == "block":
            return self.block(st[1])
        if k == "if":
            return self.if_stmt(st)
        if k == "for":
            return self.for_stmt(st)
        if k == "letmatch":
            arms = [self.block(b) for _, b in st[3]]
            if mentions_tracked(ctx, st[2]):
                raise Unparsed("match on a tracked value")
            if not any(arms):
                return []
            ev = arms[-1]
            for a in reversed(arms[:-1]):
                ev = [ev_branch("match " + st[2], a, ev)]
            return ev
        return self.simple(st[1])

    def if_stmt(self, st):
        ctx = self.ctx
        _, cond, then, els = st
        pre = []
        # `if CALL(..).is_ok() { … }`
        m = re.fullmatch(r"(.+)\.is_ok\(\)", cond)
        if m and self.find_call(m.group(1)):
            fl = flag_id(ctx.fname, "ok@%d" % len(FLAG_IDS))
            pre = self.call_event(m.group(1), fl)
            t = self.block(then)
            e = self.block(els) if els else []
            return pre + [{"k": "ifFlag", "flag": fl, "t": t, "e": e}]
        m = re.fullmatch(r"let Some\((\w+)\) = ([\w.]+)\.get_mut\((\w+)\)", cond)
        if m and slice_of(ctx, m.group(2)) is not None and not els:
            nm = m.group(1)
            for b in then:
                if b[0] != "simple" or mentions_tracked(ctx, b[1], {nm}):
                    raise Unparsed("body of `if %s`" % cond)
            return [ev_opaque("%s.get_mut(%s) [any element in bounds]" % (m.group(2), m.group(3)), [self.item("rw", slice_of(ctx, m.group(2)))])]
        if mentions_tracked(ctx, cond, set(ctx.taint)):
            raise Unparsed("condition on a tracked slice: `%s`" % cond)
        t = self.block(then)
        e = self.block(els) if els else []
        c = cond.strip()
        neg = c.startswith("!")
        nm = c[1:] if neg else c
        if nm in ctx.flagvars:
            if neg:
                t, e = e, t
            if not t and not e:
                return []
            return [{"k": "ifFlag", "flag": ctx.flagvars[nm], "t": t, "e": e}]
        if not t and not e:
            return []
        return [ev_branch("if " + cond[:60], t, e)]

    def for_stmt(self, st):
        ctx = self.ctx
        _, pat, it, body = st
        comps, enum = split_zip(it)
        names = flatten_pat(pat)
        idx_name = None
        if enum:
            idx_name, names = names[0], names[1:]
        head = re.sub(r"\.(iter|iter_mut)\(\)$", "", ws(comps[0]).lstrip("&").strip()) if len(comps) == 1 else None
        if not mentions_tracked(ctx, it) and not (enum and head in ctx.untracked_len):
            # loop over untracked data of unknown length; events of the body (if any) repeat
            evs = self.block(body)
            if not evs:
                return []
            if all(e["k"] == "opaque" for e in evs):
                # a loop that only reads (no write is ever assumed of an opaque call): one step that may
                # read the same ranges
                return [dict(e, label=e["label"] + " [in a loop: for %s in %s]" % (pat, it[:40])) for e in evs]
            return [{"k": "loop", "label": "for %s in %s" % (pat, it[:50]), "body": evs}]
        if len(names) != len(comps):
            raise Unparsed("pattern `%s` vs iterator `%s`" % (pat, it))
        items_src, lens, known = [], [], True
        for nm, c in zip(names, comps):
            s = slice_of(ctx, c)
            if s is None:
                if mentions_tracked(ctx, c):
                    raise Unparsed("iterator component `%s`" % c)
                cn = re.sub(r"\.(iter|iter_mut)\(\)$", "", ws(c).lstrip("&").strip())
                cn = re.sub(r"^mut ", "", cn)
                if cn in ctx.untracked_len:
                    l = ctx.untracked_len[cn]
                    lens.append(l if isinstance(l, Lin) else Lin(c=l))
                else:
                    known = False
            else:
                items_src.append((nm, s))
        modes = loop_var_modes(body, [nm for nm, _ in items_src])
        # indexed writes inside an enumerate loop: `X[base + i] = rhs;`
        extra = []
        shadow = set(names)
        for b in body:
            if b[0] != "simple":
                txt = json.dumps(b)
                if mentions_tracked(ctx, txt, shadow):
                    raise Unparsed("nested statement in a loop over tracked slices")
                continue
            t = b[1]
            m = re.match(r"([\w.]+)\[(.+?)\]\s*=\s*(.*)$", t)
            if m and enum and m.group(1) not in shadow and slice_of(ctx, m.group(1)) is not None:
                tgt = slice_of(ctx, m.group(1))
                idx = ws(m.group(2))
                mm = re.fullmatch(r"(.+) \+ %s" % re.escape(idx_name), idx)
                count = self.iter_count(items_src, lens, known)
                if mentions_tracked(ctx, m.group(3), shadow):
                    raise Unparsed("right hand side of `%s`" % t)
                if tgt.is_mem() and (mm or idx == idx_name) and count is not None:
                    base = eval_scalar(ctx, mm.group(1)) if mm else Lin()
                    extra.append(self.item("wr", sub_slice(ctx, tgt, base, base + count)))
                elif not tgt.is_mem():
                    pass  # write of unknown extent into a parameter slice: nothing is claimed
                else:
                    raise Unparsed("indexed write `%s`" % t)
                continue
            ml = re.fullmatch(r"let (?:mut )?(\w+)(?:: [\w<>]+)? = (.+)", t)
            if ml:
                if mentions_tracked(ctx, ml.group(2), shadow):
                    raise Unparsed("loop body statement `%s`" % t)
                shadow.add(ml.group(1))
                continue
            if mentions_tracked(ctx, t, shadow):
                raise Unparsed("loop body statement `%s` touches a tracked slice other than through the pattern" % t)
        items = []
        for nm, s in items_src:
            md = modes[nm]
            if md is None or md == "maywr":
                continue
            items.append(self.item(md, s))
        label = "for %s in %s" % (pat, it[:70])
        evs = []
        if items:
            if not known:
                # an untracked partner of unknown length may cut the iteration short: reads only
                ro = [dict(i, mode="rd") for i in items if i["mode"] != "wr"]
                if ro:
                    evs.append(ev_zip(label + " [partner of unknown length: reads only]", ro, []))
            else:
                evs.append(ev_zip(label, items, lens))
        if extra:
            evs.append(ev_acc(label + " [indexed]", extra))
        if has_early_return(body):
            ro = []
            for e in evs:
                ro.append(dict(e, items=[dict(i, mode="rd") for i in e["items"] if i["mode"] != "wr"]))
            ro = [e for e in ro if e["items"]]
            return [ev_branch("early return in " + label, ro + [ev_exit(False)], evs)]
        return evs

    def iter_count(self, items_src, lens, known):
        """number of iterations if it is a plain constant-length partner"""
        if lens and known and not items_src:
            return lens[0]
        if known and len(items_src) == 1 and not lens:
            s = items_src[0][1]
            if s.is_mem():
                return s.hi - s.lo
            if s.part == "last4":
                return Lin(c=PHANTOM)
        return None

    # ---- calls ------------------------------------------------------------------------------------
    def find_call(self, text):
        for name in ANALYSED:
            short = name.split("::")[-1]
            if re.search(r"(?<![\w])(?:\w+::)*%s\s*\(" % re.escape(short), text) or re.search(r"\.%s\(" % re.escape(short), text):
                if short == "hint" and not re.search(r"\bhinter\.hint\(", text):
                    continue
                return name
        return None

    def call_event(self, text, ok_flag):
        ctx = self.ctx
        name = self.find_call(text)
        callee = ANALYSED[name]
        short = name.split("::")[-1]
        m = re.search(r"%s\s*\(" % re.escape(short), text)
        p0 = m.end() - 1
        p1 = match_close(text, p0)
        args = split_args(text[p0 + 1:p1])
        closure = []
        if callee.get("closure_param") is not None:
            cl = args[callee["closure_param"]]
            mm = re.match(r"\|([^|]*)\|\s*\{", cl)
            if not mm:
                raise Unparsed("closure argument `%s`" % cl[:60])
            cparams = [x.strip() for x in mm.group(1).split(",")]
            cbody = cl[cl.index("{") + 1:match_close(cl, cl.index("{"))]
            sub = Ctx(ctx.fname + "#closure", "closure", ctx.syms, ctx.flagvars)
            sub.slices = dict(ctx.slices); sub.aggs = dict(ctx.aggs); sub.scalars = dict(ctx.scalars)
            sub.fieldlen = ctx.fieldlen; sub.counters = ctx.counters
            # closure parameters that the callee calls back with slices shadow captured names
            for pos, nm in enumerate(cparams):
                sub.slices.pop(nm, None)
            for k, pos in enumerate(callee["callback_positions"]):
                sub.slices[cparams[pos]] = Slice(("cpar", k))
            sub.kind = "closure" if ctx.kind != "top" else "top"
            a = Analyser(sub)
            closure = a.block(parse_block(cbody))
            ctx.unparsed += sub.unparsed
            ctx.modelled |= sub.modelled
        actual = []
        for pname, pos, fieldname in callee["params"]:
            a = args[pos] if pos < len(args) else None
            s = None
            if fieldname is None:
                s = slice_of(ctx, a)
            else:
                an = re.sub(r"^&mut |^&", "", a).strip()
                if an in ctx.aggs:
                    s = ctx.aggs[an].get(fieldname)
                else:
                    raise Unparsed("aggregate argument `%s`" % a)
            if s is None:
                actual.append(("none",))
            elif s.is_mem():
                actual.append(self.item("rw", s)["ref"])
            else:
                actual.append((s.root[0], s.root[1], s.part))
        return [{"k": "call", "f": name, "args": actual, "closure": closure, "ok": ok_flag}]

    # ---- simple statements -----------------------------------------------------------------------
    def simple(self, t):
        ctx = self.ctx
        if not t:
            return []
        # flags
        m = re.fullmatch(r"let mut (\w+) = (true|false)", t)
        if m and m.group(1) in ("have_deltas",):
            ctx.flagvars[m.group(1)] = flag_id(ctx.fname, m.group(1))
            return [{"k": "set", "flag": ctx.flagvars[m.group(1)], "v": m.group(2) == "true"}]
        m = re.fullmatch(r"(\w+) = (true|false)", t)
        if m and m.group(1) in ctx.flagvars:
            return [{"k": "set", "flag": ctx.flagvars[m.group(1)], "v": m.group(2) == "true"}]
        # counters
        m = re.fullmatch(r"(self\.(?:point_count|contour_count|component_delta_count)) (\+=|=) (.+)", t)
        if m:
            if ctx.kind != "top":
                raise Unparsed("counter update in callee")
            if m.group(1) in ctx.counters:
                v = eval_scalar(ctx, m.group(3))
                ctx.counters[m.group(1)] = ctx.counters[m.group(1)] + v if m.group(2) == "+=" else v
                ctx.counter_updates = getattr(ctx, "counter_updates", []) + [(m.group(1), m.group(2), m.group(3))]
            return []
        # returns
        if re.match(r"return\b", t):
            if mentions_tracked(ctx, t):
                raise Unparsed("return of a tracked value")
            return [ev_exit(re.match(r"return Ok\b", t) is not None)]
        # let-else
        m = re.fullmatch(r"let (.+?) = (.+?) else \{(.*)\}", t)
        if m:
            if mentions_tracked(ctx, m.group(2)):
                raise Unparsed("let-else on a tracked value")
            e = self.block(parse_block(m.group(3)))
            return [ev_branch("let-else " + m.group(2)[:50], e, [])] if e else []
        has_q = self.has_question(t)
        # analysed callee
        if self.find_call(t):
            m = re.fullmatch(r"let (\w+) = (.+)", t)
            if m and not has_q:
                fl = flag_id(ctx.fname, m.group(1) + "@ok")
                ctx.flagvars[m.group(1) + ".is_ok()"] = fl
                return self.call_event(m.group(2), fl)
            if has_q and re.fullmatch(r".*\)\?", t):
                return self.call_event(t, None)
            raise Unparsed("call of an analysed function in an unexpected position")
        # callback (inside a callee)
        if ctx.callback_name and re.match(r"%s\s*\(" % re.escape(ctx.callback_name), t):
            p0 = t.index("(")
            args = split_top(t[p0 + 1:match_close(t, p0)])
            actual = []
            positions = []
            for pos, a in enumerate(args):
                s = slice_of(ctx, a)
                if s is not None:
                    positions.append(pos)
                    actual.append((s.root[0], s.root[1], s.part) if not s.is_mem() else self.item("rw", s)["ref"])
            ctx.callback_positions = positions
            return [{"k": "callback", "args": actual}]
        if not mentions_tracked(ctx, t):
            m = re.fullmatch(r"let (?:mut )?(\w+)(?:: [\w<>]+)? = (.+)", t)
            if m:
                ctx.slices.pop(m.group(1), None); ctx.aggs.pop(m.group(1), None); ctx.taint.pop(m.group(1), None)
                if ctx.kind == "top":
                    bind_let_scalar(ctx, m.group(1), m.group(2))
                if re.fullmatch(r"[\w.]+\.len\(\)", m.group(2)) and ctx.kind == "top":
                    base = m.group(2)[:-len(".len()")]
                    ctx.untracked_len[base] = eval_scalar(ctx, m.group(2))
            m = re.fullmatch(r"let \((\w+), (\w+)\) = \((.+) as usize, (.+) as usize\)", t)
            return []
        # ---- statements that touch tracked slices ----
        q = [QFORK(t[:50])] if has_q else []
        # alias: let NAME = self.memory.F.get_mut(RANGE).ok_or(ERR)?
        m = re.fullmatch(r"let (\w+) = (self \. memory \. \w+|self\.memory\.\w+) \.? ?get_mut\((.+)\) \.? ?ok_or\(\w+(?:::\w+)*\)\?", t.replace(" .", ".").replace(". ", "."))
        t2 = re.sub(r"\s*\.\s*", ".", t)
        m = re.fullmatch(r"let (\w+) = (self\.memory\.\w+)\.get_mut\((.+)\)\.ok_or\([\w:]+\)\?", t2)
        if m:
            f = m.group(2).split(".")[-1]
            lo, hi = eval_range(ctx, m.group(3))
            if hi is not None:
                note_bound(ctx, f, hi)
            base = slice_of(ctx, m.group(2))
            s = sub_slice(ctx, base, lo, hi)
            ctx.slices[m.group(1)] = s
            return q
        # alias: let NAME = &mut self.memory.F[RANGE] / &mut alias[..]
        m = re.fullmatch(r"let (\w+) = (&mut |&)(.+)", t2)
        if m and not has_q and re.match(r"self\.memory\.\w+\[", m.group(3)):
            f = re.match(r"self\.memory\.(\w+)\[", m.group(3)).group(1)
            idx = m.group(3)[m.group(3).index("[") + 1:-1]
            try:
                lo, hi = eval_range(ctx, idx)
                if hi is not None:
                    note_bound(ctx, f, hi)
            except Unparsed:
                pass
        if m and slice_of(ctx, m.group(3)) is not None and not has_q:
            ctx.slices[m.group(1)] = slice_of(ctx, m.group(3))
            return []
        # destructuring of an aggregate: let SimpleGlyph { points, flags, contours } = glyph
        m = re.fullmatch(r"let \w+ \{ ([\w, ]+?),? \} = (\w+)", t)
        if m and m.group(2) in ctx.aggs:
            for f in [x.strip() for x in m.group(1).split(",")]:
                if ctx.aggs[m.group(2)].get(f) is not None:
                    ctx.slices[f] = ctx.aggs[m.group(2)][f]
            return []
        # aggregate literal: let [mut] NAME = Path::Struct { f: expr, f, … }
        m = re.fullmatch(r"let (?:mut )?(\w+) = ([\w:]+) \{ (.+?),? \}", t)
        if m:
            fields = {}
            for part in split_top(m.group(3)):
                mm = re.fullmatch(r"(\w+): (.+)", part)
                fn_, ex = (mm.group(1), mm.group(2)) if mm else (part, part)
                s = slice_of(ctx, ex)
                if s is None and mentions_tracked(ctx, ex):
                    raise Unparsed("field `%s` of struct literal" % part)
                fields[fn_] = s
            ctx.aggs[m.group(1)] = fields
            return []
        # tracked constructor / value: let NAME = Ctor(args)[.unwrap()]
        m = re.match(r"let (?:mut )?(\w+) = ([\w:]+)\(", t)
        if m and not has_q:
            p0 = m.end() - 1
            p1 = match_close(t, p0)
            if t[p1 + 1:] in ("", ".unwrap()"):
                tl = []
                kind = CTOR_KINDS.get(m.group(2), "plain")
                for a in self.flat_args(t[p0 + 1:p1]):
                    s = slice_of(ctx, a)
                    if s is not None:
                        tl.append((s, kind))
                    else:
                        an = a.strip()
                        if an in ctx.taint:
                            tl += ctx.taint[an]
                        elif mentions_tracked(ctx, a):
                            raise Unparsed("constructor argument `%s`" % a)
                ctx.taint[m.group(1)] = tl
                return []
        # X.copy_from_slice(Y)
        m = re.fullmatch(r"(.+)\.copy_from_slice\((.+)\)", t2)
        if m:
            dst, src = slice_of(ctx, m.group(1)), slice_of(ctx, m.group(2))
            items = []
            if dst is not None:
                items.append(self.item("wr", dst))
            elif mentions_tracked(ctx, m.group(1)):
                raise Unparsed("copy_from_slice receiver")
            if src is not None:
                items.append(self.item("rd", src))
            elif mentions_tracked(ctx, m.group(2)):
                raise Unparsed("copy_from_slice source")
            return [ev_acc(t[:90], items)]
        # X.fill(v)
        m = re.fullmatch(r"(.+)\.fill\((.+)\)", t2)
        if m and slice_of(ctx, m.group(1)) is not None and not mentions_tracked(ctx, m.group(2)):
            return [ev_acc(t[:90], [self.item("wr", slice_of(ctx, m.group(1)))])]
        # modelled callee: recv.read_points_fast(&mut a[..n], &mut b[..n])?
        for meth, (thm, modes) in MODELLED_CALLS.items():
            m = re.fullmatch(r"[\w.]+\.%s\((.+)\)\??" % meth, t2)
            if m:
                args = [slice_of(ctx, a) for a in split_top(m.group(1))]
                if any(a is None for a in args) or len(args) != len(modes):
                    raise Unparsed("arguments of %s" % meth)
                ctx.modelled.add(thm)
                ev = ev_modelled(t[:90], thm, [self.item(md, a) for md, a in zip(modes, args)])
                return [ev_branch("`?` of " + meth, [ev_exit(False)], [ev])] if has_q else [ev]
        # index read with a loop bound: … self.memory.F.get(BASE + i).copied().unwrap_or_default()
        m = re.fullmatch(r"(?:let \w+ =|\w+ \+=) (self\.memory\.\w+)\.get\((.+)\)\.copied\(\)\.unwrap_or_default\(\)", t2)
        if m:
            base = slice_of(ctx, m.group(1))
            mm = re.fullmatch(r"(.+) \+ (\w+)", ws(m.group(2)))
            if mm and mm.group(2) in ctx.loop_index_len:
                b = eval_scalar(ctx, mm.group(1))
                s = sub_slice(ctx, base, b, b + ctx.loop_index_len[mm.group(2)])
                return [ev_acc(t[:90] + " [index below the loop bound]", [self.item("rd", s)])]
            raise Unparsed("index `%s` is not bounded by an enclosing loop" % m.group(2))
        # bounded element read: self.memory.F.get(A..B).and_then(|p| p.get(IDX)).ok_or(ERR)?
        m = re.fullmatch(r"let (\w+) = (self\.memory\.\w+)\.get\((.+?\.\..+?)\)\.and_then\(\|(\w+)\| \4\.get\((\w+)\)\)\.ok_or\((.+)\)\?", t2)
        if m:
            base = slice_of(ctx, m.group(2))
            lo, hi = eval_range(ctx, m.group(3))
            s = sub_slice(ctx, base, lo, hi)
            return [ev_acc(t[:90], [self.item("rd", s)])] + q
        # element read bounded by the whole field only: let NAME = self.memory.F.get(IDX).ok_or(ERR)?
        m = re.fullmatch(r"let (\w+) = (self\.memory\.\w+)\.get\(([^.]+?)\)\.ok_or\((.+)\)\?", t2)
        if m:
            base = slice_of(ctx, m.group(2))
            ix = eval_scalar(ctx, m.group(3))
            return [ev_acc(t[:90] + " [index bounded by the field length only]", [self.item("rd", sub_slice(ctx, base, ix, ix + 1))])] + q
        # method call on a tainted value: engine.run_program(…)
        m = re.match(r"(?:let \w+ = )?(\w+)\.(\w+)\(", t2)
        if m and m.group(1) in ctx.taint:
            p1 = match_close(t2, m.end() - 1)
            tail = t2[p1 + 1:]
            if mentions_tracked(ctx, t2[m.end():p1]) or mentions_tracked(ctx, tail, set(ctx.aggs)):
                raise Unparsed("arguments of a call on a value that holds scratch slices")
            items, evs = [], []
            for s, kind in ctx.taint[m.group(1)]:
                if kind == "plain":
                    items.append(self.item("rw", s))
                else:
                    nm, thm = MODELLED_KINDS[kind]
                    ctx.modelled.add(thm)
                    evs.append(ev_modelled("%s over %s" % (nm, self.describe(s)), thm, []))
            evs.append(ev_opaque("%s.%s" % (m.group(1), m.group(2)), items))
            return evs + q
        # tail / Ok(Ctor(..)) handing slices to the caller
        m = re.fullmatch(r"Ok\(([\w:]+)\((.+)\)\)", t2)
        if m:
            items = []
            for a in split_top(m.group(2)):
                s = slice_of(ctx, a)
                if s is not None:
                    items.append(self.item("rd", s))
                elif mentions_tracked(ctx, a):
                    raise Unparsed("argument `%s`" % a)
            return [ev_acc("%s(..) handed to the caller" % m.group(1), items)]
        # call of code that is not analysed with slice arguments
        m = re.match(r"(?:let \w+ = )?((?:[\w.]+\.)?[\w:]+)\(", t2)
        if m and not mentions_tracked(ctx, m.group(1)):
            p1 = match_close(t2, m.end() - 1)
            if re.fullmatch(r"(\.ok_or\([\w:]+\))?\??", t2[p1 + 1:]):
                items = []
                for a in split_args(t2[m.end():p1]):
                    s = slice_of(ctx, a)
                    if s is not None:
                        items.append(self.item("rw", s))
                    elif mentions_tracked(ctx, a):
                        raise Unparsed("argument `%s`" % a)
                return [ev_opaque(m.group(1), items)] + q
        # if let Some(NAME) = X.get_mut(IDX) { *NAME op= … }  arrives as an `if`; handled in if_stmt? no: cond is tracked
        raise Unparsed("statement form not recognised")

    def describe(self, s):
        return "%s[%s, %s)" % (s.root[1], s.lo, s.hi) if s.is_mem() else "%s %s (%s)" % (s.root[0], s.root[1], s.part)

    def flat_args(self, text):
        out = []
        for a in split_top(text):
            mm = re.fullmatch(r"[\w:]+\((.*)\)", a)
            if mm and not a.startswith("&"):
                out += self.flat_args(mm.group(1))
            else:
                out.append(a)
        return out

    def has_question(self, t):
        # a `?` outside closures
        depth = 0
        bar = False
        for i, c in enumerate(t):
            if c in "([{":
                depth += 1
            elif c in ")]}":
                depth -= 1
            elif c == "?" and depth == 0:
                return True
        return False

# =============================================================================================
# part 1 driver: callees, segments

def struct_fields(src, name):
    m = re.search(r"struct %s(?:<[^>]*>)?\s*(?:where[^{]*)?\{" % re.escape(name), src)
    if not m:
        return None
    b0 = src.index("{", m.start())
    body = src[b0 + 1:match_close(src, b0)]
    out = []
    for part in split_top(body):
        part = re.sub(r"#\[[^\]]*\]", "", part).strip()
        mm = re.fullmatch(r"(?:pub(?:\([\w:]+\))? )?(\w+):\s*(.+)", ws(part))
        if mm:
            out.append((mm.group(1), mm.group(2)))
        elif part:
            out.append((None, part))
    return out

def is_slice_type(t):
    m = re.match(r"&('\w+ )?(mut )?\[(.+)\]$", t)
    return m is not None and m.group(3) not in ("F2Dot14", "u8")

def setup_callee(name, src, header_re, aggregates, unparsed):
    """parse a callee: parameters (slices, aggregates of slices, closure) and body"""
    got = find_fn(src, header_re)
    if not got:
        unparsed.append({"item": name, "why": "function not found"}); return False
    ptext, body = got
    params, closure_param, callback_name = [], None, None
    pos = 0
    for p in split_params(ptext):
        p = ws(p)
        if p in ("&self", "&mut self", "self", "mut self"):
            continue
        mm = re.fullmatch(r"(?:mut )?(\w+): (.+)", p)
        if not mm:
            unparsed.append({"item": name, "why": "parameter `%s`" % p}); pos += 1; continue
        pn, pt = mm.group(1), mm.group(2)
        if is_slice_type(pt):
            params.append((pn, pos, None))
        elif re.match(r"impl FnMut", pt):
            closure_param, callback_name = pos, pn
        else:
            base = re.sub(r"^&(mut )?", "", pt)
            base = re.sub(r"<.*>$", "", base)
            if base in aggregates:
                for f, ft in aggregates[base]:
                    if is_slice_type(ft):
                        params.append((pn, pos, f))
        pos += 1
    ANALYSED[name] = {"params": params, "closure_param": closure_param, "callback_name": callback_name,
                      "stmts": parse_block(body), "callback_positions": []}
    return True

def analyse_callee(name, unparsed):
    info = ANALYSED[name]
    ctx = Ctx(name, "callee")
    ctx.callback_name = info["callback_name"]
    for k, (pn, pos, f) in enumerate(info["params"]):
        if f is None:
            ctx.slices[pn] = Slice(("par", k))
        else:
            ctx.aggs.setdefault(pn, {})[f] = Slice(("par", k))
    evs = Analyser(ctx).block(info["stmts"])
    info["events"] = evs
    info["callback_positions"] = ctx.callback_positions or []
    unparsed += ctx.unparsed
    return ctx

def find_component_loop(stmts):
    for i, st in enumerate(stmts):
        if st[0] == "for" and re.fullmatch(r"glyph\.components\(\)\.enumerate\(\)", ws(st[2])):
            return i
    return None

LOAD_RE = r"self\.load\(.*\)\?"

def analyse_segment(fname, stmts, syms, counters, scalars=None, flags=None, loop_index=None):
    ctx = Ctx(fname, "top", list(syms), dict(flags or {}))
    for k, v in counters.items():
        ctx.counters[k] = v(ctx)
    for k, v in (scalars or {}).items():
        ctx.scalars[k] = v(ctx)
    for k, v in (loop_index or {}).items():
        ctx.loop_index_len[k] = v(ctx)
    evs = Analyser(ctx).block(stmts)
    return ctx, evs

def S(name):
    return lambda ctx: ctx.sym(name)

def analyse_scaler(scaler, src, pts_field, unparsed, report):
    """segments of one scaler (`FreeTypeScaler` / `HarfBuzzScaler`)"""
    impl = impl_block(src, r"impl Scaler for %s<'_> \{" % scaler)
    inherent = impl_block(src, r"impl<'a> %s<'a> \{" % scaler)
    if impl is None or inherent is None:
        unparsed.append({"item": scaler, "why": "impl blocks not found"}); return None
    segs = {}
    # functions that must not touch the scratch memory at all
    for fn_ in ("setup_phantom_points", "load_empty", "outlines"):
        got = find_fn(impl, r"fn %s\(" % fn_)
        if not got or "self.memory" in got[1]:
            unparsed.append({"item": "%s::%s" % (scaler, fn_), "why": "expected a function that does not touch self.memory"})
    # counters start at zero in both constructors
    for ctor in ("unhinted", "hinted") if scaler == "FreeTypeScaler" else ("unhinted",):
        got = find_fn(inherent, r"fn %s\(" % ctor)
        flat = re.sub(r"\s+", "", got[1]) if got else ""
        for w in ("point_count:0,", "contour_count:0,", "component_delta_count:0,"):
            if w not in flat:
                unparsed.append({"item": "%s::%s" % (scaler, ctor), "why": "expected `%s`" % w})
    # the counters are only ever increased, and only by load_simple
    for cnt in ("point_count", "contour_count"):
        sites = re.findall(r"self\.%s\s*(\+=|-=|=[^=])" % cnt, src)
        if any(x != "+=" for x in sites):
            unparsed.append({"item": scaler, "why": "self.%s is assigned other than by `+=`" % cnt})
    # ---- load_simple
    got = find_fn(impl, r"fn load_simple\(")
    ctx, evs = analyse_segment("%s::load_simple" % scaler, parse_block(got[1]),
                               ["self.point_count", "glyph.num_points()", "self.contour_count", "contour_end_pts.len()"],
                               {"self.point_count": S("self.point_count"), "self.contour_count": S("self.contour_count"),
                                "self.component_delta_count": S("self.component_delta_count")})
    segs["simple"] = (ctx, evs)
    ups = [(a, ws(c)) for a, b, c in ctx.counter_updates if b == "+="]
    if ups != [("self.point_count", "point_count"), ("self.contour_count", "contour_count")]:
        unparsed.append({"item": ctx.fname, "why": "counter updates %s" % ups})
    report["counter_final"] = {k: repr(v) for k, v in ctx.counters.items()}
    segs["simple_counters"] = (ctx.counters["self.point_count"], ctx.counters["self.contour_count"])
    # ---- load_composite
    got = find_fn(impl, r"fn load_composite\(")
    stmts = parse_block(got[1])
    li = find_component_loop(stmts)
    if li is None:
        unparsed.append({"item": "%s::load_composite" % scaler, "why": "component loop not found"}); return None
    fname = "%s::load_composite" % scaler
    ctx, evs = analyse_segment(fname + "#pre", stmts[:li],
                               ["self.component_delta_count", "glyph.components().count()"],
                               {"self.point_count": S("self.point_count"), "self.contour_count": S("self.contour_count"),
                                "self.component_delta_count": S("self.component_delta_count")})
    segs["compPre"] = (ctx, evs)
    flags = dict(ctx.flagvars)
    if "have_deltas" not in flags:
        unparsed.append({"item": fname, "why": "flag have_deltas not found"})
    # loop body: nothing tracked before the recursive load
    body = stmts[li][3]
    lk = None
    for k, st in enumerate(body):
        if st[0] == "simple" and re.fullmatch(LOAD_RE, st[1]):
            lk = k
    if lk is None or ws(stmts[li][1]) != "(i, component)":
        unparsed.append({"item": fname, "why": "recursive self.load(..)? not found in the component loop"}); return None
    before = [ws(st[1]) for st in body[:lk] if st[0] == "simple"]
    if len(before) != lk or "let start_point = self.point_count" not in before or any("self.memory" in b for b in before):
        unparsed.append({"item": fname, "why": "statements before the recursive load: %s" % before})
    after = body[lk + 1:]
    if not (after and after[0] == ("simple", "let end_point = self.point_count")):
        unparsed.append({"item": fname, "why": "expected `let end_point = self.point_count;` after the recursive load"})
    ctx, evs = analyse_segment(fname + "#component", after,
                               ["point_base", "@points_before", "@points_loaded", "delta_base", "glyph.components().count()"],
                               {"self.point_count": lambda c: c.sym("point_base") + c.sym("@points_before") + c.sym("@points_loaded"),
                                "self.contour_count": S("self.contour_count"),
                                "self.component_delta_count": S("self.component_delta_count")},
                               scalars={"start_point": lambda c: c.sym("point_base") + c.sym("@points_before"),
                                        "point_base": S("point_base"), "delta_base": S("delta_base")},
                               flags=flags, loop_index={"i": S("glyph.components().count()")})
    segs["compIter"] = (ctx, evs)
    for st in stmts[li + 1:] + stmts[:li]:
        if LOAD_RE[:10] in json.dumps(st):
            pass
    if re.search(r"self\.load\(", json.dumps(stmts[:li]) + json.dumps(stmts[li + 1:])):
        unparsed.append({"item": fname, "why": "self.load outside the component loop"})
    ctx, evs = analyse_segment(fname + "#post", stmts[li + 1:],
                               ["point_base", "@points_loaded", "contour_base", "@contours_loaded"],
                               {"self.point_count": lambda c: c.sym("point_base") + c.sym("@points_loaded"),
                                "self.contour_count": lambda c: c.sym("contour_base") + c.sym("@contours_loaded"),
                                "self.component_delta_count": S("self.component_delta_count")},
                               scalars={"point_base": S("point_base"), "contour_base": S("contour_base"), "delta_base": S("delta_base")},
                               flags=flags)
    segs["compPost"] = (ctx, evs)
    # ---- scale
    got = find_fn(inherent, r"fn scale\(")
    stmts = parse_block(got[1])
    if not (stmts and stmts[0] == ("simple", "self.load(glyph, glyph_id, 0)?")):
        unparsed.append({"item": "%s::scale" % scaler, "why": "expected `self.load(glyph, glyph_id, 0)?;` first"})
    ctx, evs = analyse_segment("%s::scale" % scaler, stmts[1:], ["self.point_count", "self.contour_count"],
                               {"self.point_count": S("self.point_count"), "self.contour_count": S("self.contour_count"),
                                "self.component_delta_count": S("self.component_delta_count")})
    segs["final"] = (ctx, evs)
    # the trait's default `load`
    got = find_fn(src, r"fn load\(\s*&mut self,\s*glyph: &Option<Glyph>")
    flat = re.sub(r"\s+", "", got[1]) if got else ""
    for w in ("Some(Glyph::Simple(simple))=>self.load_simple(simple,glyph_id),",
              "self.load_composite(composite,glyph_id,recurse_depth)", "None=>self.load_empty(glyph_id),"):
        if w not in flat:
            unparsed.append({"item": "Scaler::load", "why": "expected `%s`" % w})
    if "self.memory" in flat:
        unparsed.append({"item": "Scaler::load", "why": "touches self.memory"})
    return segs

# =============================================================================================
# Lean emission

def lstr(s):
    return '"' + s.replace("\\", "\\\\").replace('"', '\\"') + '"'

def lean_lin(l, syms):
    if not l.nonneg():
        raise Unparsed("negative linear form %r" % l)
    idx = {k: syms.index(k) for k in l.d}
    n = max(idx.values()) + 1 if idx else 0
    co = [0] * n
    for k, v in l.d.items():
        co[idx[k]] = v
    return "⟨[%s], %d⟩" % (", ".join(map(str, co)), l.c)

def lean_ref(r, syms, fields):
    if r[0] == "none":
        return ".abs ⟨0, ⟨[], 0⟩, ⟨[], 0⟩⟩"
    if r[0] == "abs":
        return ".abs ⟨%d, %s, %s⟩" % (fields.index(r[1]) + 1, lean_lin(r[2], syms), lean_lin(r[3], syms))
    return ".%s %d .%s" % (r[0], r[1], r[2])

def lean_items(items, syms, fields):
    return "[" + ", ".join("⟨.%s, %s⟩" % (i["mode"], lean_ref(i["ref"], syms, fields)) for i in items) + "]"

def lean_evs(evs, syms, fields, fn_index, ind):
    pad = " " * ind
    out = []
    for e in evs:
        k = e["k"]
        if k == "acc":
            out.append("%s.acc %s %s" % (pad, lstr(e["label"]), lean_items(e["items"], syms, fields)))
        elif k == "zip":
            out.append("%s.zip %s [%s] %s" % (pad, lstr(e["label"]), ", ".join(lean_lin(l, syms) for l in e["lens"]), lean_items(e["items"], syms, fields)))
        elif k == "opaque":
            out.append("%s.opaque %s %s" % (pad, lstr(e["label"]), lean_items(e["items"], syms, fields)))
        elif k == "modelled":
            out.append("%s.modelled %s %s %s" % (pad, lstr(e["label"]), lstr(e["thm"]), lean_items(e["items"], syms, fields)))
        elif k == "set":
            out.append("%s.set %d %s" % (pad, e["flag"], "true" if e["v"] else "false"))
        elif k == "ifFlag":
            out.append("%s.ifFlag %d\n%s\n%s" % (pad, e["flag"], lean_block(e["t"], syms, fields, fn_index, ind + 2), lean_block(e["e"], syms, fields, fn_index, ind + 2)))
        elif k == "branch":
            out.append("%s.branch %s\n%s\n%s" % (pad, lstr(e["label"]), lean_block(e["t"], syms, fields, fn_index, ind + 2), lean_block(e["e"], syms, fields, fn_index, ind + 2)))
        elif k == "exit":
            out.append("%s.exit %s" % (pad, "true" if e["ok"] else "false"))
        elif k == "loop":
            out.append("%s.loop %s\n%s" % (pad, lstr(e["label"]), lean_block(e["body"], syms, fields, fn_index, ind + 2)))
        elif k == "call":
            out.append("%s.call %d [%s]\n%s\n%s  %s" % (pad, fn_index[e["f"]], ", ".join(lean_ref(a, syms, fields) for a in e["args"]),
                                                     lean_block(e["closure"], syms, fields, fn_index, ind + 2), pad,
                                                     "none" if e["ok"] is None else "(some %d)" % e["ok"]))
        elif k == "callback":
            out.append("%s.callback [%s]" % (pad, ", ".join(lean_ref(a, syms, fields) for a in e["args"])))
        else:
            raise ValueError(k)
    return out

SEG_PRE = {"simple": 4, "compPre": 2, "compIter": 5, "compPost": 4, "final": 2}

def used_syms(evs, acc):
    for e in evs:
        for i in e.get("items", []):
            if i["ref"][0] == "abs":
                acc |= set(i["ref"][2].d) | set(i["ref"][3].d)
        for l in e.get("lens", []):
            acc |= set(l.d)
        for a in e.get("args", []):
            if a[0] == "abs":
                acc |= set(a[2].d) | set(a[3].d)
        for k in ("t", "e", "body", "closure"):
            if k in e:
                used_syms(e[k], acc)
    return acc

def prune_syms(syms, keep, evs):
    used = used_syms(evs, set())
    return syms[:keep] + [x for x in syms[keep:] if x in used]

def lean_block(evs, syms, fields, fn_index, ind):
    pad = " " * ind
    if not evs:
        return pad + "[]"
    lines = lean_evs(evs, syms, fields, fn_index, ind + 1)
    return pad + "[" + (",\n".join(lines)).lstrip() + "]"

def dump_evs(evs, ind=0):
    for e in evs:
        k = e["k"]
        pad = "  " * ind
        if k in ("acc", "zip", "opaque", "modelled"):
            its = ", ".join("%s %s" % (i["mode"], i["ref"][1:] if i["ref"][0] != "abs" else "%s[%r, %r)" % (i["ref"][1], i["ref"][2], i["ref"][3])) for i in e["items"])
            print("%s%s %s :: %s" % (pad, k, e["label"], its))
        elif k in ("ifFlag", "branch"):
            print("%s%s %s" % (pad, k, e.get("label", e.get("flag"))))
            dump_evs(e["t"], ind + 1); print(pad + "else"); dump_evs(e["e"], ind + 1)
        elif k == "loop":
            print("%sloop %s" % (pad, e["label"])); dump_evs(e["body"], ind + 1)
        elif k == "call":
            print("%scall %s args=%s ok=%s" % (pad, e["f"], [a[1:] if a[0] != "abs" else "%s[%r,%r)" % (a[1], a[2], a[3]) for a in e["args"]], e["ok"]))
            if e["closure"]:
                print(pad + " closure:"); dump_evs(e["closure"], ind + 2)
        else:
            print("%s%s %s" % (pad, k, {x: y for x, y in e.items() if x != "k"}))

# =============================================================================================
# part 2: state table

def literal_fields(body, struct_pat):
    """(listed field names, has `..Default::default()`) of the first struct literal `struct_pat { … }` in body"""
    m = re.search(struct_pat + r"\s*\{", body)
    if not m:
        return None
    b0 = body.index("{", m.start())
    inner = body[b0 + 1:match_close(body, b0)]
    names, rest = [], False
    for part in split_top(inner):
        part = ws(part)
        if part.startswith(".."):
            rest = part
            continue
        mm = re.match(r"(\w+)\s*(:|$)", part)
        if mm:
            names.append(mm.group(1))
    return names, rest

def ctor_rows(rows, unparsed, src, struct, fn_body, literal_pat, site):
    fields = struct_fields(src, struct)
    if fields is None or fn_body is None:
        unparsed.append({"item": struct, "why": "struct or constructor not found"}); return
    lit = literal_fields(fn_body, literal_pat)
    if lit is None:
        unparsed.append({"item": struct, "why": "struct literal not found in %s" % site}); return
    names, rest = lit
    for f, _ in fields:
        if f in names:
            rows.append((struct, f, "ctor", site))
        elif rest == "..Default::default()":
            rows.append((struct, f, "default", site))
        else:
            rows.append((struct, f, "MISSING", site))

def state_table(repo, unparsed):
    rd = lambda p: strip_comments(open(os.path.join(repo, p)).read())
    rows = []
    # HintingInstance (skrifa/src/outline/hint.rs)
    hsrc = rd("skrifa/src/outline/hint.rs")
    fields = struct_fields(hsrc, "HintingInstance") or []
    got = find_fn(hsrc, r"pub fn reconfigure<'a>\(")
    flat = re.sub(r"\s+", "", got[1]) if got else ""
    for f, _ in fields:
        acts = []
        if re.search(r"self\.%s=[^=]" % f, flat): acts.append("assign")
        if "self.%s.clear();" % f in flat: acts.append("clear")
        if "self.%s.extend_from_slice(" % f in flat: acts.append("extend")
        if "core::mem::replace(&mutself.%s,HinterKind::None)" % f in flat: acts = ["replace-none"] + acts
        rows.append(("HintingInstance", f, "+".join(acts) if acts else "untouched", "HintingInstance::reconfigure"))
    for w in ("hint_instance.reconfigure(glyf,scale,ppem.unwrap_or_default()asi32,self.target,&self.coords,)?;self.kind=HinterKind::Glyf(hint_instance);",
              "location.into().effective_coords()", "lethint_instance=matchcurrent_kind{HinterKind::Glyf(instance)=>instance,_=>Box::<glyf::HintInstance>::default(),};".replace("lethint", "letmuthint")):
        if w not in flat:
            unparsed.append({"item": "HintingInstance::reconfigure", "why": "expected `%s`" % w})
    got = find_fn(hsrc, r"pub\(super\) fn draw\(")
    if not got or not re.match(r"\s*&self,", got[0]):
        unparsed.append({"item": "HintingInstance::draw", "why": "expected `&self`"})
    # HintInstance (via the C12 source translator's table)
    sys.path.insert(0, HERE)
    import c12_src
    isrc = rd("skrifa/src/outline/glyf/hint/instance.rs")
    if "#[cfg(googlefonts_fontations_verif)]" in isrc:
        isrc = isrc[:isrc.index("#[cfg(googlefonts_fontations_verif)]")]
    tmp = []
    inst, _ = c12_src.inst_fields(isrc, tmp)
    for f, act in inst:
        rows.append(("HintInstance", f, act, "HintInstance::setup"))
    got = find_fn(isrc, r"pub fn hint\(")
    if not got or not re.match(r"\s*&self,", got[0]):
        unparsed.append({"item": "HintInstance::hint", "why": "expected `&self`"})
    flat = re.sub(r"\s+", "", got[1]) if got else ""
    for w in ("DefinitionMap::Ref(&self.functions)", "DefinitionMap::Ref(&self.instructions)", "CowSlice::new(&self.cvt,outline.cvt)",
              "CowSlice::new(&self.storage,outline.storage)", "self.graphics,", "ValueStack::new(outline.stack,is_pedantic)"):
        if w not in flat:
            unparsed.append({"item": "HintInstance::hint", "why": "expected `%s`" % w})
    dsrc = rd("skrifa/src/outline/glyf/hint/engine/dispatch.rs")
    for f in c12_src.font_reset(dsrc, tmp):
        rows.append(("Engine::reset(Font)", "definitions." + f, "reset", "Engine::reset"))
    # Engine
    esrc = rd("skrifa/src/outline/glyf/hint/engine/mod.rs")
    esrc = esrc[:esrc.index("#[cfg(test)]")] if "#[cfg(test)]" in esrc else esrc
    got = find_fn(esrc, r"pub fn new\(")
    ctor_rows(rows, unparsed, esrc, "Engine", got[1] if got else None, r"\bSelf", "Engine::new")
    gsrc = rd("skrifa/src/outline/glyf/hint/graphics.rs")
    ctor_rows(rows, unparsed, gsrc, "GraphicsState", got[1] if got else None, r"\bGraphicsState", "Engine::new")
    g2 = find_fn(gsrc, r"pub fn reset\(&mut self\)")
    flat = re.sub(r"\s+", "", g2[1]) if g2 else ""
    mm = re.search(r"letGraphicsState\{([\w,]+?),?\.\.\}=core::mem::take\(self\);\*self=GraphicsState\{([\w,]+?),?\.\.Default::default\(\)\};", flat)
    if not mm or mm.group(1) != mm.group(2):
        unparsed.append({"item": "GraphicsState::reset", "why": "body changed"})
    else:
        for f in mm.group(1).split(","):
            rows.append(("GraphicsState::reset", f, "kept", "GraphicsState::reset"))
    got = find_fn(gsrc, r"pub fn new\(scale: i32, ppem: i32, target: Target\)")
    ctor_rows(rows, unparsed, gsrc, "RetainedGraphicsState", got[1] if got else None, r"\bSelf", "RetainedGraphicsState::new")
    # per-run assignments of Engine::reset
    got = find_fn(dsrc, r"pub fn reset\(&mut self, program: Program, is_pedantic: bool\)")
    flat = re.sub(r"\s+", "", got[1]) if got else ""
    want = [("program", "self.program.reset(program);"), ("graphics", "self.graphics.reset();"),
            ("graphics.is_pedantic", "self.graphics.is_pedantic=is_pedantic;"), ("loop_budget", "self.loop_budget.reset();"),
            ("value_stack", "self.value_stack.clear();")]
    for f, w in want:
        rows.append(("Engine::reset", f, "reset" if w in flat else "MISSING", "Engine::reset"))
    arms = {}
    for arm in ("Font", "ControlValue", "Glyph"):
        mm = re.search(r"Program::%s\s*=>\s*\{" % arm, got[1]) if got else None
        arms[arm] = re.sub(r"\s+", "", got[1][mm.end():match_close(got[1], mm.end() - 1)]) if mm else ""
    rows.append(("Engine::reset(ControlValue)", "graphics.backward_compatibility",
                 "assign" if arms["ControlValue"] == "self.graphics.backward_compatibility=false;" else "MISSING", "Engine::reset"))
    glyph_want = ("ifself.graphics.instruct_control&2!=0{self.graphics.reset_retained();}"
                  "ifself.graphics.target.preserve_linear_metrics(){self.graphics.backward_compatibility=true;}"
                  "elseifself.graphics.target.is_smooth(){self.graphics.backward_compatibility=(self.graphics.instruct_control&0x4)==0;}"
                  "else{self.graphics.backward_compatibility=false;}")
    rows.append(("Engine::reset(Glyph)", "graphics.backward_compatibility", "assign" if arms["Glyph"] == glyph_want else "MISSING", "Engine::reset"))
    rows.append(("Engine::reset(Glyph)", "graphics.retained", "reset-if-instruct-control-bit-1" if arms["Glyph"] == glyph_want else "MISSING", "Engine::reset"))
    # small per-draw objects
    vsrc = rd("skrifa/src/outline/glyf/hint/value_stack.rs")
    got = find_fn(vsrc, r"pub fn new\(values: &'a mut \[i32\], is_pedantic: bool\)")
    ctor_rows(rows, unparsed, vsrc, "ValueStack", got[1] if got else None, r"\bSelf", "ValueStack::new")
    flat = re.sub(r"\s+", "", got[1]) if got else ""
    if "len:0," not in flat:
        unparsed.append({"item": "ValueStack::new", "why": "expected `len: 0`"})
    psrc = rd("skrifa/src/outline/glyf/hint/program.rs")
    got = find_fn(psrc, r"pub fn new\(\s*font_code")
    ctor_rows(rows, unparsed, psrc, "ProgramState", got[1] if got else None, r"\bSelf", "ProgramState::new")
    got = find_fn(esrc, r"fn new\(outlines: &Outlines, point_count: Option<usize>\)")
    ctor_rows(rows, unparsed, esrc, "LoopBudget", got[1] if got else None, r"\bSelf", "LoopBudget::new")
    csrc = rd("skrifa/src/outline/glyf/hint/cow_slice.rs")
    got = find_fn(csrc, r"pub fn new\(\s*data: &'a \[i32\]")
    ctor_rows(rows, unparsed, csrc, "CowSlice", got[1] if got else None, r"\bSelf", "CowSlice::new")
    flat = re.sub(r"\s+", "", got[1]) if got else ""
    if "use_mut:false," not in flat:
        unparsed.append({"item": "CowSlice::new", "why": "expected `use_mut: false`"})
    zsrc = rd("skrifa/src/outline/glyf/hint/zone.rs")
    got = find_fn(zsrc, r"pub fn new\(\s*unscaled")
    ctor_rows(rows, unparsed, zsrc, "Zone", got[1] if got else None, r"\bSelf", "Zone::new")
    return rows

# =============================================================================================
# part 3: interior mutability

IM_RE = re.compile(r"\.read\(\)\.unwrap\(\)|\.write\(\)\.unwrap\(\)|\.lock\(\)|\.get_or_init\(|\.borrow_mut\(\)|\.try_read\(|\.try_write\(|\.fetch_\w+\(|\bOrdering::(?:Relaxed|Acquire|Release|AcqRel|SeqCst)\b|\bRwLock\b|\bMutex\b|\bOnceCell\b|\bOnceLock\b|\bLazyLock\b|\bLazyCell\b|\bCell<|\bRefCell\b|\bAtomic[A-Z]\w*|\bthread_local!|\bstatic mut\b|\bUnsafeCell\b|\blazy_static!")
KNOWN_SITE_CLASSES = ["import_or_type", "construct_all_none", "compute_once_publish_complete", "plain_mut_method"]

def fn_spans(src):
    spans = []
    for m in re.finditer(r"\bfn\s+(\w+)", src):
        try:
            p0 = src.index("(", m.end())
            p1 = match_close(src, p0)
            semi = src.find(";", p1)
            b0 = src.find("{", p1)
            if b0 < 0 or (0 <= semi < b0):
                continue
            spans.append((m.start(), match_close(src, b0), m.group(1)))
        except ValueError:
            continue
    return spans

def interior_sites(repo, unparsed):
    sites = []
    files = sorted(glob.glob(os.path.join(repo, "skrifa/src/outline/**/*.rs"), recursive=True) +
                   glob.glob(os.path.join(repo, "skrifa/src/color/**/*.rs"), recursive=True))
    for path in files:
        src = strip_comments(open(path).read())
        rel = os.path.relpath(path, repo)
        spans = None
        for m in IM_RE.finditer(src):
            if spans is None:
                spans = fn_spans(src)
            inner = [sp for sp in spans if sp[0] <= m.start() <= sp[1]]
            if inner:
                sp = max(inner, key=lambda x: x[0])
                fn_, text = sp[2], src[sp[0]:sp[1] + 1]
            else:
                ls = src.rfind("\n", 0, m.start()) + 1
                le = src.find("\n", m.start())
                fn_, text = "<item>", src[ls:le]
            key = "%s::%s::%s" % (rel, fn_, m.group(0).rstrip("<"))
            h = hashlib.sha1(ws(text).encode()).hexdigest()[:16]
            if fn_ == "<item>":
                key += "::" + hashlib.sha1(ws(text).encode()).hexdigest()[:6]
            if not any(s["key"] == key for s in sites):
                sites.append({"key": key, "hash": h, "text": ws(text)[:300]})
    return sites

def lazy_protocol(repo, unparsed):
    src = strip_comments(open(os.path.join(repo, "skrifa/src/outline/autohint/metrics/mod.rs")).read())
    got = find_fn(src, r"pub fn get\(\s*&self,\s*font: &FontRef")
    if not got:
        unparsed.append({"item": "UnscaledStyleMetricsSet::get", "why": "not found"}); return []
    body = got[1]
    m = re.search(r"Self::Lazy\(lazy\) => \{", body)
    if not m:
        unparsed.append({"item": "UnscaledStyleMetricsSet::get", "why": "Lazy arm not found"}); return []
    arm = body[m.end():match_close(body, m.end() - 1)]
    acts = []
    final_var = None
    guards = {}
    def stmt_act(t):
        nonlocal final_var
        t = ws(t)
        m1 = re.fullmatch(r"let (?:mut )?(\w+) = lazy\.(read|write)\(\)\.unwrap\(\)", t)
        if m1:
            guards[m1.group(1)] = m1.group(2)
            return [m1.group(2) + "Lock"]
        m1 = re.fullmatch(r"let (\w+) = (\w+)\.get\(index\)\?", t)
        if m1 and guards.get(m1.group(2)) == "read":
            guards[m1.group(1)] = "readSlot"
            return ["readSlot"]
        m1 = re.fullmatch(r"core::mem::drop\((\w+)\)", t)
        if m1 and m1.group(1) in guards:
            return ["unlock"]
        m1 = re.fullmatch(r"let (\w+) = compute_unscaled_style_metrics\(&shaper, coords, style_class\)", t)
        if m1:
            final_var = m1.group(1)
            return ["compute"]
        m1 = re.fullmatch(r"\*(\w+)\.get_mut\(index\)\? = Some\((.+)\)", t)
        if m1 and guards.get(m1.group(1)) == "write":
            return ["storeFinal" if final_var and m1.group(2) == final_var + ".clone()" else "storeOther"]
        m1 = re.fullmatch(r"Some\((\w+)\)", t)
        if m1:
            return ["returnComputed" if m1.group(1) == final_var else "returnOther"]
        if re.fullmatch(r"let shaper = Shaper::new\(font, shaper_mode\)", t) or re.fullmatch(r"let style_class = style\.style_class\(\)\?", t):
            return []
        return None
    for st in parse_block(arm):
        if st[0] == "simple":
            a = stmt_act(st[1])
            if a is None:
                if re.search(r"\blazy\b|\bread\b|\bwrite\b|\bentry\b", st[1]):
                    unparsed.append({"item": "UnscaledStyleMetricsSet::get", "why": "statement `%s`" % st[1][:120]})
                continue
            acts += a
        elif st[0] == "if":
            c = st[1]
            m1 = re.fullmatch(r"let Some\((\w+)\) = &(\w+)", c)
            okb = st[2] == [("simple", "return Some(%s.clone())" % m1.group(1))] if m1 else False
            if m1 and guards.get(m1.group(2)) == "readSlot" and okb and st[3] is None:
                acts.append("returnIfSome")
            else:
                unparsed.append({"item": "UnscaledStyleMetricsSet::get", "why": "statement `if %s`" % c[:120]})
        else:
            unparsed.append({"item": "UnscaledStyleMetricsSet::get", "why": "statement kind %s" % st[0]})
    # the constructor publishes all-None
    got = find_fn(src, r"pub fn lazy\(style_map: &GlyphStyleMap\)")
    flat = re.sub(r"\s+", "", got[1]) if got else ""
    if flat != "letvec=vec![None;style_map.metrics_count()];Self::Lazy(Arc::new(RwLock::new(vec)))":
        unparsed.append({"item": "UnscaledStyleMetricsSet::lazy", "why": "body changed"})
    return acts

# =============================================================================================

def main():
    ap = argparse.ArgumentParser()
    ap.add_argument("--repo", required=True)
    ap.add_argument("--out", required=True)
    ap.add_argument("--report", required=True)
    ap.add_argument("--dump", action="store_true")
    ap.add_argument("--update-review", action="store_true")
    a = ap.parse_args()
    unparsed = []
    report = {}
    rd = lambda p: strip_comments(open(os.path.join(a.repo, p)).read())

    # ---- part 1
    mod = rd("skrifa/src/outline/glyf/mod.rs")
    mod = mod[:mod.index("#[cfg(test)]\nmod tests")] if "#[cfg(test)]\nmod tests" in mod else mod
    deltas = rd("skrifa/src/outline/glyf/deltas.rs")
    deltas = deltas[:deltas.index("#[cfg(googlefonts_fontations_verif)]")] if "#[cfg(googlefonts_fontations_verif)]" in deltas else deltas
    inst = rd("skrifa/src/outline/glyf/hint/instance.rs")
    hintmod = rd("skrifa/src/outline/glyf/hint/mod.rs")
    mem = rd("skrifa/src/outline/glyf/memory.rs")
    aggregates = {"SimpleGlyph": struct_fields(deltas, "SimpleGlyph") or [], "HintOutline": struct_fields(hintmod, "HintOutline") or []}
    ok = True
    ok &= setup_callee("compute_deltas_for_glyph", deltas, r"\nfn compute_deltas_for_glyph<", aggregates, unparsed)
    ok &= setup_callee("composite_glyph", deltas, r"pub\(super\) fn composite_glyph<", aggregates, unparsed)
    ok &= setup_callee("simple_glyph", deltas, r"pub\(super\) fn simple_glyph<", aggregates, unparsed)
    ok &= setup_callee("hint", inst, r"pub fn hint\(", aggregates, unparsed)
    fn_order = ["compute_deltas_for_glyph", "composite_glyph", "simple_glyph", "hint"]
    modelled = set()
    scalers = {}
    if ok:
        for nm in fn_order:
            c = analyse_callee(nm, unparsed)
            modelled |= c.modelled
        for scaler, struct in (("FreeTypeScaler", "FreeTypeOutlineMemory"), ("HarfBuzzScaler", "HarfBuzzOutlineMemory")):
            fields = [f for f, _ in (struct_fields(mem, struct) or [])]
            MEM_FIELDS[scaler] = fields
            segs = analyse_scaler(scaler, mod, None, unparsed, report)
            if segs:
                scalers[scaler] = segs
                for k, v in segs.items():
                    if k != "simple_counters":
                        unparsed += v[0].unparsed
                        modelled |= v[0].modelled
    if a.dump:
        for nm in fn_order:
            print("=== callee", nm, ANALYSED[nm]["params"]); dump_evs(ANALYSED[nm].get("events", []))
        for sc, segs in scalers.items():
            for k, v in segs.items():
                if k != "simple_counters":
                    print("=== %s %s syms=%s" % (sc, k, v[0].syms)); dump_evs(v[1])

    # ---- part 2, 3
    rows = state_table(a.repo, unparsed)
    sites = interior_sites(a.repo, unparsed)
    review_path = os.path.join(HERE, "c12_sites_review.json")
    review = json.load(open(review_path)) if os.path.exists(review_path) else {"sites": {}}
    if a.update_review:
        new = {"_doc": review.get("_doc", "reviewed interior-mutability sites of skrifa/src/{outline,color}: class + hash of the reviewed function body"), "sites": {}}
        for s in sites:
            old = review["sites"].get(s["key"], {})
            new["sites"][s["key"]] = {"class": old.get("class", "TODO"), "hash": s["hash"], "note": old.get("note", "")}
        json.dump(new, open(review_path, "w"), indent=1)
        review = new
    site_rows = []
    for s in sites:
        r = review["sites"].get(s["key"])
        if r is None:
            unparsed.append({"item": s["key"], "why": "NEW interior-mutability site (not reviewed): " + s["text"][:160]})
            site_rows.append((s["key"], "NEW"))
        elif r.get("hash") != s["hash"]:
            unparsed.append({"item": s["key"], "why": "CHANGED since the review (reviewed statement/function body differs): " + s["text"][:160]})
            site_rows.append((s["key"], "CHANGED"))
        elif r.get("class") not in KNOWN_SITE_CLASSES:
            unparsed.append({"item": s["key"], "why": "unclassified"})
            site_rows.append((s["key"], "TODO"))
        else:
            site_rows.append((s["key"], r["class"]))
    for k in review["sites"]:
        if not any(s["key"] == k for s in sites):
            unparsed.append({"item": k, "why": "reviewed site no longer present (re-review: --update-review)"})
    lazy = lazy_protocol(a.repo, unparsed)

    # ---- emit
    L = []
    L.append("/- GENERATED by translate/c12_wbr.py from skrifa/src/outline/glyf/{mod.rs, deltas.rs, memory.rs, hint/*.rs},")
    L.append("   skrifa/src/outline/hint.rs, skrifa/src/outline/autohint/metrics/mod.rs. Do not edit. -/")
    L.append("import FontVerif.Model.ScratchFlow")
    L.append("namespace FontVerif.Gen.C12Wbr")
    L.append("open FontVerif.ScratchFlow")
    L.append("set_option maxRecDepth 100000")
    L.append("")
    fn_index = {nm: i for i, nm in enumerate(fn_order)}
    try:
        L.append("/-- the analysed callees (parameters = slice parameters in order; aggregates flattened) -/")
        fl = []
        for nm in fn_order:
            info = ANALYSED.get(nm, {})
            params = ["%s%s" % (p, "." + f if f else "") for p, _, f in info.get("params", [])]
            fl.append("  ⟨%s, [%s],\n%s⟩" % (lstr(nm), ", ".join(lstr(p) for p in params),
                                          lean_block(info.get("events", []), [], [], fn_index, 3)))
        L.append("def fns : List Fn :=\n  [" + ",\n".join(fl).lstrip() + "]")
        L.append("")
        for scaler, pre in (("FreeTypeScaler", "ft"), ("HarfBuzzScaler", "hb")):
            segs = scalers.get(scaler)
            fields = MEM_FIELDS.get(scaler, [])
            L.append("/-- fields of the memory struct of `%s`; field number = position + 1 (0 = not scratch memory) -/" % scaler)
            L.append("def %sFields : List String := [%s]" % (pre, ", ".join(lstr(f) for f in fields)))
            if not segs:
                continue
            for key, lname in (("simple", "Simple"), ("compPre", "CompPre"), ("compIter", "CompIter"), ("compPost", "CompPost"), ("final", "Final")):
                ctx, evs = segs[key]
                ctx.syms = prune_syms(ctx.syms, SEG_PRE[key], evs)
                body = lean_block(evs, ctx.syms, fields, fn_index, 3)
                L.append("def %s%s : Seg :=\n  ⟨%s, [%s],\n%s⟩" % (pre, lname, lstr(ctx.fname), ", ".join(lstr(x) for x in ctx.syms), body))
            pc, cc = segs["simple_counters"]
            sy = segs["simple"][0].syms
            L.append("/-- `self.point_count` / `self.contour_count` after `load_simple` (over the symbols of %sSimple) -/" % pre)
            L.append("def %sSimpleCounters : List Lin := [%s, %s]" % (pre, lean_lin(pc, sy), lean_lin(cc, sy)))
            L.append("")
        L.append("/-- flag numbers: (function, variable) -/")
        L.append("def flagNames : List (Nat × String) := [%s]" % ", ".join("(%d, %s)" % (v, lstr("%s %s" % k)) for k, v in sorted(FLAG_IDS.items(), key=lambda x: x[1])))
        L.append("def haveDeltasFt : Nat := %d" % FLAG_IDS.get(("FreeTypeScaler::load_composite", "have_deltas"), 9999))
        L.append("def haveDeltasHb : Nat := %d" % FLAG_IDS.get(("HarfBuzzScaler::load_composite", "have_deltas"), 9999))
        L.append("/-- theorems that `modelled` events rely on -/")
        L.append("def modelledThms : List String := [%s]" % ", ".join(lstr(x) for x in sorted(modelled)))
    except (Unparsed, ValueError) as u:
        unparsed.append({"item": "emit", "why": str(u)})
    L.append("")
    L.append("/-- (struct / function, field, how it is (re)initialised, where) -/")
    L.append("def persistSrc : List (String × String × String × String) :=\n  [" +
             ",\n   ".join("(%s, %s, %s, %s)" % tuple(lstr(x) for x in r) for r in rows) + "]")
    L.append("")
    L.append("/-- interior mutability under skrifa/src/outline/** and skrifa/src/color/**: (file::fn::token, reviewed class) -/")
    L.append("def interiorSitesSrc : List (String × String) :=\n  [" + ",\n   ".join("(%s, %s)" % (lstr(k), lstr(c)) for k, c in site_rows) + "]")
    L.append("/-- lock protocol of the `Lazy` arm of `UnscaledStyleMetricsSet::get` -/")
    L.append("def lazyGetSrc : List String := [%s]" % ", ".join(lstr(x) for x in lazy))
    L.append("")
    L.append("end FontVerif.Gen.C12Wbr")
    os.makedirs(a.out, exist_ok=True)
    path = os.path.join(a.out, "C12Wbr.lean")
    new = "\n".join(L) + "\n"
    old = open(path).read() if os.path.exists(path) else None
    if old != new:
        open(path, "w").write(new)
    n_obl = 10 + len(fn_order) + 3   # segments of both scalers, callees, state table, site table, lazy protocol
    rep = {"obligations": n_obl,
           "samples": [{"persist": rows[:3]}, {"sites": site_rows[:3]}, {"lazy": lazy}],
           "unparsed": unparsed, "changed": old != new}
    json.dump(rep, open(a.report, "w"), indent=1)
    print("c12_wbr: %d callees, %d scalers, %d state rows, %d interior-mutability sites, lazy protocol %s, %d unparsed" %
          (len(fn_order), len(scalers), len(rows), len(site_rows), lazy, len(unparsed)))
    for u in unparsed[:40]:
        print("  UNPARSED", json.dumps(u)[:300])
    return 1 if unparsed else 0

if __name__ == "__main__":
    sys.exit(main())
