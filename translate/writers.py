#!/usr/bin/env python3
"""
translate/writers.py — C04 translator tie.

For every type that write-fonts generates a `FontWrite` impl for (write-fonts/generated/*.rs) and whose reader is
generated too (read-fonts/generated/*.rs, named by the `FromObjRef<read_fonts::tables::m::T>` impl), extract

  * the writer program: the statements of `write_into`, literally, in order            -> `List WF`
  * the reader layout: marker `*_byte_range` fns + the statements of `FontRead::read`   -> `List RF`
    (or, for fixed-size records, the `BigEndian<T>` fields of the packed struct)
  * the field names (reader side; writer statements that name a field are matched *by name*)

in the field DSL of lean/FontVerif/Model/Field.lean and emit

  <out>/WriteProgs.lean   per pair: `<m>_<T>_w`, `<m>_<T>_r`, `<m>_<T>_names`, `theorem <m>_<T>_compat : compat .. = true := by decide`
                          and the registry `allPairs` for the driver

Every statement / field is consumed by an anchored regular expression for one of the rigid codegen forms; a type
with any statement or field outside those forms is *not covered*: it is listed in the report with the reason
(`not_covered`), counted, and shown in the evidence (the harness reads the report).  A type that is covered in
the committed baseline `translate/writers_expected.json` but stops being covered is reported as `unparsed`
(breaks the check): coverage can only shrink deliberately.

usage: writers.py --repo /repo --out lean/FontVerif/Gen --report out.json [--write-baseline]
"""
import argparse, glob, json, os, re, sys

HERE = os.path.dirname(os.path.abspath(__file__))

# ------------------------------------------------------------------------------------------------
# text helpers

def strip_comments(src):
    return "\n".join(l for l in src.split("\n") if not l.strip().startswith("//"))

def tight(s):
    s = re.sub(r"\s+", " ", s).strip()
    s = re.sub(r" ?([^A-Za-z0-9_ ]) ?", r"\1", s)
    return s.replace(",)", ")").replace(",}", "}").replace(",>", ">")

def balanced(src, i, open_ch="{", close_ch="}"):
    assert src[i] == open_ch
    depth = 0
    j = i
    while j < len(src):
        c = src[j]
        if c == open_ch:
            depth += 1
        elif c == close_ch:
            depth -= 1
            if depth == 0:
                return j + 1
        j += 1
    raise ValueError("unbalanced")

def split_top(s, sep=","):
    parts, depth, cur = [], 0, ""
    prev = ""
    for ch in s:
        if ch in "([{":
            depth += 1
        elif ch in ")]}":
            depth -= 1
        elif ch == "<":
            depth += 1
        elif ch == ">" and prev not in "=-":
            depth -= 1
        if ch == sep and depth == 0:
            parts.append(cur)
            cur = ""
        else:
            cur += ch
        prev = ch
    if cur.strip() != "":
        parts.append(cur)
    return parts

def split_statements(body):
    """statements of a fn body: `…;` at depth 0, and `if let … { … }` blocks"""
    out, depth, cur = [], 0, ""
    i = 0
    while i < len(body):
        ch = body[i]
        if ch in "([{":
            depth += 1
        elif ch in ")]}":
            depth -= 1
        cur += ch
        if depth == 0 and ch == ";":
            out.append(cur[:-1])
            cur = ""
        elif depth == 0 and ch == "}" and cur.lstrip().startswith("if let"):
            out.append(cur)
            cur = ""
        i += 1
    if cur.strip():
        out.append(cur)
    return [tight(s) for s in out if s.strip()]

class NotCovered(Exception):
    pass

# ------------------------------------------------------------------------------------------------
# scalar types

BUILTIN = {
    "u8": (1, False), "i8": (1, True), "u16": (2, False), "i16": (2, True), "u32": (4, False),
    "i32": (4, True), "u64": (8, False), "i64": (8, True),
    "Uint24": (3, False), "Int24": (3, True), "Fixed": (4, True), "F2Dot14": (2, True),
    "F26Dot6": (4, True), "FWord": (2, True), "UfWord": (2, False), "LongDateTime": (8, True),
    "Tag": (4, False), "Version16Dot16": (4, False), "MajorMinor": (4, False),
    "GlyphId16": (2, False), "GlyphId": (4, False), "NameId": (2, False),
    "Offset16": (2, False), "Offset24": (3, False), "Offset32": (4, False),
}

class Types:
    def __init__(self, repo):
        self.scalar = dict(BUILTIN)
        self.flags = {}
        srcs = []
        for pat in ("read-fonts/generated/*.rs", "read-fonts/src/**/*.rs", "font-types/src/*.rs"):
            srcs += glob.glob(os.path.join(repo, pat), recursive=True)
        for f in sorted(srcs):
            txt = strip_comments(open(f).read())
            for m in re.finditer(r"impl\s+(?:[\w:]+::)?Scalar\s+for\s+(\w+)\s*\{\s*type\s+Raw\s*=\s*(\[u8;\s*\d+\]|[^;]+);", txt):
                name, raw = m.group(1), m.group(2).strip()
                m2 = re.match(r"<(\w+) as (?:[\w:]+::)?Scalar>::Raw", raw)
                m3 = re.match(r"\[u8;\s*(\d+)\]", raw)
                if m2 and m2.group(1) in BUILTIN:
                    self.scalar.setdefault(name, BUILTIN[m2.group(1)])
                elif m3:
                    self.scalar.setdefault(name, (int(m3.group(1)), False))
            for m in re.finditer(r"impl\s+(\w+)\s*\{", txt):
                ty = m.group(1)
                end = balanced(txt, m.end() - 1)
                body = txt[m.end():end]
                for c in re.finditer(r"pub const (\w+): Self = Self \{\s*bits: (0x[0-9a-fA-F_]+|0b[01_]+|\d[\d_]*)\s*,?\s*\};", body):
                    self.flags[(ty, c.group(1))] = int(c.group(2).replace("_", ""), 0)

    def size(self, ty):
        ty = re.sub(r"^Nullable<(\w+)>$", r"\1", ty)
        ty = re.sub(r"^BigEndian<(.+)>$", r"\1", ty)
        ty = re.sub(r"^Nullable<(\w+)>$", r"\1", ty)
        if ty in self.scalar:
            return self.scalar[ty][0]
        return None

    def unsigned(self, ty):
        return ty in self.scalar and not self.scalar[ty][1]

OFFSET_W = {None: 2, "WIDTH_16": 2, "WIDTH_24": 3, "WIDTH_32": 4}

def const_value(text):
    """value of the constant in `(C as T)`"""
    t = text.replace("_", "") if re.fullmatch(r"[0-9a-fA-Fx_]+", text) else text
    if re.fullmatch(r"\d+", t):
        return int(t)
    if re.fullmatch(r"0x[0-9a-fA-F]+", t):
        return int(t, 16)
    m = re.fullmatch(r"(\d+)\+(\d+)", text)
    if m:
        return int(m.group(1)) + int(m.group(2))
    m = re.fullmatch(r"MajorMinor::VERSION_(\d+)_(\d+)", text)
    if m:
        return (int(m.group(1)) << 16) | int(m.group(2))
    m = re.fullmatch(r"Version16Dot16::VERSION_(\d+)_(\d+)", text)
    if m:
        return (int(m.group(1)) << 16) | (int(m.group(2)) << 12)
    return None

# ------------------------------------------------------------------------------------------------
# conditions

def parse_cond(T, recv_ty, fn, arg):
    """-> Lean `Cond` text"""
    if fn == "compatible":
        m = re.fullmatch(r"\((\d+)u16,(\d+)u16\)", arg)
        if m:
            if recv_ty == "MajorMinor":
                return f".compatMM {m.group(1)} {m.group(2)}"
            if recv_ty == "Version16Dot16":
                return f".compatV16 {m.group(1)} {m.group(2)}"
            raise NotCovered(f"compatible((a,b)) on {recv_ty}")
        m = re.fullmatch(r"(\d+)u16", arg)
        if m and recv_ty == "u16":
            return f".geU16 {m.group(1)}"
        raise NotCovered(f"condition compatible({arg}) on {recv_ty}")
    if fn in ("contains", "intersects"):
        bits = 0
        for part in arg.split("|"):
            m = re.fullmatch(r"(\w+)::(\w+)", part)
            if not m or (m.group(1), m.group(2)) not in T.flags:
                raise NotCovered(f"flag constant {part}")
            bits |= T.flags[(m.group(1), m.group(2))]
        return f".{fn} {bits}"
    raise NotCovered(f"condition {fn}")

COND_RE = r"(\w+)\.(compatible|contains|intersects)\(((?:\([^()]*\)|[^()])*)\)"

# ------------------------------------------------------------------------------------------------
# reader side

class Reader:
    def __init__(self):
        self.tables = {}    # (mod, name) -> dict(fields=[...]) or dict(error=reason)
        self.records = {}   # (mod, name) -> [(fname, ty)]  fixed-size records
        self.rec_sizes = {}  # name -> [sizes]  (by bare name; None on conflict)

def parse_reader_file(T, mod, src, R):
    src = re.sub(r"#\[[^\]]*\]", "", src)
    # fixed-size records: `pub struct X { pub f: BigEndian<T>, … }` (no lifetime)
    for m in re.finditer(r"pub struct (\w+)\s*\{", src):
        name = m.group(1)
        if name.endswith("Marker"):
            continue
        end = balanced(src, m.end() - 1)
        body = re.sub(r"///.*", "", src[m.end():end - 1])
        fields, ok = [], True
        for fld in split_top(body, ","):
            fld = tight(fld)
            if not fld:
                continue
            mm = re.fullmatch(r"pub (\w+):(?:BigEndian<([\w<>]+)>|(u8))", fld)
            if mm and mm.group(3):
                mm = re.fullmatch(r"pub (\w+):()?(u8)", fld)
                fields.append((mm.group(1), "u8"))
                continue
            if not mm or T.size(mm.group(2)) is None:
                ok = False
                break
            fields.append((mm.group(1), mm.group(2)))
        if ok and fields:
            R.records[(mod, name)] = fields
            sizes = [T.size(t) for _, t in fields]
            if name in R.rec_sizes and R.rec_sizes[name] != sizes:
                R.rec_sizes[name] = None
            else:
                R.rec_sizes.setdefault(name, sizes)
    # tables
    for m in re.finditer(r"impl\s+(\w+)Marker\s*\{", src):
        name = m.group(1)
        end = balanced(src, m.end() - 1)
        try:
            R.tables[(mod, name)] = parse_reader_table(T, mod, name, src, src[m.end():end - 1], R)
        except NotCovered as e:
            R.tables[(mod, name)] = {"error": "reader: " + str(e)}

def elem_sizes(T, R, ty, mod=None):
    s = T.size(ty)
    if s is not None:
        return [s], False
    if (mod, ty) in R.records:
        return [T.size(t) for _, t in R.records[(mod, ty)]], True
    if R.rec_sizes.get(ty):
        return R.rec_sizes[ty], True
    raise NotCovered(f"array element type {ty} is not a scalar or a fixed-size record of scalars")

def parse_reader_count(T, expr):
    """count expression -> ('affine', var, a, b) | ('lit', n)"""
    m = re.fullmatch(r"\((\w+) as usize\)", expr)
    if m:
        return ("affine", m.group(1), 1, 0)
    m = re.fullmatch(r"\(transforms::subtract\((\w+),(\d+)_usize\)\)", expr)
    if m:
        return ("affine", m.group(1), 1, int(m.group(2)))
    m = re.fullmatch(r"\(transforms::half\((\w+)\)\)", expr)
    if m:
        return ("affine", m.group(1), 2, 0)
    m = re.fullmatch(r"\((\d+)_usize\)", expr)
    if m:
        return ("lit", int(m.group(1)))
    raise NotCovered(f"count expression {expr}")

def parse_reader_len(T, R, expr):
    """byte-length expression -> (count, elemty)"""
    m = re.fullmatch(r"(.+)\.checked_mul\((\w+)::RAW_BYTE_LEN\)\.ok_or\(ReadError::OutOfBounds\)\?", expr)
    if m:
        return parse_reader_count(T, m.group(1)), m.group(2)
    m = re.fullmatch(r"cursor\.remaining_bytes\(\)/(\w+)::RAW_BYTE_LEN\*(\w+)::RAW_BYTE_LEN", expr)
    if m and m.group(1) == m.group(2):
        return ("rest",), m.group(1)
    raise NotCovered(f"length expression {expr[:90]}")

def parse_reader_table(T, mod, name, src, marker_body, R):
    # 1. layout: the range fns in order
    layout = []
    for m in re.finditer(r"pub fn (\w+)_byte_range\(&self\)\s*->\s*(Option<Range<usize>>|Range<usize>)\s*\{", marker_body):
        e = balanced(marker_body, m.end() - 1)
        b = tight(marker_body[m.end():e - 1])
        fname, cond = m.group(1), m.group(2).startswith("Option")
        if cond:
            mm = re.fullmatch(r"let start=self\.%s_byte_start\?;Some\(start\.\.start\+(.+)\)" % fname, b)
        else:
            mm = re.fullmatch(r"let start=(?:0|self\.\w+_byte_range\(\)\.end|self\.\w+_byte_range\(\)\.map\(\|range\|range\.end\)(?:\.or_else\(\|\|self\.\w+_byte_range\(\)\.map\(\|range\|range\.end\)\))*\.unwrap_or_else\(\|\|self\.\w+_byte_range\(\)\.end\));start\.\.start\+(.+)", b)
        if not mm:
            raise NotCovered(f"range fn of {fname}: {b[:100]}")
        ln = mm.group(1)
        m2 = re.fullmatch(r"([\w<>]+)::RAW_BYTE_LEN", ln)
        if m2:
            layout.append((fname, cond, m2.group(1)))
        elif ln == f"self.{fname}_byte_len" + ("?" if cond else ""):
            layout.append((fname, cond, None))
        else:
            raise NotCovered(f"range length of {fname}: {ln}")
    # 2. the read body
    m = re.search(r"impl<'a>\s*FontRead<'a>\s+for\s+%s<'a>\s*\{" % name, src)
    if not m:
        raise NotCovered("no FontRead impl (reads with external arguments)")
    end = balanced(src, m.end() - 1)
    body = src[m.end():end]
    m2 = re.search(r"fn read\(data:\s*FontData<'a>\)\s*->\s*Result<Self,\s*ReadError>\s*\{", body)
    e2 = balanced(body, m2.end() - 1)
    stmts = split_statements(body[m2.end():e2 - 1])
    if not stmts or stmts[0] != "let mut cursor=data.cursor()":
        raise NotCovered("read body does not start with a cursor")
    stmts = stmts[1:]
    if not stmts or not stmts[-1].startswith("cursor.finish("):
        raise NotCovered("read body does not end with cursor.finish")
    stmts = stmts[:-1]
    var_ty = {}
    fields = []
    i = 0

    def take():
        nonlocal i
        if i >= len(stmts):
            raise NotCovered("read body ends early")
        s = stmts[i]
        i += 1
        return s

    for (fname, cond, cty) in layout:
        f = {"name": fname, "cond": None}
        if cond:
            s = take()
            mm = re.fullmatch(r"let %s_byte_start=%s\.then\(\|\|cursor\.position\(\)\)\.transpose\(\)\?" % (fname, COND_RE), s)
            if not mm:
                raise NotCovered(f"start marker of {fname}: {s[:100]}")
            cv, cfn, carg = mm.group(1), mm.group(2), mm.group(3)
            if cv not in var_ty:
                raise NotCovered(f"condition variable {cv} not read")
            f["cond"] = (cv, parse_cond(T, var_ty[cv], cfn, carg))
            ctext = f"{cv}.{cfn}({carg})"
        if cty is not None:
            sz = T.size(cty)
            if sz is None:
                raise NotCovered(f"field {fname}: type {cty} has no scalar size")
            s = take()
            if cond:
                if s == f"{ctext}.then(||cursor.advance::<{cty}>())":
                    pass
                elif s == f"let {fname}={ctext}.then(||cursor.read::<{cty}>()).transpose()?.unwrap_or_default()":
                    var_ty[fname] = cty
                else:
                    raise NotCovered(f"conditional scalar {fname}: {s[:100]}")
            else:
                if s == f"cursor.advance::<{cty}>()":
                    pass
                elif s == f"let {fname}:{cty}=cursor.read()?":
                    var_ty[fname] = cty
                else:
                    raise NotCovered(f"scalar {fname}: {s[:100]}")
            f.update(kind="scalar", ty=cty, size=sz)
        else:
            s = take()
            if cond:
                mm = re.fullmatch(r"let %s_byte_len=%s\.then_some\((.+)\)" % (fname, re.escape(ctext)), s)
            else:
                mm = re.fullmatch(r"let %s_byte_len=(.+)" % fname, s)
            if not mm:
                raise NotCovered(f"length of {fname}: {s[:100]}")
            cnt, ety = parse_reader_len(T, R, mm.group(1))
            if cnt[0] == "affine":
                if cnt[1] not in var_ty:
                    raise NotCovered(f"count variable {cnt[1]} not read")
                if not T.unsigned(var_ty[cnt[1]]):
                    raise NotCovered(f"count variable {cnt[1]} has signed/unknown type {var_ty[cnt[1]]}")
            sizes, isrec = elem_sizes(T, R, ety, mod)
            s = take()
            if cond:
                ok = s == "if let Some(value)=%s_byte_len{cursor.advance_by(value);}" % fname
            else:
                ok = s == f"cursor.advance_by({fname}_byte_len)"
            if not ok:
                raise NotCovered(f"advance of {fname}: {s[:100]}")
            f.update(kind="array", count=cnt, elem=sizes, elemty=ety, isrec=isrec)
        fields.append(f)
    if i != len(stmts):
        raise NotCovered(f"unconsumed read statement: {stmts[i][:100]}")
    # 3. getters: which fields are visible, and element type of arrays must agree
    m = re.search(r"impl<'a>\s*%s<'a>\s*\{" % name, src)
    getters = set()
    if m:
        e = balanced(src, m.end() - 1)
        for g in re.finditer(r"pub fn (\w+)\(&self\)\s*->\s*([^{]+)\{", src[m.end():e]):
            getters.add(g.group(1))
            gname, gty = g.group(1), tight(g.group(2))
            for f in fields:
                if f["name"] == gname and f["kind"] == "array":
                    e_ = f['elemty']
                    want = set()
                    for inner in (f"BigEndian<{e_}>", e_, f"BigEndian<Nullable<{e_}>>"):
                        want |= {f"&'a[{inner}]", f"Option<&'a[{inner}]>"}
                    if gty not in want:
                        raise NotCovered(f"getter of {gname} returns {gty}")
    for f in fields:
        f["getter"] = f["name"] in getters
    return {"fields": fields, "statements": len(stmts) + 2}

# ------------------------------------------------------------------------------------------------
# writer side

def parse_writer_file(T, mod, src):
    """-> {name: dict(fields={fname: type}, stmts=[...], reader=(mod, name)|None)}"""
    src = re.sub(r"#\[[^\]]*\]", "", src)
    structs = {}
    for m in re.finditer(r"pub struct (\w+)(<[^>{]*>)?\s*\{", src):
        end = balanced(src, m.end() - 1)
        body = re.sub(r"///.*", "", src[m.end():end - 1])
        fields = {}
        for fld in split_top(body, ","):
            fld = tight(fld)
            mm = re.fullmatch(r"pub (\w+):(.*)", fld)
            if mm:
                fields[mm.group(1)] = mm.group(2)
        structs[m.group(1)] = {"fields": fields, "generic": bool(m.group(2))}
    out = {}
    for m in re.finditer(r"impl(<[^>{]*>)?\s+FontWrite\s+for\s+(\w+)(<[^>{]*>)?\s*\{", src):
        name = m.group(2)
        end = balanced(src, m.end() - 1)
        body = src[m.end():end]
        m2 = re.search(r"fn write_into\(&self,\s*writer:\s*&mut TableWriter\)\s*\{", body)
        if not m2 or name not in structs:
            continue    # enums / scalars (format dispatch, bitflags): no field layout of their own
        e2 = balanced(body, m2.end() - 1)
        stmts = split_statements(body[m2.end():e2 - 1])
        rd = re.search(r"FromObjRef<read_fonts::tables::(\w+)::(\w+)(?:<[^>]*>)?>\s+for\s+%s\b" % name, src)
        fo = None
        if rd:
            # the struct literal of `from_obj_ref`: `field: obj.getter(..)…`
            mfo = re.search(r"FromObjRef<read_fonts::tables::\w+::\w+(?:<[^>]*>)?>\s+for\s+%s\s*\{" % name, src)
            e = balanced(src, mfo.end() - 1) if mfo else None
            ml = re.search(r"\b%s\s*\{" % name, src[mfo.end():e]) if mfo else None
            if ml:
                ls = mfo.end() + ml.end() - 1
                le = balanced(src, ls)
                fo = {}
                for part in split_top(src[ls + 1:le - 1], ","):
                    part = tight(part)
                    mm = re.fullmatch(r"(\w+):(.*)", part)
                    if mm:
                        fo[mm.group(1)] = mm.group(2)
        out[name] = {"fields": structs[name]["fields"], "generic": structs[name]["generic"] or bool(m.group(1)),
                     "stmts": stmts, "reader": (rd.group(1), rd.group(2)) if rd else None, "from_obj": fo}
    return out

def writer_field_item(T, W, mod, fty):
    """type of an owned field -> ('scalar', size, isoffset) | ('array', sizes, fixed, isrec)"""
    m = re.fullmatch(r"(?:Nullable)?OffsetMarker<(.+)>", fty)
    if m:
        args = split_top(m.group(1), ",")
        w = args[1] if len(args) > 1 else None
        if w not in OFFSET_W:
            raise NotCovered(f"offset width {w}")
        return ("scalar", OFFSET_W[w], True)
    s = T.size(fty)
    if s is not None:
        return ("scalar", s, False)
    m = re.fullmatch(r"\[u8;(\d+)\]", fty)
    if m:
        return ("array", [1], int(m.group(1)), False)
    m = re.fullmatch(r"Vec<(.+)>", fty)
    if m:
        inner = m.group(1)
        it = None
        try:
            it = writer_field_item(T, W, mod, inner)
        except NotCovered:
            pass
        if it and it[0] == "scalar":
            return ("array", [it[1]], None, False)
        sizes = writer_record_sizes(T, W, mod, inner)
        return ("array", sizes, None, True)
    raise NotCovered(f"field type {fty}")

def writer_record_sizes(T, W, mod, rname):
    """a record written element-wise: every statement `self.f.write_into(writer)` of a scalar / offset field"""
    rec = W.get(mod, {}).get(rname)
    if rec is None:
        for m2, d in W.items():
            if rname in d:
                rec = d[rname]
                mod = m2
                break
    if rec is None:
        raise NotCovered(f"element type {rname} has no generated writer")
    sizes = []
    for s in rec["stmts"]:
        mm = re.fullmatch(r"self\.(\w+)\.write_into\(writer\)", s)
        if not mm or mm.group(1) not in rec["fields"]:
            raise NotCovered(f"element record {rname}: statement {s[:80]}")
        it = writer_field_item(T, W, mod, rec["fields"][mm.group(1)])
        if it[0] != "scalar":
            raise NotCovered(f"element record {rname} has a non-scalar field {mm.group(1)}")
        sizes.append(it[1])
    return sizes

COUNT_RES = [
    (r"\((u16|u32|u8)::try_from\(array_len\(&self\.(\w+)\)\)\.unwrap\(\)\)", 1, 0),
    (r"\((u16|u32|u8)::try_from\(plus_one\(&self\.(\w+)\.len\(\)\)\)\.unwrap\(\)\)", 1, 1),
    (r"\((u16|u32|u8)::try_from\(2\*array_len\(&self\.(\w+)\)\)\.unwrap\(\)\)", 2, 0),
]

def parse_writer(T, W, mod, name, wd, computed_ids):
    """-> list of statements: dict(name|None, cond, kind, …)"""
    out = []
    version_ty = None
    version_src = None
    fields = wd["fields"]

    def scalar_stmt(expr):
        """`EXPR.write_into(writer)` for a scalar-valued EXPR"""
        nonlocal version_ty, version_src
        if expr == "version":
            if version_src is None:
                raise NotCovered("version local used before its let")
            d = dict(version_src)
            d["is_version"] = True
            return d
        mm = re.fullmatch(r"self\.(\w+)", expr)
        if mm:
            fname = mm.group(1)
            if fname not in fields:
                raise NotCovered(f"unknown field {fname}")
            fty = fields[fname]
            mo = re.fullmatch(r"Option<(.+)>", fty)
            it = writer_field_item(T, W, mod, mo.group(1) if mo else fty)
            if it[0] == "scalar":
                return {"name": fname, "kind": "scalar", "src": ".field", "size": it[1], "offset": it[2], "opt": bool(mo), "ty": fty}
            return {"name": fname, "kind": "array", "elem": it[1], "fixed": it[2], "isrec": it[3], "opt": bool(mo)}
        for (rx, a, b) in COUNT_RES:
            mm = re.fullmatch(rx, expr)
            if mm:
                aty = fields.get(mm.group(2), "")
                if not re.fullmatch(r"(?:Option<)?Vec<.+>", aty):
                    # the array lives behind an offset (`OffsetMarker<Vec<T>>`): its length is not a property of
                    # this table's own bytes — treated like a hand-written computed field
                    k = computed_ids.setdefault(f"{name}::len({mm.group(2)})", len(computed_ids))
                    return {"name": None, "kind": "scalar", "src": f".computed {k}", "size": T.size(mm.group(1)),
                            "computed": f"len({mm.group(2)})"}
                return {"name": None, "kind": "scalar", "src": ("count", mm.group(2), a, b), "size": T.size(mm.group(1))}
        mm = re.fullmatch(r"\(self\.(\w+)\(\)as (\w+)\)", expr)
        if mm:
            sz = T.size(mm.group(2))
            if sz is None:
                raise NotCovered(f"computed field of type {mm.group(2)}")
            k = computed_ids.setdefault(f"{name}::{mm.group(1)}", len(computed_ids))
            return {"name": None, "kind": "scalar", "src": f".computed {k}", "size": sz, "computed": mm.group(1), "ty": mm.group(2)}
        mm = re.fullmatch(r"\((.+) as (\w+)\)", expr)
        if mm:
            v = const_value(mm.group(1))
            sz = T.size(mm.group(2))
            if v is None or sz is None:
                raise NotCovered(f"constant {expr}")
            return {"name": None, "kind": "scalar", "src": f".const {v}", "size": sz, "ty": mm.group(2)}
        raise NotCovered(f"written expression {expr[:80]}")

    for s in wd["stmts"]:
        mm = re.fullmatch(r"let version=(.+)", s)
        if mm:
            e = mm.group(1)
            m3 = re.fullmatch(r"self\.(\w+)", e)
            if m3:
                version_src = scalar_stmt(e)
                version_ty = fields.get(m3.group(1))
            else:
                m4 = re.fullmatch(r"(.+?) ?as (\w+)", e)
                if not m4:
                    raise NotCovered(f"version expression {e}")
                version_src = scalar_stmt("(" + e + ")")
                version_ty = m4.group(2)
            continue
        mm = re.fullmatch(r"(.+)\.write_into\(writer\)", s)
        if mm and not re.match(COND_RE + r"\.then", s):
            d = scalar_stmt(mm.group(1))
            d["cond"] = None
            if d.get("opt"):
                raise NotCovered(f"Option field {d['name']} written unconditionally")
            out.append(d)
            continue
        mm = re.fullmatch(COND_RE + r"\.then\(\|\|(.+)\)", s)
        if mm:
            recv, cfn, carg, inner = mm.groups()
            if recv == "version":
                if version_ty is None:
                    raise NotCovered("condition on version before its let")
                cond = ("version", parse_cond(T, version_ty, cfn, carg))
            else:
                raise NotCovered(f"condition receiver {recv}")
            m5 = re.fullmatch(r'\{self\.(\w+)\.as_ref\(\)\.expect\("missing conditional field should have failed validation"\)\.write_into\(writer\)\}', inner)
            m6 = re.fullmatch(r"(.+)\.write_into\(writer\)", inner)
            if m5:
                d = scalar_stmt("self." + m5.group(1))
                if not d.get("opt"):
                    raise NotCovered(f"expect() on non-Option field {m5.group(1)}")
            elif m6:
                d = scalar_stmt(m6.group(1))
                if d.get("opt"):
                    raise NotCovered(f"Option field {d['name']} written without expect")
            else:
                raise NotCovered(f"conditional statement {inner[:80]}")
            d["cond"] = cond
            out.append(d)
            continue
        mm = re.fullmatch(r"self\.(\w+)\.(contains|intersects)\(([^()]*)\)\.then\(\|\|(.+)\)", s)
        if mm:
            recv, cfn, carg, inner = mm.groups()
            if recv not in fields:
                raise NotCovered(f"unknown flags field {recv}")
            cond = (recv, parse_cond(T, fields[recv], cfn, carg))
            m5 = re.fullmatch(r'\{self\.(\w+)\.as_ref\(\)\.expect\("missing conditional field should have failed validation"\)\.write_into\(writer\)\}', inner)
            if not m5:
                raise NotCovered(f"conditional statement {inner[:80]}")
            d = scalar_stmt("self." + m5.group(1))
            if not d.get("opt"):
                raise NotCovered(f"expect() on non-Option field {m5.group(1)}")
            d["cond"] = cond
            out.append(d)
            continue
        raise NotCovered(f"writer statement {s[:100]}")
    return out

# ------------------------------------------------------------------------------------------------
# pairing and emission

def remove_offset_from_field_name(name):
    """font-codegen/src/fields.rs::remove_offset_from_field_name (thing_offset -> thing, thing_offsets -> things)"""
    if not (name.endswith("_offset") or name.endswith("_offsets")):
        return name
    if name.endswith("s"):
        temp = name
        while temp.endswith("_offsets"):
            temp = temp[:-len("_offsets")]
        if temp.endswith("attach") or temp.endswith("patch"):
            return temp + "es"
        if temp.endswith("data"):
            return temp
        return temp + "s"
    temp = name
    while temp.endswith("_offset"):
        temp = temp[:-len("_offset")]
    return temp

def is_offset_ty(ty):
    return ty is not None and re.fullmatch(r"(?:Nullable<)?Offset(16|24|32)>?", ty) is not None

def lean_list(xs):
    return "[" + ", ".join(xs) + "]"

def lean_opt_cond(c):
    return "none" if c is None else f"(some ({c[0]}, {c[1]}))"

def build_pair(T, W, R, mod, name, wd, computed_ids):
    if wd["generic"]:
        raise NotCovered("generic type")
    rkey = wd["reader"] or (mod, name)
    wst = parse_writer(T, W, mod, name, wd, computed_ids)
    # reader layout
    if rkey in R.tables:
        rt = R.tables[rkey]
        if "error" in rt:
            raise NotCovered(rt["error"])
        rfields = rt["fields"]
        kind = "table"
    elif rkey in R.records:
        rfields = [{"name": n, "cond": None, "kind": "scalar", "ty": t, "size": T.size(t), "getter": True}
                   for (n, t) in R.records[rkey]]
        kind = "record"
    else:
        raise NotCovered(f"reader {rkey[0]}::{rkey[1]} is not a generated table marker or fixed-size record")
    # `from_obj_ref` (the third generated piece): every owned field must be converted from the getter of the same name
    # (`f: obj.f()`, `f: obj.f().to_owned_obj(..)`, `f: obj.f().to_owned_table()`, `f: convert(obj.f())` …)
    if wd.get("from_obj") is not None:
        for d in wst:
            if d.get("name") and (d["kind"] == "array" or d.get("src") == ".field"):
                e = wd["from_obj"].get(d["name"])
                if e is None or not re.search(r"\bobj\.%s\((?:offset_data)?\)" % d["name"], e):
                    raise NotCovered(f"from_obj_ref converts field {d['name']} from: {e}")
    names = [f["name"] for f in rfields]
    # the writer names an offset field without its `_offset(s)` suffix (codegen rule, transcribed above)
    mnames = [remove_offset_from_field_name(f["name"]) if is_offset_ty(f.get("ty") if f["kind"] == "scalar" else f.get("elemty")) else f["name"]
              for f in rfields]
    ids = {n: i for i, n in enumerate(mnames)}
    extra = []

    def fid(n):
        if n not in ids:
            ids[n] = len(ids)
            extra.append(n)
        return ids[n]

    # writer statements
    wl = []
    winfo = {}     # id -> ('field',) | ('count', arrid, a, b) | ('array', fixed) | ('other',)   (unconditional statements only)
    version_pos = None
    for pos, d in enumerate(wst):
        i = fid(d["name"]) if d["name"] is not None else pos
        if d.get("is_version"):
            version_pos = i
        cond = None
        if d["cond"] is not None:
            recv, ctext = d["cond"]
            if recv == "version":
                if version_pos is None:
                    raise NotCovered("condition on version before it is written")
                cond = (version_pos, ctext)
            else:
                cond = (fid(recv), ctext)
        if d["kind"] == "scalar":
            src = d["src"]
            info = ("field",) if src == ".field" else ("other",)
            if isinstance(src, tuple):
                info = ("count", fid(src[1]), src[2], src[3])
                src = f".count {fid(src[1])} {src[2]} {src[3]}"
            item = f".scalar ({src}) {d['size']}"
        else:
            fixed = "none" if d["fixed"] is None else f"(some {d['fixed']})"
            item = f".array {lean_list([str(x) for x in d['elem']])} {fixed}"
            info = ("array", d["fixed"])
        if cond is None:
            winfo[i] = info
        else:
            winfo[i] = ("cond",) + info
        wl.append(f"⟨{i}, {lean_opt_cond(cond)}, {item}⟩")
    # reader fields
    rl = []
    assumes, assume_text = [], []
    for i, f in enumerate(rfields):
        cond = None
        if f["cond"] is not None:
            cv, ctext = f["cond"]
            if cv not in ids:
                raise NotCovered(f"reader condition variable {cv} is not a field")
            cond = (ids[cv], ctext)
        if f["kind"] == "scalar":
            item = f".scalar {f['size']}"
        else:
            c = f["count"]
            if c[0] == "affine":
                if c[1] not in ids:
                    raise NotCovered(f"reader count variable {c[1]} is not a field")
                g = ids[c[1]]
                cnt = f"(.affine {g} {c[2]} {c[3]})"
                wi = winfo.get(g, ("missing",))
                if wi == ("count", i, c[2], c[3]):
                    pass
                elif wi == ("field",):
                    assumes.append(f".fieldIsCount {g} {i} {c[2]} {c[3]}")
                    assume_text.append(f"{names[g]} = " + (f"{c[2]} * " if c[2] != 1 else "") + f"len({names[i]})" + (f" + {c[3]}" if c[3] else ""))
                elif wi[0] == "count" and wi[2:] == (c[2], c[3]):
                    assumes.append(f".sameLen {i} {wi[1]}")
                    assume_text.append(f"len({names[i]}) = len({(names + extra)[wi[1]]})")
                else:
                    raise NotCovered(f"reader sizes {names[i]} with {names[g]}, which the writer writes as {wi}")
            elif c[0] == "lit":
                cnt = f"(.lit {c[1]})"
                wi = winfo.get(i, ("missing",))
                if wi == ("array", None):
                    assumes.append(f".lenIs {i} {c[1]}")
                    assume_text.append(f"len({names[i]}) = {c[1]}")
            else:
                cnt = ".rest"
            item = f".array {cnt} {lean_list([str(x) for x in f['elem']])}"
        rl.append(f"⟨{i}, {lean_opt_cond(cond)}, {item}⟩")
    shown = []
    for f in rfields:
        if f["kind"] == "array":
            shown.append("R" if f.get("isrec") else "A")
        else:
            shown.append("S")
    # hidden from the correspondence rendering: fields without a getter, and scalars wider than 8 bytes (the
    # traversal renders them as `Unknown`)
    hidden = [(not f.get("getter", True)) or (f["kind"] == "scalar" and f["size"] > 8) for f in rfields]
    return {"kind": kind, "assumes": assumes, "assume_text": assume_text, "names": names + extra, "w": wl, "r": rl, "show": shown, "hidden": hidden,
            "computed": [d["computed"] for d in wst if d.get("computed")],
            "nstmts": len(wd["stmts"]), "reader": rkey}

def main():
    ap = argparse.ArgumentParser()
    ap.add_argument("--repo", default="/repo")
    ap.add_argument("--out", required=True)
    ap.add_argument("--report", required=True)
    ap.add_argument("--write-baseline", action="store_true")
    a = ap.parse_args()
    T = Types(a.repo)
    R = Reader()
    rfiles = sorted(glob.glob(os.path.join(a.repo, "read-fonts/generated/generated_*.rs")))
    # two passes so record sizes of every module are known before tables are parsed
    rsrc = {}
    for f in rfiles:
        mod = os.path.basename(f)[len("generated_"):-3]
        rsrc[mod] = strip_comments(open(f).read())
    for mod, src in rsrc.items():
        tmp = Reader()
        parse_reader_file(T, mod, src, tmp)
        R.records.update(tmp.records)
        for k, v in tmp.rec_sizes.items():
            if k in R.rec_sizes and R.rec_sizes[k] != v:
                R.rec_sizes[k] = None
            else:
                R.rec_sizes.setdefault(k, v)
    for mod, src in rsrc.items():
        tmp = Reader()
        tmp.rec_sizes = R.rec_sizes
        tmp.records = R.records
        parse_reader_file(T, mod, src, tmp)
        R.tables.update(tmp.tables)
    W = {}
    for f in sorted(glob.glob(os.path.join(a.repo, "write-fonts/generated/generated_*.rs"))):
        mod = os.path.basename(f)[len("generated_"):-3]
        W[mod] = parse_writer_file(T, mod, strip_comments(open(f).read()))
    covered, not_covered = {}, {}
    computed_ids = {}
    total = 0
    stmts_consumed = 0
    for mod in sorted(W):
        for name in sorted(W[mod]):
            total += 1
            key = f"{mod}_{name}"
            try:
                covered[key] = build_pair(T, W, R, mod, name, W[mod][name], computed_ids)
                covered[key]["type"] = name
                stmts_consumed += covered[key]["nstmts"]
            except NotCovered as e:
                not_covered[key] = str(e)
    # driver lookup is by bare type name: drop ambiguous names from the registry (still proved)
    by_name = {}
    for k, v in covered.items():
        by_name.setdefault(v["type"], []).append(k)
    # ---- Lean
    L = []
    L.append("/- GENERATED by translate/writers.py from write-fonts/generated/*.rs and read-fonts/generated/*.rs — do not edit -/")
    L.append("import FontVerif.Model.Field")
    L.append("set_option maxRecDepth 8192")
    L.append("namespace FontVerif.Gen.WriteProgs")
    L.append("open FontVerif.Field")
    L.append("")
    for k in sorted(covered):
        v = covered[k]
        L.append(f"/-- `{v['type']}` (write-fonts generated_{k.split('_')[0]}.rs ↔ read-fonts {v['reader'][0]}::{v['reader'][1]}, {v['kind']}) -/")
        L.append(f"def {k}_w : List WF := {lean_list(v['w'])}")
        L.append(f"def {k}_r : List RF := {lean_list(v['r'])}")
        if v["assumes"]:
            L.append(f"/-- holds only for values with: {'; '.join(v['assume_text'])} (not established by the generated writer) -/")
            L.append(f"def {k}_assumes : List Assume := {lean_list(v['assumes'])}")
            L.append(f"theorem {k}_compat_under : compatU {k}_assumes {k}_w {k}_r = true := by decide +kernel")
        else:
            L.append(f"theorem {k}_compat : compat {k}_w {k}_r = true := by decide +kernel")
        L.append("")
    L.append("/-- registry for the driver: type name ↦ (field names, per reader field: S scalar / A scalar array / R record array, hidden, writer, reader) -/")
    L.append("def allPairs : List (String × List String × List String × List Bool × List WF × List RF) := [")
    rows = []
    for k in sorted(covered):
        v = covered[k]
        if len(by_name[v["type"]]) != 1:
            continue
        names = lean_list(['"%s"' % n for n in v["names"]])
        show = lean_list(['"%s"' % s for s in v["show"]])
        hid = lean_list(["true" if h else "false" for h in v["hidden"]])
        rows.append(f'  ("{v["type"]}", {names}, {show}, {hid}, {k}_w, {k}_r)')
    L.append(",\n".join(rows))
    L.append("]")
    L.append("")
    L.append("def computedNames : List String := " + lean_list(['"%s"' % n for n in sorted(computed_ids, key=lambda n: computed_ids[n])]))
    L.append("")
    L.append("end FontVerif.Gen.WriteProgs")
    text = "\n".join(L) + "\n"
    os.makedirs(a.out, exist_ok=True)
    path = os.path.join(a.out, "WriteProgs.lean")
    if not os.path.exists(path) or open(path).read() != text:
        open(path, "w").write(text)
    # ---- link to the C01 reader shapes (translate/shapes.py output), when present
    shapes_path = os.path.join(a.out, "ReadShapes.lean")
    shape_names = set()
    if os.path.exists(shapes_path):
        for f in glob.glob(os.path.join(a.out, "ReadShapes*.lean")):
            shape_names |= set(re.findall(r"^def (\w+)_shape : Shape :=", open(f).read(), flags=re.M))
    linked, unlinked = [], []
    K = []
    K.append("/- GENERATED by translate/writers.py — the reader layouts of Gen/WriteProgs.lean agree structurally with the C01 reader shapes of Gen/ReadShapes*.lean (translate/shapes.py) — do not edit -/")
    K.append("import FontVerif.Model.FieldShape")
    K.append("import FontVerif.Gen.WriteProgs")
    K.append("import FontVerif.Gen.ReadShapes")
    K.append("set_option maxRecDepth 8192")
    K.append("namespace FontVerif.Gen.WriteProgsLink")
    K.append("open FontVerif.FieldShape FontVerif.Gen")
    K.append("")
    for k in sorted(covered):
        v = covered[k]
        if v["kind"] != "table":
            continue
        sn = f"{v['reader'][0]}_{v['reader'][1]}"
        if sn in shape_names:
            K.append(f"theorem {k}_reader_agrees : agrees ReadShapes.{sn}_shape WriteProgs.{k}_r = true := by decide +kernel")
            linked.append(k)
        else:
            unlinked.append(k)
    K.append("")
    K.append("end FontVerif.Gen.WriteProgsLink")
    ktext = "\n".join(K) + "\n"
    kpath = os.path.join(a.out, "WriteProgsLink.lean")
    if not os.path.exists(kpath) or open(kpath).read() != ktext:
        open(kpath, "w").write(ktext)
    # ---- report
    reasons = {}
    for k, r in not_covered.items():
        g = re.sub(r"\b[a-z_0-9]+\b(?=:|$)", "…", r.split(":")[0]) if ":" in r else r
        reasons[g] = reasons.get(g, 0) + 1
    base_path = os.path.join(HERE, "writers_expected.json")
    unparsed = []
    cov_names = sorted(covered)
    if a.write_baseline:
        json.dump({"covered": cov_names}, open(base_path, "w"), indent=0)
    if os.path.exists(base_path):
        base = json.load(open(base_path))["covered"]
        for k in base:
            if k not in covered:
                unparsed.append({"type": k, "reason": "covered in the committed baseline but no longer: " + not_covered.get(k, "type disappeared")})
    else:
        unparsed.append({"type": "*", "reason": "translate/writers_expected.json missing"})
    rep = {
        "obligations": 0,  # the per-pair theorems are counted from Gen/WriteProgs.lean by ./check
        "writers_in_generated": total,
        "pairs_translated": len(covered),
        "pairs_not_covered": len(not_covered),
        "writer_statements_consumed": stmts_consumed,
        "covered": sorted(set(v["type"] for k, v in covered.items() if len(by_name[v["type"]]) == 1)),
        "covered_pairs": cov_names,
        "computed_fields": sorted(computed_ids),
        "reader_layouts_linked_to_C01_shapes": len(linked),
        "reader_layouts_without_C01_shape": unlinked,
        "pairs_unconditional": len([k for k in covered if not covered[k]["assumes"]]),
        "assumed": {k: covered[k]["assume_text"] for k in cov_names if covered[k]["assumes"]},
        "not_covered": not_covered,
        "not_covered_reasons": dict(sorted(reasons.items(), key=lambda kv: -kv[1])),
        "samples": [{"pair": k, "writer": covered[k]["w"][:6], "reader": covered[k]["r"][:6]} for k in cov_names[:3]],
        "unparsed": unparsed,
    }
    json.dump(rep, open(a.report, "w"), indent=1)
    print(f"writers.py: {len(covered)} of {total} generated writers translated, {len(not_covered)} not covered, {len(unparsed)} regressions")
    return 0

if __name__ == "__main__":
    sys.exit(main())
