#!/usr/bin/env python3
"""
translate/writers.py — C04 translator tie.

For every type that write-fonts generates a `FontWrite` impl for (write-fonts/generated/*.rs) and whose reader is
generated too (read-fonts/generated/*.rs, named by the `FromObjRef<read_fonts::tables::m::T>` impl), extract

  * the writer program: the statements of `write_into`, literally, in order            -> `List WF`
  * the reader layout: marker `*_byte_range` fns + the statements of `FontRead::read`   -> `List RF`
    (or, for fixed-size records, the `BigEndian<T>` fields of the packed struct)
  * the field names (reader side; writer statements that name a field are matched *by name*)

in the field DSL of lean/FontVerif/Model/Field.lean and emit

  <out>/WriteProgs.lean   per pair: `<m>_<T>_w`, `<m>_<T>_r`, `<m>_<T>_assumes`,
                          `theorem <m>_<T>_compat : compat .. = true := by decide +kernel` (or `_compat_under : compatU ..`),
                          per format enum: `<m>_<E>_variants`, `theorem <m>_<E>_dispatch : enumCompat hw .. = true`,
                          and the registry `allPairs` for the driver
  <out>/WriteProgsLink.lean  per table pair with a C01 shape: `agrees customNames <shape> <m>_<T>_r = true`

Every statement / field is consumed by an anchored regular expression for one of the rigid codegen forms; a type
with any statement or field outside those forms is *not covered*: it is listed in the report with the reason
(`not_covered`), counted, and shown in the evidence (the harness reads the report).  A type that is covered in
the committed baseline `translate/writers_expected.json` but stops being covered is reported as `unparsed`
(breaks the check): coverage can only shrink deliberately.

Round 4 forms (see Model/Field.lean): readers with external arguments (`FontReadWithArgs`, `ReadArgs`: arguments are
view entries `ARG_BASE + i`), records read with arguments, generated `ComputeSize` impls (element layouts as segments;
the hand-written `ValueRecord` size is built in), `VarSize` / `VarLenArray` (hand-written `SegmentMaps`), count
transforms and hand-written count functions (`NExpr`; `CUSTOM_FNS`), generic tables whose parameter only names an
offset target (`LookupList<T>`), enum constants, `compile_*` fns without a cast, format enums (`match self` /
`match format`).  Hand-written source that Model/Field.lean / this file transcribe is tied by token hash
(`hand_hashes` in the baseline): a change is a regression until re-reviewed.  The report also carries `child_args`
(generated getters that pass arguments to a child table) for the harness walk.

usage: writers.py --repo /repo --out lean/FontVerif/Gen --report out.json [--write-baseline]
"""
import argparse, glob, json, os, re, sys

HERE = os.path.dirname(os.path.abspath(__file__))

# ------------------------------------------------------------------------------------------------
# text helpers

def strip_comments(src):
    return "\n".join(l for l in src.split("\n") if not l.strip().startswith("//"))

def tight(s):
    s = re.sub(r"\s+", " ", s).strip()
    s = re.sub(r" ?([^A-Za-z0-9_ ]) ?", r"\1", s)
    return s.replace(",)", ")").replace(",}", "}").replace(",>", ">")

def balanced(src, i, open_ch="{", close_ch="}"):
    assert src[i] == open_ch
    depth = 0
    j = i
    while j < len(src):
        c = src[j]
        if c == open_ch:
            depth += 1
        elif c == close_ch:
            depth -= 1
            if depth == 0:
                return j + 1
        j += 1
    raise ValueError("unbalanced")

def split_top(s, sep=","):
    parts, depth, cur = [], 0, ""
    prev = ""
    for ch in s:
        if ch in "([{":
            depth += 1
        elif ch in ")]}":
            depth -= 1
        elif ch == "<":
            depth += 1
        elif ch == ">" and prev not in "=-":
            depth -= 1
        if ch == sep and depth == 0:
            parts.append(cur)
            cur = ""
        else:
            cur += ch
        prev = ch
    if cur.strip() != "":
        parts.append(cur)
    return parts

def split_statements(body):
    """statements of a fn body: `…;` at depth 0, and `if let … { … }` blocks"""
    out, depth, cur = [], 0, ""
    i = 0
    while i < len(body):
        ch = body[i]
        if ch in "([{":
            depth += 1
        elif ch in ")]}":
            depth -= 1
        cur += ch
        if depth == 0 and ch == ";":
            out.append(cur[:-1])
            cur = ""
        elif depth == 0 and ch == "}" and cur.lstrip().startswith("if let"):
            out.append(cur)
            cur = ""
        i += 1
    if cur.strip():
        out.append(cur)
    return [tight(s) for s in out if s.strip()]

class NotCovered(Exception):
    pass

# ------------------------------------------------------------------------------------------------
# scalar types

BUILTIN = {
    "u8": (1, False), "i8": (1, True), "u16": (2, False), "i16": (2, True), "u32": (4, False),
    "i32": (4, True), "u64": (8, False), "i64": (8, True),
    "Uint24": (3, False), "Int24": (3, True), "Fixed": (4, True), "F2Dot14": (2, True),
    "F26Dot6": (4, True), "FWord": (2, True), "UfWord": (2, False), "LongDateTime": (8, True),
    "Tag": (4, False), "Version16Dot16": (4, False), "MajorMinor": (4, False),
    "GlyphId16": (2, False), "GlyphId": (4, False), "NameId": (2, False),
    "Offset16": (2, False), "Offset24": (3, False), "Offset32": (4, False),
}

class Types:
    def __init__(self, repo):
        self.scalar = dict(BUILTIN)
        self.flags = {}
        srcs = []
        for pat in ("read-fonts/generated/*.rs", "read-fonts/src/**/*.rs", "font-types/src/*.rs"):
            srcs += glob.glob(os.path.join(repo, pat), recursive=True)
        for f in sorted(srcs):
            txt = strip_comments(open(f).read())
            for m in re.finditer(r"impl\s+(?:[\w:]+::)?Scalar\s+for\s+(\w+)\s*\{\s*type\s+Raw\s*=\s*(\[u8;\s*\d+\]|[^;]+);", txt):
                name, raw = m.group(1), m.group(2).strip()
                m2 = re.match(r"<(\w+) as (?:[\w:]+::)?Scalar>::Raw", raw)
                m3 = re.match(r"\[u8;\s*(\d+)\]", raw)
                if m2 and m2.group(1) in BUILTIN:
                    self.scalar.setdefault(name, BUILTIN[m2.group(1)])
                elif m3:
                    self.scalar.setdefault(name, (int(m3.group(1)), False))
            for m in re.finditer(r"impl\s+(\w+)\s*\{", txt):
                ty = m.group(1)
                end = balanced(txt, m.end() - 1)
                body = txt[m.end():end]
                for c in re.finditer(r"pub const (\w+): Self = Self \{\s*bits: (0x[0-9a-fA-F_]+|0b[01_]+|\d[\d_]*)\s*,?\s*\};", body):
                    self.flags[(ty, c.group(1))] = int(c.group(2).replace("_", ""), 0)

        # `pub enum X { A = 0x0001, … }` (scalar enums of the schemas)
        self.enum_consts = {}
        for f in sorted(srcs):
            txt = strip_comments(open(f).read())
            for m in re.finditer(r"pub enum (\w+)\s*\{", txt):
                end = balanced(txt, m.end() - 1)
                body = re.sub(r"#\[[^\]]*\]", "", re.sub(r"///.*", "", txt[m.end():end - 1]))
                for part in split_top(body, ","):
                    mm = re.fullmatch(r"(\w+)=(0x[0-9a-fA-F_]+|\d[\d_]*)", tight(part))
                    if mm:
                        self.enum_consts[(m.group(1), mm.group(1))] = int(mm.group(2).replace("_", ""), 0)
        # hand-written `fn compile_x(&self) -> T` of write-fonts (named by `#[compile(self.compile_x())]`)
        self.hand_fn_ret = {}
        for f in sorted(glob.glob(os.path.join(repo, "write-fonts/src/**/*.rs"), recursive=True)):
            txt = strip_comments(open(f).read())
            for m in re.finditer(r"fn (compile_\w+)\(&self\)\s*->\s*([^{]+?)\s*\{", txt):
                self.hand_fn_ret.setdefault(m.group(1), set()).add(tight(m.group(2)))

    def size(self, ty):
        ty = re.sub(r"^Nullable<(\w+)>$", r"\1", ty)
        ty = re.sub(r"^BigEndian<(.+)>$", r"\1", ty)
        ty = re.sub(r"^Nullable<(\w+)>$", r"\1", ty)
        if ty in self.scalar:
            return self.scalar[ty][0]
        return None

    def unsigned(self, ty):
        return ty in self.scalar and not self.scalar[ty][1]

OFFSET_W = {None: 2, "WIDTH_16": 2, "WIDTH_24": 3, "WIDTH_32": 4}

def const_value(text):
    """value of the constant in `(C as T)`"""
    t = text.replace("_", "") if re.fullmatch(r"[0-9a-fA-Fx_]+", text) else text
    if re.fullmatch(r"\d+", t):
        return int(t)
    if re.fullmatch(r"0x[0-9a-fA-F]+", t):
        return int(t, 16)
    m = re.fullmatch(r"(\d+)\+(\d+)", text)
    if m:
        return int(m.group(1)) + int(m.group(2))
    m = re.fullmatch(r"MajorMinor::VERSION_(\d+)_(\d+)", text)
    if m:
        return (int(m.group(1)) << 16) | int(m.group(2))
    m = re.fullmatch(r"Version16Dot16::VERSION_(\d+)_(\d+)", text)
    if m:
        return (int(m.group(1)) << 16) | (int(m.group(2)) << 12)
    return None

# ------------------------------------------------------------------------------------------------
# conditions

def parse_cond(T, recv_ty, fn, arg):
    """-> Lean `Cond` text"""
    if fn == "compatible":
        m = re.fullmatch(r"\((\d+)u16,(\d+)u16\)", arg)
        if m:
            if recv_ty == "MajorMinor":
                return f".compatMM {m.group(1)} {m.group(2)}"
            if recv_ty == "Version16Dot16":
                return f".compatV16 {m.group(1)} {m.group(2)}"
            raise NotCovered(f"compatible((a,b)) on {recv_ty}")
        m = re.fullmatch(r"(\d+)u16", arg)
        if m and recv_ty == "u16":
            return f".geU16 {m.group(1)}"
        raise NotCovered(f"condition compatible({arg}) on {recv_ty}")
    if fn in ("contains", "intersects"):
        bits = 0
        for part in arg.split("|"):
            m = re.fullmatch(r"(\w+)::(\w+)", part)
            if not m or (m.group(1), m.group(2)) not in T.flags:
                raise NotCovered(f"flag constant {part}")
            bits |= T.flags[(m.group(1), m.group(2))]
        return f".{fn} {bits}"
    raise NotCovered(f"condition {fn}")

COND_RE = r"(\w+)\.(compatible|contains|intersects)\(((?:\([^()]*\)|[^()])*)\)"


# ------------------------------------------------------------------------------------------------
# numbers the readers compute (Model/Field.lean `NExpr`): python trees
#   ('lit', n) | ('var', name) | ('add', a, b) | ('sub', a, b) | ('mul', a, b) | ('div', a, k) | ('divCeil', a, k)
#   | ('popcnt', k, a) | ('app', fn, a, b, c)

def nx_mul(a, b):
    if a == ('lit', 1):
        return b
    if b == ('lit', 1):
        return a
    return ('mul', a, b)

def nx_add(a, b):
    if a == ('lit', 0):
        return b
    if b == ('lit', 0):
        return a
    return ('add', a, b)

def nx_subst(e, env):
    """replace ('var', name) by env[name]"""
    k = e[0]
    if k == 'lit':
        return e
    if k == 'var':
        if e[1] not in env:
            raise NotCovered(f"expression variable {e[1]} is not an argument or a field read before")
        return env[e[1]]
    if k in ('add', 'sub', 'mul'):
        return (k, nx_subst(e[1], env), nx_subst(e[2], env))
    if k in ('div', 'divCeil'):
        return (k, nx_subst(e[1], env), e[2])
    if k == 'popcnt':
        return (k, e[1], nx_subst(e[2], env))
    if k == 'app':
        return (k, e[1], nx_subst(e[2], env), nx_subst(e[3], env), nx_subst(e[4], env))
    raise ValueError(e)

def nx_vars(e):
    k = e[0]
    if k == 'lit':
        return []
    if k == 'var':
        return [e[1]]
    if k in ('add', 'sub', 'mul'):
        return nx_vars(e[1]) + nx_vars(e[2])
    if k in ('div', 'divCeil'):
        return nx_vars(e[1])
    if k == 'popcnt':
        return nx_vars(e[2])
    if k == 'app':
        return nx_vars(e[2]) + nx_vars(e[3]) + nx_vars(e[4])
    raise ValueError(e)

def nx_lean(e, ids):
    k = e[0]
    if k == 'lit':
        return f"(.lit {e[1]})"
    if k == 'var':
        if e[1] not in ids:
            raise NotCovered(f"expression variable {e[1]} is not a field or an argument")
        return f"(.field {ids[e[1]]})"
    if k in ('add', 'sub', 'mul'):
        return f"(.{k} {nx_lean(e[1], ids)} {nx_lean(e[2], ids)})"
    if k in ('div', 'divCeil'):
        return f"(.{k} {nx_lean(e[1], ids)} {e[2]})"
    if k == 'popcnt':
        return f"(.popcnt {e[1]} {nx_lean(e[2], ids)})"
    if k == 'app':
        return f"(.app .{e[1]} {nx_lean(e[2], ids)} {nx_lean(e[3], ids)} {nx_lean(e[4], ids)})"
    raise ValueError(e)

def nx_text(e):
    """human-readable form for the report"""
    k = e[0]
    if k == 'lit':
        return str(e[1])
    if k == 'var':
        return e[1]
    if k in ('add', 'sub', 'mul'):
        return "(" + nx_text(e[1]) + {"add": " + ", "sub": " -sat ", "mul": " * "}[k] + nx_text(e[2]) + ")"
    if k == 'div':
        return f"({nx_text(e[1])} / {e[2]})"
    if k == 'divCeil':
        return f"ceil({nx_text(e[1])} / {e[2]})"
    if k == 'popcnt':
        return f"popcount{e[1]}({nx_text(e[2])})"
    if k == 'app':
        return f"{e[1]}({nx_text(e[2])}, {nx_text(e[3])}, {nx_text(e[4])})"
    raise ValueError(e)

def segs_lean(segs, ids):
    return lean_list([f"({nx_lean(n, ids)}, {lean_list([str(x) for x in ws])})" for (n, ws) in segs])

def segs_text(segs):
    return " ++ ".join(f"{nx_text(n)} x {ws}" for (n, ws) in segs)

# hand-written count functions the generated readers call, transcribed in Model/Field.lean `CFn.eval`:
#   rust path -> (CFn constructor, arity, source file, fn name)
CUSTOM_FNS = {
    "DeltaFormat::value_count": ("valueCount", 3, "read-fonts/src/tables/layout.rs", "value_count"),
    "EntryFormat::map_size": ("mapSize", 2, "read-fonts/src/tables/variations.rs", "map_size"),
    "ItemVariationData::delta_sets_len": ("deltaSetsLen", 3, "read-fonts/src/tables/variations.rs", "delta_sets_len"),
    "TupleIndex::tuple_len": ("tupleLen", 3, "read-fonts/src/tables/variations.rs", "tuple_len"),
}
# further hand-written source the models of this translator transcribe: (file, regex that starts the item)
HAND_ITEMS = {
    "transforms": ("read-fonts/src/lib.rs", r"pub\(crate\) mod transforms\s*\{"),
    "EntryFormat::entry_size": ("read-fonts/src/tables/variations.rs", r"pub fn entry_size\(self\)[^{]*\{"),
    "ItemVariationData::delta_row_len": ("read-fonts/src/tables/variations.rs", r"pub fn delta_row_len\([^{]*\{"),
    "ValueFormat::record_byte_len": ("read-fonts/src/tables/value_record.rs", r"pub fn record_byte_len\(self\)[^{]*\{"),
    "ComputeSize for ValueRecord": ("read-fonts/src/tables/value_record.rs", r"impl ComputeSize for ValueRecord\s*\{"),
    "ValueRecord::read": ("read-fonts/src/tables/value_record.rs", r"pub fn read\(data: FontData(?:<'_>)?, format: ValueFormat\)[^{]*\{"),
    "FontWrite for ValueRecord": ("write-fonts/src/tables/gpos/value_record.rs", r"impl FontWrite for ValueRecord\s*\{"),
    "VarSize for SegmentMaps": ("read-fonts/src/tables/avar.rs", r"impl VarSize for SegmentMaps<'_>\s*\{"),
    "FontRead for SegmentMaps": ("read-fonts/src/tables/avar.rs", r"impl<'a> FontRead<'a> for SegmentMaps<'a>\s*\{"),
    "VarSize::read_len_at (default)": ("read-fonts/src/read.rs", r"pub trait VarSize\s*\{"),
}

def hand_hashes(repo):
    import hashlib
    out = {}
    items = {k: (v[2], r"fn %s\([^{]*\{" % v[3]) for k, v in CUSTOM_FNS.items()}
    items.update(HAND_ITEMS)
    for name, (path, rx) in sorted(items.items()):
        try:
            txt = strip_comments(open(os.path.join(repo, path)).read())
        except OSError:
            out[name] = "missing file"
            continue
        m = re.search(rx, txt)
        if not m:
            out[name] = "not found"
            continue
        e = balanced(txt, m.end() - 1)
        out[name] = hashlib.sha1(tight(txt[m.start():e]).encode()).hexdigest()[:16]
    return out

# ------------------------------------------------------------------------------------------------
# reader side

class Reader:
    def __init__(self):
        self.tables = {}    # (mod, name) -> dict(fields=[...], args=[(name, ty)]) or dict(error=reason)
        self.records = {}   # (mod, name) -> [(fname, ty)]  fixed-size records
        self.rec_sizes = {}  # name -> [sizes]  (by bare name; None on conflict)
        self.read_args = {}  # name -> [arg types]                    `impl ReadArgs for X`
        self.compute_sizes = {}  # name -> dict(params=[..], terms=[..]) generated `impl ComputeSize for X`
        self.arg_records = {}  # (mod, name) -> dict(args=[(name, ty)], fields=[...]) | dict(error=..)  records read with args
        self.var_sizes = {}  # name -> dict(hw=.., item=[sizes])      `impl VarSize for X` (hand-written)
        self.formats = {}    # marker type name (without Marker) -> (format type, value)
        self.enums = {}      # (mod, name) -> dict(hw=.., arms=[(variant, type)]) | dict(error=..)

def parse_atom(T, a, var_ty):
    """argument of a transform / custom count fn: an unsigned local, or `N_usize`"""
    m = re.fullmatch(r"(\d+)_usize", a)
    if m:
        return ('lit', int(m.group(1)))
    if re.fullmatch(r"\w+", a):
        if a not in var_ty:
            raise NotCovered(f"count variable {a} not read")
        if not T.unsigned(var_ty[a]):
            raise NotCovered(f"count variable {a} has signed/unknown type {var_ty[a]}")
        return ('var', a)
    raise NotCovered(f"count argument {a}")

def parse_reader_count(T, expr, var_ty=None, args=()):
    """count expression -> ('affine', var, a, b) | ('lit', n) | ('expr', nexpr)"""
    m = re.fullmatch(r"\((\w+) as usize\)", expr)
    if m:
        if m.group(1) in args:
            return ("expr", parse_atom(T, m.group(1), var_ty))
        return ("affine", m.group(1), 1, 0)
    m = re.fullmatch(r"\(transforms::subtract\((\w+),(\d+)_usize\)\)", expr)
    if m and m.group(1) not in args:
        return ("affine", m.group(1), 1, int(m.group(2)))
    m = re.fullmatch(r"\(transforms::half\((\w+)\)\)", expr)
    if m and m.group(1) not in args:
        return ("affine", m.group(1), 2, 0)
    m = re.fullmatch(r"\((\d+)_usize\)", expr)
    if m:
        return ("lit", int(m.group(1)))
    if var_ty is None:
        raise NotCovered(f"count expression {expr}")
    m = re.fullmatch(r"\(transforms::(\w+)\((.*)\)\)", expr)
    if m:
        fn = m.group(1)
        a = [parse_atom(T, x, var_ty) for x in split_top(m.group(2), ",")]
        # read-fonts/src/lib.rs codegen_prelude::transforms (arguments through try_into().unwrap_or_default(): the raw
        # value of an unsigned scalar)
        if fn == "subtract" and len(a) == 2:
            return ("expr", ('sub', a[0], a[1]))
        if fn == "add" and len(a) == 2:
            return ("expr", ('add', a[0], a[1]))
        if fn == "bitmap_len" and len(a) == 1:
            return ("expr", ('divCeil', a[0], 8))
        if fn == "max_value_bitmap_len" and len(a) == 1:
            return ("expr", ('divCeil', ('add', a[0], ('lit', 1)), 8))
        if fn == "add_multiply" and len(a) == 3:
            return ("expr", ('mul', ('add', a[0], a[1]), a[2]))
        if fn == "multiply_add" and len(a) == 3:
            return ("expr", ('add', ('mul', a[0], a[1]), a[2]))
        if fn == "half" and len(a) == 1:
            return ("expr", ('div', a[0], 2))
        if fn == "subtract_add_two" and len(a) == 2:
            return ("expr", ('add', ('sub', a[0], a[1]), ('lit', 2)))
        raise NotCovered(f"count transform {fn}/{len(a)}")
    m = re.fullmatch(r"\((\w+::\w+)\((.*)\)\)", expr)
    if m and m.group(1) in CUSTOM_FNS:
        cf, arity, _, _ = CUSTOM_FNS[m.group(1)]
        a = [parse_atom(T, x, var_ty) for x in split_top(m.group(2), ",")]
        if len(a) != arity:
            raise NotCovered(f"custom count fn {m.group(1)} with {len(a)} arguments")
        while len(a) < 3:
            a.append(('lit', 0))
        return ("expr", ('app', cf, a[0], a[1], a[2]))
    raise NotCovered(f"count expression {expr}")

def parse_size_args(text):
    """`&x` | `&(a,b,c)` -> [names]"""
    m = re.fullmatch(r"&\((.*)\)", text)
    if m:
        return [x for x in split_top(m.group(1), ",")]
    m = re.fullmatch(r"&(\w+)", text)
    if m:
        return [m.group(1)]
    raise NotCovered(f"compute_size arguments {text}")

SIZE_RE = r"(?:(\w+)::RAW_BYTE_LEN|<(\w+) as ComputeSize>::compute_size\((&(?:\w+|\([^()]*\)))\)\?)"

def parse_size(m, base):
    """groups base..base+2 of SIZE_RE -> ('const', ty) | ('compute', rname, [argnames])"""
    if m.group(base):
        return ("const", m.group(base))
    return ("compute", m.group(base + 1), parse_size_args(m.group(base + 2)))

def parse_reader_len(T, R, expr, var_ty=None, args=()):
    """byte-length expression -> (count, size) with size = ('const', ty) | ('compute', rname, [argnames]) | ('varlen', ty)"""
    m = re.fullmatch(r"(.+)\.checked_mul\(" + SIZE_RE + r"\)\.ok_or\(ReadError::OutOfBounds\)\?", expr)
    if m:
        return parse_reader_count(T, m.group(1), var_ty, args), parse_size(m, 2)
    m = re.fullmatch(SIZE_RE, expr)
    if m and not m.group(1):
        return ("lit", 1), parse_size(m, 1)
    m = re.fullmatch(r"cursor\.remaining_bytes\(\)/(\w+)::RAW_BYTE_LEN\*(\w+)::RAW_BYTE_LEN", expr)
    if m and m.group(1) == m.group(2):
        return ("rest",), ("const", m.group(1))
    m = re.fullmatch(r"\{let data=cursor\.remaining\(\)\.ok_or\(ReadError::OutOfBounds\)\?;<(\w+) as VarSize>::total_len_for_count\(data,(\w+) as usize\)\?\}", expr)
    if m:
        return parse_reader_count(T, f"({m.group(2)} as usize)", var_ty, args), ("varlen", m.group(1))
    if expr == "cursor.remaining_bytes()":
        raise NotCovered("length expression cursor.remaining_bytes() (a VarLenArray / byte blob up to the end of the data)")
    raise NotCovered(f"length expression {expr[:90]}")

def size_widths(T, R, ty, mod):
    sizes, isrec = elem_sizes(T, R, ty, mod)
    return sizes, isrec

def scale_segs(cnt, segs):
    """`cnt` copies of the element layout `segs`, as segments"""
    if cnt == ('lit', 1):
        return segs
    if len(segs) == 1:
        return [(nx_mul(cnt, segs[0][0]), segs[0][1])]
    ws = set(w for (_, g) in segs for w in g)
    if len(ws) == 1:
        total = ('lit', 0)
        for (n, g) in segs:
            total = nx_add(total, nx_mul(n, ('lit', len(g))))
        return [(nx_mul(cnt, total), [ws.pop()])]
    raise NotCovered("repeated element layout with scalars of different widths")

def compute_size_segs(T, R, rname, mod, argexprs, depth=0):
    """the element layout `<rname as ComputeSize>::compute_size(&args)` describes, as segments over the caller's
    expressions"""
    if depth > 6:
        raise NotCovered("ComputeSize recursion")
    if rname == "ValueRecord":
        # hand-written (read-fonts/src/tables/value_record.rs): `record_byte_len` = count_ones * 2; the eight defined
        # flags are the low byte; `ValueRecord::read` reads one 16-bit scalar per contained flag
        if len(argexprs) != 1:
            raise NotCovered("ValueRecord size arguments")
        return [(('popcnt', 8, argexprs[0]), [2])]
    cs = R.compute_sizes.get(rname)
    if cs is None:
        raise NotCovered(f"ComputeSize for {rname} is hand-written")
    if "error" in cs:
        raise NotCovered(cs["error"])
    if len(cs["params"]) != len(argexprs):
        raise NotCovered(f"ComputeSize for {rname}: {len(argexprs)} arguments for {len(cs['params'])} parameters")
    env = dict(zip(cs["params"], argexprs))
    segs = []
    for (cnt, size) in cs["terms"]:
        c = nx_subst(cnt, env)
        if size[0] == "const":
            ws, _ = size_widths(T, R, size[1], mod)
            inner = [(('lit', 1), ws)]
        else:
            inner = compute_size_segs(T, R, size[1], mod, [nx_subst(('var', a), env) for a in size[2]], depth + 1)
        segs += scale_segs(c, inner)
    return segs

def parse_compute_size(T, body):
    """generated `fn compute_size(args: &A) -> Result<usize, ReadError> { … }` -> dict(params, terms=[(count nexpr, size)])"""
    stmts = split_statements(body)
    params = []
    if stmts and re.fullmatch(r"let ?\((.*)\)=\*args", stmts[0]):
        params = split_top(re.fullmatch(r"let ?\((.*)\)=\*args", stmts[0]).group(1), ",")
        stmts = stmts[1:]
    elif stmts and re.fullmatch(r"let (\w+)=\*args", stmts[0]):
        params = [re.fullmatch(r"let (\w+)=\*args", stmts[0]).group(1)]
        stmts = stmts[1:]
    terms = []

    def term(text):
        m = re.fullmatch(r"\((\w+) as usize\)\.checked_mul\(" + SIZE_RE + r"\)\.ok_or\(ReadError::OutOfBounds\)\?", text)
        if m:
            if m.group(1) not in params:
                raise NotCovered(f"compute_size count {m.group(1)} is not an argument")
            return (('var', m.group(1)), parse_size(m, 2))
        m = re.fullmatch(SIZE_RE, text)
        if m:
            return (('lit', 1), parse_size(m, 1))
        raise NotCovered(f"compute_size term {text[:80]}")

    if len(stmts) == 1 and re.fullmatch(r"Ok\((.*)\)", stmts[0]):
        terms.append(term(re.fullmatch(r"Ok\((.*)\)", stmts[0]).group(1)))
        return {"params": params, "terms": terms}
    if not stmts or stmts[0] != "let mut result=0usize" or stmts[-1] != "Ok(result)":
        raise NotCovered("compute_size body form")
    for st in stmts[1:-1]:
        m = re.fullmatch(r"result=result\.checked_add\((.*)\)\.ok_or\(ReadError::OutOfBounds\)\?", st)
        if not m:
            raise NotCovered(f"compute_size statement {st[:80]}")
        terms.append(term(m.group(1)))
    return {"params": params, "terms": terms}

def parse_args_binding(stmt, arg_tys):
    """`let (a,b)=*args` | `let a=*args` -> [(name, ty)]"""
    m = re.fullmatch(r"let ?\((.*)\)=\*args", stmt)
    if m:
        names = split_top(m.group(1), ",")
    else:
        m = re.fullmatch(r"let (\w+)=\*args", stmt)
        if not m:
            return None
        names = [m.group(1)]
    if arg_tys is None or len(arg_tys) != len(names):
        raise NotCovered(f"argument binding {stmt} does not match ReadArgs {arg_tys}")
    return list(zip(names, arg_tys))

def parse_arg_record(T, R, mod, name, src, struct_fields):
    """a record read with arguments: `impl FontReadWithArgs for X { fn read_with_args(data, args) { let mut cursor = …;
    let (a, b) = *args; Ok(Self { f: cursor.read_be()?, g: cursor.read_array(n as usize)?, h: cursor.read_with_args(&a)?,
    k: cursor.read_computed_array(n as usize, &(a, b))? }) } }`"""
    m = re.search(r"impl<'a>\s*FontReadWithArgs<'a>\s+for\s+%s(?:<'a>)?\s*\{" % name, src)
    if not m:
        raise NotCovered("record with a lifetime but no generated read_with_args (hand-written reader)")
    end = balanced(src, m.end() - 1)
    body = src[m.end():end]
    m2 = re.search(r"fn read_with_args\([^{]*\)\s*->\s*Result<Self,\s*ReadError>\s*\{", body)
    if not m2:
        raise NotCovered("read_with_args signature")
    e2 = balanced(body, m2.end() - 1)
    stmts = split_statements(body[m2.end():e2 - 1])
    if len(stmts) != 3 or stmts[0] != "let mut cursor=data.cursor()":
        raise NotCovered(f"record read_with_args body: {stmts[:1]}")
    args = parse_args_binding(stmts[1], R.read_args.get(name))
    if args is None:
        raise NotCovered(f"record argument binding {stmts[1]}")
    var_ty = dict(args)
    m3 = re.fullmatch(r"Ok\(Self\{(.*)\}\)", stmts[2])
    if not m3:
        raise NotCovered(f"record read_with_args result {stmts[2][:80]}")
    fields = []
    inits = [x for x in split_top(m3.group(1), ",") if x]
    if [x.split(":")[0] for x in inits] != [n for (n, _) in struct_fields]:
        raise NotCovered("record fields are not initialised in declaration order")
    for init, (fname, fty) in zip(inits, struct_fields):
        e = init.split(":", 1)[1]
        f = {"name": fname, "cond": None, "getter": True}
        mm = re.fullmatch(r"BigEndian<([\w<>]+)>", fty)
        if e == "cursor.read_be()?" and mm and T.size(mm.group(1)) is not None:
            f.update(kind="scalar", ty=mm.group(1), size=T.size(mm.group(1)))
            # (a field of a record is not visible to later count expressions of the same record: codegen passes args only)
        elif re.fullmatch(r"cursor\.read_array\((.*)\)\?", e):
            cnt = parse_reader_count(T, "(" + re.fullmatch(r"cursor\.read_array\((.*)\)\?", e).group(1) + ")", var_ty, [a for a, _ in args])
            mm = re.fullmatch(r"&'a\[(?:BigEndian<)?([\w<>]+?)>?\]", fty)
            if not mm:
                raise NotCovered(f"record array field {fname}: type {fty}")
            ety = mm.group(1)
            sizes, isrec = elem_sizes(T, R, ety, mod)
            f.update(kind="array", count=cnt, elem=sizes, elemty=ety, isrec=isrec)
        elif re.fullmatch(r"cursor\.read_with_args\((&\w+|&\([^()]*\))\)\?", e):
            a = parse_size_args(re.fullmatch(r"cursor\.read_with_args\((.*)\)\?", e).group(1))
            f.update(kind="arrayV", count=("lit", 1), size=("compute", fty, a), elemty=fty, computed=False)
        elif re.fullmatch(r"cursor\.read_computed_array\((\w+) as usize,(&\w+|&\([^()]*\))\)\?", e):
            mm2 = re.fullmatch(r"cursor\.read_computed_array\((\w+) as usize,(.*)\)\?", e)
            mm = re.fullmatch(r"ComputedArray<'a,(\w+)(?:<'a>)?>", fty)
            if not mm:
                raise NotCovered(f"record computed array field {fname}: type {fty}")
            cnt = parse_reader_count(T, f"({mm2.group(1)} as usize)", var_ty, [a for a, _ in args])
            f.update(kind="arrayV", count=cnt, size=("compute", mm.group(1), parse_size_args(mm2.group(2))), elemty=mm.group(1), computed=True)
        else:
            raise NotCovered(f"record field {fname}: {e[:80]} : {fty}")
        fields.append(f)
    return {"fields": fields, "args": args, "statements": 3}

def parse_reader_file(T, mod, src, R):
    src = re.sub(r"#\[[^\]]*\]", "", src)
    # `impl ReadArgs for X<'_> { type Args = (u16, u16); }`
    for m in re.finditer(r"impl\s+ReadArgs\s+for\s+(\w+)(?:<'_>)?\s*\{\s*type\s+Args\s*=\s*([^;]+);", src):
        a = tight(m.group(2))
        mm = re.fullmatch(r"\((.*)\)", a)
        R.read_args[m.group(1)] = split_top(mm.group(1), ",") if mm else [a]
    # `impl Format<u16> for XMarker { const FORMAT: u16 = 1; }`
    for m in re.finditer(r"impl\s+Format<(\w+)>\s+for\s+(\w+)Marker\s*\{\s*const\s+FORMAT\s*:\s*\w+\s*=\s*(\d+)\s*;", src):
        R.formats[m.group(2)] = (m.group(1), int(m.group(3)))
    # generated `impl ComputeSize for X`
    for m in re.finditer(r"impl\s+ComputeSize\s+for\s+(\w+)(?:<'_>)?\s*\{", src):
        end = balanced(src, m.end() - 1)
        body = src[m.end():end]
        m2 = re.search(r"fn compute_size\(args:\s*&[^{]*\)\s*->\s*Result<usize,\s*ReadError>\s*\{", body)
        if not m2:
            continue
        e2 = balanced(body, m2.end() - 1)
        try:
            R.compute_sizes[m.group(1)] = parse_compute_size(T, body[m2.end():e2 - 1])
        except NotCovered as e:
            R.compute_sizes[m.group(1)] = {"error": f"ComputeSize for {m.group(1)}: {e}"}
    # fixed-size records: `pub struct X { pub f: BigEndian<T>, … }` (no lifetime)
    for m in re.finditer(r"pub struct (\w+)(<'a>)?\s*\{", src):
        name = m.group(1)
        if name.endswith("Marker"):
            continue
        end = balanced(src, m.end() - 1)
        body = re.sub(r"///.*", "", src[m.end():end - 1])
        fields, ok = [], True
        raw_fields = []
        for fld in split_top(body, ","):
            fld = tight(fld)
            if not fld:
                continue
            mr = re.fullmatch(r"pub (\w+):(.*)", fld)
            if mr:
                raw_fields.append((mr.group(1), mr.group(2)))
            mm = re.fullmatch(r"pub (\w+):(?:BigEndian<([\w<>]+)>|(u8))", fld)
            if mm and mm.group(3):
                mm = re.fullmatch(r"pub (\w+):()?(u8)", fld)
                fields.append((mm.group(1), "u8"))
                continue
            if not mm or T.size(mm.group(2)) is None:
                ok = False
                continue
            fields.append((mm.group(1), mm.group(2)))
        if ok and fields and not m.group(2) and name not in R.read_args:
            R.records[(mod, name)] = fields
            sizes = [T.size(t) for _, t in fields]
            if name in R.rec_sizes and R.rec_sizes[name] != sizes:
                R.rec_sizes[name] = None
            else:
                R.rec_sizes.setdefault(name, sizes)
        elif raw_fields and name in R.read_args:
            R.arg_records[(mod, name)] = {"pending": raw_fields}
    # tables
    for m in re.finditer(r"impl(<T>)?\s+(\w+)Marker(?:<T>)?\s*\{", src):
        name = m.group(2)
        end = balanced(src, m.end() - 1)
        try:
            R.tables[(mod, name)] = parse_reader_table(T, mod, name, src, src[m.end():end - 1], R, generic=bool(m.group(1)))
        except NotCovered as e:
            R.tables[(mod, name)] = {"error": "reader: " + str(e)}
    # records read with arguments
    for (md, name), v in list(R.arg_records.items()):
        if md == mod and "pending" in v:
            try:
                R.arg_records[(md, name)] = parse_arg_record(T, R, mod, name, src, v["pending"])
            except NotCovered as e:
                R.arg_records[(md, name)] = {"error": "reader: " + str(e)}
    # format enums: `impl FontRead for X { let format: T = data.read_at(0usize)?; match format { AMarker::FORMAT => Ok(Self::A(FontRead::read(data)?)), … } }`
    for m in re.finditer(r"impl<'a>\s*FontRead<'a>\s+for\s+(\w+)<'a>\s*\{\s*fn read\(data:\s*FontData<'a>\)\s*->\s*Result<Self,\s*ReadError>\s*\{", src):
        name = m.group(1)
        end = balanced(src, m.end() - 1)
        body = tight(src[m.end():end - 1])
        if "match format" not in body:
            continue
        mm = re.fullmatch(r"let format:(\w+)=data\.read_at\((\d+)usize\)\?;match format\{(.*)\}", body)
        if not mm:
            R.enums[(mod, name)] = {"error": f"reader: dispatch form {body[:80]}"}
            continue
        arms, ok = [], True
        rest_ = mm.group(3)
        while rest_:
            ma = re.match(r"(\w+)Marker::FORMAT=>(?:\{Ok\(Self::(\w+)\(FontRead::read\(data\)\?\)\)\},?|Ok\(Self::(\w+)\(FontRead::read\(data\)\?\)\),?)", rest_)
            if ma:
                arms.append((ma.group(2) or ma.group(3), ma.group(1)))
                rest_ = rest_[ma.end():]
            elif rest_ in ("other=>Err(ReadError::InvalidFormat(other.into()))", "other=>Err(ReadError::InvalidFormat(other.into())),"):
                rest_ = ""
            else:
                ok = False
                R.enums[(mod, name)] = {"error": f"reader: dispatch arm {rest_[:80]}"}
                break
        if ok:
            if mm.group(2) != "0":
                R.enums[(mod, name)] = {"error": f"reader: format read at offset {mm.group(2)}"}
            elif T.size(mm.group(1)) is None:
                R.enums[(mod, name)] = {"error": f"reader: format type {mm.group(1)}"}
            else:
                R.enums[(mod, name)] = {"hw": T.size(mm.group(1)), "arms": arms}

def elem_sizes(T, R, ty, mod=None):
    s = T.size(ty)
    if s is not None:
        return [s], False
    if (mod, ty) in R.records:
        return [T.size(t) for _, t in R.records[(mod, ty)]], True
    if R.rec_sizes.get(ty):
        return R.rec_sizes[ty], True
    raise NotCovered(f"array element type {ty} is not a scalar or a fixed-size record of scalars")

def range_start_ok(e):
    """the `start` of a generated range fn: 0, the end of the previous field, or — after conditional fields — the end of
    the nearest present one (`a.map(|range| range.end).unwrap_or_else(|| …)` nested, or the older `.or_else` chain)"""
    if e == "0" or re.fullmatch(r"self\.\w+_byte_range\(\)\.end", e):
        return True
    if re.fullmatch(r"self\.\w+_byte_range\(\)\.map\(\|range\|range\.end\)(?:\.or_else\(\|\|self\.\w+_byte_range\(\)\.map\(\|range\|range\.end\)\))*\.unwrap_or_else\(\|\|self\.\w+_byte_range\(\)\.end\)", e):
        return True
    m = re.fullmatch(r"self\.\w+_byte_range\(\)\.map\(\|range\|range\.end\)\.unwrap_or_else\(\|\|(.+)\)", e)
    if m:
        inner = m.group(1)
        mb = re.fullmatch(r"\{(.+)\}", inner)
        return range_start_ok(mb.group(1) if mb else inner)
    return False

def parse_reader_table(T, mod, name, src, marker_body, R, generic=False):
    # a generic table (`LookupList<'a, T>`): the type parameter only names the target of its offsets
    G = r",\s*T" if generic else ""
    # 1. layout: the range fns in order
    layout = []
    for m in re.finditer(r"pub fn (\w+)_byte_range\(&self\)\s*->\s*(Option<Range<usize>>|Range<usize>)\s*\{", marker_body):
        e = balanced(marker_body, m.end() - 1)
        b = tight(marker_body[m.end():e - 1])
        fname, cond = m.group(1), m.group(2).startswith("Option")
        if cond:
            mm = re.fullmatch(r"let start=self\.%s_byte_start\?;Some\(start\.\.start\+(.+)\)" % fname, b)
        else:
            mm = re.fullmatch(r"let start=(.+?);start\.\.start\+(.+)", b)
            if mm and not range_start_ok(mm.group(1)):
                mm = None
            if mm:
                mm = re.fullmatch(r"let start=(?:.+?);start\.\.start\+(.+)", b)
        if not mm:
            raise NotCovered(f"range fn of {fname}: {b[:100]}")
        ln = mm.group(1)
        m2 = re.fullmatch(r"([\w<>]+)::RAW_BYTE_LEN", ln)
        if m2:
            layout.append((fname, cond, m2.group(1)))
        elif ln == f"self.{fname}_byte_len" + ("?" if cond else ""):
            layout.append((fname, cond, None))
        else:
            raise NotCovered(f"range length of {fname}: {ln}")
    # 2. the read body
    args = []
    m = re.search(r"impl<'a%s>\s*FontRead<'a>\s+for\s+%s<'a%s>\s*\{" % (G, name, G), src)
    if m:
        end = balanced(src, m.end() - 1)
        body = src[m.end():end]
        m2 = re.search(r"fn read\(data:\s*FontData<'a>\)\s*->\s*Result<Self,\s*ReadError>\s*\{", body)
        e2 = balanced(body, m2.end() - 1)
        stmts = split_statements(body[m2.end():e2 - 1])
    else:
        m = re.search(r"impl<'a>\s*FontReadWithArgs<'a>\s+for\s+%s<'a>\s*\{" % name, src)
        if not m:
            raise NotCovered("no generated FontRead / FontReadWithArgs impl")
        end = balanced(src, m.end() - 1)
        body = src[m.end():end]
        m2 = re.search(r"fn read_with_args\([^{]*\)\s*->\s*Result<Self,\s*ReadError>\s*\{", body)
        if not m2:
            raise NotCovered("read_with_args signature")
        e2 = balanced(body, m2.end() - 1)
        stmts = split_statements(body[m2.end():e2 - 1])
        if not stmts:
            raise NotCovered("empty read_with_args body")
        args = parse_args_binding(stmts[0], R.read_args.get(name))
        if args is None:
            raise NotCovered(f"read_with_args does not start by binding its arguments: {stmts[0][:80]}")
        for (an, aty) in args:
            if T.size(aty) is None:
                raise NotCovered(f"argument {an} has non-scalar type {aty}")
        stmts = stmts[1:]
    nstmts = len(stmts)
    if not stmts or stmts[0] != "let mut cursor=data.cursor()":
        raise NotCovered("read body does not start with a cursor")
    stmts = stmts[1:]
    if not stmts or not stmts[-1].startswith("cursor.finish("):
        raise NotCovered("read body does not end with cursor.finish")
    stmts = stmts[:-1]
    var_ty = dict(args)
    arg_names = [a for a, _ in args]
    fields = []
    i = 0

    def take():
        nonlocal i
        if i >= len(stmts):
            raise NotCovered("read body ends early")
        s = stmts[i]
        i += 1
        return s

    for (fname, cond, cty) in layout:
        f = {"name": fname, "cond": None}
        if cond:
            s = take()
            mm = re.fullmatch(r"let %s_byte_start=%s\.then\(\|\|cursor\.position\(\)\)\.transpose\(\)\?" % (fname, COND_RE), s)
            if not mm:
                raise NotCovered(f"start marker of {fname}: {s[:100]}")
            cv, cfn, carg = mm.group(1), mm.group(2), mm.group(3)
            if cv not in var_ty:
                raise NotCovered(f"condition variable {cv} not read")
            f["cond"] = (cv, parse_cond(T, var_ty[cv], cfn, carg))
            ctext = f"{cv}.{cfn}({carg})"
        if cty is not None:
            sz = T.size(cty)
            if sz is None:
                raise NotCovered(f"field {fname}: type {cty} has no scalar size")
            s = take()
            if cond:
                if s == f"{ctext}.then(||cursor.advance::<{cty}>())":
                    pass
                elif s == f"let {fname}={ctext}.then(||cursor.read::<{cty}>()).transpose()?.unwrap_or_default()":
                    var_ty[fname] = cty
                else:
                    raise NotCovered(f"conditional scalar {fname}: {s[:100]}")
            else:
                if s == f"cursor.advance::<{cty}>()":
                    pass
                elif s == f"let {fname}:{cty}=cursor.read()?":
                    var_ty[fname] = cty
                else:
                    raise NotCovered(f"scalar {fname}: {s[:100]}")
            f.update(kind="scalar", ty=cty, size=sz)
        else:
            s = take()
            if cond:
                mm = re.fullmatch(r"let %s_byte_len=%s\.then_some\((.+)\)" % (fname, re.escape(ctext)), s)
            else:
                mm = re.fullmatch(r"let %s_byte_len=(.+)" % fname, s)
            if not mm:
                raise NotCovered(f"length of {fname}: {s[:100]}")
            cnt, size = parse_reader_len(T, R, mm.group(1), var_ty, arg_names)
            if cnt[0] == "affine":
                if cnt[1] not in var_ty:
                    raise NotCovered(f"count variable {cnt[1]} not read")
                if not T.unsigned(var_ty[cnt[1]]):
                    raise NotCovered(f"count variable {cnt[1]} has signed/unknown type {var_ty[cnt[1]]}")
            s = take()
            if cond:
                ok = s == "if let Some(value)=%s_byte_len{cursor.advance_by(value);}" % fname
            else:
                ok = s == f"cursor.advance_by({fname}_byte_len)"
            if not ok:
                raise NotCovered(f"advance of {fname}: {s[:100]}")
            if size[0] == "const":
                sizes, isrec = elem_sizes(T, R, size[1], mod)
                f.update(kind="array", count=cnt, elem=sizes, elemty=size[1], isrec=isrec)
            elif size[0] == "compute":
                for a in size[2]:
                    if a not in var_ty or not T.unsigned(var_ty[a]):
                        raise NotCovered(f"size argument {a} is not an unsigned field / argument read before")
                # `count.checked_mul(compute_size)`: a ComputedArray; a bare `compute_size`: one record read in place
                f.update(kind="arrayV", count=cnt, size=size, elemty=size[1], computed=".checked_mul(" in mm.group(1))
            else:
                vs = R.var_sizes.get(size[1])
                if vs is None:
                    raise NotCovered(f"VarSize for {size[1]} is not modelled")
                f.update(kind="arrayL", count=cnt, hw=vs["hw"], item=vs["item"], elemty=size[1])
        fields.append(f)
    if i != len(stmts):
        raise NotCovered(f"unconsumed read statement: {stmts[i][:100]}")
    # 3. getters: which fields are visible, and element type of arrays must agree
    getters = set()
    for m in re.finditer(r"impl<'a%s>\s*%s<'a%s>\s*\{" % (G, name, G), src):
        e = balanced(src, m.end() - 1)
        for g in re.finditer(r"pub fn (\w+)\(&self\)\s*->\s*([^{]+)\{", src[m.end():e]):
            getters.add(g.group(1))
            gname, gty = g.group(1), tight(g.group(2))
            for f in fields:
                if f["name"] == gname and f["kind"] == "array":
                    e_ = f['elemty']
                    want = set()
                    for inner in (f"BigEndian<{e_}>", e_, f"BigEndian<Nullable<{e_}>>"):
                        want |= {f"&'a[{inner}]", f"Option<&'a[{inner}]>"}
                    if gty not in want:
                        raise NotCovered(f"getter of {gname} returns {gty}")
                if f["name"] == gname and f["kind"] == "arrayV":
                    e_ = f['elemty']
                    want = (f"ComputedArray<'a,{e_}<'a>>", f"ComputedArray<'a,{e_}>") if f["computed"] else (e_, f"{e_}<'a>")
                    if gty not in want:
                        raise NotCovered(f"getter of {gname} returns {gty}")
                if f["name"] == gname and f["kind"] == "arrayL":
                    if gty != f"VarLenArray<'a,{f['elemty']}<'a>>":
                        raise NotCovered(f"getter of {gname} returns {gty}")
    for f in fields:
        f["getter"] = f["name"] in getters
    return {"fields": fields, "statements": nstmts + 1, "args": args}

# ------------------------------------------------------------------------------------------------
# writer side

def parse_writer_file(T, mod, src):
    """-> {name: dict(fields={fname: type}, stmts=[...], reader=(mod, name)|None)}"""
    src = re.sub(r"#\[[^\]]*\]", "", src)
    structs = {}
    for m in re.finditer(r"pub struct (\w+)(<[^>{]*>)?\s*\{", src):
        end = balanced(src, m.end() - 1)
        body = re.sub(r"///.*", "", src[m.end():end - 1])
        fields = {}
        for fld in split_top(body, ","):
            fld = tight(fld)
            mm = re.fullmatch(r"pub (\w+):(.*)", fld)
            if mm:
                fields[mm.group(1)] = mm.group(2)
        structs[m.group(1)] = {"fields": fields, "generic": bool(m.group(2))}
    out = {}
    for m in re.finditer(r"impl(<[^>{]*>)?\s+FontWrite\s+for\s+(\w+)(<[^>{]*>)?\s*\{", src):
        name = m.group(2)
        end = balanced(src, m.end() - 1)
        body = src[m.end():end]
        m2 = re.search(r"fn write_into\(&self,\s*writer:\s*&mut TableWriter\)\s*\{", body)
        if not m2 or name not in structs:
            continue    # enums / scalars (format dispatch, bitflags): no field layout of their own
        e2 = balanced(body, m2.end() - 1)
        stmts = split_statements(body[m2.end():e2 - 1])
        rd = re.search(r"FromObjRef<read_fonts::tables::(\w+)::(\w+)(?:<[^>]*>)?>\s+for\s+%s\b" % name, src)
        fo = None
        if rd:
            # the struct literal of `from_obj_ref`: `field: obj.getter(..)…`
            mfo = re.search(r"FromObjRef<read_fonts::tables::\w+::\w+(?:<[^>]*>)?>\s+for\s+%s(?:<T>)?\s*(?:where[^{]*)?\{" % name, src)
            e = balanced(src, mfo.end() - 1) if mfo else None
            ml = re.search(r"\b%s\s*\{" % name, src[mfo.end():e]) if mfo else None
            if ml:
                ls = mfo.end() + ml.end() - 1
                le = balanced(src, ls)
                fo = {}
                for part in split_top(src[ls + 1:le - 1], ","):
                    part = tight(part)
                    mm = re.fullmatch(r"(\w+):(.*)", part)
                    if mm:
                        fo[mm.group(1)] = mm.group(2)
        out[name] = {"fields": structs[name]["fields"], "generic": structs[name]["generic"] or bool(m.group(1)),
                     "stmts": stmts, "reader": (rd.group(1), rd.group(2)) if rd else None, "from_obj": fo}
    return out

def writer_field_item(T, W, mod, fty):
    """type of an owned field -> ('scalar', size, isoffset) | ('array', sizes, fixed, isrec)
    | ('arrayV', pre, tail, fixed) | ('arrayL', hw, item)"""
    m = re.fullmatch(r"(?:Nullable)?OffsetMarker<(.+)>", fty)
    if m:
        args = split_top(m.group(1), ",")
        w = args[1] if len(args) > 1 else None
        if w not in OFFSET_W:
            raise NotCovered(f"offset width {w}")
        return ("scalar", OFFSET_W[w], True)
    s = T.size(fty)
    if s is not None:
        return ("scalar", s, False)
    m = re.fullmatch(r"\[u8;(\d+)\]", fty)
    if m:
        return ("array", [1], int(m.group(1)), False)
    m = re.fullmatch(r"Vec<(.+)>", fty)
    if m:
        inner = m.group(1)
        lp = len_prefixed_shape(T, W, mod, inner)
        if lp is not None:
            return ("arrayL", lp[0], lp[1])
        sh = flat_shape(T, W, mod, inner)
        if sh[0] == "fixed":
            return ("array", sh[1], None, sh[2])
        return ("arrayV", sh[1], sh[2], None)
    # one inline record (`self.value_record.write_into(writer)`)
    sh = flat_shape(T, W, mod, fty)
    if sh[0] == "fixed":
        return ("array", sh[1], 1, True)
    return ("arrayV", sh[1], sh[2], 1)

def find_writer_record(W, mod, rname):
    rec = W.get(mod, {}).get(rname)
    if rec is None:
        for m2, d in W.items():
            if rname in d:
                return d[rname], m2
    return rec, mod

def len_prefixed_shape(T, W, mod, rname):
    """a record whose generated writer is `u<N>::try_from(array_len(&self.f)).unwrap()` followed by `self.f` with
    `f: Vec<fixed-size record>`: -> (hw, item sizes), else None"""
    if not re.fullmatch(r"\w+", rname):
        return None
    rec, rmod = find_writer_record(W, mod, rname)
    if rec is None or len(rec["stmts"]) != 2:
        return None
    m1 = re.fullmatch(COUNT_RES[0][0] + r"\.write_into\(writer\)", rec["stmts"][0])
    m2 = re.fullmatch(r"self\.(\w+)\.write_into\(writer\)", rec["stmts"][1])
    if not m1 or not m2 or m1.group(2) != m2.group(1) or m2.group(1) not in rec["fields"]:
        return None
    mv = re.fullmatch(r"Vec<(.+)>", rec["fields"][m2.group(1)])
    if not mv:
        return None
    sh = flat_shape(T, W, rmod, mv.group(1))
    if sh[0] != "fixed":
        return None
    return (T.size(m1.group(1)), sh[1])

# hand-written element types (inventoried by translate/handwritten_write.py; exercised by the value-level oracle)
HAND_ELEMS = {
    "PString": " (hand-written in write-fonts/src/tables/post.rs: the writer truncates the length with `as u8`, the hand-written reader rejects non-ASCII bytes, and the VarLenArray extends to the end of the data)",
    "InstanceRecord": " (hand-written FontWrite / FontReadWithArgs / ComputeSize in {write,read}-fonts/src/tables/fvar.rs, instance_record.rs: size = the instance_size argument, optional trailing post_script_name_id)",
    "DeviceRecord": " (hand-written in {write,read}-fonts/src/tables/hdmx.rs: size = the size_device_record field, padded widths)",
    "VarSizeDummy": " (hand-written test type in codegen_test)",
}

def shape_concat(a, b, what):
    if a[0] == "fixed" and b[0] == "fixed":
        return ("fixed", a[1] + b[1], True)
    if a[0] == "fixed":
        return ("var", a[1] + b[1], b[2])
    if b[0] == "fixed":
        if all(w == a[2] for w in b[1]):
            return a
        raise NotCovered(f"{what}: fixed scalars of another width after a variable-length part")
    if a[2] == b[2] and all(w == b[2] for w in b[1]):
        return a
    raise NotCovered(f"{what}: two variable-length parts of different scalar widths")

def flat_shape(T, W, mod, ty, depth=0):
    """how the writer of `ty` lays out one value, as a flat sequence of scalars:
    ('fixed', widths, isrec) | ('var', prefix widths, tail width) (= the prefix, then any number of tail-width scalars)"""
    if depth > 6:
        raise NotCovered("record nesting")
    m = re.fullmatch(r"(?:Nullable)?OffsetMarker<(.+)>", ty)
    if m:
        args = split_top(m.group(1), ",")
        w = args[1] if len(args) > 1 else None
        if w not in OFFSET_W:
            raise NotCovered(f"offset width {w}")
        return ("fixed", [OFFSET_W[w]], False)
    s = T.size(ty)
    if s is not None:
        return ("fixed", [s], False)
    if ty == "ValueRecord" and "ValueRecord" not in W.get(mod, {}):
        # (mvar has a generated fixed-size record of the same name)
        # hand-written `impl FontWrite for ValueRecord` (write-fonts/src/tables/gpos/value_record.rs): one 16-bit scalar /
        # offset per flag of its format — any number of 2-byte scalars
        return ("var", [], 2)
    m = re.fullmatch(r"Vec<(.+)>", ty)
    if m:
        inner = flat_shape(T, W, mod, m.group(1), depth + 1)
        ws = set(inner[1]) | ({inner[2]} if inner[0] == "var" else set())
        if len(ws) != 1:
            raise NotCovered(f"a Vec of records with scalars of different widths inside an element ({ty})")
        return ("var", [], ws.pop())
    if not re.fullmatch(r"\w+", ty):
        raise NotCovered(f"field type {ty}")
    rec, rmod = find_writer_record(W, mod, ty)
    if rec is None:
        raise NotCovered(f"element type {ty} has no generated writer" + HAND_ELEMS.get(ty, ""))
    out = ("fixed", [], True)
    for st in rec["stmts"]:
        mm = re.fullmatch(r"self\.(\w+)\.write_into\(writer\)", st)
        if mm and mm.group(1) in rec["fields"]:
            part = flat_shape(T, W, rmod, rec["fields"][mm.group(1)], depth + 1)
        else:
            # constants / counts / hand-written computed scalars inside an element record: one scalar of the cast type
            mc = re.fullmatch(r"\((?:.+?) ?as (\w+)\)\.write_into\(writer\)", st)
            mk = None
            for (rx, _, _) in COUNT_RES:
                mk = mk or re.fullmatch(rx + r"\.write_into\(writer\)", st)
            if mk:
                part = ("fixed", [T.size(mk.group(1))], True)
            elif mc and T.size(mc.group(1)) is not None:
                part = ("fixed", [T.size(mc.group(1))], True)
            else:
                raise NotCovered(f"element record {ty}: statement {st[:80]}")
        out = shape_concat(out, part, f"element record {ty}")
    return (out[0], out[1], True) if out[0] == "fixed" else out

COUNT_RES = [
    (r"\((u16|u32|u8)::try_from\(array_len\(&self\.(\w+)\)\)\.unwrap\(\)\)", 1, 0),
    (r"\((u16|u32|u8)::try_from\(plus_one\(&self\.(\w+)\.len\(\)\)\)\.unwrap\(\)\)", 1, 1),
    (r"\((u16|u32|u8)::try_from\(2\*array_len\(&self\.(\w+)\)\)\.unwrap\(\)\)", 2, 0),
]

def parse_writer(T, W, mod, name, wd, computed_ids):
    """-> list of statements: dict(name|None, cond, kind, …)"""
    out = []
    version_ty = None
    version_src = None
    fields = wd["fields"]

    def scalar_stmt(expr):
        """`EXPR.write_into(writer)` for a scalar-valued EXPR"""
        nonlocal version_ty, version_src
        if expr == "version":
            if version_src is None:
                raise NotCovered("version local used before its let")
            d = dict(version_src)
            d["is_version"] = True
            return d
        mm = re.fullmatch(r"self\.(\w+)", expr)
        if mm:
            fname = mm.group(1)
            if fname not in fields:
                raise NotCovered(f"unknown field {fname}")
            fty = fields[fname]
            mo = re.fullmatch(r"Option<(.+)>", fty)
            it = writer_field_item(T, W, mod, mo.group(1) if mo else fty)
            inner_ty = mo.group(1) if mo else fty
            mv = re.fullmatch(r"Vec<(\w+)>", inner_ty)
            wtype = mv.group(1) if mv else (inner_ty if re.fullmatch(r"\w+", inner_ty) else None)
            if it[0] == "scalar":
                return {"name": fname, "kind": "scalar", "src": ".field", "size": it[1], "offset": it[2], "opt": bool(mo), "ty": fty}
            if it[0] == "arrayV":
                return {"name": fname, "kind": "arrayV", "pre": it[1], "tail": it[2], "fixed": it[3], "isrec": True, "opt": bool(mo), "wtype": wtype}
            if it[0] == "arrayL":
                return {"name": fname, "kind": "arrayL", "hw": it[1], "item": it[2], "fixed": None, "isrec": True, "opt": bool(mo)}
            return {"name": fname, "kind": "array", "elem": it[1], "fixed": it[2], "isrec": it[3], "opt": bool(mo), "wtype": wtype if it[3] else None}
        for (rx, a, b) in COUNT_RES:
            mm = re.fullmatch(rx, expr)
            if mm:
                aty = fields.get(mm.group(2), "")
                if not re.fullmatch(r"(?:Option<)?Vec<.+>", aty):
                    # the array lives behind an offset (`OffsetMarker<Vec<T>>`): its length is not a property of
                    # this table's own bytes — treated like a hand-written computed field
                    k = computed_ids.setdefault(f"{name}::len({mm.group(2)})", len(computed_ids))
                    return {"name": None, "kind": "scalar", "src": f".computed {k}", "size": T.size(mm.group(1)),
                            "computed": f"len({mm.group(2)})"}
                return {"name": None, "kind": "scalar", "src": ("count", mm.group(2), a, b), "size": T.size(mm.group(1))}
        mm = re.fullmatch(r"\(self\.(\w+)\(\)as (\w+)\)", expr)
        if mm:
            sz = T.size(mm.group(2))
            if sz is None:
                raise NotCovered(f"computed field of type {mm.group(2)}")
            k = computed_ids.setdefault(f"{name}::{mm.group(1)}", len(computed_ids))
            return {"name": None, "kind": "scalar", "src": f".computed {k}", "size": sz, "computed": mm.group(1), "ty": mm.group(2)}
        mm = re.fullmatch(r"\(self\.(compile_\w+)\(\)\)", expr)
        if mm:
            rets = T.hand_fn_ret.get(mm.group(1), set())
            if len(rets) != 1:
                raise NotCovered(f"written expression {expr}: return type of the hand-written fn not found ({sorted(rets)})")
            rty = next(iter(rets))
            sz = T.size(rty)
            if sz is None:
                raise NotCovered(f"written expression {expr} of hand-written non-scalar type {rty}")
            k = computed_ids.setdefault(f"{name}::{mm.group(1)}", len(computed_ids))
            return {"name": None, "kind": "scalar", "src": f".computed {k}", "size": sz, "computed": mm.group(1), "ty": rty}
        mm = re.fullmatch(r"\((\w+)::(\w+) as (\w+)\)", expr)
        if mm and mm.group(1) == mm.group(3) and (mm.group(1), mm.group(2)) in T.enum_consts and T.size(mm.group(3)) is not None:
            return {"name": None, "kind": "scalar", "src": f".const {T.enum_consts[(mm.group(1), mm.group(2))]}", "size": T.size(mm.group(3)), "ty": mm.group(3)}
        mm = re.fullmatch(r"\((.+) as (\w+)\)", expr)
        if mm:
            v = const_value(mm.group(1))
            sz = T.size(mm.group(2))
            if v is None or sz is None:
                raise NotCovered(f"constant {expr}")
            return {"name": None, "kind": "scalar", "src": f".const {v}", "size": sz, "ty": mm.group(2)}
        raise NotCovered(f"written expression {expr[:80]}")

    for s in wd["stmts"]:
        mm = re.fullmatch(r"let version=(.+)", s)
        if mm:
            e = mm.group(1)
            m3 = re.fullmatch(r"self\.(\w+)", e)
            if m3:
                version_src = scalar_stmt(e)
                version_ty = fields.get(m3.group(1))
            else:
                m4 = re.fullmatch(r"(.+?) ?as (\w+)", e)
                if not m4:
                    raise NotCovered(f"version expression {e}")
                version_src = scalar_stmt("(" + e + ")")
                version_ty = m4.group(2)
            continue
        mm = re.fullmatch(r"(.+)\.write_into\(writer\)", s)
        if mm and not re.match(COND_RE + r"\.then", s):
            d = scalar_stmt(mm.group(1))
            d["cond"] = None
            if d.get("opt"):
                raise NotCovered(f"Option field {d['name']} written unconditionally")
            out.append(d)
            continue
        mm = re.fullmatch(COND_RE + r"\.then\(\|\|(.+)\)", s)
        if mm:
            recv, cfn, carg, inner = mm.groups()
            if recv == "version":
                if version_ty is None:
                    raise NotCovered("condition on version before its let")
                cond = ("version", parse_cond(T, version_ty, cfn, carg))
            else:
                raise NotCovered(f"condition receiver {recv}")
            m5 = re.fullmatch(r'\{self\.(\w+)\.as_ref\(\)\.expect\("missing conditional field should have failed validation"\)\.write_into\(writer\)\}', inner)
            m6 = re.fullmatch(r"(.+)\.write_into\(writer\)", inner)
            if m5:
                d = scalar_stmt("self." + m5.group(1))
                if not d.get("opt"):
                    raise NotCovered(f"expect() on non-Option field {m5.group(1)}")
            elif m6:
                d = scalar_stmt(m6.group(1))
                if d.get("opt"):
                    raise NotCovered(f"Option field {d['name']} written without expect")
            else:
                raise NotCovered(f"conditional statement {inner[:80]}")
            d["cond"] = cond
            out.append(d)
            continue
        mm = re.fullmatch(r"self\.(\w+)\.(contains|intersects)\(([^()]*)\)\.then\(\|\|(.+)\)", s)
        if mm:
            recv, cfn, carg, inner = mm.groups()
            if recv not in fields:
                raise NotCovered(f"unknown flags field {recv}")
            cond = (recv, parse_cond(T, fields[recv], cfn, carg))
            m5 = re.fullmatch(r'\{self\.(\w+)\.as_ref\(\)\.expect\("missing conditional field should have failed validation"\)\.write_into\(writer\)\}', inner)
            if not m5:
                raise NotCovered(f"conditional statement {inner[:80]}")
            d = scalar_stmt("self." + m5.group(1))
            if not d.get("opt"):
                raise NotCovered(f"expect() on non-Option field {m5.group(1)}")
            d["cond"] = cond
            out.append(d)
            continue
        raise NotCovered(f"writer statement {s[:100]}")
    return out

# ------------------------------------------------------------------------------------------------
# pairing and emission

def remove_offset_from_field_name(name):
    """font-codegen/src/fields.rs::remove_offset_from_field_name (thing_offset -> thing, thing_offsets -> things)"""
    if not (name.endswith("_offset") or name.endswith("_offsets")):
        return name
    if name.endswith("s"):
        temp = name
        while temp.endswith("_offsets"):
            temp = temp[:-len("_offsets")]
        if temp.endswith("attach") or temp.endswith("patch"):
            return temp + "es"
        if temp.endswith("data"):
            return temp
        return temp + "s"
    temp = name
    while temp.endswith("_offset"):
        temp = temp[:-len("_offset")]
    return temp

def is_offset_ty(ty):
    return ty is not None and re.fullmatch(r"(?:Nullable<)?Offset(16|24|32)>?", ty) is not None

def lean_list(xs):
    return "[" + ", ".join(xs) + "]"

def lean_opt_cond(c):
    return "none" if c is None else f"(some ({c[0]}, {c[1]}))"

ARG_BASE = 1000

def build_pair(T, W, R, mod, name, wd, computed_ids):
    if wd["generic"]:
        # a type parameter may only name the target of an offset (`Vec<OffsetMarker<T>>`): the layout does not depend on it
        for fn_, fty in wd["fields"].items():
            if re.search(r"\bT\b", re.sub(r"OffsetMarker<T(?:,\w+)?>", "OffsetMarker<X>", fty)):
                raise NotCovered(f"generic type: field {fn_} : {fty} depends on the type parameter")
    rkey = wd["reader"] or (mod, name)
    wst = parse_writer(T, W, mod, name, wd, computed_ids)
    # reader layout
    rargs = []
    if rkey in R.tables:
        rt = R.tables[rkey]
        if "error" in rt:
            raise NotCovered(rt["error"])
        rfields = rt["fields"]
        rargs = rt.get("args", [])
        kind = "table"
    elif rkey in R.records:
        rfields = [{"name": n, "cond": None, "kind": "scalar", "ty": t, "size": T.size(t), "getter": True}
                   for (n, t) in R.records[rkey]]
        kind = "record"
    elif rkey in R.arg_records:
        rt = R.arg_records[rkey]
        if "error" in rt:
            raise NotCovered(rt["error"])
        rfields = rt["fields"]
        rargs = rt["args"]
        kind = "record"
    else:
        raise NotCovered(f"reader {rkey[0]}::{rkey[1]} is not a generated table marker or record (hand-written reader)")
    # `from_obj_ref` (the third generated piece): every owned field must be converted from the getter of the same name
    # (`f: obj.f()`, `f: obj.f().to_owned_obj(..)`, `f: obj.f().to_owned_table()`, `f: convert(obj.f())` …)
    if wd.get("from_obj") is not None:
        for d in wst:
            if d.get("name") and (d["kind"] != "scalar" or d.get("src") == ".field"):
                e = wd["from_obj"].get(d["name"])
                if e is None or not re.search(r"\bobj\.%s\((?:offset_data)?\)" % d["name"], e):
                    raise NotCovered(f"from_obj_ref converts field {d['name']} from: {e}")
    names = [f["name"] for f in rfields]
    # the writer names an offset field without its `_offset(s)` suffix (codegen rule, transcribed above)
    mnames = [remove_offset_from_field_name(f["name"]) if is_offset_ty(f.get("ty") if f["kind"] == "scalar" else f.get("elemty")) else f["name"]
              for f in rfields]
    ids = {n: i for i, n in enumerate(mnames)}
    # reader-side names (count / size / condition variables are reader locals = reader field names, or arguments)
    rids = {f["name"]: i for i, f in enumerate(rfields)}
    for k, (an, _) in enumerate(rargs):
        if an in rids:
            raise NotCovered(f"argument {an} shadows a field")
        rids[an] = ARG_BASE + k
    if len(rfields) >= ARG_BASE:
        raise NotCovered("too many fields")
    extra = []

    def fid(n):
        if n not in ids:
            ids[n] = len(ids)
            extra.append(n)
        return ids[n]

    # writer statements
    wl = []
    winfo = {}     # id -> ('field',) | ('count', arrid, a, b) | ('array', fixed) | ('other',)   (unconditional statements only)
    version_pos = None
    for pos, d in enumerate(wst):
        i = fid(d["name"]) if d["name"] is not None else pos
        if d.get("is_version"):
            version_pos = i
        cond = None
        if d["cond"] is not None:
            recv, ctext = d["cond"]
            if recv == "version":
                if version_pos is None:
                    raise NotCovered("condition on version before it is written")
                cond = (version_pos, ctext)
            else:
                cond = (fid(recv), ctext)
        if d["kind"] == "scalar":
            src = d["src"]
            info = ("field",) if src == ".field" else ("other",)
            if isinstance(src, tuple):
                info = ("count", fid(src[1]), src[2], src[3])
                src = f".count {fid(src[1])} {src[2]} {src[3]}"
            item = f".scalar ({src}) {d['size']}"
        elif d["kind"] == "array":
            fixed = "none" if d["fixed"] is None else f"(some {d['fixed']})"
            item = f".array {lean_list([str(x) for x in d['elem']])} {fixed}"
            info = ("array", d["fixed"])
        elif d["kind"] == "arrayV":
            fixed = "none" if d["fixed"] is None else f"(some {d['fixed']})"
            item = f".arrayV {lean_list([str(x) for x in d['pre']])} {d['tail']} {fixed}"
            info = ("array", d["fixed"])
        else:
            item = f".arrayL {d['hw']} {lean_list([str(x) for x in d['item']])}"
            info = ("array", None)
        if cond is None:
            winfo[i] = info
        else:
            winfo[i] = ("cond",) + info
        wl.append(f"⟨{i}, {lean_opt_cond(cond)}, {item}⟩")
    # reader fields
    rl = []
    assumes, assume_text = [], []
    for i, f in enumerate(rfields):
        cond = None
        if f["cond"] is not None:
            cv, ctext = f["cond"]
            if cv not in rids:
                raise NotCovered(f"reader condition variable {cv} is not a field")
            cond = (rids[cv], ctext)
        if f["kind"] == "scalar":
            item = f".scalar {f['size']}"
        else:
            c = f["count"]
            if c[0] == "affine":
                if c[1] not in rids:
                    raise NotCovered(f"reader count variable {c[1]} is not a field")
                g = rids[c[1]]
                cnt = f"(.affine {g} {c[2]} {c[3]})"
                wi = winfo.get(g, ("missing",))
                if wi == ("count", i, c[2], c[3]):
                    pass
                elif wi == ("field",):
                    assumes.append(f".fieldIsCount {g} {i} {c[2]} {c[3]}")
                    assume_text.append(f"{names[g]} = " + (f"{c[2]} * " if c[2] != 1 else "") + f"len({names[i]})" + (f" + {c[3]}" if c[3] else ""))
                elif wi[0] == "count" and wi[2:] == (c[2], c[3]):
                    assumes.append(f".sameLen {i} {wi[1]}")
                    assume_text.append(f"len({names[i]}) = len({(names + extra)[wi[1]]})")
                elif wi == ("other",):
                    # the count field is a constant / a hand-written computed value: the reader's `(x as usize)` (…) is
                    # an expression of a written field the writer does not tie to the array
                    ce = ('var', c[1])
                    if c[3]:
                        ce = ('sub', ce, ('lit', c[3]))
                    if c[2] != 1:
                        ce = ('div', ce, c[2])
                    e = nx_lean(ce, rids)
                    cnt = f"(.expr {e})"
                    assumes.append(f".lenIsExpr {i} {e}")
                    assume_text.append(f"len({names[i]}) = {nx_text(ce)} (a constant / hand-written computed field)")
                else:
                    raise NotCovered(f"reader sizes {names[i]} with {names[g]}, which the writer writes as {wi}")
            elif c[0] == "lit":
                cnt = f"(.lit {c[1]})"
                wi = winfo.get(i, ("missing",))
                if wi == ("array", None):
                    assumes.append(f".lenIs {i} {c[1]}")
                    assume_text.append(f"len({names[i]}) = {c[1]}")
            elif c[0] == "expr":
                e = nx_lean(c[1], rids)
                cnt = f"(.expr {e})"
                assumes.append(f".lenIsExpr {i} {e}")
                assume_text.append(f"len({names[i]}) = {nx_text(c[1])}")
            else:
                cnt = ".rest"
            if f["kind"] == "array":
                item = f".array {cnt} {lean_list([str(x) for x in f['elem']])}"
            elif f["kind"] == "arrayV":
                segs = compute_size_segs(T, R, f["size"][1], rkey[0], [('var', a) for a in f["size"][2]])
                sl = segs_lean(segs, rids)
                item = f".arrayV {cnt} {sl} {'true' if f['computed'] else 'false'}"
                assumes.append(f".elemLen {i} {sl}")
                assume_text.append(f"every element of {names[i]} has the scalars {segs_text(segs)}")
                if f["computed"]:
                    assumes.append(f".elemSized {i} {sl}")
                    assume_text.append(f"{names[i]} is empty or its elements have a non-zero size (a ComputedArray of zero-sized items reads back empty)")
            else:
                item = f".arrayL {cnt} {f['hw']} {lean_list([str(x) for x in f['item']])}"
        rl.append(f"⟨{i}, {lean_opt_cond(cond)}, {item}⟩")
    shown = []
    for f in rfields:
        if f["kind"] == "scalar":
            shown.append("S")
        elif f["kind"] == "array":
            shown.append("R" if f.get("isrec") else "A")
        elif f["kind"] == "arrayV":
            shown.append("V1" if f["count"] == ("lit", 1) else "R")
        else:
            shown.append("L%d" % len(f["item"]))
    # hidden from the correspondence rendering: fields without a getter, and scalars wider than 8 bytes (the
    # traversal renders them as `Unknown`)
    hidden = [(not f.get("getter", True)) or (f["kind"] == "scalar" and f["size"] > 8) for f in rfields]
    # array items whose element type is a generated record: (field name, writer type, expected flat layout, reader elem type)
    elem_links = []
    for d in wst:
        if d.get("wtype") and d["kind"] in ("array", "arrayV"):
            rf = next((f for f, mn in zip(rfields, mnames) if mn == d["name"]), None)
            if d["kind"] == "array":
                sh = (d["elem"], None)
            else:
                sh = (d["pre"], d["tail"])
            elem_links.append({"field": d["name"], "wtype": d["wtype"], "shape": sh, "single": d["fixed"] == 1,
                               "rtype": rf.get("elemty") if rf is not None and rf["kind"] == "array" else None,
                               "relem": rf.get("elem") if rf is not None and rf["kind"] == "array" else None})
    return {"kind": kind, "assumes": assumes, "assume_text": assume_text, "names": names + extra, "w": wl, "r": rl, "show": shown, "hidden": hidden,
            "elem_links": elem_links,
            "computed": [d["computed"] for d in wst if d.get("computed")],
            "nstmts": len(wd["stmts"]), "reader": rkey, "args": [a for a, _ in rargs],
            "features": sorted(set(
                (["args"] if rargs else []) +
                [{"arrayV": "computed-size", "arrayL": "varlen"}[f["kind"]] for f in rfields if f["kind"] in ("arrayV", "arrayL")] +
                (["count-expr"] if any(f["kind"] != "scalar" and f["count"][0] == "expr" for f in rfields) else [])))}

def parse_var_sizes(T, R, repo):
    """hand-written `impl VarSize for X<'_>` (read-fonts/src/tables/*.rs) whose item length is
    `count * Item::RAW_BYTE_LEN + Size::RAW_BYTE_LEN` with the hand-written `FontRead` reading exactly that
    (`cursor.read_be()` the count, `cursor.read_array(count)` the items)"""
    for f in sorted(glob.glob(os.path.join(repo, "read-fonts/src/tables/*.rs"))):
        txt = strip_comments(open(f).read())
        for m in re.finditer(r"impl VarSize for (\w+)<'_>\s*\{", txt):
            e = balanced(txt, m.end() - 1)
            body = tight(txt[m.end():e - 1])
            mm = re.fullmatch(r"type Size=(\w+);fn read_len_at\(data:FontData,pos:usize\)->Option<usize>\{Some\(data\.read_at::<(\w+)>\(pos\)\.ok\(\)\?as usize\*(\w+)::RAW_BYTE_LEN\+(\w+)::RAW_BYTE_LEN\)\}", body)
            if not mm or not (mm.group(1) == mm.group(2) == mm.group(4)):
                continue
            name = m.group(1)
            mr = re.search(r"impl<'a> FontRead<'a> for %s<'a>\s*\{" % name, txt)
            if not mr:
                continue
            e2 = balanced(txt, mr.end() - 1)
            rb = tight(txt[mr.end():e2 - 1])
            if not re.fullmatch(r"fn read\(data:FontData<'a>\)->Result<Self,ReadError>\{let mut cursor=data\.cursor\(\);let (\w+):BigEndian<%s>=cursor\.read_be\(\)\?;let (\w+)=cursor\.read_array\(\1\.get\(\)as _\)\?;Ok\(%s\{\1,\2\}\)\}" % (mm.group(1), name), rb):
                continue
            try:
                item, _ = elem_sizes(T, R, mm.group(3), os.path.basename(f)[:-3])
            except NotCovered:
                continue
            R.var_sizes[name] = {"hw": T.size(mm.group(1)), "item": item}
            # the same hand-written `FontRead` is the reader layout of the record itself
            mf = re.search(r"let (\w+):BigEndian<\w+>=cursor\.read_be\(\)\?;let (\w+)=cursor\.read_array", rb)
            R.arg_records[(os.path.basename(f)[:-3], name)] = {"args": [], "statements": 4, "hand": True, "fields": [
                {"name": mf.group(1), "cond": None, "kind": "scalar", "ty": mm.group(1), "size": T.size(mm.group(1)), "getter": True},
                {"name": mf.group(2), "cond": None, "kind": "array", "count": ("affine", mf.group(1), 1, 0), "elem": item,
                 "elemty": mm.group(3), "isrec": len(item) > 1, "getter": True}]}

def parse_enum_writers(src):
    """generated `impl FontWrite for Enum { fn write_into(&self, writer) { match self { Self::A(item) => item.write_into(writer), … } } }`"""
    src = re.sub(r"#\[[^\]]*\]", "", src)
    out = {}
    enums = {}
    for m in re.finditer(r"pub enum (\w+)\s*\{", src):
        e = balanced(src, m.end() - 1)
        body = re.sub(r"///.*", "", src[m.end():e - 1])
        vs = []
        for part in split_top(body, ","):
            part = tight(part)
            mm = re.fullmatch(r"(\w+)\((\w+)\)", part)
            if mm:
                vs.append((mm.group(1), mm.group(2)))
        enums[m.group(1)] = vs
    for m in re.finditer(r"impl\s+FontWrite\s+for\s+(\w+)\s*\{", src):
        name = m.group(1)
        if name not in enums:
            continue
        end = balanced(src, m.end() - 1)
        body = src[m.end():end]
        m2 = re.search(r"fn write_into\(&self,\s*writer:\s*&mut TableWriter\)\s*\{", body)
        if not m2:
            continue
        e2 = balanced(body, m2.end() - 1)
        b = tight(body[m2.end():e2 - 1])
        mm = re.fullmatch(r"match self\{(.*)\}", b)
        if not mm:
            continue
        arms = []
        ok = True
        for arm in split_top(mm.group(1), ","):
            if not arm:
                continue
            ma = re.fullmatch(r"Self::(\w+)\((\w+)\)=>\2\.write_into\(writer\)", arm)
            if not ma:
                ok = False
                break
            arms.append(ma.group(1))
        if not ok:
            out[name] = {"error": f"writer: dispatch arm {arm[:80]}"}
            continue
        tys = dict(enums[name])
        if any(a not in tys for a in arms):
            out[name] = {"error": "writer: arm without a tuple variant"}
            continue
        rd = re.search(r"FromTableRef<read_fonts::tables::(\w+)::(\w+)(?:<[^>]*>)?>\s+for\s+%s\b" % name, src) or \
            re.search(r"FromObjRef<read_fonts::tables::(\w+)::(\w+)(?:<[^>]*>)?>\s+for\s+%s\b" % name, src)
        out[name] = {"arms": [(a, tys[a]) for a in arms], "reader": (rd.group(1), rd.group(2)) if rd else None}
    return out

def parse_child_args(rsrc):
    """generated getters that resolve an offset with arguments: reader type -> offset field -> [argument source names]
    (`let args = self.a();` / `let args = (self.a(), self.b());` then `self.f_offset().resolve_with_args(data, &args)` or
    `ArrayOfOffsets::new(self.f_offsets(), data, args)`)"""
    out = {}
    for mod, src in rsrc.items():
        src = re.sub(r"#\[[^\]]*\]", "", src)
        for m in re.finditer(r"impl(?:<'a>)?\s*(\w+)(?:<'a>)?\s*\{", src):
            e = balanced(src, m.end() - 1)
            body = src[m.end():e]
            for g in re.finditer(r"pub fn (\w+)(?:<'a>)?\(&self(?:,\s*data:\s*FontData<'a>)?\)\s*->\s*([^{]+)\{", body):
                ge = balanced(body, g.end() - 1)
                b = tight(body[g.end():ge - 1])
                if not b.startswith("let data=self.data;"):
                    b = "let data=self.data;" + b      # record-level getter: `data` is a parameter
                mm = re.fullmatch(r"let data=self\.data;let args=(.+);self\.(\w+)\(\)\.resolve_with_args\(data,&args\)", b) or \
                    re.fullmatch(r"let data=self\.data;let offsets=self\.(\w+)\(\);let args=(.+);ArrayOf(?:Nullable)?Offsets::new\(offsets,data,args\)", b)
                if not mm:
                    continue
                a, f = (mm.group(1), mm.group(2)) if "resolve_with_args" in b else (mm.group(2), mm.group(1))
                ma = re.fullmatch(r"\((.*)\)", a)
                parts = split_top(ma.group(1), ",") if ma else [a]
                names = []
                for part in parts:
                    mp = re.fullmatch(r"self\.(\w+)\(\)", part)
                    if not mp:
                        names = None
                        break
                    names.append(mp.group(1))
                if names:
                    out.setdefault(m.group(1), {})[f] = names
    return out

def main():
    ap = argparse.ArgumentParser()
    ap.add_argument("--repo", default="/repo")
    ap.add_argument("--out", required=True)
    ap.add_argument("--report", required=True)
    ap.add_argument("--write-baseline", action="store_true")
    a = ap.parse_args()
    T = Types(a.repo)
    R = Reader()
    rfiles = sorted(glob.glob(os.path.join(a.repo, "read-fonts/generated/generated_*.rs"))) + \
        [os.path.join(a.repo, "read-fonts/generated/font.rs")]
    # two passes so record sizes, argument types and ComputeSize impls of every module are known before tables are parsed
    rsrc = {}
    for f in rfiles:
        if not os.path.exists(f):
            continue
        b = os.path.basename(f)
        mod = b[len("generated_"):-3] if b.startswith("generated_") else b[:-3]
        rsrc[mod] = strip_comments(open(f).read())
    for mod, src in rsrc.items():
        tmp = Reader()
        parse_reader_file(T, mod, src, tmp)
        R.records.update(tmp.records)
        R.read_args.update(tmp.read_args)
        R.compute_sizes.update(tmp.compute_sizes)
        R.formats.update(tmp.formats)
        for k, v in tmp.rec_sizes.items():
            if k in R.rec_sizes and R.rec_sizes[k] != v:
                R.rec_sizes[k] = None
            else:
                R.rec_sizes.setdefault(k, v)
    parse_var_sizes(T, R, a.repo)
    for mod, src in rsrc.items():
        tmp = Reader()
        tmp.rec_sizes = R.rec_sizes
        tmp.records = R.records
        tmp.read_args = R.read_args
        tmp.compute_sizes = R.compute_sizes
        tmp.formats = R.formats
        tmp.var_sizes = R.var_sizes
        parse_reader_file(T, mod, src, tmp)
        R.tables.update(tmp.tables)
        R.arg_records.update(tmp.arg_records)
        R.enums.update(tmp.enums)
    W = {}
    WE = {}
    for f in sorted(glob.glob(os.path.join(a.repo, "write-fonts/generated/generated_*.rs"))):
        mod = os.path.basename(f)[len("generated_"):-3]
        wsrc = strip_comments(open(f).read())
        W[mod] = parse_writer_file(T, mod, wsrc)
        WE[mod] = parse_enum_writers(wsrc)
    covered, not_covered = {}, {}
    computed_ids = {}
    total = 0
    stmts_consumed = 0
    for mod in sorted(W):
        for name in sorted(W[mod]):
            total += 1
            key = f"{mod}_{name}"
            try:
                covered[key] = build_pair(T, W, R, mod, name, W[mod][name], computed_ids)
                covered[key]["type"] = name
                stmts_consumed += covered[key]["nstmts"]
            except NotCovered as e:
                not_covered[key] = str(e)
    # format enums
    enums_cov, enums_not = {}, {}
    for mod in sorted(WE):
        for name in sorted(WE[mod]):
            key = f"{mod}_{name}"
            we = WE[mod][name]
            try:
                if "error" in we:
                    raise NotCovered(we["error"])
                rkey = we["reader"] or (mod, name)
                re_ = R.enums.get(rkey)
                if re_ is None:
                    raise NotCovered(f"reader {rkey[0]}::{rkey[1]} has no generated `match format` dispatch (hand-written reader)")
                if "error" in re_:
                    raise NotCovered(re_["error"])
                # the two match statements, arm by arm (variant names); the table types are paired through the covered pairs
                wa, ra = we["arms"], re_["arms"]
                if [v for v, _ in wa] != [v for v, _ in ra]:
                    raise NotCovered(f"writer arms {[v for v, _ in wa]} vs reader arms {[v for v, _ in ra]}")
                variants = []
                for (v, wty), (_, rty) in zip(wa, ra):
                    pk = f"{mod}_{wty}"
                    if pk not in covered:
                        raise NotCovered(f"variant {v} ({wty}): " + not_covered.get(pk, "no generated writer"))
                    if covered[pk]["reader"][1] != rty:
                        raise NotCovered(f"variant {v}: writer type {wty} reads as {covered[pk]['reader'][1]}, the reader arm builds {rty}")
                    if covered[pk]["args"]:
                        raise NotCovered(f"variant {v} ({wty}) is read with arguments")
                    if rty not in R.formats:
                        raise NotCovered(f"variant {v}: no Format constant for {rty}Marker")
                    variants.append((v, pk, R.formats[rty][1]))
                enums_cov[key] = {"type": name, "hw": re_["hw"], "variants": variants}
            except NotCovered as e:
                enums_not[key] = str(e)
    # driver lookup is by bare type name: drop ambiguous names from the registry (still proved)
    by_name = {}
    for k, v in covered.items():
        by_name.setdefault(v["type"], []).append(k)
    # ---- Lean
    L = []
    L.append("/- GENERATED by translate/writers.py from write-fonts/generated/*.rs and read-fonts/generated/*.rs — do not edit -/")
    L.append("import FontVerif.Model.Field")
    L.append("set_option maxRecDepth 8192")
    L.append("namespace FontVerif.Gen.WriteProgs")
    L.append("open FontVerif.Field")
    L.append("")
    for k in sorted(covered):
        v = covered[k]
        argtxt = f", arguments {', '.join(v['args'])} = ids {ARG_BASE}…" if v["args"] else ""
        L.append(f"/-- `{v['type']}` (write-fonts generated_{k.split('_')[0]}.rs ↔ read-fonts {v['reader'][0]}::{v['reader'][1]}, {v['kind']}{argtxt}) -/")
        L.append(f"def {k}_w : List WF := {lean_list(v['w'])}")
        L.append(f"def {k}_r : List RF := {lean_list(v['r'])}")
        if v["assumes"]:
            L.append(f"/-- holds only for values with: {'; '.join(v['assume_text'])} (not established by the generated writer) -/")
            L.append(f"def {k}_assumes : List Assume := {lean_list(v['assumes'])}")
            L.append(f"theorem {k}_compat_under : compatU {k}_assumes {k}_w {k}_r = true := by decide +kernel")
        else:
            L.append(f"def {k}_assumes : List Assume := []")
            L.append(f"theorem {k}_compat : compat {k}_w {k}_r = true := by decide +kernel")
        L.append("")
    # elements that are records with their own pair: the flat layout the table's array item uses is the layout of the
    # record's own writer program (and, for fixed-size records, of its reader layout)
    by_reader = {}
    for k, v in covered.items():
        by_reader.setdefault(v["reader"], k)
    n_elem = 0
    for k in sorted(covered):
        v = covered[k]
        kmod = k[:-(len(v["type"]) + 1)]
        for ln in v["elem_links"]:
            if ln["wtype"] == "ValueRecord" and "ValueRecord" not in W.get(kmod, {}):
                continue        # the hand-written GPOS ValueRecord (Props/C04Hand.lean value_record_is_arrayV_element)
            rec, rmod = find_writer_record(W, kmod, ln["wtype"])
            rk = f"{rmod}_{ln['wtype']}"
            if rec is None or rk not in covered:
                continue
            pre, tail = ln["shape"]
            if tail is None and ln["single"]:
                continue
            want = f"({lean_list([str(x) for x in pre])}, {'none' if tail is None else f'some {tail}'})"
            facts = [f"wShape {rk}_w = some {want}"]
            rrk = by_reader.get((v["reader"][0], ln["rtype"])) if ln["rtype"] else None
            if tail is None and rrk is not None and covered[rrk]["kind"] == "record" and not covered[rrk]["args"]:
                facts.append(f"rFixed {rrk}_r = some {lean_list([str(x) for x in ln['relem']])}")
            L.append(f"/-- the elements of `{v['type']}.{ln['field']}` are `{ln['wtype']}` records: the item's flat layout is the layout of the record's own programs -/")
            L.append(f"theorem {k}_{ln['field']}_elem : {' ∧ '.join(facts)} := by decide +kernel")
            n_elem += 1
    L.append("")
    for k in sorted(enums_cov):
        v = enums_cov[k]
        L.append(f"/-- format enum `{v['type']}`: " + ", ".join(f"{n} = {fmt}" for (n, _, fmt) in v["variants"]) + " -/")
        L.append(f"def {k}_variants : List Variant := " + lean_list([f"⟨{fmt}, {pk}_w, {pk}_r, {pk}_assumes⟩" for (_, pk, fmt) in v["variants"]]))
        L.append(f"theorem {k}_dispatch : enumCompat {v['hw']} {k}_variants = true := by decide +kernel")
        L.append("")
    L.append("/-- registry for the driver: type name ↦ (field names, per reader field: S scalar / A scalar array / R record array / V1 one inline record / L length-prefixed records, hidden, number of reader arguments, writer, reader) -/")
    L.append("def allPairs : List (String × List String × List String × List Bool × Nat × List WF × List RF) := [")
    rows = []
    for k in sorted(covered):
        v = covered[k]
        if len(by_name[v["type"]]) != 1:
            continue
        names = lean_list(['"%s"' % n for n in v["names"]])
        show = lean_list(['"%s"' % s for s in v["show"]])
        hid = lean_list(["true" if h else "false" for h in v["hidden"]])
        rows.append(f'  ("{v["type"]}", {names}, {show}, {hid}, {len(v["args"])}, {k}_w, {k}_r)')
    L.append(",\n".join(rows))
    L.append("]")
    L.append("")
    L.append("def computedNames : List String := " + lean_list(['"%s"' % n for n in sorted(computed_ids, key=lambda n: computed_ids[n])]))
    L.append("")
    L.append("end FontVerif.Gen.WriteProgs")
    text = "\n".join(L) + "\n"
    os.makedirs(a.out, exist_ok=True)
    path = os.path.join(a.out, "WriteProgs.lean")
    if not os.path.exists(path) or open(path).read() != text:
        open(path, "w").write(text)
    # ---- link to the C01 reader shapes (translate/shapes.py output), when present
    shapes_path = os.path.join(a.out, "ReadShapes.lean")
    shape_names = set()
    if os.path.exists(shapes_path):
        for f in glob.glob(os.path.join(a.out, "ReadShapes*.lean")):
            shape_names |= set(re.findall(r"^def (\w+)_shape : Shape :=", open(f).read(), flags=re.M))
    linked, unlinked = [], []
    K = []
    K.append("/- GENERATED by translate/writers.py — the reader layouts of Gen/WriteProgs.lean agree structurally with the C01 reader shapes of Gen/ReadShapes*.lean (translate/shapes.py) — do not edit -/")
    K.append("import FontVerif.Model.FieldShape")
    K.append("import FontVerif.Gen.WriteProgs")
    K.append("import FontVerif.Gen.ReadShapes")
    K.append("set_option maxRecDepth 8192")
    K.append("namespace FontVerif.Gen.WriteProgsLink")
    K.append("open FontVerif.FieldShape FontVerif.Gen")
    K.append("")
    for k in sorted(covered):
        v = covered[k]
        if v["kind"] != "table":
            continue
        sn = f"{v['reader'][0]}_{v['reader'][1]}"
        if sn in shape_names:
            K.append(f"theorem {k}_reader_agrees : agrees ReadShapes.customNames ReadShapes.{sn}_shape WriteProgs.{k}_r = true := by decide +kernel")
            linked.append(k)
        else:
            unlinked.append(k)
    K.append("")
    K.append("end FontVerif.Gen.WriteProgsLink")
    ktext = "\n".join(K) + "\n"
    kpath = os.path.join(a.out, "WriteProgsLink.lean")
    if not os.path.exists(kpath) or open(kpath).read() != ktext:
        open(kpath, "w").write(ktext)
    # ---- report
    reasons = {}
    for k, r in not_covered.items():
        g = re.sub(r"\b[a-z_0-9]+\b(?=:|$)", "…", r.split(":")[0]) if ":" in r else r
        reasons[g] = reasons.get(g, 0) + 1
    base_path = os.path.join(HERE, "writers_expected.json")
    unparsed = []
    cov_names = sorted(covered)
    hashes = hand_hashes(a.repo)
    if a.write_baseline:
        json.dump({"covered": cov_names, "enums": sorted(enums_cov), "hand_hashes": hashes}, open(base_path, "w"), indent=0)
    if os.path.exists(base_path):
        basej = json.load(open(base_path))
        for k in basej["covered"]:
            if k not in covered:
                unparsed.append({"type": k, "reason": "covered in the committed baseline but no longer: " + not_covered.get(k, "type disappeared")})
        for k in basej.get("enums", []):
            if k not in enums_cov:
                unparsed.append({"type": k, "reason": "format enum covered in the committed baseline but no longer: " + enums_not.get(k, "type disappeared")})
        for k, h in basej.get("hand_hashes", {}).items():
            if hashes.get(k) != h:
                unparsed.append({"type": k, "reason": f"hand-written source transcribed in Model/Field.lean / translate/writers.py changed (token hash {hashes.get(k)} vs reviewed {h}): re-review the transcription, then --write-baseline"})
    else:
        unparsed.append({"type": "*", "reason": "translate/writers_expected.json missing"})
    feat = {}
    for k in cov_names:
        for ft in covered[k]["features"]:
            feat.setdefault(ft, []).append(k)
    rep = {
        "obligations": 0,  # the per-pair theorems are counted from Gen/WriteProgs.lean by ./check
        "writers_in_generated": total,
        "pairs_translated": len(covered),
        "pairs_not_covered": len(not_covered),
        "writer_statements_consumed": stmts_consumed,
        "covered": sorted(set(v["type"] for k, v in covered.items() if len(by_name[v["type"]]) == 1)),
        "covered_pairs": cov_names,
        "covered_args": {v["type"]: v["args"] for k, v in covered.items() if len(by_name[v["type"]]) == 1 and v["args"]},
        "features": feat,
        "child_args": parse_child_args(rsrc),
        "show_kinds": {v["type"]: dict(zip(v["names"], v["show"])) for k, v in covered.items() if len(by_name[v["type"]]) == 1 and any(x not in ("S", "A", "R") for x in v["show"])},
        "computed_fields": sorted(computed_ids),
        "reader_layouts_linked_to_C01_shapes": len(linked),
        "reader_layouts_without_C01_shape": unlinked,
        "pairs_unconditional": len([k for k in covered if not covered[k]["assumes"]]),
        "assumed": {k: covered[k]["assume_text"] for k in cov_names if covered[k]["assumes"]},
        "not_covered": not_covered,
        "not_covered_reasons": dict(sorted(reasons.items(), key=lambda kv: -kv[1])),
        "element_record_links": n_elem,
        "enums_in_generated": len(enums_cov) + len(enums_not),
        "enums_covered": {k: [f"{n}={fmt}" for (n, _, fmt) in v["variants"]] for k, v in enums_cov.items()},
        "enums_not_covered": enums_not,
        "hand_hashes": hashes,
        "samples": [{"pair": k, "writer": covered[k]["w"][:6], "reader": covered[k]["r"][:6]} for k in cov_names[:3]],
        "unparsed": unparsed,
    }
    json.dump(rep, open(a.report, "w"), indent=1)
    print(f"writers.py: {len(covered)} of {total} generated writers translated, {len(not_covered)} not covered; "
          f"{len(enums_cov)} of {len(enums_cov) + len(enums_not)} format enums; {len(unparsed)} regressions")
    return 0

if __name__ == "__main__":
    sys.exit(main())
