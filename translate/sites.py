#!/usr/bin/env python3
"""
sites.py — C07 translator: inventory of every place where compilation / font building / subsetting could
observe something that is NOT a function of the input value:

  * ITERATION over a hash container (`HashMap|HashSet|FnvHashMap|FnvHashSet|IndexMap|IndexSet`):
    `.iter() .iter_mut() .keys() .values() .values_mut() .into_iter() .into_keys() .into_values() .drain()
    .retain() .difference() .symmetric_difference() .intersection() .union()`, `for … in <hash>`, and the
    implicit `IntoIterator` uses `.extend(<hash>) .chain(<hash>) .zip(<hash>) from_iter(<hash>)`;
  * every DECLARATION of a hash-typed binding (struct field, fn parameter, `let`) — second line of defence:
    a new hash container anywhere in scope is a new key even if the iteration finder cannot type its uses;
  * process-global state on the output path: `static` items, atomics, `ObjectId::next`, thread-locals,
    once-cells, clocks, env, randomness.

Each item is keyed by (file, function, normalised expression) and carries a hash of the whole consuming
statement (for a `for` loop: header and body).  The committed table `translate/sites_classes.json` maps each key to
a lemma class (proved in lean/FontVerif/Props/C07.lean) and records the statement hash that was reviewed.  An item
that is NEW (not in the table), CHANGED (statement hash differs) or UNCLASSIFIED (class missing / not a known class)
is reported in `unparsed`, which makes `./check C07` print VIOLATION … no-failing-input-found naming the site.

Output: lean/FontVerif/Gen/Sites.lean (the classified inventory as Lean data; Props/C07.lean proves that every
listed class is one of the proved classes) and the --report JSON {obligations, unparsed, samples, …}.

usage: sites.py --repo /repo --out lean/FontVerif/Gen --report out.json [--dump] [--update]
  --dump    print the inventory (key, stmt hash, statement) for reviewing
  --update  rewrite sites_classes.json: keep classes of known keys, refresh hashes, add new keys as class "TODO"
"""
import argparse, glob, hashlib, json, os, re, sys

HASH_NAMES = ["HashMap", "HashSet", "FnvHashMap", "FnvHashSet", "IndexMap", "IndexSet"]
HASH = r"(?:" + "|".join(HASH_NAMES) + r")"
HASH_RE = re.compile(r"\b" + HASH + r"\b")
ITER_METHODS = ["iter", "iter_mut", "keys", "values", "values_mut", "into_iter", "into_keys", "into_values",
                "drain", "retain", "extract_if", "difference", "symmetric_difference", "intersection", "union",
                "par_iter", "into_par_iter", "sorted", "sorted_by", "sorted_by_key"]
IMPLICIT = ["extend", "chain", "zip", "from_iter", "append"]
# methods that return (a view of) their receiver unchanged as far as "is this a hash container" goes
THROUGH = {"clone", "to_owned", "borrow", "borrow_mut", "as_ref", "as_mut", "unwrap", "expect", "unwrap_or_default",
           "cloned", "take", "by_ref", "lock", "read", "write", "get_mut", "get", "get_or_insert_with",
           "or_default", "or_insert_with", "or_insert", "entry", "unwrap_or_else", "as_deref", "as_deref_mut"}
GLOBAL_RE = re.compile(
    r"\bstatic\s+(?:mut\s+)?\w+\s*:|\bAtomic(?:U|I)(?:8|16|32|64|size)\b|\bAtomicBool\b|\bthread_local!|\blazy_static!"
    r"|\bOnce(?:Lock|Cell)\b|\bLazy(?:Lock|Cell)\b|\bObjectId::next\b|\bSystemTime\b|\bInstant::now\b|\bstd::env::|\benv::var"
    r"|\brand::|\bRandomState\b|\bthread::current\b|\bthread_rng\b|\bnext_raw_id\b")

# (crate label, root-relative globs).  Generated files contain no hash containers; scanning them is cheap.
SCOPES = [
    ("write-fonts", ["write-fonts/src/**/*.rs"]),
    ("klippa", ["klippa/src/**/*.rs"]),
    ("ift", ["incremental-font-transfer/src/font_patch.rs", "incremental-font-transfer/src/glyph_keyed.rs",
             "incremental-font-transfer/src/table_keyed.rs"]),
]

KNOWN_CLASSES = [
    # hash-container consumption patterns (lemma per class in Props/C07.lean)
    "collect_ordered",      # collected into BTreeMap/BTreeSet (or a Vec that is sorted by a total key before use)
    "collect_hash",         # collected into another hash container / used only to build a set (set semantics)
    "set_algebra",          # difference/union/… whose result is only used as a set (membership, removal from maps)
    "fold_commutative",     # sum / count / min / max / all / any / len: commutative-associative fold
    "sort_total_key",       # collected into a Vec that is then sorted by a key that is injective on the elements
    "max_total_tiebreak",   # max_by_key / min_by_key with a TOTAL key (no two distinct elements tie)
    "unique_match",         # find / find_map where at most one element can match
    "remove_insert_disjoint",  # for (old,new) in map { if s.remove(old) { s.insert(new) } } with {old}∩{new}=∅
    "pointwise_update",     # per-entry update of a keyed structure, entries independent (map over values)
    "check_only",           # only decides whether to panic/log (exists / forall)
    "insertion_ordered",    # IndexMap/IndexSet: iteration order = insertion order, insertions come from ordered input
    "fnv_seedless_sorted",  # FnvHash* (no per-process seed) and the result is sorted / order-insensitive downstream
    "debug_only",           # logging, graphviz, Debug impls: not on the output path
    "test_only",            # inside test helpers that escaped the cfg(test) filter
    "not_hash",             # receiver is not a hash container (name collision of the syntactic typer)
    "lookup_only",          # declaration: container is never iterated (only get/insert/contains/len)
    "iterated_see_sites",   # declaration: container is iterated; every iteration is its own classified site
    # global state
    "counter_fresh_id",     # ObjectId::next / OBJECT_COUNTER: schedule_monotone + pack_equivariant
    "global_constant",      # immutable static data
    "off_output_path",      # global state not reachable from compile/build/subset output
    "verif_hook",           # code under cfg(googlefonts_fontations_verif)
]


def strip(src):
    """blank out comments, string and char literals (keeping offsets and newlines)"""
    out = list(src)
    i, n = 0, len(src)

    def blank(a, b):
        for k in range(a, b):
            if out[k] != "\n":
                out[k] = " "
    while i < n:
        c = src[i]
        if src.startswith("//", i):
            j = src.find("\n", i)
            j = n if j < 0 else j
            blank(i, j); i = j
        elif src.startswith("/*", i):
            depth, j = 1, i + 2
            while j < n and depth:
                if src.startswith("/*", j): depth += 1; j += 2
                elif src.startswith("*/", j): depth -= 1; j += 2
                else: j += 1
            blank(i, j); i = j
        elif c == '"' or (c == "r" and re.match(r'r#*"', src[i:i + 8]) and not (i > 0 and (src[i - 1].isalnum() or src[i - 1] == "_"))) \
                or (c == "b" and i + 1 < n and src[i + 1] == '"' and not (i > 0 and (src[i - 1].isalnum() or src[i - 1] == "_"))):
            if c == "b": i += 1; c = '"'
            if c == "r":
                m = re.match(r'r(#*)"', src[i:])
                close = '"' + m.group(1)
                j = src.find(close, i + len(m.group(0)))
                j = n if j < 0 else j + len(close)
                blank(i, j); i = j
            else:
                j = i + 1
                while j < n and src[j] != '"':
                    j += 2 if src[j] == "\\" else 1
                j = min(n, j + 1)
                blank(i + 1, j - 1); i = j
        elif c == "'":
            # char literal or lifetime
            m = re.match(r"'(\\.[^']*|[^\\'])'", src[i:i + 12])
            if m:
                blank(i + 1, i + len(m.group(0)) - 1); i += len(m.group(0))
            else:
                i += 1
        else:
            i += 1
    return "".join(out)


def norm(s):
    return re.sub(r"\s+", "", s)


def norm_stmt(s):
    return re.sub(r"\s+", " ", s).strip()


def split_top(s, sep=","):
    """split at top-level separators (depth over () [] {} <>; `->` and `=>` are not brackets)"""
    parts, depth, cur, i = [], 0, [], 0
    while i < len(s):
        c = s[i]
        if c in "([{": depth += 1
        elif c in ")]}": depth -= 1
        elif c == "<": depth += 1
        elif c == ">" and i > 0 and s[i - 1] not in "-=": depth -= 1
        if c == sep and depth == 0:
            parts.append("".join(cur)); cur = []
        else:
            cur.append(c)
        i += 1
    if "".join(cur).strip():
        parts.append("".join(cur))
    return parts


def idents(pat):
    return [w for w in re.findall(r"\b[a-z_][A-Za-z0-9_]*\b", pat) if w not in ("mut", "ref", "_", "box")]


def type_kind(t):
    """'direct' if the type IS a hash container (through refs / Option / path prefixes), 'nested' if it contains one"""
    if not HASH_RE.search(t):
        return None
    u = t.strip()
    while True:
        v = re.sub(r"^(&\s*('\w+\s*)?(mut\s+)?|mut\s+|impl\s+|dyn\s+|Option\s*<|Box\s*<|Rc\s*<|Arc\s*<|RefCell\s*<|Mutex\s*<|(\w+::)+)", "", u).strip()
        if v == u: break
        u = v
    m = re.match(HASH + r"\b", u)
    if m:
        inner = u[m.end():]
        return "direct+nested" if HASH_RE.search(inner) else "direct"
    return "nested"


class Block:
    __slots__ = ("hdr", "open", "close", "parent", "kind", "name", "test", "hdr_start")


def parse_blocks(s):
    out, stack = [], []
    last, pdepth = 0, 0
    for i, ch in enumerate(s):
        if ch in "([": pdepth += 1
        elif ch in ")]": pdepth = max(0, pdepth - 1)
        elif ch == "{":
            b = Block(); b.hdr = s[last:i]; b.open = i; b.close = None; b.parent = stack[-1] if stack else -1
            b.hdr_start = last
            out.append(b); stack.append(len(out) - 1); last = i + 1
        elif ch == "}":
            if stack:
                out[stack.pop()].close = i
            last = i + 1
        elif ch == ";" and pdepth == 0:
            last = i + 1
    for b in out:
        if b.close is None: b.close = len(s)
        h = b.hdr
        b.test = bool(re.search(r"#\[\s*cfg\s*\(\s*test\s*\)\s*\]|#\[\s*test\s*\]|#\[\s*cfg\s*\(\s*all\s*\(\s*test", h))
        b.kind, b.name = "other", ""
        m = re.search(r"\bfn\s+(\w+)", h)
        if m and not re.search(r"\b(impl|struct|enum|trait|mod)\b", h[:m.start()].split("]")[-1]):
            b.kind, b.name = "fn", m.group(1); continue
        m = re.search(r"\bimpl\b(.*)$", h, flags=re.S)
        if m and not re.search(r"\bfn\b", h):
            rest = m.group(1).strip()
            if rest.startswith("<"):
                d = 0
                for k, c in enumerate(rest):
                    if c == "<": d += 1
                    elif c == ">" and rest[k - 1] != "-":
                        d -= 1
                        if d == 0:
                            rest = rest[k + 1:]; break
            rest = re.split(r"\bwhere\b", rest)[0]
            parts = re.split(r"\bfor\b", rest)
            target = parts[-1].strip()
            mm = re.match(r"&?\s*(?:'\w+\s+)?(?:mut\s+)?((?:\w+::)*\w+)", target)
            b.kind, b.name = "impl", (mm.group(1).split("::")[-1] if mm else norm(target))
            continue
        m = re.search(r"\b(mod|struct|trait|enum|union)\s+(\w+)", h)
        if m:
            b.kind, b.name = m.group(1), m.group(2)
    return out


class Item:
    def __init__(self, kind, file, fn, expr, stmt, line, note="", fnbody=None):
        self.kind, self.file, self.fn, self.expr, self.stmt, self.line, self.note = kind, file, fn, expr, stmt, line, note
        self.fnbody = fnbody if fnbody is not None else stmt
        self.uses = None

    def key(self):
        return f"{self.file} :: {self.fn} :: {self.expr}"

    def h(self, scope="stmt"):
        """hash of the reviewed text: the consuming statement, or (scope "fn") the whole enclosing function body —
        used where the argument needs later statements too (e.g. `collect::<Vec<_>>()` … `sort` … use)"""
        txt = self.fnbody if scope == "fn" else self.stmt
        return hashlib.sha1(norm_stmt(txt).encode()).hexdigest()[:12]


def enclosing_statement(s, pos, lo, hi):
    """text of the statement containing offset pos inside s[lo:hi] (a fn body, braces excluded)"""
    # backward to previous ; { } at relative depth 0
    depth, i = 0, pos
    while i > lo:
        c = s[i - 1]
        if c == "}" and depth == 0:
            break
        if c in ")]}":
            depth += 1
        elif c in "([{":
            if depth == 0:
                if c == "{": break
                # inside parens of an enclosing call: keep going outward
                i -= 1; continue
            depth -= 1
        elif c == ";" and depth == 0:
            break
        elif c == "}" and depth == 0:
            break
        i -= 1
    start = i
    # a `}` closing a preceding block statement: we stopped right after it (depth bookkeeping above treats } as opener
    # when scanning backward, so refine: if we consumed a whole `{…}` that was a previous statement, cut there)
    txt_start = start
    head = s[txt_start:pos + 10].lstrip()
    # forward
    depth, j = 0, pos
    first_block_end = None
    while j < hi:
        c = s[j]
        if c in "([{":
            depth += 1
        elif c in ")]}":
            if depth == 0:
                if c == "}": break
                j += 1; continue      # closing an enclosing call's parenthesis: keep going outward
            depth -= 1
            if c == "}" and depth == 0 and first_block_end is None:
                first_block_end = j + 1
                if re.match(r"(for|while|if|match|loop)\b", head):
                    j += 1
                    break
        elif c == ";" and depth == 0:
            j += 1
            break
        j += 1
    return s[txt_start:j].strip()


def balanced_back(s, i, lo):
    """i points at a closing bracket; return index of the matching opener (scanning backward), or lo"""
    pairs = {")": "(", "]": "[", "}": "{", ">": "<"}
    close = s[i]; opener = pairs[close]
    depth = 0
    while i >= lo:
        c = s[i]
        if c == close and not (close == ">" and i > 0 and s[i - 1] in "-="): depth += 1
        elif c == opener:
            depth -= 1
            if depth == 0:
                return i
        i -= 1
    return lo


def receiver(s, dot, lo):
    """parse the postfix chain ending right before s[dot]=='.'; returns list of components, innermost first:
       ('name', ident) | ('call', callee, turbofish, argtext) | ('index',) | ('other', text); and start offset"""
    comps = []
    i = dot
    while True:
        while i > lo and s[i - 1].isspace(): i -= 1
        if i <= lo: break
        c = s[i - 1]
        if c == "?":
            i -= 1; continue
        if c == ")":
            o = balanced_back(s, i - 1, lo)
            args = s[o + 1:i - 1]
            k = o
            while k > lo and s[k - 1].isspace(): k -= 1
            turbo = ""
            if k > lo and s[k - 1] == ">" and "::<" in s[max(lo, k - 400):k]:
                o2 = balanced_back(s, k - 1, lo)
                if s[o2 - 2:o2] == "::":
                    turbo = s[o2:k]; k = o2 - 2
            m = re.search(r"((?:\w+::)*\w+)\s*$", s[lo:k])
            if m:
                callee = m.group(1); st = lo + m.start()
                comps.append(("call", callee, turbo, args))
                i = st
            else:
                comps.append(("other", s[o:i])); i = o
                break
        elif c == "]":
            o = balanced_back(s, i - 1, lo)
            comps.append(("index",)); i = o; continue
        elif c.isalnum() or c == "_":
            m = re.search(r"((?:\w+::)*\w+)\s*$", s[lo:i])
            comps.append(("name", m.group(1))); i = lo + m.start()
        else:
            break
        # continue if preceded by '.'
        k = i
        while k > lo and s[k - 1].isspace(): k -= 1
        if k > lo and s[k - 1] == "." and not (k > lo + 1 and s[k - 2] == "."):
            i = k - 1
            continue
        break
    # leading & / &mut / * are not part of the chain
    return comps, i


class Crate:
    def __init__(self, label):
        self.label = label
        self.files = {}         # rel -> (raw, stripped, blocks)
        self.fields = {}        # struct -> {field: type}
        self.field_any = {}     # field -> set(kinds) across structs whose type mentions a hash
        self.fn_ret = {}        # fn bare name -> list of kinds per tuple position (or single)
        self.statics = set()    # names of module-level `static` items
        self.variants = {}      # enum variant name -> kinds per payload position


def fn_signature(s, b):
    """(params text, return type text) of fn block b"""
    h = b.hdr
    m = re.search(r"\bfn\s+\w+", h)
    rest = h[m.end():]
    # skip generics
    k = 0
    while k < len(rest) and rest[k].isspace(): k += 1
    if k < len(rest) and rest[k] == "<":
        d = 0
        while k < len(rest):
            if rest[k] == "<": d += 1
            elif rest[k] == ">" and rest[k - 1] != "-":
                d -= 1
                if d == 0: k += 1; break
            k += 1
    p = rest.find("(", k)
    if p < 0: return "", ""
    d, q = 0, p
    while q < len(rest):
        if rest[q] == "(": d += 1
        elif rest[q] == ")":
            d -= 1
            if d == 0: break
        q += 1
    params = rest[p + 1:q]
    tail = rest[q + 1:]
    mr = re.match(r"\s*->\s*(.*?)(\bwhere\b.*)?$", tail, flags=re.S)
    ret = mr.group(1).strip() if mr else ""
    return params, ret


def ret_kinds(ret):
    if not ret or not HASH_RE.search(ret): return None
    r = ret.strip()
    mo = re.match(r"(?:Result|Option)\s*<(.*)>$", r, flags=re.S)
    if mo:
        r = split_top(mo.group(1))[0].strip()
    if r.startswith("(") and r.endswith(")"):
        return [type_kind(t) for t in split_top(r[1:-1])]
    return [type_kind(r)]


def qualname(blocks, idx):
    names = []
    while idx >= 0:
        b = blocks[idx]
        if b.kind in ("fn", "impl", "mod", "trait"):
            names.append(b.name)
        idx = b.parent
    return "::".join(reversed(names))


def in_test(blocks, idx):
    while idx >= 0:
        if blocks[idx].test: return True
        idx = blocks[idx].parent
    return False


def in_hook(blocks, idx, rel):
    if rel.endswith("verif_hooks.rs"): return True
    while idx >= 0:
        if "googlefonts_fontations_verif" in blocks[idx].hdr: return True
        idx = blocks[idx].parent
    return False


def enclosing_impl(blocks, idx):
    while idx >= 0:
        if blocks[idx].kind in ("impl", "trait"): return blocks[idx].name
        idx = blocks[idx].parent
    return None


def line_of(s, pos):
    return s.count("\n", 0, pos) + 1


def analyse_fn(crate, rel, s, blocks, bi, items):
    b = blocks[bi]
    fq = qualname(blocks, bi)
    lo, hi = b.open + 1, b.close
    body = s
    params, ret = fn_signature(s, b)
    taint = {}   # local name -> kind
    first_item = len(items)
    impl = enclosing_impl(blocks, b.parent)
    hook = in_hook(blocks, bi, rel)
    tag = " [verif-hook]" if hook else ""

    def add(kind, expr, pos, stmt=None, note=""):
        st = stmt if stmt is not None else enclosing_statement(s, pos, lo, hi)
        items.append(Item(kind, rel, fq, expr, st, line_of(s, pos), note + tag, fnbody=s[lo:hi]))

    # parameters
    for p in split_top(params):
        if ":" not in p: continue
        pat, ty = p.split(":", 1)
        if "::" in pat: continue
        k = type_kind(ty)
        if k:
            for nm in idents(pat):
                taint[nm] = k
                add("decl", f"param {nm}: {norm(ty)}", b.hdr_start + max(0, b.hdr.find("fn ")), stmt=f"fn {b.name}({norm_stmt(params)})", note=k)

    # nested fns are analysed separately: mask them out
    masked = list(s[lo:hi])
    for ci, c in enumerate(blocks):
        if c.kind == "fn" and ci != bi and c.open > b.open and c.close < b.close:
            # only direct nested fn items (any depth): blank body + header
            for k in range(c.hdr_start, c.close + 1):
                if lo <= k < hi and masked[k - lo] != "\n": masked[k - lo] = " "
    t = s[:lo] + "".join(masked) + s[hi:]

    def field_kind(struct, f):
        ty = crate.fields.get(struct, {}).get(f)
        if ty is None: return "unknown-struct"
        return type_kind(ty)

    vartype = {}
    for p in split_top(params):
        if ":" in p and "::" not in p.split(":", 1)[0]:
            pat, ty = p.split(":", 1)
            for nm in idents(pat):
                vartype[nm] = ty
    for mm in re.finditer(r"\blet\s+(?:mut\s+)?(\w+)\s*:\s*([^=;]+)=", s[lo:hi]):
        vartype.setdefault(mm.group(1), mm.group(2))

    def base_struct(ty):
        u = ty.strip()
        while True:
            v = re.sub(r"^(&\s*('\w+\s*)?(mut\s+)?|mut\s+|Option\s*<|Box\s*<|(\w+::)+)", "", u).strip()
            if v == u: break
            u = v
        m = re.match(r"\w+", u)
        return m.group(0) if m else None

    def chain_struct(comps):
        c, rest = comps[0], comps[1:]
        if c[0] == "name":
            if not rest:
                if c[1] == "self": return impl
                ty = vartype.get(c[1])
                return base_struct(ty) if ty else None
            st = chain_struct(rest)
            if st and st in crate.fields and c[1] in crate.fields[st]:
                return base_struct(crate.fields[st][c[1]])
            return None
        if c[0] == "call" and c[1].split("::")[-1] in THROUGH and rest:
            return chain_struct(rest)
        return None

    def comp_kind(comps):
        """kind of the value denoted by the chain (components innermost-last as returned: comps[0] is the LAST component)"""
        if not comps: return None
        c = comps[0]
        rest = comps[1:]
        if c[0] == "name":
            nm = c[1]
            if "::" in nm:
                return None
            if rest:
                # a field access
                st = chain_struct(rest)
                if st and st in crate.fields:
                    return type_kind(crate.fields[st][nm]) if nm in crate.fields[st] else None
                ks = crate.field_any.get(nm)
                if ks:
                    return "direct" if "direct" in ks or "direct+nested" in ks else "nested"
                return None
            return taint.get(nm)
        if c[0] == "call":
            callee, turbo, args = c[1], c[2], c[3]
            base = callee.split("::")[-1]
            if base == "collect":
                if turbo and HASH_RE.search(turbo): return type_kind(turbo.strip("<>").strip()) or "direct"
                return None
            if base in ("new", "default", "with_capacity", "with_capacity_and_hasher", "from", "from_iter", "with_hasher") and "::" in callee:
                tyname = callee.split("::")[-2]
                if re.fullmatch(HASH, tyname): return "direct"
            if base in THROUGH and rest:
                k = comp_kind(rest)
                if k in ("direct+nested", "nested") and base in ("get", "get_mut", "unwrap", "expect", "entry", "or_default", "or_insert_with", "or_insert", "unwrap_or_default", "get_or_insert_with"):
                    return "nested"
                if base in ("get", "get_mut", "entry", "take") and k == "direct":
                    return None
                return k
            if base == "take" and not rest and "mem::take" in callee:
                mm = re.match(r"\s*&\s*mut\s+(.*)$", args, flags=re.S)
                if mm:
                    cc, _ = receiver(mm.group(1) + ".", len(mm.group(1)), 0)
                    return comp_kind(cc)
            rk = crate.fn_ret.get(base)
            if rk and len(rk) == 1 and base not in ITER_METHODS:
                return rk[0]
            return None
        if c[0] == "index" and rest:
            k = comp_kind(rest)
            return "nested" if k in ("direct+nested", "nested") else None
        return None

    def expr_kind(text):
        """kind of a standalone expression like `&mut self.foo` / `foo.clone()`"""
        u = text.strip()
        u = re.sub(r"^(&\s*mut\b|&|\*)\s*", "", u).strip()
        while u.startswith("(") and u.endswith(")") and balanced_back(u, len(u) - 1, 0) == 0:
            u = u[1:-1].strip()
            u = re.sub(r"^(&\s*mut\b|&|\*)\s*", "", u).strip()
        comps, st = receiver(u + ".", len(u), 0)
        if st != 0: return None
        return comp_kind(comps)

    # bindings made by matching an enum variant with a hash payload
    for vname, kinds in crate.variants.items():
        for mm in re.finditer(r"\b" + vname + r"\s*\(([^()]*)\)", t[lo:hi]):
            subs = split_top(mm.group(1))
            if len(subs) == len(kinds) and all(re.fullmatch(r"\s*(ref\s+)?(mut\s+)?\w+\s*", x) for x in subs):
                for sp, k in zip(subs, kinds):
                    if k:
                        for nm in idents(sp):
                            taint.setdefault(nm, k)

    # let statements, in order
    for m in re.finditer(r"\blet\s+", t[lo:hi]):
        p0 = lo + m.end()
        # find top-level '=' (not ==, =>, <=, >=, !=)
        depth, i, eq = 0, p0, -1
        while i < hi:
            c = t[i]
            if c in "([{": depth += 1
            elif c in ")]}":
                if depth == 0: break
                depth -= 1
            elif c == "<": depth += 1
            elif c == ">" and t[i - 1] not in "-=": depth = max(0, depth - 1)
            elif c == ";" and depth == 0: break
            elif c == "=" and depth == 0 and t[i + 1] not in "=>" and t[i - 1] not in "=!<>+-*/|&^%":
                eq = i; break
            i += 1
        if eq < 0:
            # `let x: T;`
            decl = t[p0:i]
            init = ""
        else:
            decl = t[p0:eq]
            depth, j = 0, eq + 1
            while j < hi:
                c = t[j]
                if c in "([{": depth += 1
                elif c in ")]}":
                    if depth == 0: break
                    depth -= 1
                elif c == ";" and depth == 0: break
                j += 1
            init = t[eq + 1:j]
        # split decl into pattern and type at first top-level single ':'
        depth, cpos = 0, -1
        for k, c in enumerate(decl):
            if c in "([{<": depth += 1
            elif c in ")]}": depth -= 1
            elif c == ">" and decl[k - 1] not in "-=": depth -= 1
            elif c == ":" and depth == 0 and decl[k + 1:k + 2] != ":" and decl[k - 1:k] != ":":
                cpos = k; break
        pat, ty = (decl[:cpos], decl[cpos + 1:]) if cpos >= 0 else (decl, "")
        pat = pat.strip()
        kinds = None
        if ty and HASH_RE.search(ty):
            tt = ty.strip()
            if pat.startswith("(") and tt.startswith("("):
                kinds = [type_kind(x) for x in split_top(tt[1:-1])]
            else:
                kinds = [type_kind(tt)]
        elif not ty and init.strip():
            ini = init.strip()
            ini_noelse = re.split(r"\belse\s*\{", ini)[0].strip()
            k = expr_kind(ini_noelse)
            if k:
                kinds = [k]
            else:
                # call returning a tuple with hash positions
                mm = re.search(r"(\w+)\s*\([^()]*\)\s*\??$", ini_noelse)
                if mm and crate.fn_ret.get(mm.group(1)) and len(crate.fn_ret[mm.group(1)]) > 1:
                    kinds = crate.fn_ret[mm.group(1)]
        if not kinds and not ty and init.strip() and taint:
            # coarse propagation: a binding computed from a hash-typed binding MAY itself be (or contain) one,
            # unless the initialiser visibly ends in a collect into a non-hash container / a scalar query
            ini = init.strip()
            if re.search(r"\b(" + "|".join(re.escape(x) for x in taint) + r")\b", ini) and not \
                    re.search(r"(collect\s*::\s*<[^;]*>\s*\(\s*\)|\.(len|count|is_empty|contains|contains_key|sum|max|min|copied|any|all)\s*(::<[^>]*>)?\s*\([^()]*\))\s*\??\s*$", ini):
                for nm in idents(re.sub(r"\b[A-Z]\w*\b", "", pat)):
                    taint.setdefault(nm, "maybe")
        if kinds:
            if len(kinds) > 1 and pat.startswith("("):
                subs = split_top(pat[1:-1])
                for sp, k in zip(subs, kinds):
                    if k:
                        for nm in idents(sp):
                            taint[nm] = k
                            add("decl", f"let {nm} (tuple)", lo + m.start(), note=k)
            else:
                k = kinds[0]
                if k:
                    names = idents(re.sub(r"\b[A-Z]\w*\b", "", pat))
                    for nm in names:
                        taint[nm] = k
                        add("decl", f"let {nm}", lo + m.start(), note=k)

    # explicit iteration methods
    meth_re = re.compile(r"\.\s*(" + "|".join(ITER_METHODS) + r")\s*(?:::\s*<[^;{}()]*?>\s*)?\(")
    seen_pos = set()
    for m in meth_re.finditer(t, lo, hi):
        dot = m.start()
        comps, st = receiver(t, dot, lo)
        k = comp_kind(comps)
        if not k or k == "unknown-struct": continue
        rtxt = norm(t[st:dot])
        add("iter", f"{rtxt}.{m.group(1)}()", dot, note=k)
        seen_pos.add(dot)

    # for … in EXPR {
    for m in re.finditer(r"\bfor\s+", t[lo:hi]):
        p0 = lo + m.end()
        mi = re.compile(r"\bin\b").search(t, p0, hi)
        if not mi: continue
        # EXPR ends at the first '{' at depth 0
        depth, j = 0, mi.end()
        while j < hi:
            c = t[j]
            if c in "([": depth += 1
            elif c in ")]": depth -= 1
            elif c == "{" and depth == 0: break
            j += 1
        ex = t[mi.end():j]
        if "{" in t[p0:mi.start()] or ";" in t[p0:mi.start()]: continue
        k = expr_kind(ex)
        if k and k != "unknown-struct":
            pat = t[p0:mi.start()]
            add("iter", f"for {norm(pat)} in {norm(ex)}", lo + m.start(), note=k)

    # implicit IntoIterator
    imp_re = re.compile(r"(?:\.|::)\s*(" + "|".join(IMPLICIT) + r")\s*(?:::\s*<[^;{}()]*?>\s*)?\(")
    for m in imp_re.finditer(t, lo, hi):
        o = m.end() - 1
        # matching paren
        depth, j = 0, o
        while j < hi:
            if t[j] in "([{": depth += 1
            elif t[j] in ")]}":
                depth -= 1
                if depth == 0: break
            j += 1
        arg = t[o + 1:j]
        if len(split_top(arg)) != 1: continue
        k = expr_kind(arg)
        if k and k != "unknown-struct":
            add("iter", f"{m.group(1)}({norm(arg)})", m.start(), note=k + " implicit IntoIterator")

    # every declaration carries the set of methods called on the binding in this fn (mechanical evidence for
    # `lookup_only`; a new kind of use changes the reviewed text)
    for it in items[first_item:]:
        if it.kind == "decl":
            mm = re.match(r"(?:param|let) (\w+)", it.expr)
            if mm:
                nm = mm.group(1)
                uses = sorted(set(re.findall(r"(?<![\w.])" + nm + r"\s*\.\s*(\w+)\s*(?:::\s*<[^;{}()]*?>\s*)?\(", t[lo:hi])))
                bare = len(re.findall(r"[(,]\s*(?:&\s*(?:mut\s+)?)?" + nm + r"\s*[,)]", t[lo:hi]))
                it.stmt = f"{it.stmt} // uses: {' '.join(uses) or '-'}; passed-bare: {bare}"
                it.uses = uses

    # global state
    for m in GLOBAL_RE.finditer(t, lo, hi):
        add("global", norm(m.group(0)), m.start())
    if crate.statics:
        for m in re.finditer(r"\b(" + "|".join(sorted(crate.statics)) + r")\b", t[lo:hi]):
            add("global", "use of static " + m.group(1), lo + m.start())


def scan(repo):
    items = []
    stats = {"files": 0, "fns": 0, "test_fns_skipped": 0}
    for label, pats in SCOPES:
        crate = Crate(label)
        rels = []
        for p in pats:
            rels += [os.path.relpath(f, repo) for f in glob.glob(os.path.join(repo, p), recursive=True)]
        rels = sorted(set(rels))
        for rel in rels:
            raw = open(os.path.join(repo, rel), encoding="utf8").read()
            s = strip(raw)
            crate.files[rel] = (raw, s, parse_blocks(s))
        # pass 1: struct fields and fn return types
        for rel, (raw, s, blocks) in crate.files.items():
            for bi, b in enumerate(blocks):
                if in_test(blocks, bi): continue
                if b.kind == "struct":
                    fields = {}
                    for part in split_top(s[b.open + 1:b.close]):
                        part = re.sub(r"#\[[^\]]*\]", "", part)
                        mm = re.match(r"\s*(?:pub(?:\s*\([^)]*\))?\s+)?(\w+)\s*:\s*(.*)$", part, flags=re.S)
                        if mm:
                            fields[mm.group(1)] = mm.group(2).strip()
                    crate.fields[b.name] = fields
                    for f, ty in fields.items():
                        k = type_kind(ty)
                        if k:
                            crate.field_any.setdefault(f, set()).add(k)
                            items.append(Item("decl", rel, b.name, f"field {f}: {norm(ty)}", f"{f}: {norm_stmt(ty)}",
                                              line_of(s, b.open), k + (" [verif-hook]" if in_hook(blocks, bi, rel) else "")))
                elif b.kind == "enum":
                    for part in split_top(s[b.open + 1:b.close]):
                        part = re.sub(r"#\[[^\]]*\]", "", part).strip()
                        mm = re.match(r"(\w+)\s*[\({](.*)[\)}]\s*$", part, flags=re.S)
                        if mm and HASH_RE.search(mm.group(2)):
                            kinds = [type_kind(x.split(":", 1)[-1] if re.match(r"\s*\w+\s*:[^:]", x) else x) for x in split_top(mm.group(2))]
                            crate.variants[mm.group(1)] = kinds
                            items.append(Item("decl", rel, b.name, f"variant {mm.group(1)}({norm(mm.group(2))})", norm_stmt(part),
                                              line_of(s, b.open), "enum payload"))
                elif b.kind == "fn":
                    _, ret = fn_signature(s, b)
                    rk = ret_kinds(ret)
                    if rk and any(rk):
                        prev = crate.fn_ret.get(b.name)
                        crate.fn_ret[b.name] = rk if prev is None or len(prev) == len(rk) else prev
            # module-level statics / globals outside any fn
            masked = list(s)
            for b in blocks:
                if b.kind == "fn":
                    for k in range(b.open, b.close + 1):
                        if masked[k] != "\n": masked[k] = " "
            ms = "".join(masked)
            for m in re.finditer(r"\bstatic\s+(?:mut\s+)?(\w+)\s*:|\bthread_local!|\blazy_static!", ms):
                if m.group(1): crate.statics.add(m.group(1))
                # skip matches inside test modules
                bi = -1
                for ci, c in enumerate(blocks):
                    if c.open < m.start() < c.close: bi = ci
                if bi >= 0 and in_test(blocks, bi): continue
                if re.match(r"\s*use\b", ms[ms.rfind("\n", 0, m.start()) + 1:m.start() + 1]) or \
                        re.search(r"\buse\b[^;]*$", ms[:m.start()].split(";")[-1]):
                    continue
                e = ms.find(";", m.start())
                items.append(Item("global", rel, "<module>", norm(m.group(0)), ms[m.start():e + 1 if e >= 0 else m.end()],
                                  line_of(s, m.start()), " [verif-hook]" if (bi >= 0 and in_hook(blocks, bi, rel)) or rel.endswith("verif_hooks.rs") else ""))
        # field / variant declarations: methods called on `.field` anywhere in the crate (non-test code)
        for it in items:
            mm = re.match(r"field (\w+):", it.expr)
            if it.kind == "decl" and mm and it.file in crate.files:
                nm = mm.group(1); uses = set(); 
                for rel2, (raw2, s2, blocks2) in crate.files.items():
                    for m2 in re.finditer(r"\.\s*" + nm + r"\s*\.\s*(\w+)\s*(?:::\s*<[^;{}()]*?>\s*)?\(", s2):
                        bi2 = -1
                        for ci, c in enumerate(blocks2):
                            if c.open < m2.start() < c.close: bi2 = ci
                        if bi2 >= 0 and in_test(blocks2, bi2): continue
                        uses.add(m2.group(1))
                it.uses = sorted(uses)
                it.stmt = f"{it.stmt} // uses (crate-wide, any struct with a field of this name): {' '.join(it.uses) or '-'}"
        # pass 2: functions
        for rel, (raw, s, blocks) in crate.files.items():
            stats["files"] += 1
            for bi, b in enumerate(blocks):
                if b.kind != "fn": continue
                if in_test(blocks, bi):
                    stats["test_fns_skipped"] += 1
                    continue
                stats["fns"] += 1
                analyse_fn(crate, rel, s, blocks, bi, items)
    # unique keys
    seen = {}
    for it in items:
        k = it.key()
        seen[k] = seen.get(k, 0) + 1
        if seen[k] > 1:
            it.expr = f"{it.expr} #{seen[k]}"
    return items, stats


def lean_str(x):
    return '"' + x.replace("\\", "\\\\").replace('"', '\\"') + '"'


def main():
    ap = argparse.ArgumentParser()
    ap.add_argument("--repo", default="/repo")
    ap.add_argument("--out", required=True)
    ap.add_argument("--report", required=True)
    ap.add_argument("--dump", action="store_true")
    ap.add_argument("--update", action="store_true")
    a = ap.parse_args()
    here = os.path.dirname(os.path.abspath(__file__))
    table_path = os.path.join(here, "sites_classes.json")
    table = json.load(open(table_path)) if os.path.exists(table_path) else {"sites": {}}
    known = table.get("sites", {})

    items, stats = scan(a.repo)
    if a.dump:
        for it in items:
            print(f"[{it.kind}] {it.key()}  (line {it.line}; {it.note}) h={it.h()}\n      {norm_stmt(it.stmt)[:400]}")
        print(stats, len(items))

    unparsed, classified = [], []
    cur_keys = set()
    for it in items:
        k = it.key(); cur_keys.add(k)
        ent = known.get(k)
        if ent is None:
            unparsed.append({"site": k, "line": it.line, "why": "NEW site: not in translate/sites_classes.json", "stmt": norm_stmt(it.stmt)[:300]})
        elif ent.get("class") not in KNOWN_CLASSES:
            unparsed.append({"site": k, "line": it.line, "why": f"UNCLASSIFIED (class={ent.get('class')!r})", "stmt": norm_stmt(it.stmt)[:300]})
        elif ent.get("class") == "lookup_only" and it.uses is not None and (set(it.uses) & set(ITER_METHODS)):
            unparsed.append({"site": k, "line": it.line, "why": "INCONSISTENT: classified lookup_only but iterated via ." +
                             "/.".join(sorted(set(it.uses) & set(ITER_METHODS))), "stmt": norm_stmt(it.stmt)[:300]})
        elif ent.get("stmt_hash") != it.h(ent.get("scope", "stmt")):
            unparsed.append({"site": k, "line": it.line, "why": f"CHANGED: reviewed {ent.get('scope', 'stmt')} text differs "
                             f"({ent.get('stmt_hash')} -> {it.h(ent.get('scope', 'stmt'))})", "stmt": norm_stmt(it.stmt)[:300]})
        else:
            classified.append((it, ent["class"]))
    stale = sorted(k for k in known if k not in cur_keys)

    if a.update:
        new = {}
        for it in items:
            k = it.key()
            old = known.get(k, {})
            sc = old.get("scope", "stmt")
            new[k] = {"class": old.get("class", "TODO"), "scope": sc, "stmt_hash": it.h(sc), "kind": it.kind,
                      "why": old.get("why", ""), "stmt": norm_stmt(it.stmt)[:240]}
            if it.uses is not None:
                new[k]["uses"] = it.uses
        json.dump({"_doc": "C07 site inventory classification; see translate/sites.py. class must be one of KNOWN_CLASSES; "
                           "stmt_hash is the reviewed consuming statement.", "sites": new},
                  open(table_path, "w"), indent=1, sort_keys=True)
        print(f"updated {table_path}: {len(new)} entries ({sum(1 for v in new.values() if v['class']=='TODO')} TODO)")

    # Lean data
    os.makedirs(a.out, exist_ok=True)
    lines = ["/- GENERATED by translate/sites.py — classified inventory of hash-container iterations, hash-typed",
             "   declarations and process-global state on the compile / build / subset paths (C07) -/",
             "import FontVerif.Model.Determinism",
             "namespace FontVerif.Gen.Sites",
             "open FontVerif.Determinism",
             "",
             "/-- (key, reviewed statement hash, class) -/",
             "def sites : List (String × String × SiteClass) := ["]
    rows = []
    for it, cl in sorted(classified, key=lambda x: x[0].key()):
        rows.append(f"  ({lean_str(it.key())}, {lean_str(it.h(known[it.key()].get('scope', 'stmt')))}, SiteClass.{cl})")
    lines.append(",\n".join(rows))
    lines += ["]", "", f"def unclassifiedCount : Nat := {len(unparsed)}", "", "end FontVerif.Gen.Sites", ""]
    outp = os.path.join(a.out, "Sites.lean")
    txt = "\n".join(lines)
    if not os.path.exists(outp) or open(outp).read() != txt:
        open(outp, "w").write(txt)

    by_class = {}
    for it, cl in classified:
        by_class[cl] = by_class.get(cl, 0) + 1
    report = {
        "obligations": len(classified),
        "items": len(items),
        "by_kind": {k: sum(1 for it in items if it.kind == k) for k in ("iter", "decl", "global")},
        "by_class": by_class,
        "stats": stats,
        "stale_table_entries": stale[:50],
        "samples": [{"site": it.key(), "class": cl, "stmt": norm_stmt(it.stmt)[:200]} for it, cl in classified if it.kind == "iter"][:3],
        "unparsed": unparsed,
    }
    json.dump(report, open(a.report, "w"), indent=1)
    print(f"sites.py: {len(items)} items ({report['by_kind']}), {len(classified)} classified, {len(unparsed)} unparsed, {len(stale)} stale")
    return 0


if __name__ == "__main__":
    sys.exit(main())
