#!/usr/bin/env python3
"""
translate/c12_src.py — C12 translator tie.

Re-extracts, on every run, the rigidly patterned pieces of skrifa that the C12 models transcribe and
emits them as Lean *data* (lean/FontVerif/Gen/C12Src.lean); Props/C12.lean proves (kernel-checked
`decide`) that the hand-written models are instances of exactly that data:

  1. skrifa/src/outline/glyf/memory.rs
       the ordered `alloc_slice(buf, outline.X)` calls of `FreeTypeOutlineMemory::new` and
       `HarfBuzzOutlineMemory::new` with the struct field they end up in, the element type of that
       field (→ size/alignment) and the enclosing condition (`hinted` / `outline.has_variations`)
         -> ftShapeSrc, hbShapeSrc : List (String × Nat × Nat × CField × CCond)
       and the declaration order of the two structs -> ftFieldOrderSrc, hbFieldOrderSrc
  2. skrifa/src/outline/glyf/outline.rs
       `Outline::required_buffer_size`: the body is transliterated statement by statement and
       *executed* on symbolic counts for the four (hinting, has_variations) combinations, giving the
       linear form of the advertised size
         -> sizeTableSrc : List (Bool × Bool × List (CField × Nat) × Nat)
  3. skrifa/src/outline/glyf/hint/instance.rs + engine/dispatch.rs
       the fields of `struct HintInstance`, the reset action `setup` applies to each
       (`clear+resize`, `resize`, `clear+fill`, `assign`), and the definition maps that
       `Engine::reset(Program::Font)` resets
         -> instFieldsSrc : List (String × String), fontResetSrc : List String

Anything that does not match the expected statement forms goes to `unparsed` (breaks the check).

usage: c12_src.py --repo /repo --out lean/FontVerif/Gen --report out.json
"""
import argparse, json, os, re, sys

SIZES = {
    "Point<F26Dot6>": (8, 4), "Point<i32>": (8, 4), "Point<Fixed>": (8, 4), "Point<f32>": (8, 4),
    "i32": (4, 4), "u16": (2, 2), "PointFlags": (1, 1),
}

def strip_comments(src):
    return "\n".join(l for l in src.split("\n") if not l.strip().startswith("//"))

def block_after(src, start):
    """text of the `{…}` block whose `{` is the first one at/after `start`"""
    i = src.index("{", start)
    depth, j = 0, i
    while True:
        if src[j] == "{": depth += 1
        elif src[j] == "}":
            depth -= 1
            if depth == 0: return src[i + 1:j], j + 1
        j += 1

def struct_fields(src, name, unparsed):
    m = re.search(r"struct %s(?:<'a>)?\s*\{" % re.escape(name), src)
    if not m:
        unparsed.append({"item": name, "why": "struct not found"}); return []
    body, _ = block_after(src, m.start())
    out = []
    for line in body.split("\n"):
        line = line.strip().rstrip(",")
        if not line: continue
        mm = re.fullmatch(r"(?:pub )?(\w+): (.+)", line)
        if not mm:
            unparsed.append({"item": name, "why": f"field line `{line}`"}); continue
        out.append((mm.group(1), mm.group(2)))
    return out

# ---------------------------------------------------------------------------------------------
# 1. memory.rs

def parse_new(src, struct, fields, unparsed):
    m = re.search(r"impl<'a> %s<'a> \{" % struct, src)
    body, _ = block_after(src, m.start())
    fm = re.search(r"fn new\(", body)
    fbody, _ = block_after(body, fm.start())
    types = {}
    for n, t in fields:
        tm = re.fullmatch(r"&'a mut \[(.+)\]", t)
        if not tm or tm.group(1) not in SIZES:
            unparsed.append({"item": struct, "why": f"field type `{t}`"}); continue
        types[n] = SIZES[tm.group(1)]
    hinted_def = "let hinted = outline.has_hinting && hinting == Hinting::Embedded;"
    has_hinted = hinted_def in fbody
    if "hinted" in fbody and not has_hinted:
        unparsed.append({"item": struct, "why": "definition of `hinted` changed"})
    lines = [l.strip() for l in fbody.split("\n") if l.strip()]
    shape = []
    i = 0
    consumed = 0
    allocs_total = fbody.count("alloc_slice(")
    while i < len(lines):
        l = lines[i]
        # direct: let (name, buf) = alloc_slice(buf, outline.F)?;
        mm = re.fullmatch(r"let \((\w+), _?buf\) = alloc_slice\(buf, outline\.(\w+)\)\?;", l)
        if mm:
            shape.append((mm.group(1), mm.group(2), "always")); consumed += 1; i += 1; continue
        # conditional block: let (a, b, …, buf) = if COND {   |  let name = if COND {
        mm = re.fullmatch(r"let (?:\(([\w, ]+)\)|(\w+)) = if (hinted|outline\.has_variations) \{", l)
        if mm:
            names = [n.strip() for n in (mm.group(1) or mm.group(2)).split(",")]
            names = [n for n in names if n not in ("buf", "_buf")]
            cond = "hinted" if mm.group(3) == "hinted" else "has_variations"
            inner = []
            i += 1
            while not lines[i].startswith("} else {"):
                il = lines[i]
                am = re.fullmatch(r"(?:let \((\w+), buf\) = )?alloc_slice\(buf, outline\.(\w+)\)\?(?:\.0)?;?", il)
                if am:
                    inner.append(am.group(2)); consumed += 1
                elif re.fullmatch(r"\([\w, ]+\)", il):
                    pass  # the tuple handed to the outer binding
                else:
                    unparsed.append({"item": struct, "why": f"statement `{il}` inside conditional"})
                i += 1
            # else arm must only produce defaults / buf
            while not (lines[i] == "};"):
                il = lines[i]
                if not re.fullmatch(r"\} else \{|\(|\)|Default::default\(\),?|buf,?|\((?:Default::default\(\), )+buf\)", il):
                    unparsed.append({"item": struct, "why": f"else arm `{il}`"})
                i += 1
            i += 1
            if len(inner) != len(names):
                unparsed.append({"item": struct, "why": f"{names} vs {inner}"})
            for n, f in zip(names, inner):
                shape.append((n, f, cond))
            continue
        if l.startswith("Some(Self {"):
            break
        if l == hinted_def:
            i += 1; continue
        unparsed.append({"item": struct, "why": f"statement `{l}`"})
        i += 1
    if consumed != allocs_total:
        unparsed.append({"item": struct, "why": f"{allocs_total} alloc_slice calls, {consumed} understood"})
    out = []
    for n, f, cond in shape:
        if n not in types:
            unparsed.append({"item": struct, "why": f"binding `{n}` is not a field"}); continue
        out.append((n, types[n][0], types[n][1], f, cond))
    if sorted(n for n, *_ in out) != sorted(types):
        unparsed.append({"item": struct, "why": "not every field is carved exactly once"})
    return out

def check_alloc_slice(src, unparsed):
    """the two arithmetic facts the model of alloc_slice/align_up transcribes"""
    want = [
        "len + (len.wrapping_neg() & (alignment - 1))",
        "let aligned_ptr = align_up(base_ptr, align_of::<T>());",
        "let aligned_offset = aligned_ptr - base_ptr;",
        "let buf = buf.get_mut(aligned_offset..)?;",
        "let len_in_bytes = len * size_of::<T>();",
        "if len_in_bytes > buf.len() {",
        "if len == 0 {",
    ]
    for w in want:
        if w not in src:
            unparsed.append({"item": "alloc_slice/align_up", "why": f"expected `{w}`"})

# ---------------------------------------------------------------------------------------------
# 2. outline.rs

class Lin:
    def __init__(self, d=None, c=0): self.d, self.c = dict(d or {}), c
    def __add__(self, o):
        o = o if isinstance(o, Lin) else Lin(c=o)
        d = dict(self.d)
        for k, v in o.d.items(): d[k] = d.get(k, 0) + v
        return Lin(d, self.c + o.c)
    __radd__ = __add__
    def __mul__(self, o):
        if isinstance(o, Lin):
            if o.d and self.d: raise ValueError("non-linear")
            if o.d: return o * self.c
            o = o.c
        return Lin({k: v * o for k, v in self.d.items()}, self.c * o)
    __rmul__ = __mul__

def size_table(src, unparsed):
    m = re.search(r"pub fn required_buffer_size\(&self, hinting: Hinting\) -> usize", src)
    if not m:
        unparsed.append({"item": "required_buffer_size", "why": "not found"}); return []
    body, _ = block_after(src, m.start())
    # transliterate to python
    py = []
    indent = 0
    text = re.sub(r"\s+", " ", body)
    text = text.replace("{", "{\n").replace("}", "\n}\n").replace(";", ";\n")
    stmts = [t.strip() for t in text.split("\n") if t.strip()]
    # re-join `if hinting { 2 } else { 1 }` expressions that the splitter broke apart
    joined, k = [], 0
    while k < len(stmts):
        t = stmts[k]
        if t.endswith("* if hinting {") and k + 6 < len(stmts):
            t = t + " " + " ".join(stmts[k + 1:k + 7]); k += 7
            joined.append(re.sub(r"\s+", " ", t).replace("} ;", "};")); continue
        joined.append(t); k += 1
    def expr(e):
        e = re.sub(r"(?:std::mem::)?size_of::<(.+?)>\(\)", lambda mm: str(SIZES[mm.group(1).replace(" ", "")][0]), e)
        e = re.sub(r"(?:std::mem::)?align_of::<(.+?)>\(\)", lambda mm: str(SIZES[mm.group(1).replace(" ", "")][1]), e)
        e = re.sub(r"if hinting \{ (\d+) \} else \{ (\d+) \}", r"(\1 if hinting else \2)", e)
        e = re.sub(r"self\.(\w+)", r"S('\1')", e)
        return e
    for t in joined:
        if t == "let mut size = 0;": py.append("size = Lin()")
        elif t == "let hinting = self.has_hinting && hinting == Hinting::Embedded;": pass
        elif re.fullmatch(r"size \+= (.+);", t):
            py.append("    " * indent + "size = size + (" + expr(re.fullmatch(r"size \+= (.+);", t).group(1)) + ")")
        elif t == "if self.has_variations {": py.append("    " * indent + "if has_variations:"); indent += 1
        elif t == "if hinting {": py.append("    " * indent + "if hinting:"); indent += 1
        elif t == "if size != 0 {": py.append("    " * indent + "if size.d or size.c:"); indent += 1
        elif t == "}": indent -= 1
        elif t == "size": py.append("result = size")
        else: unparsed.append({"item": "required_buffer_size", "why": f"statement `{t}`"})
    table = []
    for hinting in (False, True):
        for has_variations in (False, True):
            env = {"Lin": Lin, "S": lambda n: Lin({n: 1}), "hinting": hinting, "has_variations": has_variations}
            try:
                exec("\n".join(py), env)
                r = env["result"]
                table.append((hinting, has_variations, sorted((k, v) for k, v in r.d.items() if v), r.c))
            except Exception as e:  # noqa
                unparsed.append({"item": "required_buffer_size", "why": f"evaluation failed: {e}"})
    return table

# ---------------------------------------------------------------------------------------------
# 3. instance.rs / dispatch.rs

def inst_fields(src, unparsed):
    fields = [n for n, _ in struct_fields(src, "HintInstance", unparsed)]
    m = re.search(r"fn setup\(&mut self, outlines: &Outlines, scale: i32, coords: &\[F2Dot14\]\)", src)
    if not m:
        unparsed.append({"item": "HintInstance::setup", "why": "not found"}); return [], fields
    body, _ = block_after(src, m.start())
    flat = re.sub(r"\s+", "", body)
    out = []
    for f in fields:
        acts = []
        if f"self.{f}.clear();" in flat: acts.append("clear")
        if f"self.{f}.resize(" in flat: acts.append("resize")
        if f"self.{f}.extend(" in flat and "resize" not in acts: acts.append("fill")
        if re.search(r"self\.%s=[^=]" % f, flat): acts.append("assign")
        if f == "cvt" and acts[:1] == ["clear"]: acts = ["clear", "fill"]  # both arms (resize+deltas | extend) fill every slot
        out.append((f, "+".join(acts) if acts else "untouched"))
    # cvt special case must really have both arms
    if not ("self.cvt.resize(cvt.len(),0);" in flat and "self.cvt.extend(cvt.iter().map(" in flat):
        unparsed.append({"item": "HintInstance::setup", "why": "cvt fill arms changed"})
    return out, fields

def reconfigure_wiring(src, unparsed):
    """reconfigure must call setup first, hand &mut of the instance vectors to the engine and store
    the retained graphics state afterwards"""
    m = re.search(r"pub fn reconfigure\(", src)
    body, _ = block_after(src, src.index(") -> Result<(), HintError>", m.start()))
    flat = re.sub(r"\s+", "", body)
    want = ["self.setup(outlines,scale,coords);",
            "DefinitionMap::Mut(&mutself.functions)", "DefinitionMap::Mut(&mutself.instructions)",
            "CowSlice::new_mut(&mutself.cvt)", "CowSlice::new_mut(&mutself.storage)",
            "&mutself.twilight_original_scaled", "&mutself.twilight_scaled", "&mutself.twilight_flags",
            "engine.run_program(Program::Font,false)?;", "engine.run_program(Program::ControlValue,false)?;",
            "self.graphics=*engine.retained_graphics_state();",
            "vec![0;self.max_stack]", "RetainedGraphicsState::new(scale,ppem,target)"]
    for w in want:
        if w not in flat:
            unparsed.append({"item": "HintInstance::reconfigure", "why": f"expected `{w}`"})
    if not flat.startswith("self.setup("):
        unparsed.append({"item": "HintInstance::reconfigure", "why": "setup is not the first statement"})

def font_reset(src, unparsed):
    m = re.search(r"pub fn reset\(&mut self, program: Program, is_pedantic: bool\)", src)
    if not m:
        unparsed.append({"item": "Engine::reset", "why": "not found"}); return []
    body, _ = block_after(src, m.start())
    fm = re.search(r"Program::Font => \{", body)
    if not fm:
        unparsed.append({"item": "Engine::reset", "why": "no Program::Font arm"}); return []
    arm, _ = block_after(body, fm.start())
    out = []
    for line in arm.split("\n"):
        line = line.strip()
        if not line: continue
        mm = re.fullmatch(r"self\.definitions\.(\w+)\.reset\(\);", line)
        if mm: out.append(mm.group(1))
        else: unparsed.append({"item": "Engine::reset", "why": f"statement `{line}` in Program::Font arm"})
    return out

def def_map_reset(src, unparsed):
    flat = re.sub(r"\s+", "", src)
    if "pubfnreset(&mutself){ifletSelf::Mut(defs)=self{defs.fill(Default::default())}}" not in flat:
        unparsed.append({"item": "DefinitionMap::reset", "why": "body changed"})

# ---------------------------------------------------------------------------------------------

def lean_str(s): return '"' + s + '"'

def main():
    ap = argparse.ArgumentParser()
    ap.add_argument("--repo", required=True)
    ap.add_argument("--out", required=True)
    ap.add_argument("--report", required=True)
    a = ap.parse_args()
    unparsed = []
    rd = lambda p: strip_comments(open(os.path.join(a.repo, p)).read())
    mem = rd("skrifa/src/outline/glyf/memory.rs")
    mem = mem[:mem.index("#[cfg(test)]")] if "#[cfg(test)]" in mem else mem
    ft_fields = struct_fields(mem, "FreeTypeOutlineMemory", unparsed)
    hb_fields = struct_fields(mem, "HarfBuzzOutlineMemory", unparsed)
    ft = parse_new(mem, "FreeTypeOutlineMemory", ft_fields, unparsed)
    hb = parse_new(mem, "HarfBuzzOutlineMemory", hb_fields, unparsed)
    check_alloc_slice(mem, unparsed)
    table = size_table(rd("skrifa/src/outline/glyf/outline.rs"), unparsed)
    inst_src = rd("skrifa/src/outline/glyf/hint/instance.rs")
    inst_src = inst_src[:inst_src.index("#[cfg(googlefonts_fontations_verif)]")] if "#[cfg(googlefonts_fontations_verif)]" in inst_src else inst_src
    fields, names = inst_fields(inst_src, unparsed)
    reconfigure_wiring(inst_src, unparsed)
    freset = font_reset(rd("skrifa/src/outline/glyf/hint/engine/dispatch.rs"), unparsed)
    def_map_reset(rd("skrifa/src/outline/glyf/hint/definition.rs"), unparsed)

    shape = lambda l: "[" + ",\n   ".join(f"({lean_str(n)}, {s}, {al}, .{f}, .{c})" for n, s, al, f, c in l) + "]"
    L = []
    L.append("/- GENERATED by translate/c12_src.py from skrifa/src/outline/glyf/{memory.rs, outline.rs, hint/instance.rs,")
    L.append("   hint/engine/dispatch.rs}. Do not edit. -/")
    L.append("import FontVerif.Model.Carve")
    L.append("namespace FontVerif.Gen.C12Src")
    L.append("open FontVerif.Carve")
    L.append("")
    L.append("/-- (struct field, size_of, align_of, count field of `Outline`, condition) in call order -/")
    L.append("def ftShapeSrc : List (String × Nat × Nat × CField × CCond) :=\n  " + shape(ft))
    L.append("def hbShapeSrc : List (String × Nat × Nat × CField × CCond) :=\n  " + shape(hb))
    L.append("def ftFieldOrderSrc : List String := [" + ", ".join(lean_str(n) for n, _ in ft_fields) + "]")
    L.append("def hbFieldOrderSrc : List String := [" + ", ".join(lean_str(n) for n, _ in hb_fields) + "]")
    L.append("")
    L.append("/-- (hinting, has_variations, coefficient of each count field, constant) of `required_buffer_size`")
    L.append("when the payload is non-zero -/")
    rows = []
    for h, v, coefs, c in table:
        rows.append(f"({str(h).lower()}, {str(v).lower()}, [" + ", ".join(f"(.{k}, {n})" for k, n in coefs) + f"], {c})")
    L.append("def sizeTableSrc : List (Bool × Bool × List (CField × Nat) × Nat) :=\n  [" + ",\n   ".join(rows) + "]")
    L.append("")
    L.append("/-- fields of `struct HintInstance` with the action `setup` applies -/")
    L.append("def instFieldsSrc : List (String × String) :=\n  [" + ", ".join(f"({lean_str(f)}, {lean_str(x)})" for f, x in fields) + "]")
    L.append("/-- definition maps reset by `Engine::reset(Program::Font)` -/")
    L.append("def fontResetSrc : List String := [" + ", ".join(lean_str(x) for x in freset) + "]")
    L.append("")
    L.append("end FontVerif.Gen.C12Src")
    os.makedirs(a.out, exist_ok=True)
    path = os.path.join(a.out, "C12Src.lean")
    new = "\n".join(L) + "\n"
    old = open(path).read() if os.path.exists(path) else None
    if old != new:
        open(path, "w").write(new)
    report = {
        "obligations": 5,
        "samples": [
            {"ftShape": ft[:3]}, {"sizeTable": table[:1]}, {"instFields": fields[:4], "fontReset": freset},
        ],
        "unparsed": unparsed,
        "changed": old != new,
    }
    json.dump(report, open(a.report, "w"), indent=1)
    print(f"c12_src: ft {len(ft)} allocs, hb {len(hb)} allocs, {len(table)} size rows, {len(fields)} instance fields, "
          f"{len(unparsed)} unparsed")
    return 1 if unparsed else 0

if __name__ == "__main__":
    sys.exit(main())
