#!/usr/bin/env python3
"""
handwritten.py — C01 translator: inventory tie for the HAND-WRITTEN part of read-fonts.

The generated readers (read-fonts/generated/*.rs) are covered by translate/shapes.py + a generic theorem.  Everything
else that parses or walks font bytes is hand-written: `font_data.rs`, `read.rs`, `array.rs`, `offset.rs`,
`offset_array.rs`, `table_ref.rs` and `read-fonts/src/tables/**/*.rs`.  This script enumerates every non-test function
of those files (methods, trait methods, `impl Iterator::next`, closures belong to their enclosing fn), normalises
(file, qualified item name, hash of the item's CODE TOKEN stream: comments, doc comments, whitespace and attributes
other than #[cfg…] are dropped, so reformatting / comment edits / `#[inline]` never break the tie) and records syntactic risk
features of each body:

    loop   — `loop` / `while` / `for … in`            iter  — `fn next` of an Iterator impl, `from_fn`, `successors`
    index  — `expr[...]` indexing / slicing             unwrap — unwrap / expect / panic! / unreachable! / assert!
    arith  — unchecked `+ - * << /` on non-literals     rec    — calls itself

and compares with the committed, reviewed coverage table translate/handwritten_cover.json, which maps every item to

    "model:<Lean def>"   a Lean model (lean/FontVerif/Model/*.lean) with a theorem in Props/C01*.lean; the def must exist
    "harness:<group>"    driven directly by harness group <group> of harness/src/bin/c01 (own generator + every prefix
                         truncation + boundary values of every count/offset/length field + random bytes, catch_unwind,
                         iteration caps, watchdog); the group must exist
    "traverse"           reached only through whole-file traversal of corpus fonts (c01 `files` part); needs a one-line
                         `why`.  Only allowed for items WITHOUT loop / iter / index / unwrap / rec features unless the
                         entry carries an explicit `risk_reviewed: true`.

An item that is NEW (not in the table), CHANGED (hash differs from the reviewed hash), UNCOVERED (cover missing / TODO /
names a Lean def or harness group that does not exist) or a risky item classified `traverse` without review is reported in
`unparsed`, which makes `./check C01` print `VIOLATION … no-failing-input-found` naming the item, until the table is
re-reviewed (`--update` refreshes hashes and adds new items as TODO; covers are then edited by hand).

usage: handwritten.py --repo /repo --out lean/FontVerif/Gen --report out.json [--dump] [--update]
"""
import argparse, glob, hashlib, json, os, re, sys

HERE = os.path.dirname(os.path.abspath(__file__))
ROOT = os.path.dirname(HERE)

CORE = ["font_data.rs", "read.rs", "array.rs", "offset.rs", "offset_array.rs", "table_ref.rs", "traversal.rs"]
SKIP_FILES = {"read-fonts/src/tables/layout/spec_tests.rs"}
HOOK_CFG = "googlefonts_fontations_verif"


def strip(src):
    """blank out comments, string and char literals (keeping offsets and newlines)"""
    out = list(src)
    i, n = 0, len(src)

    def blank(a, b):
        for k in range(a, b):
            if out[k] != "\n":
                out[k] = " "
    while i < n:
        c = src[i]
        if src.startswith("//", i):
            j = src.find("\n", i)
            j = n if j < 0 else j
            blank(i, j); i = j
        elif src.startswith("/*", i):
            depth, j = 1, i + 2
            while j < n and depth:
                if src.startswith("/*", j): depth += 1; j += 2
                elif src.startswith("*/", j): depth -= 1; j += 2
                else: j += 1
            blank(i, j); i = j
        elif c == '"' or (c == "r" and re.match(r'r#*"', src[i:i + 8]) and not (i > 0 and (src[i - 1].isalnum() or src[i - 1] == "_"))) \
                or (c == "b" and i + 1 < n and src[i + 1] == '"' and not (i > 0 and (src[i - 1].isalnum() or src[i - 1] == "_"))):
            if c == "b": i += 1; c = '"'
            if c == "r":
                m = re.match(r'r(#*)"', src[i:])
                close = '"' + m.group(1)
                j = src.find(close, i + len(m.group(0)))
                j = n if j < 0 else j + len(close)
                blank(i, j); i = j
            else:
                j = i + 1
                while j < n and src[j] != '"':
                    j += 2 if src[j] == "\\" else 1
                j = min(n, j + 1)
                blank(i + 1, j - 1); i = j
        elif c == "'":
            m = re.match(r"'(\\.[^']*|[^\\'])'", src[i:i + 12])
            if m:
                blank(i + 1, i + len(m.group(0)) - 1); i += len(m.group(0))
            else:
                i += 1
        else:
            i += 1
    return "".join(out)



TOKEN_RE = re.compile(r"""
    (?P<ws>\s+)
  | (?P<lc>//[^\n]*)
  | (?P<raw>b?r(?P<h>\#*)".*?"(?P=h))
  | (?P<str>b?"(?:\\.|[^"\\])*")
  | (?P<chr>b?'(?:\\(?:x[0-9a-fA-F]{2}|u\{[0-9a-fA-F_]+\}|.)|[^\\'])')
  | (?P<life>'[A-Za-z_]\w*)
  | (?P<num>\d[\w.]*)
  | (?P<id>[A-Za-z_]\w*)
  | (?P<op><<=|>>=|\.\.=|\.\.\.|::|->|=>|==|!=|<=|>=|&&|\|\||\+=|-=|\*=|/=|%=|\^=|&=|\|=|<<|>>|\.\.)
  | (?P<p>.)
""", re.X | re.S)


def tokens(src):
    """code tokens of `src`: comments (line, nested block, doc), whitespace and attributes other than
    `#[cfg…]` are dropped, so reformatting, comment edits and e.g. `#[inline]` never change the stream."""
    out, i, n = [], 0, len(src)
    while i < n:
        if src.startswith("/*", i):
            depth, j = 1, i + 2
            while j < n and depth:
                if src.startswith("/*", j): depth += 1; j += 2
                elif src.startswith("*/", j): depth -= 1; j += 2
                else: j += 1
            i = j
            continue
        m = TOKEN_RE.match(src, i)
        i = m.end()
        k = m.lastgroup
        if k in ("ws", "lc"):
            continue
        if k == "h":
            k = "raw"
        out.append(m.group(0))
    # drop attributes `#[...]` / `#![...]` (balanced), keeping cfg / cfg_attr ones
    res, j = [], 0
    while j < len(out):
        if out[j] == "#" and j + 1 < len(out) and (out[j + 1] == "[" or (out[j + 1] == "!" and j + 2 < len(out) and out[j + 2] == "[")):
            k = j + 1 + (1 if out[j + 1] == "!" else 0)
            depth, e = 0, k
            while e < len(out):
                if out[e] == "[": depth += 1
                elif out[e] == "]":
                    depth -= 1
                    if depth == 0: break
                e += 1
            inner = out[k + 1:e]
            if inner and inner[0] in ("cfg", "cfg_attr"):
                res.extend(out[j:e + 1])
            j = e + 1
        else:
            res.append(out[j]); j += 1
    return res


def token_diff(old, new, ctx=3, limit=360):
    """short token-level diff `… ctx [-removed-] {+added+} ctx …` of two token strings"""
    import difflib
    a, b = old.split(" "), new.split(" ")
    sm = difflib.SequenceMatcher(a=a, b=b, autojunk=False)
    parts = []
    for tag, i1, i2, j1, j2 in sm.get_opcodes():
        if tag == "equal":
            continue
        pre = " ".join(a[max(0, i1 - ctx):i1])
        post = " ".join(a[i2:i2 + ctx])
        mid = ("[-" + " ".join(a[i1:i2]) + "-]" if i2 > i1 else "") + ("{+" + " ".join(b[j1:j2]) + "+}" if j2 > j1 else "")
        parts.append(f"… {pre} {mid} {post} …")
    d = "  ".join(parts)
    return d[:limit] + (" …(truncated)" if len(d) > limit else "")


class Block:
    pass


def parse_blocks(s):
    out, stack = [], []
    last, pdepth = 0, 0
    for i, ch in enumerate(s):
        if ch in "([": pdepth += 1
        elif ch in ")]": pdepth = max(0, pdepth - 1)
        elif ch == "{":
            b = Block(); b.hdr = s[last:i]; b.open = i; b.close = None; b.parent = stack[-1] if stack else -1
            b.hdr_start = last
            out.append(b); stack.append(len(out) - 1); last = i + 1
        elif ch == "}":
            if stack:
                out[stack.pop()].close = i
            last = i + 1
        elif ch == ";" and pdepth == 0:
            last = i + 1
    for b in out:
        if b.close is None: b.close = len(s)
        h = b.hdr
        b.test = bool(re.search(r"#\[\s*cfg\s*\(\s*test\s*\)\s*\]|#\[\s*test\s*\]|#\[\s*cfg\s*\(\s*(all|any)\s*\(\s*test", h))
        b.hook = HOOK_CFG in h
        b.kind, b.name, b.trait = "other", "", ""
        m = re.search(r"\bfn\s+(\w+)", h)
        if m and not re.search(r"\b(impl|struct|enum|trait|mod)\b", h[:m.start()].split("]")[-1]):
            b.kind, b.name = "fn", m.group(1); continue
        m = re.search(r"\bimpl\b(.*)$", h, flags=re.S)
        if m and not re.search(r"\bfn\b", h):
            rest = m.group(1).strip()
            if rest.startswith("<"):
                d = 0
                for k, c in enumerate(rest):
                    if c == "<": d += 1
                    elif c == ">" and rest[k - 1] != "-":
                        d -= 1
                        if d == 0:
                            rest = rest[k + 1:]; break
            rest = re.split(r"\bwhere\b", rest)[0]
            parts = re.split(r"\bfor\b", rest)
            target = parts[-1].strip()
            mm = re.match(r"&?\s*(?:'\w+\s+)?(?:mut\s+)?((?:\w+::)*\w+)", target)
            b.kind, b.name = "impl", (mm.group(1).split("::")[-1] if mm else re.sub(r"\s+", "", target))
            if len(parts) > 1:
                tm = re.match(r"\s*!?\s*((?:\w+::)*\w+)", parts[0].strip())
                b.trait = tm.group(1).split("::")[-1] if tm else ""
            continue
        m = re.search(r"\b(mod|struct|trait|enum|union)\s+(\w+)", h)
        if m:
            b.kind, b.name = m.group(1), m.group(2)
    return out


def ancestors(blocks, idx):
    p = blocks[idx].parent
    while p >= 0:
        yield blocks[p]
        p = blocks[p].parent


def features(text, name, in_iter_impl):
    body = text[text.find("{"):] if "{" in text else ""
    f = []
    if re.search(r"\bloop\s*\{|\bwhile\b|\bfor\s+[^;{]*?\bin\b", body):
        f.append("loop")
    if (in_iter_impl and name == "next") or re.search(r"\bfrom_fn\b|\bsuccessors\b|\bimpl\s+Iterator\b|\bIterator\s*<", text):
        f.append("iter")
    # indexing / slicing expression: identifier, `)` or `]` directly followed by `[`, not an attribute or a type
    idx = False
    for m in re.finditer(r"([\w\)\]])\s*\[", body):
        start = m.start()
        pre = body[max(0, start - 40):start + 1]
        if re.search(r"#!?\s*$", pre[:-1]) or re.search(r"\b(let|const|static|->|:)\s*&?\s*(mut\s+)?$", pre[:-1]):
            continue
        # `vec![` / macro bang
        if body[start] == "!" or body[max(0, start - 1):start + 1].endswith("!"):
            continue
        if re.search(r"[\w\)\]]$", body[:start + 1]) and not re.search(r"(&|:\s*|->\s*|<\s*|,\s*|\(\s*)$", body[:start]):
            idx = True
            break
    if idx:
        f.append("index")
    if re.search(r"\.unwrap\(\)|\.expect\(|\bpanic!|\bunreachable!|\bunimplemented!|\btodo!|\bassert(_eq|_ne)?!", body):
        f.append("unwrap")
    # unchecked arithmetic between non-literal operands (coarse)
    if re.search(r"[\w\)\]]\s*(?:\+|-|\*|<<)\s*[A-Za-z_\(]", re.sub(r"->|=>|\.\.=?|&\s*mut|\*\s*self|\*\w+\s*=", " ", body)) or re.search(r"[\w\)\]]\s*(?:/|%)\s*[A-Za-z_\(]", body) or re.search(r"(\+=|-=|\*=)", body):
        f.append("arith")
    if name and len(re.findall(r"\b(?:self\.|Self::)?" + re.escape(name) + r"\s*(?:::<[^>]*>)?\(", body)) > 0 and re.search(r"\b(self\.|Self::)" + re.escape(name) + r"\s*\(", body):
        f.append("rec")
    return f


def scan(repo):
    files = [os.path.join(repo, "read-fonts/src", f) for f in CORE]
    files += sorted(glob.glob(os.path.join(repo, "read-fonts/src/tables/**/*.rs"), recursive=True))
    files += [os.path.join(repo, "read-fonts/src/tables.rs")] if os.path.exists(os.path.join(repo, "read-fonts/src/tables.rs")) else []
    items = []
    for path in files:
        rel = os.path.relpath(path, repo)
        if rel in SKIP_FILES or "/generated/" in rel:
            continue
        src = open(path).read()
        s = strip(src)
        blocks = parse_blocks(s)
        seen = {}
        for i, b in enumerate(blocks):
            if b.kind != "fn":
                continue
            anc = list(ancestors(blocks, i))
            if b.test or any(a.test for a in anc):
                continue
            if b.hook or any(a.hook for a in anc):
                continue
            if any(a.kind == "fn" for a in anc):
                continue  # nested fn / closure body: part of the enclosing fn's text
            owner = next((a for a in anc if a.kind in ("impl", "trait")), None)
            mods = [a.name for a in reversed(anc) if a.kind == "mod"]
            q = "::".join(mods + ([owner.name + ("<" + owner.trait + ">" if getattr(owner, "trait", "") else "")] if owner else []) + [b.name])
            text = s[b.hdr_start:b.close + 1]
            # start at the signature (attributes / doc remnants in front of it are not part of the item)
            sig_at = re.search(r"\b(pub(\s*\([^)]*\))?\s+)?(const\s+)?(async\s+)?(unsafe\s+)?(extern\s+\"\w*\"\s+)?fn\s+" + re.escape(b.name) + r"\b", text)
            start = b.hdr_start + (sig_at.start() if sig_at else 0)
            stripped_norm = re.sub(r"\s+", " ", s[start:b.close + 1]).strip()   # for the feature scan (literals blanked)
            norm = " ".join(tokens(src[start:b.close + 1]))                       # the reviewed token stream
            k = seen.get(q, 0); seen[q] = k + 1
            key = f"{rel}::{q}" + (f"#{k}" if k else "")
            is_pub = bool(re.match(r"pub\b", stripped_norm))
            in_iter = bool(owner and getattr(owner, "trait", "") in ("Iterator", "DoubleEndedIterator", "ExactSizeIterator"))
            items.append({
                "key": key, "file": rel, "name": q, "line": src.count("\n", 0, b.hdr_start + (sig_at.start() if sig_at else 0)) + 1,
                "hash": hashlib.sha1(norm.encode()).hexdigest()[:12], "pub": is_pub,
                "features": features(stripped_norm, b.name, in_iter), "sig": stripped_norm[:stripped_norm.find("{")][:160] if "{" in stripped_norm else stripped_norm[:160],
                "size": len(norm), "text": norm,
            })
    return items


RISKY = {"loop", "iter", "index", "unwrap", "rec"}


def lean_defs():
    defs = set()
    for p in glob.glob(os.path.join(ROOT, "lean/FontVerif/Model/*.lean")):
        mod = os.path.basename(p)[:-5]
        txt = open(p).read()
        ns = re.search(r"^namespace\s+FontVerif\.(\S+)", txt, flags=re.M)
        nsn = ns.group(1) if ns else mod
        for m in re.finditer(r"^(?:@\[[^\]]*\]\s*)?(?:partial\s+)?(?:def|structure|inductive|abbrev)\s+([\w.']+)", txt, flags=re.M):
            defs.add(f"{nsn}.{m.group(1)}")
            defs.add(f"{mod}.{m.group(1)}")
    return defs


def harness_groups():
    groups = set()
    p = os.path.join(ROOT, "harness/src/bin/c01/hand/mod.rs")
    if os.path.exists(p):
        txt = open(p).read()
        m = re.search(r"pub const GROUPS[^=]*=\s*&\[(.*?)\];", txt, flags=re.S)
        if m:
            groups |= set(re.findall(r'\(\s*"([\w.\-]+)"', m.group(1)))
    groups |= {"iters", "shapes", "files"}  # the older parts of bin c01
    return groups


def main():
    ap = argparse.ArgumentParser()
    ap.add_argument("--repo", default="/repo")
    ap.add_argument("--out", required=True)
    ap.add_argument("--report", required=True)
    ap.add_argument("--dump", action="store_true")
    ap.add_argument("--update", action="store_true")
    ap.add_argument("--cover", default=None, help="use another cover table (dry runs of handwritten_rules.py --out)")
    a = ap.parse_args()
    table_path = a.cover or os.path.join(HERE, "handwritten_cover.json")
    table = json.load(open(table_path)) if os.path.exists(table_path) else {"items": {}}
    known = table.get("items", {})
    defaults = table.get("file_defaults", {})

    items = scan(a.repo)
    defs, groups = lean_defs(), harness_groups()
    if a.dump:
        for it in items:
            print(f"{it['key']}  L{it['line']} h={it['hash']} {'pub ' if it['pub'] else ''}{','.join(it['features'])}\n      {it['sig']}")
        print(len(items), "items")

    unparsed, classified = [], []
    cur = set()
    for it in items:
        k = it["key"]; cur.add(k)
        ent = known.get(k)
        if ent is None:
            unparsed.append({"item": k, "file": it["file"], "name": it["name"], "line": it["line"],
                             "why": f"NEW hand-written item {it['file']} :: {it['name']}: not in translate/handwritten_cover.json", "sig": it["sig"]})
            continue
        if ent.get("hash") != it["hash"]:
            diff = token_diff(ent["text"], it["text"]) if ent.get("text") else "(reviewed token text not recorded)"
            unparsed.append({"item": k, "file": it["file"], "name": it["name"], "line": it["line"],
                             "why": f"CHANGED: code tokens of {it['file']} :: {it['name']} differ from the reviewed text "
                                    f"({ent.get('hash')} -> {it['hash']}); re-review its cover ({', '.join(ent.get('cover') or [])})",
                             "diff": diff, "sig": it["sig"]})
            continue
        covers = ent.get("cover") or []
        if isinstance(covers, str):
            covers = [covers]
        bad = None
        if not covers:
            bad = "UNCOVERED: no cover listed"
        for c in covers:
            if c.startswith("model:"):
                if c[6:] not in defs:
                    bad = f"UNCOVERED: Lean def {c[6:]!r} not found in lean/FontVerif/Model"
            elif c.startswith("harness:"):
                if c[8:] not in groups:
                    bad = f"UNCOVERED: harness group {c[8:]!r} not found in harness/src/bin/c01"
            elif c == "traverse":
                if not ent.get("why"):
                    bad = "UNCOVERED: `traverse` needs a one-line justification (`why`)"
                elif (set(it["features"]) & RISKY) and not ent.get("risk_reviewed") and len(covers) == 1:
                    bad = f"UNCOVERED: item with features {sorted(set(it['features']) & RISKY)} is covered by whole-file traversal only"
            else:
                bad = f"UNCOVERED: unknown cover {c!r}"
        if bad:
            unparsed.append({"item": k, "line": it["line"], "why": bad, "sig": it["sig"]})
        else:
            classified.append((it, covers))
    stale = sorted(k for k in known if k not in cur)
    for k in stale:
        unparsed.append({"item": k, "why": "REMOVED: listed in translate/handwritten_cover.json but no longer in the source (renamed / deleted): re-review the table"})

    if a.update:
        new = {}
        for it in items:
            old = known.get(it["key"], {})
            ent = {"hash": it["hash"], "features": it["features"], "text": it["text"],
                   "cover": old.get("cover", defaults.get(it["file"], {}).get("cover", ["TODO"]))}
            why = old.get("why", defaults.get(it["file"], {}).get("why"))
            if why:
                ent["why"] = why
            if old.get("risk_reviewed"):
                ent["risk_reviewed"] = True
            new[it["key"]] = ent
        table["items"] = new
        table.setdefault("_doc", "C01 hand-written inventory coverage; see translate/handwritten.py. cover: list of model:<Lean def> | harness:<group> | traverse (+why).")
        json.dump(table, open(table_path, "w"), indent=1, sort_keys=True)
        print(f"updated {table_path}: {len(new)} entries ({sum(1 for v in new.values() if 'TODO' in v['cover'])} TODO)")

    def kind(covers):
        if any(c.startswith("model:") for c in covers): return "model"
        if any(c.startswith("harness:") for c in covers): return "harness"
        return "traverse"
    by_kind = {"model": 0, "harness": 0, "traverse": 0}
    risky_by_kind = {"model": 0, "harness": 0, "traverse": 0}
    for it, covers in classified:
        by_kind[kind(covers)] += 1
        if set(it["features"]) & RISKY:
            risky_by_kind[kind(covers)] += 1
    report = {
        # an obligation = one hand-written item whose reviewed text is unchanged and whose direct cover (Lean model or
        # harness group) exists; `traverse` items are inventoried but not counted
        "obligations": by_kind["model"] + by_kind["harness"],
        "items": len(items),
        "by_cover": by_kind,
        "risky_items": sum(1 for it in items if set(it["features"]) & RISKY),
        "risky_by_cover": risky_by_kind,
        "stale_table_entries": stale[:50],
        "samples": [{"item": it["key"], "cover": covers, "features": it["features"]} for it, covers in classified if kind(covers) == "model"][:3],
        "unparsed": unparsed,
    }
    json.dump(report, open(a.report, "w"), indent=1)
    print(f"handwritten.py: {len(items)} items, cover {by_kind}, risky {report['risky_items']} {risky_by_kind}, {len(unparsed)} unparsed, {len(stale)} stale")
    return 0


if __name__ == "__main__":
    sys.exit(main())
