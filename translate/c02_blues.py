#!/usr/bin/env python3
"""
translate/c02_blues.py — C02 translator: the "long blue" scan loops of the autohinter.

Reads skrifa/src/outline/autohint/metrics/blues.rs, finds in `compute_default_blues` the block

        let mut hit = false;
        loop { … loop { … } … }

(a port of FreeType's `do { … } while ( last != segment_first );`, aflatin.c af_latin_metrics_init_blues), parses it
with a recursive-descent parser for the statement subset

        if c { … } [else { … } | else if …]     loop { … }     break;     continue;
        let [mut] pat [: ty] = e;     place = e;     place op= e;

and emits lean/FontVerif/Gen/BluesScan.lean: the CONTROL SKELETON of the two loops as one step function per loop
body over `FontVerif.LoopIter.St` (last, segFirst, n = best_contour.len(), tick):

  * a condition that mentions only control variables (`last`, `segment_first`, `best_contour.len()`, integer
    literals) is translated exactly; every other condition `c_k` becomes the oracle call `o k tick`
    (k = index of the `if` in source order, tick = number of loop-body entries so far, so every evaluation is free);
  * an assignment to a control variable is translated exactly when its right-hand side is control-only and becomes
    a havoc `h k tick` otherwise; everything else that has no control effect (assignments to data variables,
    `if`s whose branches contain no break / continue / loop / control assignment) is dropped and listed;
  * `break` / `continue` / end of body become `.brk` / `.cont`, the statement list is translated in
    continuation-passing style, a nested `loop` is run by `iter <its step> (n + 1)` and yields `.stuck` if it does
    not exit within that fuel.

Props/C02Blues.lean proves, for every oracle and havoc, that both loops exit.  The translator fails (exit 1, the
reason in the report's `unparsed`) when the anchor is missing or a statement is outside the subset.

usage: c02_blues.py [--repo /repo | --src path/to/blues.rs] --out <dir or file.lean> [--report report.json]
"""
import argparse
import json
import os
import re
import sys

REL = "skrifa/src/outline/autohint/metrics/blues.rs"
FUNC = "compute_default_blues"
CTRL = {"last": "last", "segment_first": "segFirst"}     # Rust control variable -> Lean local
LEN = "best_contour.len()"                               # -> n
LEN_ROOT = "best_contour"


class Unsupported(Exception):
    pass


# ------------------------------------------------------------------------------------------------------------
# source handling

def strip_comments(src):
    """replace // and /* */ comments by spaces (newlines kept so that line numbers survive)"""
    out = []
    i, n = 0, len(src)
    while i < n:
        if src.startswith("//", i):
            j = src.find("\n", i)
            j = n if j < 0 else j
            out.append(" " * (j - i)); i = j
        elif src.startswith("/*", i):
            j = src.find("*/", i + 2)
            if j < 0:
                raise Unsupported("unterminated block comment")
            out.append(re.sub(r"[^\n]", " ", src[i:j + 2])); i = j + 2
        else:
            out.append(src[i]); i += 1
    return "".join(out)


def match_brace(src, i):
    """src[i] == '{' -> index of the matching '}'"""
    assert src[i] == "{"
    d = 0
    for j in range(i, len(src)):
        if src[j] == "{":
            d += 1
        elif src[j] == "}":
            d -= 1
            if d == 0:
                return j
    raise Unsupported("unbalanced braces")


def locate(src):
    """(start, end) of the `{ … }` of the anchored loop"""
    m = re.search(r"\bfn\s+" + FUNC + r"\s*\(", src)
    if not m:
        raise Unsupported(f"anchor: fn {FUNC} not found")
    fb = src.index("{", m.end())
    fe = match_brace(src, fb)
    body = src[fb:fe + 1]
    hits = list(re.finditer(r"let\s+mut\s+hit\s*=\s*false\s*;\s*loop\s*\{", body))
    if len(hits) != 1:
        raise Unsupported(f"anchor: expected exactly one `let mut hit = false; loop {{` in {FUNC}, found {len(hits)}")
    b = fb + hits[0].end() - 1
    return b, match_brace(src, b)


# ------------------------------------------------------------------------------------------------------------
# entry state of the scan: where `segment_first`, `segment_last` (= the initial `last`) come from

ENTRY_TEXTS = [
    # the producers of the indices: (ix + start) % len  —  Model/LoopIter.lean `cycleIx`
    "pub(super) fn cycle_forward<T>(items: &[T], start: usize) -> impl Iterator<Item = (usize, &T)> { "
    "let len = items.len(); let start = start + 1; (0..len).map(move |ix| { let real_ix = (ix + start) % len; "
    "(real_ix, &items[real_ix]) }) }",
    "pub(super) fn cycle_backward<T>(items: &[T], start: usize) -> impl Iterator<Item = (usize, &T)> { "
    "let len = items.len(); (0..len).rev().map(move |ix| { let real_ix = (ix + start) % len; "
    "(real_ix, &items[real_ix]) }) }",
    "let Some((best_contour_range, best_point_ix)) = best_contour_and_point else { continue; }; "
    "let best_contour = &outline.points[best_contour_range];",
    "let mut segment_first = best_point_ix; let mut segment_last = best_point_ix;",
    # the scan starts at segment_last
    "let mut first = segment_last; let mut last = first; let mut p_first = None; let mut p_last = None; "
    "let mut hit = false; loop {",
]


REL_UNSCALED = "skrifa/src/outline/unscaled.rs"
FIND_LAST_CONTOUR = (
    "pub fn find_last_contour( &self, mut f: impl FnMut(&UnscaledPoint) -> bool, ) -> Option<(Range<usize>, usize)> { "
    "if self.points.is_empty() { return None; } let mut best_contour = 0..0; let mut best_point = 0; "
    "let mut cur_contour = 0..0; let mut found_best_in_cur_contour = false; "
    "for (point_ix, point) in self.points.iter().enumerate() { if point.is_contour_start { "
    "if found_best_in_cur_contour { best_contour = cur_contour; } cur_contour = point_ix..point_ix; "
    "found_best_in_cur_contour = false; match self.points.get(point_ix + 1) { "
    "Some(next_point) if next_point.is_contour_start => continue, None => continue, _ => {} } } "
    "cur_contour.end += 1; if f(point) { best_point = point_ix - cur_contour.start; "
    "found_best_in_cur_contour = true; } } if found_best_in_cur_contour { best_contour = cur_contour; } "
    "if !best_contour.is_empty() { Some((best_contour, best_point)) } else { None } }")


def check_find_last_contour(unscaled_src, blues_src):
    """Model/FindLastContour.lean transcribes this body; compute_default_blues gets (best_contour_range,
    best_point_ix) only from it"""
    if FIND_LAST_CONTOUR not in " ".join(strip_comments(unscaled_src).split()):
        raise Unsupported(f"{REL_UNSCALED}: find_last_contour no longer reads as transcribed in Model/FindLastContour.lean")
    m = re.search(r"let\s+best_contour_and_point\s*=\s*if\b[^{]*\{", blues_src)
    if not m:
        raise Unsupported("entry state: `let best_contour_and_point = if … {` not found")
    b = m.end() - 1
    e = match_brace(blues_src, b)
    m2 = re.match(r"\s*else\s*\{", blues_src[e + 1:])
    if not m2:
        raise Unsupported("entry state: `best_contour_and_point` has no else branch")
    e2 = match_brace(blues_src, e + 1 + m2.end() - 1)
    for blk in (blues_src[b:e + 1], blues_src[e + 1 + m2.end() - 1:e2 + 1]):
        if not re.match(r"\{\s*outline\s*\.\s*find_last_contour\s*\(", blk):
            raise Unsupported("entry state: a branch of `best_contour_and_point` is not `outline.find_last_contour(…)`")
    if len(re.findall(r"\bbest_contour_and_point\b", blues_src)) != 2:
        raise Unsupported("entry state: `best_contour_and_point` is used other than in its `let … else { continue }`")


def check_entry(src):
    """segment_first / segment_last are `best_point_ix` or an index yielded by cycle_backward / cycle_forward over
    `best_contour` — nothing else writes them before the scan"""
    flat = " ".join(src.split())
    for t in ENTRY_TEXTS:
        if t not in flat:
            raise Unsupported(f"entry state: blues.rs no longer reads `{t[:100]}…` "
                              f"(Props/C02Blues.lean blues_long_scan_terminates_from_entry relies on it)")
    m = re.search(r"\bfn\s+" + FUNC + r"\s*\(", src)
    fb = src.index("{", m.end())
    b, _ = locate(src)
    pre = src[fb:b]
    for var, it in (("segment_first", "cycle_backward"), ("segment_last", "cycle_forward")):
        writes = [w.start() for w in re.finditer(r"\b" + var + r"\s*(?:[-+*/|&^]|<<|>>)?=(?!=)", pre)]
        if len(writes) != 2:
            raise Unsupported(f"entry state: expected 2 writes of `{var}` before the scan (its `let` and one in the "
                              f"`{it}` loop), found {len(writes)}")
        if not re.match(var + r"\s*=\s*ix\s*;", pre[writes[1]:]):
            raise Unsupported(f"entry state: `{var}` is no longer assigned the yielded index `ix`")
        hdrs = [h for h in re.finditer(r"for\s*\(\s*ix\s*,\s*\w+\s*\)\s*in\s+" + it +
                                       r"\s*\(\s*best_contour\s*,\s*best_point_ix\s*\)\s*\{", pre)
                if h.start() < writes[1]]
        if not hdrs or match_brace(pre + src[b:], hdrs[-1].end() - 1) < writes[1]:
            raise Unsupported(f"entry state: `{var} = ix` is not inside `for (ix, _) in {it}(best_contour, best_point_ix)`")
        if re.search(r"&\s*mut\s+" + var + r"\b", pre):
            raise Unsupported(f"entry state: `{var}` is borrowed mutably")


# ------------------------------------------------------------------------------------------------------------
# parser: statements are dicts {"k": kind, "line": n, …}

class Parser:
    def __init__(self, src, line0):
        self.s = src
        self.i = 0
        self.line0 = line0
        self.nconds = 0

    def line(self, i=None):
        return self.line0 + self.s.count("\n", 0, self.i if i is None else i)

    def ws(self):
        while self.i < len(self.s) and self.s[self.i].isspace():
            self.i += 1

    def fail(self, why):
        frag = " ".join(self.s[self.i:self.i + 60].split())
        raise Unsupported(f"line {self.line()}: {why}: `{frag}`")

    def kw(self, word):
        self.ws()
        if re.match(word + r"\b", self.s[self.i:]):
            self.i += len(word)
            return True
        return False

    def peek_kw(self, word):
        self.ws()
        return re.match(word + r"\b", self.s[self.i:]) is not None

    def expect(self, ch):
        self.ws()
        if not self.s.startswith(ch, self.i):
            self.fail(f"expected `{ch}`")
        self.i += len(ch)

    def scan(self, stops):
        """raw text up to (not including) the first char of `stops` at ()/[] depth 0"""
        d = 0
        j = self.i
        while j < len(self.s):
            c = self.s[j]
            if c in "([":
                d += 1
            elif c in ")]":
                d -= 1
                if d < 0:
                    self.fail("unbalanced parenthesis")
            elif d == 0 and c in stops:
                txt = self.s[self.i:j]
                self.i = j
                return " ".join(txt.split())
            elif c in "\"'":
                self.fail("string / char / lifetime token outside the subset")
            j += 1
        self.fail("unterminated expression")

    def expr_until_semicolon(self):
        e = self.scan(";{}")
        if not self.s.startswith(";", self.i):
            self.fail("block expression / missing `;` outside the subset")
        self.i += 1
        if re.search(r"\breturn\b|\bbreak\b|\bcontinue\b|\?", e):
            self.fail("control transfer inside an expression is outside the subset")
        return e

    def block(self):
        self.expect("{")
        out = []
        while True:
            self.ws()
            if self.i >= len(self.s):
                self.fail("unterminated block")
            if self.s[self.i] == "}":
                self.i += 1
                return out
            out.append(self.stmt())

    def stmt(self):
        self.ws()
        ln = self.line()
        if self.peek_kw("if"):
            return self.if_stmt()
        if self.kw("loop"):
            return {"k": "loop", "line": ln, "body": self.block()}
        if self.kw("break"):
            self.ws()
            if not self.s.startswith(";", self.i):
                self.fail("labelled / valued break is outside the subset")
            self.i += 1
            return {"k": "break", "line": ln}
        if self.kw("continue"):
            self.ws()
            if not self.s.startswith(";", self.i):
                self.fail("labelled continue is outside the subset")
            self.i += 1
            return {"k": "continue", "line": ln}
        if self.kw("let"):
            pat = self.scan("=;{}")
            if not self.s.startswith("=", self.i) or self.s.startswith("==", self.i):
                self.fail("`let` without initialiser is outside the subset")
            self.i += 1
            e = self.expr_until_semicolon()
            pat = re.sub(r"^mut\s+", "", pat)
            names = set(re.findall(r"[A-Za-z_]\w*", pat.split(":")[0]))
            if names & (set(CTRL) | {LEN_ROOT}):
                self.fail(f"`let` rebinds a control variable ({sorted(names & (set(CTRL) | {LEN_ROOT}))})")
            return {"k": "let", "line": ln, "text": f"let {pat} = {e};"}
        for word in ("for", "while", "match", "return", "unsafe", "fn", "struct", "use"):
            if self.peek_kw(word):
                self.fail(f"`{word}` statement is outside the subset")
        if self.s[self.i] == "{":
            self.fail("bare block is outside the subset")
        # assignment: place (op)= expr ;
        m = re.match(r"([A-Za-z_]\w*)((?:\s*\.\s*\w+|\s*\[[^\]\n]*\])*)\s*(\+|-|\*|/|%|\||&|\^|<<|>>)?=(?!=)", self.s[self.i:])
        if not m:
            self.fail("statement is outside the subset (expected if / loop / break / continue / let / assignment)")
        root, proj, op = m.group(1), m.group(2).strip(), m.group(3) or ""
        self.i += m.end()
        e = self.expr_until_semicolon()
        if root == LEN_ROOT:
            self.fail(f"assignment to `{LEN_ROOT}` (its length is modelled as the constant n)")
        if root in CTRL and proj:
            self.fail("projection of a control variable")
        return {"k": "assign", "line": ln, "var": root, "proj": proj, "op": op, "rhs": e,
                "text": f"{root}{proj} {op}= {e};"}

    def if_stmt(self):
        ln = self.line()
        assert self.kw("if")
        if self.peek_kw("let"):
            self.fail("`if let` is outside the subset")
        cond = self.scan("{;}")
        if not self.s.startswith("{", self.i):
            self.fail("expected `{` after the condition")
        if re.search(r"\breturn\b|\bbreak\b|\bcontinue\b|\?", cond):
            self.fail("control transfer inside a condition is outside the subset")
        cid = self.nconds
        self.nconds += 1
        then = self.block()
        els = []
        if self.kw("else"):
            if self.peek_kw("if"):
                els = [self.if_stmt()]
            else:
                els = self.block()
        return {"k": "if", "line": ln, "cond": cond, "id": cid, "then": then, "else": els}


# ------------------------------------------------------------------------------------------------------------
# control-only expressions

TOK = re.compile(r"\s*(best_contour\s*\.\s*len\s*\(\s*\)|[A-Za-z_]\w*|\d+|==|!=|<=|>=|&&|\|\||[-+<>!()])")
LEAN_OP = {"==": "=", "!=": "≠", "<=": "≤", ">=": "≥", "&&": "∧", "||": "∨", "!": "¬", "<": "<", ">": ">",
           "+": "+", "-": "-", "(": "(", ")": ")"}


def control_expr(e, boolean):
    """Lean text of `e` if it mentions only control variables / n / literals, else None"""
    toks = []
    i = 0
    e = e.strip()
    while i < len(e):
        m = TOK.match(e, i)
        if not m:
            return None
        toks.append(m.group(1))
        i = m.end()
    out = []
    for t in toks:
        if re.fullmatch(r"best_contour\s*\.\s*len\s*\(\s*\)", t):
            out.append("n")
        elif t in CTRL:
            out.append(CTRL[t])
        elif re.fullmatch(r"\d+", t):
            out.append(t)
        elif t in LEAN_OP:
            if not boolean and t not in "+-()":
                return None
            out.append(LEAN_OP[t])
        else:
            return None
    if not out:
        return None
    if boolean and not any(t in ("==", "!=", "<=", ">=", "<", ">") for t in toks):
        return None
    txt = " ".join(out).replace("( ", "(").replace(" )", ")").replace("¬ ", "¬")
    return txt


# ------------------------------------------------------------------------------------------------------------
# classification

def has_effect(st):
    k = st["k"]
    if k in ("break", "continue", "loop"):
        return True
    if k == "assign":
        return st["var"] in CTRL
    if k == "if":
        return any(has_effect(x) for x in st["then"]) or any(has_effect(x) for x in st["else"])
    return False


def only_assigns(stmts):
    """the effectful statements of the list if they are all plain assignments to control variables, else None"""
    eff = [x for x in stmts if has_effect(x)]
    return eff if all(x["k"] == "assign" for x in eff) else None


def sub_guards(lean):
    """`usize` subtractions of a translated control expression: the list of `a < b` under which `a - b` underflows"""
    found = re.findall(r"(\w+|\([^()]*\)) - (\w+|\([^()]*\))", lean)
    if len(found) != lean.count(" - "):
        raise Unsupported(f"subtraction in `{lean}` is not of the form a - b")
    return [f"{a} < {b}" for a, b in found]


class Gen:
    def __init__(self):
        self.dropped = []      # (line, text)
        self.exact = []        # (id, line, rust, lean)
        self.opaque = []       # (id, line, rust)
        self.dropped_conds = []
        self.havocs = []       # (id, line, text)
        self.exact_assign_lines = set()
        self.checked_subs = 0
        self.loop_names = {}   # line of the `loop` keyword -> step function (a loop is emitted once)
        self.inner_names = 0
        self.defs = []         # (name, lean text) in dependency order
        self.loops = 0
        self.fresh = 0

    # -- expressions
    def cond(self, st):
        c = control_expr(st["cond"], True)
        if c is not None:
            if not any(x[0] == st["id"] for x in self.exact):
                self.exact.append((st["id"], st["line"], st["cond"], c))
            return c
        if not any(x[0] == st["id"] for x in self.opaque):
            self.opaque.append((st["id"], st["line"], st["cond"]))
        return f"o {st['id']} tick"

    def assign_value(self, st):
        """Lean expression for the new value of the control variable"""
        v = CTRL[st["var"]]
        rhs = control_expr(st["rhs"], False)
        if rhs is None or st["op"] not in ("", "+", "-"):
            key = (st["line"], st["text"])
            if key not in [(l, t) for (_, l, t) in self.havocs]:
                self.havocs.append((len(self.havocs), st["line"], st["text"]))
            hid = [i for (i, l, t) in self.havocs if (l, t) == key][0]
            return f"h {hid} tick"
        self.exact_assign_lines.add(st["line"])
        if st["op"] == "":
            return rhs
        if re.fullmatch(r"\w+", rhs):
            return f"{v} {st['op']} {rhs}"
        return f"{v} {st['op']} ({rhs})"

    def traps(self, lean, pad):
        """checked `usize` subtraction: the body traps (Rust: panics) when a control subtraction underflows"""
        out = []
        for g in sub_guards(lean):
            self.checked_subs += 1
            out.append(f"{pad}if {g} then .trap else")
        return out

    def drop(self, st):
        if st["k"] == "if":
            self.dropped_conds.append((st["id"], st["line"], st["cond"]))
            self.dropped.append((st["line"], f"if {st['cond']} {{ … }}" + (" else { … }" if st["else"] else "")))
            for x in st["then"] + st["else"]:
                self.count_nested_conds(x)
        else:
            self.dropped.append((st["line"], st["text"]))

    def count_nested_conds(self, st):
        if st["k"] == "if":
            self.dropped_conds.append((st["id"], st["line"], st["cond"]))
            for x in st["then"] + st["else"]:
                self.count_nested_conds(x)

    # -- statements (CPS): `seq` is the list of statements still to run in this loop body
    def seq(self, stmts, ind):
        pad = "  " * ind
        if not stmts:
            return [f"{pad}.cont ⟨last, segFirst, n, tick⟩"]
        st, rest = stmts[0], stmts[1:]
        k = st["k"]
        if not has_effect(st):
            self.drop(st)
            return self.seq(rest, ind)
        if k == "break":
            return [f"{pad}.brk ⟨last, segFirst, n, tick⟩"]
        if k == "continue":
            return [f"{pad}.cont ⟨last, segFirst, n, tick⟩"]
        if k == "assign":
            v = CTRL[st["var"]]
            val = self.assign_value(st)
            return self.traps(val, pad) + [f"{pad}let {v} := {val}"] + self.seq(rest, ind)
        if k == "loop":
            if st["line"] not in self.loop_names:
                self.loop_names[st["line"]] = self.loop(st["body"], nested=True)
            name = self.loop_names[st["line"]]
            self.fresh += 1
            r = f"r{self.fresh}"
            return [f"{pad}match iter ({name} o h) (n + 1) ⟨last, segFirst, n, tick⟩ with",
                    f"{pad}| none => .stuck",
                    f"{pad}| some {r} =>",
                    f"{pad}  let last := {r}.last",
                    f"{pad}  let segFirst := {r}.segFirst",
                    f"{pad}  let tick := {r}.tick"] + self.seq(rest, ind + 1)
        if k == "if":
            a, b = only_assigns(st["then"]), only_assigns(st["else"])
            if a is not None and b is not None:
                vs = sorted({x["var"] for x in a + b})
                if len(vs) == 1 and len(a) <= 1 and len(b) <= 1:
                    # branch-only assignment of one control variable: a conditional value
                    v = CTRL[vs[0]]
                    c = self.cond(st)
                    for x in st["then"] + st["else"]:
                        if not has_effect(x):
                            self.drop(x)
                    va = self.assign_value(a[0]) if a else v
                    vb = self.assign_value(b[0]) if b else v
                    if not sub_guards(va) and not sub_guards(vb):
                        return (self.traps(c, pad) + [f"{pad}let {v} := if {c} then {va} else {vb}"] +
                                self.seq(rest, ind))
                    # a branch subtracts: keep the branches apart so that each subtraction is checked under its guard
            c = self.cond(st)
            return (self.traps(c, pad) + [f"{pad}if {c} then"] + self.seq(st["then"] + rest, ind + 1) +
                    [f"{pad}else"] + self.seq(st["else"] + rest, ind + 1))
        raise Unsupported(f"line {st['line']}: internal: statement kind {k}")

    def loop(self, body, nested):
        idx = self.loops
        self.loops += 1
        body_lines = self.seq(body, 1)          # nested loops are emitted (and named) first
        if not nested:
            name = "outerStep"
        else:
            self.inner_names += 1
            name = "innerStep" if self.inner_names == 1 else f"innerStep{self.inner_names}"
        hdr = [f"def {name} (o : Nat → Nat → Bool) (h : Nat → Nat → Nat) (s : St) : Out :=",
               "  let n := s.n",
               "  let segFirst := s.segFirst",
               "  let last := s.last",
               "  let tick := s.tick + 1"]
        self.defs.append((name, "\n".join(hdr + body_lines)))
        return name


# ------------------------------------------------------------------------------------------------------------

def generate(src_text, src_label, unscaled_text=None):
    src = strip_comments(src_text)
    check_entry(src)
    if unscaled_text is not None:
        check_find_last_contour(unscaled_text, src)
    b, e = locate(src)
    line0 = src.count("\n", 0, b) + 1
    p = Parser(src[b:e + 1], line0)
    body = p.block()
    p.ws()
    g = Gen()
    g.loop(body, nested=False)
    if not any(n == "innerStep" for n, _ in g.defs):
        raise Unsupported("the anchored loop no longer contains a nested `loop` (Props/C02Blues.lean expects innerStep)")
    L = []
    L.append(f"/- GENERATED by translate/c02_blues.py from {src_label}")
    L.append(f"   (fn {FUNC}, the `let mut hit = false; loop {{ … }}` block, source lines {line0}–{src.count(chr(10), 0, e) + 1}).")
    L.append("   Do not edit.  Control skeleton of the \"long blue\" scan loops: control variables `last`, `segment_first`,")
    L.append("   n = best_contour.len(); `o k tick` = truth value of data condition k at loop-body entry number `tick`,")
    L.append("   `h k tick` = value of a data expression assigned to a control variable.")
    L.append("")
    L.append("   conditions translated exactly:")
    for cid, ln, rust, lean in sorted(g.exact):
        L.append(f"     c{cid} (line {ln}): `{rust}`  ↦  {lean}")
    L.append("   conditions abstracted by the oracle:")
    for cid, ln, rust in sorted(g.opaque):
        L.append(f"     c{cid} (line {ln}): `{rust}`  ↦  o {cid} tick")
    L.append("   assignments abstracted by the havoc:")
    for hid, ln, text in g.havocs:
        L.append(f"     line {ln}: `{text}`  ↦  h {hid} tick")
    if not g.havocs:
        L.append("     (none)")
    L.append("   statements without control effect, dropped:")
    for ln, text in sorted(set(g.dropped)):
        L.append(f"     line {ln}: `{text}`")
    L.append("   Every subtraction of the control arithmetic is CHECKED: `if a < b then .trap else …` precedes each `a - b`")
    L.append("   (a usize underflow panics in the Rust build that ./check uses); additions cannot overflow (indices < len).")
    L.append("-/")
    L.append("import FontVerif.Model.LoopIter")
    L.append("namespace FontVerif.Gen.BluesScan")
    L.append("open FontVerif.LoopIter")
    L.append("set_option linter.unusedVariables false")
    L.append("")
    L.append("/-- number of `if` conditions in the block (oracle ids are `0 … numConds-1`) -/")
    L.append(f"def numConds : Nat := {p.nconds}")
    L.append("")
    for name, text in g.defs:
        what = "the anchored (outer) `loop`" if name == "outerStep" else "a nested `loop`"
        L.append(f"/-- one execution of the body of {what} -/")
        L.append(text)
        L.append("")
    L.append("end FontVerif.Gen.BluesScan")
    lean = "\n".join(L) + "\n"
    header = "\n".join(L[1:L.index("-/")])
    if "-/" in header or "/-" in header:
        raise Unsupported("a source expression contains a Lean comment delimiter")
    stats = {
        "lines": [line0, src.count("\n", 0, e) + 1],
        "conditions": p.nconds,
        "exact": len(g.exact), "opaque": len(g.opaque),
        "conditions_dropped": len({c[0] for c in g.dropped_conds}),
        "exact_assignments": len(g.exact_assign_lines), "havocs": len(g.havocs),
        "dropped_statements": len(set(g.dropped)),
        "loops": [n for n, _ in g.defs],
    }
    return lean, stats, g


def main():
    ap = argparse.ArgumentParser()
    ap.add_argument("--repo", default="/repo")
    ap.add_argument("--src", help="read this file instead of <repo>/" + REL)
    ap.add_argument("--unscaled", help="read this file instead of <repo>/" + REL_UNSCALED)
    ap.add_argument("--out", required=True, help="directory (BluesScan.lean is written there) or a .lean path")
    ap.add_argument("--report")
    a = ap.parse_args()
    path = a.src or os.path.join(a.repo, REL)
    unparsed = []
    lean = stats = None
    try:
        lean, stats, g = generate(open(path).read(), REL, open(a.unscaled or os.path.join(a.repo, REL_UNSCALED)).read())
    except (Unsupported, OSError) as ex:
        unparsed.append({"item": f"{REL}::{FUNC} long-blue loop", "why": str(ex)})
    changed = False
    if lean is not None:
        out = a.out if a.out.endswith(".lean") else os.path.join(a.out, "BluesScan.lean")
        os.makedirs(os.path.dirname(os.path.abspath(out)), exist_ok=True)
        old = open(out).read() if os.path.exists(out) else None
        changed = old != lean
        if changed:
            open(out, "w").write(lean)
    if a.report:
        report = {
            # the proof obligations about the generated definitions are the theorems of Props/C02Blues.lean
            # (counted there by ./check), so none are added here
            "obligations": 0,
            "samples": [{"c02_blues": stats}] if stats else [],
            "unparsed": unparsed,
            "changed": changed,
        }
        json.dump(report, open(a.report, "w"), indent=1)
    if unparsed:
        print("c02_blues: FAILED: " + unparsed[0]["why"])
        return 1
    print(f"c02_blues: lines {stats['lines'][0]}-{stats['lines'][1]}: {stats['conditions']} conditions "
          f"({stats['exact']} exact, {stats['opaque']} oracle, {stats['conditions_dropped']} dropped), "
          f"{stats['exact_assignments']} exact control assignments, {stats['havocs']} havoc, "
          f"{stats['dropped_statements']} statements dropped, loops {'+'.join(stats['loops'])}"
          f"{' (file updated)' if changed else ''}")
    return 0


if __name__ == "__main__":
    sys.exit(main())
