#!/usr/bin/env python3
"""
handwritten_write.py — C04 translator: inventory tie for the HAND-WRITTEN write-side code of write-fonts.

writers.py covers the generated `FontWrite` impls (write-fonts/generated).  Everything below is written by hand and is
invisible to it; a slip there (a wrong `compute_*` length, a swapped field in a `FromObjRef`) only shows up when a
value that distinguishes the two behaviours is generated.  This script enumerates, in `write-fonts/src/**/*.rs`
(outside `#[cfg(test)]` modules / `#[test]` functions):

  * every `impl … FontWrite / FromObjRef / FromTableRef / Validate … for T { … }`       kind `impl`
    (also inside `macro_rules!` bodies: `impl FontWrite for $name`),
  * every `fn compute_*`                                                                kind `compute`,
  * every helper a schema attribute refers to (resources/codegen_inputs/*.rs):
      `#[compile(self.NAME())]`, `#[compile_with(NAME)]`, `#[validate(NAME)]`, `#[to_owned(NAME(…))]`,
      `#[count(NAME…)]`-style free functions are read side and not listed                kind `helper`,
  * every `impl<'a> FontRead<'a> for <owned type>` written by hand (the read-back entry point)  kind `impl`,
  * the explicitly listed conversion helpers in EXTRA (format selection of ValueRecord …)  kind `extra`.

Each item is keyed by `<file>::<container>::<name>` and carries a hash of its TOKEN stream (comments, doc comments,
attributes, whitespace and line breaks removed), so reformatting, comment edits or attribute-only changes never break
the tie; only a change of the code tokens of an inventoried item, or a new / removed item, does.  The reviewed token
stream is stored next to the hash so that a CHANGED item is reported with file + item + a short token-level diff.  The committed table `translate/handwritten_write_cover.json` maps each key to the reviewed hash and to ONE of

  (several of the following may be joined with `;`, e.g. `model:…;oracle:…`; the first one is the item's class)
    model:<Lean name>[,<Lean name>…]   the item is transcribed in the Lean model; the names must exist as
                                       `def`/`theorem` in lean/FontVerif/{Model,Props,Lemmas}/ (checked here)
    oracle:<family>[,<family>…]        values produced by the harness generator family `<family>` execute the item and
                                       the value-level oracle (compile -> read -> to_owned == original, recompile equal)
                                       depends on its result; the family must be declared in `FAMILIES` of
                                       harness/src/bin/c04/distinct.rs (checked here; the harness itself fails the
                                       oracle `family-exercised:<family>` if a declared family produced no compiled value)
    n/a:<reason>                       not on the compile -> read-back path (builder-only, test-only scaffolding, …)

An item that is NEW, REMOVED (in the table but no longer in the source), CHANGED (hash differs from the reviewed one), UNCOVERED (cover missing / malformed) or whose cover
names a Lean definition / generator family that does not exist is reported in `unparsed` ⇒ `./check C04` prints
VIOLATION … no-failing-input-found naming the item.

usage: handwritten_write.py --repo /repo --out lean/FontVerif/Gen --report out.json [--dump] [--update]
  --dump    print the inventory
  --update  rewrite the cover table: keep the cover of known keys, refresh hashes, add new keys with cover "TODO"
(--out is accepted for CLI uniformity; this translator emits no Lean file.)
"""
import argparse, glob, hashlib, json, os, re, sys

TRAITS = ("FontWrite", "FromObjRef", "FromTableRef", "Validate", "FontRead")
# hand-written conversion helpers that are neither trait impls nor compute_* nor named by a schema attribute, but
# decide what is written / read back: (file suffix, fn name)
EXTRA = [
    ("write-fonts/src/tables/gpos/value_record.rs", "format"),
    ("write-fonts/src/tables/gpos/value_record.rs", "encoded_size"),
    ("write-fonts/src/tables/layout.rs", "class_count"),
    ("write-fonts/src/tables/gpos.rs", "class_count"),
    ("write-fonts/src/tables/layout.rs", "encode_delta"),
    ("write-fonts/src/tables/layout.rs", "encode_chunk"),
    ("write-fonts/src/from_obj.rs", "to_owned_obj"),
    ("write-fonts/src/from_obj.rs", "to_owned_table"),
    ("write-fonts/src/write.rs", "dump_table"),
    ("write-fonts/src/write.rs", "write_offset"),
    ("write-fonts/src/write.rs", "write_slice"),
    ("write-fonts/src/write.rs", "adjust_offsets"),
    ("write-fonts/src/write.rs", "pad_to_2byte_aligned"),
    ("write-fonts/src/write.rs", "pad_to_4byte_aligned"),
]


def strip_comments(src):
    """remove // and /* */ comments, keep string / char literals intact (lengths are not preserved)"""
    out = []
    i, n = 0, len(src)
    while i < n:
        c = src[i]
        if c == '"':
            j = i + 1
            while j < n and src[j] != '"':
                j += 2 if src[j] == "\\" else 1
            out.append(src[i:j + 1]); i = j + 1
        elif c == "r" and re.match(r'r#*"', src[i:]) and (i == 0 or not (src[i - 1].isalnum() or src[i - 1] == "_")):
            m = re.match(r'r(#*)"', src[i:])
            end = src.find('"' + m.group(1), i + len(m.group(0)))
            end = n if end < 0 else end + 1 + len(m.group(1))
            out.append(src[i:end]); i = end
        elif c == "'":
            m = re.match(r"'(\\.[^']*|[^'\\])'", src[i:])
            if m:
                out.append(m.group(0)); i += len(m.group(0))
            else:
                out.append(c); i += 1  # lifetime
        elif src.startswith("//", i):
            j = src.find("\n", i)
            i = n if j < 0 else j
        elif src.startswith("/*", i):
            depth, j = 1, i + 2
            while j < n and depth:
                if src.startswith("/*", j): depth += 1; j += 2
                elif src.startswith("*/", j): depth -= 1; j += 2
                else: j += 1
            out.append("\n" * src.count("\n", i, j))
            i = j
        else:
            out.append(c); i += 1
    return "".join(out)


def match_brace(src, i):
    """src[i] == '{' → index just past the matching '}' (string/char literals skipped)"""
    depth, n = 0, len(src)
    while i < n:
        c = src[i]
        if c == '"':
            j = i + 1
            while j < n and src[j] != '"':
                j += 2 if src[j] == "\\" else 1
            i = j + 1; continue
        if c == "'":
            m = re.match(r"'(\\.[^']*|[^'\\])'", src[i:])
            if m:
                i += len(m.group(0)); continue
        if c == "{": depth += 1
        elif c == "}":
            depth -= 1
            if depth == 0:
                return i + 1
        i += 1
    return n


def remove_tests(src):
    """blank out `#[cfg(test)] mod x { … }`, `#[cfg(test)] <item>` and `#[test] fn … { … }`"""
    while True:
        m = re.search(r"#\[\s*(cfg\s*\(\s*test\s*\)|test|rstest[^\]]*)\s*\]", src)
        if not m:
            return src
        j = m.end()
        # skip further attributes
        while True:
            m2 = re.match(r"\s*#\[[^\]]*\]", src[j:])
            if not m2: break
            j += m2.end()
        k = j
        # item ends at matching brace of the first '{' or at ';' whichever comes first
        b = src.find("{", k); sc = src.find(";", k)
        if b >= 0 and (sc < 0 or b < sc):
            e = match_brace(src, b)
        elif sc >= 0:
            e = sc + 1
        else:
            e = len(src)
        src = src[:m.start()] + "\n" * src.count("\n", m.start(), e) + src[e:]


def norm(t):
    return re.sub(r"\s+", " ", t).strip()


def strip_attrs(t):
    """remove `#[…]` / `#![…]` attributes (balanced brackets)"""
    out, i, n = [], 0, len(t)
    while i < n:
        m = re.match(r"#!?\s*\[", t[i:])
        if m:
            d, j = 0, i + m.end() - 1
            while j < n:
                if t[j] == "[": d += 1
                elif t[j] == "]":
                    d -= 1
                    if d == 0: break
                j += 1
            i = j + 1
            continue
        out.append(t[i]); i += 1
    return "".join(out)


TOKEN_RE = re.compile(r'''r#*"(?:.|\n)*?"#*|"(?:\\.|[^"\\])*"|'(?:\\.[^']*|[^'\\])'|'\w+|\w+|\S''')


def tokens(t):
    """code tokens of an item: comments (incl. doc comments) were removed by strip_comments; attributes, whitespace and
    line breaks do not count, so reformatting / comment / attribute-only edits never change the hash"""
    return TOKEN_RE.findall(strip_attrs(t))


def h(t):
    return hashlib.sha256(" ".join(tokens(t)).encode()).hexdigest()[:12]


def token_diff(old_tokens, new_tokens, limit=6):
    """short token-level diff: list of `-old… +new…` hunks with one token of context"""
    import difflib
    sm = difflib.SequenceMatcher(a=old_tokens, b=new_tokens, autojunk=False)
    hunks = []
    for tag, a0, a1, b0, b1 in sm.get_opcodes():
        if tag == "equal":
            continue
        ctx_l = " ".join(old_tokens[max(0, a0 - 3):a0])
        ctx_r = " ".join(old_tokens[a1:a1 + 3])
        hunks.append(f"…{ctx_l} [-{' '.join(old_tokens[a0:a1])}-] {{+{' '.join(new_tokens[b0:b1])}+}} {ctx_r}…")
        if len(hunks) >= limit:
            hunks.append("…(more)")
            break
    return hunks


class Item:
    def __init__(self, file, key, kind, text, line):
        self.file, self.key, self.kind, self.text, self.line = file, key, kind, text, line


def container_of(src, pos):
    """name of the innermost enclosing `impl … {` / `macro_rules! x {` / `mod x {` whose braces contain pos"""
    best = ""
    for m in re.finditer(r"\b(impl\b[^{;]*|macro_rules!\s*\w+\s*|mod\s+\w+\s*|fn\s+\w+[^{;]*)\{", src[:pos]):
        b = m.end() - 1
        if match_brace(src, b) > pos:
            head = norm(m.group(1))
            if head.startswith("impl"):
                head = re.sub(r"^impl\s*(<[^{]*?>\s+)?", "", head) if not re.match(r"impl\s*<[^>]*>\s*\w+\s*<", head) else re.sub(r"^impl\s*<[^>]*>\s*", "", head)
                head = re.sub(r"\s*where\b.*$", "", head)
                best = head
            elif head.startswith("macro_rules"):
                best = head.replace(" ", "")
            elif head.startswith("fn"):
                best = (best + "/" if best else "") + "fn " + re.match(r"fn\s+(\w+)", head).group(1)
    return best


def schema_helpers(repo):
    names = set()
    for p in sorted(glob.glob(os.path.join(repo, "resources/codegen_inputs/*.rs"))):
        s = open(p).read()
        for m in re.finditer(r"#\[compile\(\s*self\.(\w+)\(\)", s): names.add(m.group(1))
        for m in re.finditer(r"#\[compile_with\(\s*(\w+)\s*\)", s): names.add(m.group(1))
        for m in re.finditer(r"#\[validate\(\s*(\w+)\s*\)", s): names.add(m.group(1))
        for m in re.finditer(r"#\[to_owned\(\s*(\w+)\s*\(", s): names.add(m.group(1))
    names.discard("skip")
    return names


def scan(repo):
    items = []
    helpers = schema_helpers(repo)
    files = sorted(p for p in glob.glob(os.path.join(repo, "write-fonts/src/**/*.rs"), recursive=True)
                   if "/generated/" not in p)
    for p in files:
        rel = os.path.relpath(p, repo)
        raw = open(p).read()
        src = remove_tests(strip_comments(raw))
        seen = {}

        def add(key, kind, text, pos):
            k = f"{rel}::{key}"
            seen[k] = seen.get(k, 0) + 1
            if seen[k] > 1:
                k = f"{k}#{seen[k]}"
            # line number in the raw file (best effort: first line of the item text)
            line = src.count("\n", 0, pos) + 1
            items.append(Item(rel, k, kind, text, line))

        # trait impls
        for m in re.finditer(r"\bimpl\b([^{;]*?)\bfor\b([^{;]*?)(\{)", src):
            head = m.group(1)
            tr = re.search(r"\b(" + "|".join(TRAITS) + r")\b", head)
            if not tr:
                continue
            e = match_brace(src, m.end() - 1)
            hd = head.lstrip()
            if hd.startswith("<"):  # skip the balanced generic parameter list
                d = 0
                for j, ch in enumerate(hd):
                    if ch == "<": d += 1
                    elif ch == ">" and hd[j - 1] != "-":
                        d -= 1
                        if d == 0:
                            hd = hd[j + 1:]; break
            tr2 = re.search(r"\b(" + "|".join(TRAITS) + r")\b", hd)
            if not tr2:
                continue  # the trait only occurs in a bound (`impl<T: FontWrite> Other for …`)
            trait = norm(hd[tr2.start():])
            ty = norm(re.sub(r"\bwhere\b.*$", "", m.group(2), flags=re.S))
            cont = container_of(src, m.start())
            pre = (cont + "/") if cont.startswith("macro_rules") or cont.startswith("fn ") else ""
            add(f"{pre}impl {trait} for {ty}", "impl", src[m.start():e], m.start())
        # fns
        for m in re.finditer(r"\bfn\s+(\w+)\s*(<[^>]*>)?\s*\(", src):
            name = m.group(1)
            kind = None
            if name.startswith("compute_"):
                kind = "compute"
            elif name in helpers:
                kind = "helper"
            elif any(rel.endswith(f) and name == n for f, n in EXTRA):
                kind = "extra"
            if not kind:
                continue
            b, d, j = -1, 1, m.end()  # inside the parameter list
            while j < len(src):
                ch = src[j]
                if ch in "([": d += 1
                elif ch in ")]": d -= 1
                elif d == 0 and ch == "{": b = j; break
                elif d == 0 and ch == ";": break
                j += 1
            if b < 0:
                continue  # trait method declaration without body
            e = match_brace(src, b)
            cont = container_of(src, m.start())
            add(f"{cont}::fn {name}" if cont else f"fn {name}", kind, src[m.start():e], m.start())
        # macro invocations that fix a written constant / define delegating impls
        for m in re.finditer(r"\b(?:super::layout::)?(lookup_type|table_newtype)!\s*\(([^;]*?)\)\s*;", src):
            args = norm(m.group(2))
            add(f"{m.group(1)}!({args.split(',')[0].strip()}, {args.split(',')[1].strip()})", "macro-use", m.group(0), m.start())
    # helper names that were never found are reported by the caller
    found = {it.key.rsplit("fn ", 1)[-1] for it in items if it.kind in ("helper", "compute")}
    missing = sorted(helpers - found)
    return items, missing


def lean_names(root):
    names = set()
    for sub in ("Model", "Props", "Lemmas"):
        for p in glob.glob(os.path.join(root, "lean/FontVerif", sub, "*.lean")):
            s = open(p).read()
            ns = ""
            for line in s.split("\n"):
                m = re.match(r"\s*namespace\s+(\S+)", line)
                if m: ns = m.group(1)
                m = re.match(r"\s*(?:@\[[^\]]*\]\s*)?(?:private\s+|protected\s+)?(?:noncomputable\s+)?(?:def|theorem|lemma|abbrev|structure|inductive)\s+([\w.']+)", line)
                if m:
                    names.add(m.group(1)); names.add(ns + "." + m.group(1) if ns else m.group(1))
    return names


def families(root):
    fams = set()
    for p in glob.glob(os.path.join(root, "harness/src/bin/c04/*.rs")):
        s = open(p).read()
        m = re.search(r"pub const FAMILIES\s*:\s*&\[&str\]\s*=\s*&\[(.*?)\];", s, re.S)
        if m:
            fams |= set(re.findall(r'"([^"]+)"', m.group(1)))
    return fams


def main():
    ap = argparse.ArgumentParser()
    ap.add_argument("--repo", default="/repo")
    ap.add_argument("--out", required=True)
    ap.add_argument("--report", required=True)
    ap.add_argument("--dump", action="store_true")
    ap.add_argument("--update", action="store_true")
    a = ap.parse_args()
    here = os.path.dirname(os.path.abspath(__file__))
    root = os.path.dirname(here)
    table_path = os.path.join(here, "handwritten_write_cover.json")
    table = json.load(open(table_path)) if os.path.exists(table_path) else {"items": {}}
    known = table.get("items", {})

    items, missing_helpers = scan(a.repo)
    if a.dump:
        for it in items:
            print(f"[{it.kind}] {it.key} (line {it.line}) h={h(it.text)}\n      {norm(it.text)[:300]}")
        print(len(items), "items; schema helpers not found in write-fonts/src:", missing_helpers)

    lnames = lean_names(root)
    fams = families(root)
    unparsed, covered = [], []
    cur = set()
    for it in items:
        cur.add(it.key)
        ent = known.get(it.key)
        hh = h(it.text)
        why = None
        if ent is None:
            why = "NEW hand-written write-side item: not in translate/handwritten_write_cover.json"
        elif ent.get("hash") != hh:
            why = f"CHANGED: code tokens differ from the reviewed ones ({ent.get('hash')} -> {hh}); re-review and update the cover table"
        else:
            cov = ent.get("cover", "")
            parts = [x for x in re.split(r";(?=(?:model|oracle|n/a):)", cov) if x]
            if not parts:
                why = f"UNCOVERED (cover={cov!r})"
            for part in parts:
                m = re.match(r"^(model|oracle|n/a):(.+)$", part, re.S)
                if not m:
                    why = f"UNCOVERED (cover={cov!r})"
                elif m.group(1) == "model":
                    bad = [x for x in (y.strip() for y in m.group(2).split(",")) if x not in lnames]
                    if bad:
                        why = f"cover names Lean definitions that do not exist: {bad}"
                elif m.group(1) == "oracle":
                    bad = [x for x in (y.strip() for y in m.group(2).split(",")) if x not in fams]
                    if bad:
                        why = f"cover names generator families not declared in harness FAMILIES: {bad}"
                elif len(m.group(2).strip()) < 8:
                    why = "n/a needs a reason"
        if why:
            u = {"file": it.file, "item": it.key, "line": it.line, "why": why, "text": norm(it.text)[:240]}
            if ent is not None and ent.get("hash") != hh and ent.get("tokens"):
                u["token_diff"] = token_diff(TOKEN_RE.findall(ent["tokens"]), tokens(it.text))
            unparsed.append(u)
        else:
            covered.append((it, known[it.key]["cover"]))
    for name in missing_helpers:
        # a schema attribute names a helper this scanner could not find: the inventory is incomplete
        if name not in table.get("helpers_elsewhere", {}):
            unparsed.append({"item": f"schema helper `{name}`", "line": 0,
                             "why": "named by a #[compile/compile_with/validate/to_owned] attribute but no `fn` of that name found in write-fonts/src",
                             "text": ""})
    stale = sorted(k for k in known if k not in cur)
    for k in stale:
        unparsed.append({"file": k.split("::")[0], "item": k, "line": 0,
                         "why": "REMOVED: the reviewed item no longer exists (deleted, renamed or moved); re-review and update the cover table",
                         "text": known[k].get("tokens", "")[:240]})

    if a.update:
        new = {}
        for it in items:
            old = known.get(it.key, {})
            new[it.key] = {"hash": h(it.text), "kind": it.kind, "cover": old.get("cover", "TODO"),
                           "tokens": " ".join(tokens(it.text))}
            if old.get("note"):
                new[it.key]["note"] = old["note"]
        out = {"_doc": "C04 inventory of hand-written write-side code; see translate/handwritten_write.py. cover is "
                       "model:<Lean names> | oracle:<generator families> | n/a:<reason>; hash is the reviewed text.",
               "helpers_elsewhere": table.get("helpers_elsewhere", {}),
               "items": new}
        json.dump(out, open(table_path, "w"), indent=1, sort_keys=True)
        print(f"updated {table_path}: {len(new)} items ({sum(1 for v in new.values() if v['cover']=='TODO')} TODO)")

    by_kind, by_cover = {}, {}
    for it in items:
        by_kind[it.kind] = by_kind.get(it.kind, 0) + 1
    for it, cov in covered:
        c = cov.split(":", 1)[0]
        by_cover[c] = by_cover.get(c, 0) + 1
    fam_use = {}
    for it, cov in covered:
        for part in re.split(r";(?=(?:model|oracle|n/a):)", cov):
            if part.startswith("oracle:"):
                for f in part[7:].split(","):
                    fam_use[f.strip()] = fam_use.get(f.strip(), 0) + 1
    report = {
        "obligations": len(covered),
        "items": len(items),
        "by_kind": by_kind,
        "by_cover": by_cover,
        "also_oracle": sum(1 for it, cov in covered if cov.startswith("model:") and ";oracle:" in cov),
        "families_used": fam_use,
        "families_declared": sorted(fams),
        "stale_table_entries": stale[:50],
        "samples": [{"item": it.key, "cover": cov} for it, cov in covered[:3]],
        "unparsed": unparsed,
    }
    os.makedirs(os.path.dirname(os.path.abspath(a.report)), exist_ok=True)
    json.dump(report, open(a.report, "w"), indent=1)
    print(f"handwritten_write.py: {len(items)} items {by_kind}, covered {by_cover}, {len(unparsed)} unparsed, {len(stale)} stale")
    return 0


if __name__ == "__main__":
    sys.exit(main())
