#!/usr/bin/env python3
"""
arith_sites.py --repo /repo --out <dir> --report <json> [--init]

C20 translator tie.  For every Rust function transcribed as a kernel in
lean/FontVerif/Model/Checked.lean, inventory the RAW arithmetic operator occurrences of its
source text

    binary  + - * / % << >>   (and their compound assignments)      -> can trap in the strict profile
    unary   -  (`neg`; `neglit` when applied to a literal)           -> can trap
    .abs()                                                           -> can trap
    wrapping_* / saturating_* / checked_* / unsigned_abs calls       -> listed separately (never trap)

keyed by (file, enclosing impl/macro ["=" prefix: exact match, else substring], fn, normalised
statement) and compare with the committed
annotation table translate/arith_sites.json, which records how the hand-written model treats each
statement.  Any raw operator that is new, gone or changed in a modelled function is reported in
"unparsed" (=> `./check C20` prints VIOLATION ... no-failing-input-found naming the site): the
model no longer provably covers the arithmetic of that function.

Every entry also carries "guards": the guard multiset of the function as extracted by arith_scope.py
(conditions with comparisons, early exits with their condition, `?`, clamp / checked / validation calls).

A table entry may carry "body": the whole normalised body text is then tied as well (used for small
functions whose guard is a comparison or a cast rather than a raw operator, e.g. op_sds).

`as` casts are not operators here.  --init prints a fresh table (treatments empty) to stdout.
Nothing is written to --out (the inventory is data for this comparison only).
"""
import argparse
import json
import os
import re
import sys

HERE = os.path.dirname(os.path.abspath(__file__))
TABLE = os.path.join(HERE, "arith_sites.json")

NONTRAP_CALL = re.compile(r"\.\s*((?:wrapping|saturating|checked|overflowing)_[a-z_0-9]+|unsigned_abs)\s*\(")


def strip_comments_and_strings(src):
    out = []
    i, n = 0, len(src)
    while i < n:
        c = src[i]
        if src.startswith("//", i):
            j = src.find("\n", i)
            j = n if j < 0 else j
            i = j
        elif src.startswith("/*", i):
            depth, i = 1, i + 2
            while i < n and depth:
                if src.startswith("/*", i):
                    depth += 1; i += 2
                elif src.startswith("*/", i):
                    depth -= 1; i += 2
                else:
                    i += 1
        elif c == '"':
            i += 1
            while i < n and src[i] != '"':
                i += 2 if src[i] == "\\" else 1
            i += 1
            out.append('""')
        elif c == "'" and re.match(r"'(\\.|[^\\'])'", src[i:i + 4]):
            m = re.match(r"'(\\.|[^\\'])'", src[i:i + 4])
            out.append("'c'")
            i += m.end()
        else:
            out.append(c)
            i += 1
    return "".join(out)


def find_functions(src):
    """yield (qual, name, signature, body) for every `fn` with a body; qual = nearest enclosing
    `impl ...` / `macro_rules! name` / `mod name` header (innermost)."""
    # scopes: track brace depth and headers
    headers = []  # (depth_at_open, text)
    depth = 0
    i, n = 0, len(src)
    fn_re = re.compile(r"\bfn\s+([A-Za-z_][A-Za-z0-9_]*)")
    hdr_re = re.compile(r"\b(impl\b[^{;]*|macro_rules!\s*[A-Za-z_0-9]+|mod\s+[A-Za-z_0-9]+|trait\s+[A-Za-z_0-9]+[^{;]*)$")
    last_stmt_start = 0
    res = []
    while i < n:
        c = src[i]
        if c == "{":
            head = src[last_stmt_start:i]
            m = hdr_re.search(" ".join(head.split()))
            if m:
                headers.append((depth, " ".join(m.group(1).split())))
            depth += 1
            last_stmt_start = i + 1
            i += 1
        elif c == "}":
            depth -= 1
            while headers and headers[-1][0] >= depth:
                headers.pop()
            last_stmt_start = i + 1
            i += 1
        elif c == ";":
            last_stmt_start = i + 1
            i += 1
        else:
            m = fn_re.match(src, i)
            if m and (i == 0 or not (src[i - 1].isalnum() or src[i - 1] == "_")):
                # find body start: first `{` at paren depth 0 before a `;`
                j, pd = m.end(), 0
                while j < n:
                    ch = src[j]
                    if ch in "([":
                        pd += 1
                    elif ch in ")]":
                        pd -= 1
                    elif ch == ";" and pd == 0:
                        break
                    elif ch == "{" and pd == 0:
                        break
                    j += 1
                if j < n and src[j] == "{":
                    # match braces
                    k, d = j, 0
                    while k < n:
                        if src[k] == "{":
                            d += 1
                        elif src[k] == "}":
                            d -= 1
                            if d == 0:
                                break
                        k += 1
                    qual = headers[-1][1] if headers else ""
                    sig = " ".join(src[i:j].split())
                    res.append((qual, m.group(1), sig, src[j + 1:k]))
                    # do not skip the body: nested fns/closures are part of it, but nested `fn`
                    # items are rare; continue scanning after the signature
                    i = j
                    continue
                i = m.end()
            else:
                i += 1
    return res


TOKEN = re.compile(r"""
    (?P<num>\d[\d_]*(?:\.\d[\d_]*)?(?:[eE][+-]?\d+)?[A-Za-z0-9_]*|0x[0-9A-Fa-f_]+[A-Za-z0-9_]*)
  | (?P<id>[A-Za-z_][A-Za-z0-9_]*!?)
  | (?P<op><<=|>>=|\.\.=|\.\.\.|<<|>>|\+=|-=|\*=|/=|%=|->|=>|==|!=|<=|>=|&&|\|\||::|\.\.|[-+*/%=<>!&|^~?:.,;(){}\[\]#@$'])
""", re.X)

UNARY_PREV = {"(", "[", "{", ",", ";", "=", "==", "!=", "<", ">", "<=", ">=", "+", "-", "*", "/", "%", "&", "|", "^",
              "!", "&&", "||", "=>", "->", "return", "if", "else", "in", "match", "+=", "-=", "*=", "/=", "%=",
              "<<", ">>", "<<=", ">>=", "..", "..=", ":", "?", "as", "let", "mut", "while", "break"}
BINOPS = {"+", "-", "*", "/", "%", "<<", ">>", "+=", "-=", "*=", "/=", "%=", "<<=", ">>="}


def tokens(text):
    return [(m.lastgroup, m.group()) for m in TOKEN.finditer(text)]


def statements(body):
    """split a body into statements at `;` `{` `}` (top level of the text, not nesting-aware: each
    brace starts a new statement), normalised"""
    parts = re.split(r"[;{}]", body)
    return [" ".join(p.split()) for p in parts if p.strip()]


def ops_of(stmt):
    toks = tokens(stmt)
    ops = []
    prev = None
    angle = 0
    for idx, (kind, t) in enumerate(toks):
        if kind == "op" and t in BINOPS or (kind == "op" and t in ("-", "*")):
            unary = prev is None or prev in UNARY_PREV
            if t == "*" and unary:
                pass  # dereference / pointer
            elif t == "-" and unary:
                nxt = toks[idx + 1] if idx + 1 < len(toks) else (None, None)
                ops.append("neglit" if nxt[0] == "num" else "neg")
            elif t == ">>" and prev is not None and re.match(r"[A-Za-z_]", prev) and _looks_generic(toks, idx):
                pass  # closing a generic argument list
            else:
                ops.append(t)
        prev = t
    for m in re.finditer(r"\.\s*abs\s*\(\s*\)", stmt):
        ops.append("abs")
    calls = sorted(m.group(1) for m in NONTRAP_CALL.finditer(stmt))
    return ops, calls


def _looks_generic(toks, idx):
    # `Foo<Bar<u8>>` : walk back over ids/`::`/`,`/`<`/`&`/`'` and find two unmatched `<`
    need, j = 2, idx - 1
    while j >= 0 and need > 0:
        k, t = toks[j]
        if t == "<":
            need -= 1
        elif k in ("id", "num") or t in ("::", ",", "&", "'", "[", "]", ";"):
            pass
        else:
            return False
        j -= 1
    return need == 0


def inventory(repo, wanted):
    """wanted: list of (file, qual-substring, fn). Returns dict key -> list of [stmt, ops, calls]"""
    inv = {}
    cache = {}
    problems = []
    for (f, qual, fn) in wanted:
        path = os.path.join(repo, f)
        if f not in cache:
            if not os.path.exists(path):
                problems.append(f"missing file {f}")
                cache[f] = []
            else:
                cache[f] = find_functions(strip_comments_and_strings(open(path).read()))
        if qual.startswith("="):
            hits = [x for x in cache[f] if x[1] == fn and x[0] == qual[1:]]
        else:
            hits = [x for x in cache[f] if x[1] == fn and qual in x[0]]
        key = f"{f} :: {qual} :: {fn}"
        if len(hits) != 1:
            problems.append(f"{key}: expected exactly one function, found {len(hits)}")
            continue
        _, _, sig, body = hits[0]
        sites = []
        for st in statements(body):
            if st.startswith("use "):
                continue
            ops, calls = ops_of(st)
            if ops or calls:
                sites.append([st, " ".join(ops), " ".join(calls)])
        inv[key] = {"signature": sig, "sites": sites, "body": " ".join(body.split())}
    return inv, problems


def kernel_guards(repo, entries):
    """guard multisets (arith_scope.py's extraction) of the kernel functions: the Lean kernels transcribe the
    guards of their functions, so a removed / weakened guard must break the kernel tie as well"""
    sys.path.insert(0, HERE)
    import arith_scope as A
    scans = {}
    out = {}
    for e in entries:
        f = e["file"]
        if f not in scans:
            try:
                scans[f] = A.FileScan(f, open(os.path.join(repo, f), encoding="utf-8").read())
            except Exception as ex:  # fail closed: reported by the caller as a mismatch
                scans[f] = None
        sc = scans[f]
        key = f"{e['file']} :: {e.get('qual', '')} :: {e['fn']}"
        if sc is None:
            out[key] = None
            continue
        words = [w for w in re.findall(r"[A-Za-z_][A-Za-z0-9_]*", e.get("qual", "")) if w not in ("impl", "a", "macro_rules", "for", "mod")]
        cnt = {}
        for path, gs in sc.guards.items():
            if (path == "fn " + e["fn"] or path.endswith("::fn " + e["fn"])) and all(w in path for w in words):
                for g in gs:
                    cnt[g] = cnt.get(g, 0) + 1
        out[key] = sorted([list(g) + [c] for g, c in cnt.items()])
    return out


def main():
    ap = argparse.ArgumentParser()
    ap.add_argument("--repo", default="/repo")
    ap.add_argument("--out", default=None)
    ap.add_argument("--report", default=None)
    ap.add_argument("--init", action="store_true")
    a = ap.parse_args()
    table = json.load(open(TABLE)) if os.path.exists(TABLE) else {"functions": []}
    wanted = [(e["file"], e.get("qual", ""), e["fn"]) for e in table["functions"]]
    inv, problems = inventory(a.repo, wanted)
    kg = kernel_guards(a.repo, table["functions"])
    if a.init:
        out = {"functions": []}
        for e in table["functions"]:
            key = f"{e['file']} :: {e.get('qual', '')} :: {e['fn']}"
            cur = inv.get(key, {"signature": "", "sites": []})
            old = {(s[0], s[1], s[2]): (s[3] if len(s) > 3 else "") for s in e.get("sites", [])}
            e2 = {"file": e["file"], "qual": e.get("qual", ""), "fn": e["fn"], "kernel": e.get("kernel", ""),
                  "signature": cur["signature"],
                  "sites": [s + [old.get((s[0], s[1], s[2]), "")] for s in cur["sites"]]}
            e2["guards"] = kg.get(key) or []
            if "body" in e:
                # whole-body tie (functions whose guards are comparisons / casts, not raw operators)
                e2["body"] = cur.get("body", "")
            out["functions"].append(e2)
        print(json.dumps(out, indent=1))
        return 0
    unparsed = list(problems)
    obligations = 0
    samples = []
    for e in table["functions"]:
        key = f"{e['file']} :: {e.get('qual', '')} :: {e['fn']}"
        if key not in inv:
            continue
        cur = inv[key]
        if cur["signature"] != e.get("signature", ""):
            unparsed.append(f"{key}: signature changed: `{cur['signature']}` (table: `{e.get('signature', '')}`)")
        if "guards" in e and kg.get(key) != e["guards"]:
            o = {tuple(g[:2]): g[2] for g in e["guards"]}
            c = {tuple(g[:2]): g[2] for g in (kg.get(key) or [])}
            gone = [f"{k[0]} `{k[1]}`" for k in sorted(o) if o[k] > c.get(k, 0)]
            new = [f"{k[0]} `{k[1]}`" for k in sorted(c) if c[k] > o.get(k, 0)]
            unparsed.append(f"{key}: guards of a transcribed function changed (the Lean kernel mirrors them); GONE: {' | '.join(gone) or '-'} ; NEW: {' | '.join(new) or '-'}")
        if "body" in e and cur.get("body") != e["body"]:
            unparsed.append(f"{key}: body of a function tied as a whole changed: `{cur.get('body')}` (table: `{e['body']}`)")
        want = [(s[0], s[1], s[2]) for s in e.get("sites", [])]
        have = [tuple(s) for s in cur["sites"]]
        for s in have:
            if s not in want:
                unparsed.append(f"{key}: raw arithmetic not covered by the model: `{s[0]}` ops=[{s[1]}] calls=[{s[2]}]")
        for s in want:
            if s not in have:
                unparsed.append(f"{key}: modelled statement no longer in the source: `{s[0]}` ops=[{s[1]}]")
        for s in e.get("sites", []):
            if len(s) < 4 or not s[3].strip():
                unparsed.append(f"{key}: statement without a model treatment: `{s[0]}`")
        if sorted(want) != sorted(have) and set(want) == set(have):
            unparsed.append(f"{key}: a statement occurs a different number of times than in the table")
        if sorted(want) == sorted(have):
            obligations += len(have)
            if "guards" in e and kg.get(key) == e["guards"]:
                obligations += sum(g[2] for g in e["guards"])
            if len(samples) < 6 and have:
                samples.append({"fn": key, "kernel": e.get("kernel", ""), "stmt": e["sites"][0][0],
                                "ops": e["sites"][0][1], "model": e["sites"][0][3]})
    rep = {"obligations": obligations, "unparsed": unparsed, "samples": samples,
           "functions": len(table["functions"])}
    if a.report:
        os.makedirs(os.path.dirname(a.report), exist_ok=True)
        json.dump(rep, open(a.report, "w"), indent=1)
    else:
        print(json.dumps(rep, indent=1))
    return 0 if not unparsed else 1


if __name__ == "__main__":
    sys.exit(main())
