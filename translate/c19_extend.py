#!/usr/bin/env python3
"""
translate/c19_extend.py — C19 translator tie for the extension loop.

The select -> fetch -> apply loop of incremental font transfer lives in a BINARY
(incremental-font-transfer/src/bin/ift_extend.rs, `fn main`), not in a library function the harness could
call.  Model/PatchGroup.lean models it as `extend` (with the `fetchMissing` client).  This script re-extracts
the loop on every run and ties the model to it:

  1. finds the single `loop { … }` of `fn main`, removes comments and the diagnostic `println!` statements and
     tokenises the rest; the SHA-256 of that token stream must equal the REVIEWED one
     (translate/c19_extend_review.json: token hash + the normal form that was read by a person).  Any edit of
     the loop other than comments / diagnostics breaks the check until the normal form is reviewed again.
  2. independently of the hash, extracts the statement skeleton
        - the named calls in source order (select, exit test, uris, status lookup, fetch, status insert, apply),
        - the termination test (`if !next_patches.has_uris() { … break; }`, the only `break`),
        - the guard of the status-map write (`if patch_data.contains_key(uri) { continue; }` before the only
          `patch_data.insert`),
        - what is carried between rounds (variables declared before the loop and assigned inside it),
        - how failures leave the loop (`.expect(…)` / `panic!` = the run ends with an error),
     and emits it as Lean data (lean/FontVerif/Gen/C19Extend.lean).  Props/C19Extend.lean proves
     (`decide`) that the model's own skeleton (`PatchGroup.extendSkeleton` & co., written next to `extend`)
     is exactly this data.

Anything that does not match goes to `unparsed` (breaks the check).

usage: c19_extend.py --repo /repo --out lean/FontVerif/Gen --report out.json
"""
import argparse, hashlib, json, os, re, sys

SRC = "incremental-font-transfer/src/bin/ift_extend.rs"
HERE = os.path.dirname(os.path.abspath(__file__))
REVIEW = os.path.join(HERE, "c19_extend_review.json")


def strip_comments(src):
    out, i, n = [], 0, len(src)
    while i < n:
        if src.startswith("//", i):
            j = src.find("\n", i)
            i = n if j < 0 else j
        elif src.startswith("/*", i):
            j = src.find("*/", i + 2)
            i = n if j < 0 else j + 2
        elif src[i] == '"':
            j = i + 1
            while j < n and src[j] != '"':
                j += 2 if src[j] == "\\" else 1
            out.append(src[i:j + 1]); i = j + 1
        else:
            out.append(src[i]); i += 1
    return "".join(out)


def block_after(src, start):
    i = src.index("{", start)
    depth, j, in_str = 0, i, False
    while True:
        c = src[j]
        if in_str:
            if c == "\\": j += 1
            elif c == '"': in_str = False
        elif c == '"': in_str = True
        elif c == "{": depth += 1
        elif c == "}":
            depth -= 1
            if depth == 0: return src[i + 1:j], j + 1
        j += 1


TOKEN = re.compile(r'"(?:\\.|[^"\\])*"|[A-Za-z_][A-Za-z0-9_]*!?|\d+|::|->|=>|==|!=|<=|>=|\+=|-=|&&|\|\||[{}()\[\];,.&!=<>+\-*/|:?]')


def tokens(src):
    toks, pos = [], 0
    for m in TOKEN.finditer(src):
        if src[pos:m.start()].strip():
            raise ValueError("untokenisable text: %r" % src[pos:m.start()].strip()[:40])
        toks.append(m.group(0)); pos = m.end()
    if src[pos:].strip():
        raise ValueError("untokenisable tail: %r" % src[pos:].strip()[:40])
    return toks


def drop_println(toks):
    """remove `println! ( … ) ;` statements"""
    out, i = [], 0
    while i < len(toks):
        if toks[i] == "println!" and i + 1 < len(toks) and toks[i + 1] == "(":
            depth, j = 0, i + 1
            while True:
                if toks[j] == "(": depth += 1
                elif toks[j] == ")":
                    depth -= 1
                    if depth == 0: break
                j += 1
            j += 1
            if j < len(toks) and toks[j] == ";": j += 1
            i = j
        else:
            out.append(toks[i]); i += 1
    return out


def main():
    ap = argparse.ArgumentParser()
    ap.add_argument("--repo", default="/repo")
    ap.add_argument("--out", required=True)
    ap.add_argument("--report", required=True)
    a = ap.parse_args()
    unparsed = []
    raw = open(os.path.join(a.repo, SRC)).read()
    src = strip_comments(raw)
    m = re.search(r"\bfn main\s*\(\s*\)\s*\{", src)
    if not m:
        unparsed.append({"item": "fn main", "why": "not found"})
        body_main = ""
    else:
        body_main, _ = block_after(src, m.start())
    loops = [x.start() for x in re.finditer(r"\bloop\s*\{", body_main)]
    whiles = re.findall(r"\b(while|for)\b[^;{]*\{", body_main[:loops[0]] if loops else body_main)
    if len(loops) != 1:
        unparsed.append({"item": "loop", "why": "expected exactly one `loop {` in fn main, found %d" % len(loops)})
        loop_body, pre, post = "", body_main, ""
    else:
        loop_body, end = block_after(body_main, loops[0])
        pre, post = body_main[:loops[0]], body_main[end:]
    try:
        toks = drop_println(tokens(loop_body))
    except ValueError as e:
        unparsed.append({"item": "loop body", "why": str(e)}); toks = []
    normal = " ".join(toks)
    digest = hashlib.sha256(normal.encode()).hexdigest()

    # ---- (1) reviewed normal form -----------------------------------------------------------
    review = json.load(open(REVIEW)) if os.path.exists(REVIEW) else {}
    if review.get("sha256") != digest:
        unparsed.append({"item": "loop body", "why": "token hash %s differs from the reviewed %s: review the loop again "
                         "(translate/c19_extend_review.json)" % (digest[:16], str(review.get("sha256"))[:16]),
                         "normal_form": normal})

    # ---- (2) skeleton -----------------------------------------------------------------------
    text = normal
    call_pats = [
        ("parse-font", r"FontRef :: new \( & font_bytes \)"),
        ("select", r"PatchGroup :: select_next_patches \( font , & subset_definition \)"),
        ("exit-test", r"if ! next_patches \. has_uris \( \) \{ break ; \}"),
        ("uris", r"for uri in next_patches \. uris \( \) \{"),
        ("status-lookup", r"if patch_data \. contains_key \( uri \) \{ continue ; \}"),
        ("fetch", r"std :: fs :: read \("),
        ("status-insert-pending", r"patch_data \. insert \( uri \. to_string \( \) , UriStatus :: Pending \( patch_bytes \) \) ;"),
        ("apply", r"font_bytes = next_patches \. apply_next_patches \( & mut patch_data \)"),
    ]
    calls, last = [], -1
    for name, pat in call_pats:
        ms = list(re.finditer(pat, text))
        if len(ms) != 1:
            unparsed.append({"item": name, "why": "expected exactly one match of /%s/, found %d" % (pat, len(ms))})
            continue
        if ms[0].start() <= last:
            unparsed.append({"item": name, "why": "out of order"})
        last = ms[0].start()
        calls.append(name)
    # the only ways out of / around the loop body
    n_break = toks.count("break"); n_cont = toks.count("continue"); n_ret = toks.count("return")
    n_insert = len(re.findall(r"patch_data \. (insert|remove|clear|entry|get_mut|retain|drain)\b", text))
    n_q = toks.count("?")
    if (n_break, n_cont, n_ret, n_insert, n_q) != (1, 1, 0, 1, 0):
        unparsed.append({"item": "control flow", "why": "break/continue/return/status-map writes/? = %r, expected (1,1,0,1,0)"
                         % ((n_break, n_cont, n_ret, n_insert, n_q),)})
    # failures: select and apply are followed by .expect( … ) (a panic = the run ends with an error)
    fails = []
    for name, pat in [("parse-font", r"FontRef :: new \( & font_bytes \) \. expect \("),
                      ("select", r"select_next_patches \( font , & subset_definition \) \. expect \("),
                      ("fetch", r"std :: fs :: read \( uri_path \. clone \( \) \) \. unwrap_or_else \( \| e \| \{ panic! \("),
                      ("apply", r"apply_next_patches \( & mut patch_data \) \. expect \(")]:
        if re.search(pat, text): fails.append(name)
        else: unparsed.append({"item": name, "why": "its failure does not end the run with .expect / panic!"})
    # carried between rounds: `let mut` before the loop, assigned / mutated inside
    muts = re.findall(r"\blet\s+mut\s+(\w+)", pre)
    carried = []
    for v in muts:
        if re.search(r"(?<![\w.])%s (=|\+=) " % re.escape(v), text) or re.search(r"& mut %s\b" % re.escape(v), text) \
           or re.search(r"(?<![\w.])%s \. insert \(" % re.escape(v), text):
            carried.append(v)
    if sorted(carried) != ["font_bytes", "it_count", "patch_data"]:
        unparsed.append({"item": "carried state", "why": "carried = %r" % carried})
    if whiles:
        pass  # loops before the main loop (argument parsing) are not part of the extension loop
    after_ok = bool(re.search(r"std::fs::write\(&args\.output, font_bytes\)", post))
    if not after_ok:
        unparsed.append({"item": "after the loop", "why": "the final font is not what is written to the output"})

    # ---- Lean data --------------------------------------------------------------------------
    def lst(xs): return "[" + ", ".join('"%s"' % x for x in xs) + "]"
    lean = f"""/- GENERATED by translate/c19_extend.py from {SRC} — do not edit. -/
namespace FontVerif.Gen.C19Extend

/-- the named steps of one iteration of the `loop` in `fn main`, in source order -/
def steps : List String := {lst(calls)}

/-- steps whose failure ends the run (`.expect(..)` / `panic!`) -/
def failing : List String := {lst(fails)}

/-- state declared before the loop and changed inside it -/
def carried : List String := {lst(sorted(carried))}

/-- (#break, #continue, #return, #writes to the status map, #`?`) in the loop body -/
def controlFlow : List Nat := [{n_break}, {n_cont}, {n_ret}, {n_insert}, {n_q}]

/-- SHA-256 of the loop body's token stream (comments and `println!` removed) -/
def tokenHash : String := "{digest}"

end FontVerif.Gen.C19Extend
"""
    os.makedirs(a.out, exist_ok=True)
    path = os.path.join(a.out, "C19Extend.lean")
    if not os.path.exists(path) or open(path).read() != lean:
        open(path, "w").write(lean)
    report = {
        "translator": "c19_extend.py",
        "source": SRC,
        "obligations": 4,
        "samples": [{"steps": calls}, {"carried": sorted(carried)}, {"token_hash": digest}],
        "unparsed": unparsed,
    }
    json.dump(report, open(a.report, "w"), indent=1)
    print(f"c19_extend: {len(calls)} steps, hash {digest[:16]}, {len(unparsed)} unparsed")
    if unparsed and os.environ.get("C19_EXTEND_SHOW"):
        print(json.dumps(unparsed, indent=1)); print(normal)
    return 1 if unparsed else 0


if __name__ == "__main__":
    sys.exit(main())
