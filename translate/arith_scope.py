#!/usr/bin/env python3
"""
arith_scope.py --repo /repo --out <dir> --report <json> [--init] [--dump]

C20 translator tie, whole-scope part (arith_sites.py stays authoritative for the Lean kernels).

For EVERY function of the property's scope (SCOPE below) the multiset of RAW operations that can
panic is re-extracted from the current source text by a small Rust tokenizer:

  kind "arith"   binary + - * / % << >> and their compound assignments, unary `-` on a non-literal,
                 .abs() .pow() .neg() .div_euclid() .rem_euclid() .next_power_of_two() .ilog2()
                 .sum() .product()           (trap in the overflow-checked profile only)
  kind "index"   a[i], a[i..j]                (panic in every profile)
  kind "unwrap"  .unwrap() / .expect(..)      (panic in every profile)
  kind "assert"  assert!/debug_assert! family (debug_assert: assertion-enabled profile only)

`as` casts, comparisons, bit operations and wrapping_*/saturating_*/checked_*/overflowing_* calls never
trap and are not listed; arithmetic whose operand is evidently a float (float literal, `as f32/f64`,
a local / parameter / field declared f32/f64) is skipped; `#[cfg(test)]` items, `#[test]` functions and
modules declared under `#[cfg(test)]` are skipped; `const`/`static` initialisers are evaluated by the
compiler and are skipped.

GUARDS.  Next to the raw operations, the multiset of GUARDS of each tracked function is extracted and tied in
the same way: every `if` / `while` / match-guard condition containing a comparison (or `.contains(`), every
early exit (`return ..`, `break`, `continue`) together with the condition it sits under, every `?`, and every
call of min / max / clamp / checked_* / saturating_* / wrapping_* / try_from / try_into / get(..) / get_mut /
ensure_* / validate* / check* (normalised statement text).  A removed or weakened guard, a changed comparison
operator or operand, a dropped `?`, a clamp put in place of a rejection change this multiset although the raw
operations are untouched, and are reported like a raw-operation change.  Tracked functions: those with at
least one raw operation / index / unwrap, pre-check helpers (ensure_* / validate* / check* / all_* / *_is_* /
*_are_*) and callers of ensure_* / validate* / check_* guards.

Each occurrence is normalised to (file, enclosing fn path, kind, op, normalised statement text) -- no line
numbers -- and the per-function multisets are compared with the committed reviewed table
translate/arith_scope.json, which stores for each function the reviewed multiset and a status

  kernel:<Lean def>          proved no-trap in Props/C20.lean (via translate/arith_sites.json)
  explored:<harness family>  reached by the named exploration family of harness/src/bin/c20
  benign:<reason>            operands are constants / bounded loop indices / in-memory sizes ...
  explored:unreviewed-bulk   generated mechanically, not yet hand-reviewed (exploration only)

Any function whose CURRENT multiset differs from the reviewed one (new raw op, changed statement,
a guard such as saturating_sub/checked_add turned into a raw operator, a new function with raw
operators, a function that disappeared) is listed in "unparsed" with the diff, so `./check C20`
reports VIOLATION ... no-failing-input-found naming file + fn + expression until the table is
re-reviewed (`--init` regenerates the table keeping the status of unchanged functions and applying the
review rules of translate/arith_scope_review.json).  A file that cannot be tokenised is "unparsed" as
well (fail closed).  Pure refactors (moving code, renaming locals outside raw-operator statements,
reformatting) leave the multisets unchanged and stay quiet.

The exit status is 0 whenever the report was written (the check reads "unparsed"); non-zero only on an
internal failure.
"""
import argparse
import fnmatch
import glob
import hashlib
import json
import os
import re
import sys

HERE = os.path.dirname(os.path.abspath(__file__))
TABLE = os.path.join(HERE, "arith_scope.json")
REVIEW = os.path.join(HERE, "arith_scope_review.json")
KERNELS = os.path.join(HERE, "arith_sites.json")

SCOPE = [
    "font-types/src/**/*.rs",
    "read-fonts/src/**/*.rs",
    "read-fonts/generated/*.rs",
    "skrifa/src/outline/**/*.rs",
    "skrifa/src/color/**/*.rs",
    "skrifa/src/metrics.rs",
    "skrifa/src/variation.rs",
    "incremental-font-transfer/src/**/*.rs",
    "klippa/src/**/*.rs",
]
# never compiled into the library under test
EXCLUDE = [
    "read-fonts/generated/generated_test_*.rs",
    "read-fonts/src/codegen_test.rs",
    "read-fonts/src/tests/**",
    "*/src/bin/**",
]

# ------------------------------------------------------------------------------------------ lexer

TOK = re.compile(r"""
  (?P<ws>\s+)
 |(?P<lc>//[^\n]*)
 |(?P<bc>/\*)
 |(?P<rawstr>(?:br|cr|r)\#*")
 |(?P<str>[bc]?"(?:[^"\\]|\\.)*")
 |(?P<chr>b?'(?:[^'\\\n]|\\(?:u\{[0-9a-fA-F_]+\}|x[0-9a-fA-F]{2}|[^ux\n]))')
 |(?P<life>'[A-Za-z_][A-Za-z0-9_]*)
 |(?P<num>0x[0-9a-fA-F_]+(?:[iu](?:8|16|32|64|128|size))?
        |0o[0-7_]+(?:[iu](?:8|16|32|64|128|size))?
        |0b[01_]+(?:[iu](?:8|16|32|64|128|size))?
        |\d[\d_]*(?:\.\d[\d_]*)?(?:[eE][+-]?\d[\d_]*)?(?:f32|f64|[iu](?:8|16|32|64|128|size))?)
 |(?P<id>(?:r\#)?[A-Za-z_][A-Za-z0-9_]*)
 |(?P<op><<=|>>=|\.\.\.|\.\.=|<<|->|=>|==|!=|<=|>=|&&|\|\||::|\.\.|\+=|-=|\*=|/=|%=|\^=|&=|\|=|[-+*/%=<>!&|^~?:.,;(){}\[\]\#@$])
""", re.X | re.S)


class LexError(Exception):
    pass


def lex(src):
    """-> list of (kind, text, glued) ; kind in id num str chr life op ; glued = no whitespace/comment
    between this token and the previous one"""
    out = []
    i, n = 0, len(src)
    glued = False
    while i < n:
        m = TOK.match(src, i)
        if not m:
            raise LexError(f"cannot tokenise at byte {i}: {src[i:i + 30]!r}")
        k = m.lastgroup
        if k == "ws" or k == "lc":
            i = m.end()
            glued = False
            continue
        if k == "bc":
            depth, j = 1, m.end()
            while depth:
                a = src.find("/*", j)
                b = src.find("*/", j)
                if b < 0:
                    raise LexError("unterminated block comment")
                if 0 <= a < b:
                    depth += 1
                    j = a + 2
                else:
                    depth -= 1
                    j = b + 2
            i = j
            glued = False
            continue
        if k == "rawstr":
            hashes = m.group().count("#")
            close = '"' + "#" * hashes
            j = src.find(close, m.end())
            if j < 0:
                raise LexError("unterminated raw string")
            out.append(("str", '""', glued))
            i = j + len(close)
            glued = True
            continue
        if k == "num" and out and out[-1][1] == "." and out[-1][0] == "op":
            # tuple index: `x.0.1` must not lex `0.1` as a float
            mm = re.compile(r"\d+").match(src, i)
            out.append(("num", mm.group(), glued))
            i = mm.end()
            glued = True
            continue
        t = m.group()
        if k == "str":
            t = '""'
        elif k == "chr":
            t = "'c'"
        out.append((k, t, glued))
        i = m.end()
        glued = True
    return out


# ----------------------------------------------------------------------------------------- parser

KEYWORDS = {"as", "break", "const", "continue", "crate", "else", "enum", "extern", "false", "fn", "for", "if",
            "impl", "in", "let", "loop", "match", "mod", "move", "mut", "pub", "ref", "return", "static", "struct",
            "super", "trait", "true", "type", "unsafe", "use", "where", "while", "dyn", "async", "await"}
# tokens after which `-` / `*` / `&` are prefix operators
PREFIX_CTX = {"(", "[", "{", ",", ";", "=", "==", "!=", "<", ">", "<=", ">=", "+", "-", "*", "/", "%", "&", "|", "^",
              "!", "&&", "||", "=>", "->", "return", "if", "else", "in", "match", "+=", "-=", "*=", "/=", "%=",
              "<<", ">>", "<<=", ">>=", "..", "..=", ":", "as", "let", "mut", "while", "break", "^=", "&=", "|=",
              "move", "ref", "~", "#", "$", "@"}
BIN = {"+", "-", "*", "/", "%", "<<", ">>", "+=", "-=", "*=", "/=", "%=", "<<=", ">>="}
TRAP_METHODS = {"abs", "pow", "neg", "div_euclid", "rem_euclid", "next_power_of_two", "ilog2", "ilog10", "isqrt",
                "sum", "product", "next_multiple_of", "div_ceil"}
FLOAT_METHODS = {"to_f32", "to_f64", "sqrt", "sin", "cos", "tan", "atan2", "hypot", "powf", "powi", "to_radians",
                 "to_degrees", "sin_cos", "as_f32", "as_f64"}
ASSERTS = {"assert", "assert_eq", "assert_ne", "debug_assert", "debug_assert_eq", "debug_assert_ne"}
INT_TYPES = {"u8", "u16", "u32", "u64", "u128", "usize", "i8", "i16", "i32", "i64", "i128", "isize"}
GUARD_CALL = re.compile(r"^(min|max|clamp|checked_\w+|saturating_\w+|wrapping_\w+|overflowing_\w+|try_from|try_into|get_mut|get|ensure_\w+|validate\w*|check\w*|all_\w+_are_\w+)$")
STRONG_GUARD_CALL = re.compile(r"^(ensure_\w+|validate\w*|check_\w+|all_\w+_are_\w+)$")
PRECHECK_FN = re.compile(r"^(ensure_|validate|check|all_)|_is_|_are_")
CMP_OPS = {"==", "!=", "<=", ">="}
CTRL = ("if", "else", "while", "for", "match", "loop", "let")
# generated pure getters: the range was validated when the table was parsed (C01's read shapes)
GETTER = re.compile(r"^self\.data\.read_(at|array)\((range\.start|range)\)\.unwrap\(\)$")
TEST_ATTR = re.compile(r"^(test|cfg\(test\)|cfg\(all\(test\b.*|bench)$")


def match_close(toks, i):
    """index of the token closing the bracket opened at toks[i]"""
    o = toks[i][1]
    c = {"(": ")", "[": "]", "{": "}"}[o]
    d = 0
    n = len(toks)
    while i < n:
        t = toks[i]
        if t[0] == "op":
            if t[1] == o:
                d += 1
            elif t[1] == c:
                d -= 1
                if d == 0:
                    return i
        i += 1
    raise LexError("unbalanced " + o)


def join(toks):
    s = " ".join(t[1] for t in toks)
    s = re.sub(r" ?(\.\.=|\.\.\.|\.\.|::|\.) ?", r"\1", s)
    s = re.sub(r"(?<=[\w\)\]>?]) \(", "(", s)
    s = re.sub(r"(?<=[\w\)\]?]) \[", "[", s)
    s = re.sub(r"([(\[]) ", r"\1", s)
    s = re.sub(r" ([)\],;?])", r"\1", s)
    s = re.sub(r"(?<=\w) !([(\[{])", r"!\1", s)
    s = s.replace("! (", "!(").replace("! [", "![")
    return s


class FileScan:
    def __init__(self, rel, src):
        self.rel = rel
        self.toks = lex(src)
        self.funcs = {}          # path -> list of (kind, op, text)
        self.guards = {}         # path -> list of (what, text)
        self.test_mods = []      # names of `#[cfg(test)] mod x;`
        self.float_fields = set()
        self.nonfloat_fields = set()
        self.whole_file_test = False
        self._collect_field_types()
        self.items(0, len(self.toks), [])

    # -- float evidence ---------------------------------------------------------------------------
    def _collect_field_types(self):
        T = self.toks
        for i in range(len(T) - 2):
            if T[i][0] == "id" and T[i + 1][1] == ":" and T[i + 1][0] == "op":
                j = i + 2
                while j < len(T) and (T[j][1] in ("&", "mut") or T[j][0] == "life"):
                    j += 1
                if j < len(T) and T[j][0] == "id":
                    if T[j][1] in ("f32", "f64"):
                        self.float_fields.add(T[i][1])
                    else:
                        self.nonfloat_fields.add(T[i][1])
        self.float_fields -= self.nonfloat_fields

    # -- items ------------------------------------------------------------------------------------
    def attr_at(self, i):
        """toks[i] == '#': return (end index after the attribute, text, inner?)"""
        T = self.toks
        j = i + 1
        inner = False
        if j < len(T) and T[j][1] == "!":
            inner = True
            j += 1
        if j < len(T) and T[j][1] == "[":
            k = match_close(T, j)
            return k + 1, "".join(t[1] for t in T[j + 1:k]), inner
        return i + 1, "", False

    def skip_item(self, i, end):
        """skip one item starting at i (after its attributes): up to `;` or the end of its `{}` body"""
        T = self.toks
        d = 0
        while i < end:
            t = T[i][1] if T[i][0] == "op" else None
            if t in ("(", "["):
                i = match_close(T, i) + 1
                continue
            if t == "{":
                return match_close(T, i) + 1
            if t == ";" and d == 0:
                return i + 1
            i += 1
        return end

    def header_body(self, i, end):
        """from a header keyword at i find the `{` opening its body (or None if `;` comes first)"""
        T = self.toks
        j = i + 1
        while j < end:
            if T[j][0] == "op":
                t = T[j][1]
                if t in ("(", "["):
                    j = match_close(T, j) + 1
                    continue
                if t == "{":
                    return j
                if t == ";":
                    return None
            j += 1
        return None

    def impl_name(self, i, body):
        """normalised `impl [Trait for] Type` (generic arguments and where clauses dropped)"""
        T = self.toks
        parts = []
        depth = 0
        j = i + 1
        while j < body:
            k, t, _ = T[j]
            if k == "op" and t == "<":
                depth += 1
            elif k == "op" and t == ">":
                depth -= 1
            elif k == "op" and t == "->":
                pass
            elif depth == 0:
                if k == "id" and t == "where":
                    break
                if k == "id" or (k == "op" and t in ("::", "$", "&", "!", "(", ")", "[", "]", ",")):
                    parts.append((k, t, False))
            j += 1
        s = join(parts)
        return "impl " + s.replace(" for ", " for ")

    def items(self, i, end, path):
        T = self.toks
        skip_next = False
        while i < end:
            k, t, _ = T[i]
            if k == "op" and t == "#":
                ni, text, inner = self.attr_at(i)
                if TEST_ATTR.match(text):
                    if inner:
                        if not path:
                            self.whole_file_test = True
                        return
                    skip_next = True
                i = ni
                continue
            if skip_next and not (k == "op" and t == "#"):
                # record `#[cfg(test)] mod name;`
                j = i
                while j < end and T[j][1] in ("pub", "(", ")", "crate", "super", "in"):
                    j += 1
                if j + 2 < end and T[j][1] == "mod" and T[j + 2][1] == ";":
                    self.test_mods.append(T[j + 1][1])
                i = self.skip_item(i, end)
                skip_next = False
                continue
            if k == "id":
                prev = T[i - 1][1] if i > 0 else None
                if t == "fn" and i + 1 < end and T[i + 1][0] == "id":
                    b = self.header_body(i, end)
                    if b is None:
                        i += 2
                        continue
                    c = match_close(T, b)
                    self.function(i, b, c, path + ["fn " + T[i + 1][1]])
                    i = c + 1
                    continue
                if t in ("mod", "trait") and i + 1 < end and T[i + 1][0] == "id" and (prev is None or prev in ("}", ";", "]", "{", "pub", ")", "unsafe")):
                    b = self.header_body(i, end)
                    if b is None:
                        i += 2
                        continue
                    c = match_close(T, b)
                    self.items(b + 1, c, path + [t + " " + T[i + 1][1]])
                    i = c + 1
                    continue
                if t == "impl" and (prev is None or prev in ("}", ";", "]", "{", "unsafe", "default")):
                    b = self.header_body(i, end)
                    if b is None:
                        i += 1
                        continue
                    c = match_close(T, b)
                    self.items(b + 1, c, path + [self.impl_name(i, b)])
                    i = c + 1
                    continue
                if t == "macro_rules" and i + 2 < end and T[i + 1][1] == "!":
                    name = T[i + 2][1]
                    j = i + 3
                    if j < end and T[j][1] in ("{", "(", "["):
                        c = match_close(T, j)
                        self.items(j + 1, c, path + ["macro " + name])
                        i = c + 1
                        continue
                if t in ("const", "static") and i + 1 < end and T[i + 1][1] != "fn" and (prev is None or prev in ("}", ";", "]", "{", "pub", ")")):
                    # compile-time evaluated initialiser
                    i = self.skip_item(i, end)
                    continue
            i += 1

    # -- functions --------------------------------------------------------------------------------
    def function(self, fn_i, b, c, path):
        T = self.toks
        key = "::".join(path)
        sites = self.funcs.setdefault(key, [])
        # local float / int names from the signature and typed lets / closures
        floats, ints = set(), set()
        for j in range(fn_i, c - 1):
            if T[j][0] == "id" and T[j + 1][0] == "op" and T[j + 1][1] == ":":
                q = j + 2
                while q < c and (T[q][1] in ("&", "mut") or T[q][0] == "life"):
                    q += 1
                if q < c and T[q][0] == "id":
                    (floats if T[q][1] in ("f32", "f64") else ints).add(T[j][1])
            if T[j][1] == "let":
                q = j + 1
                if T[q][1] == "mut":
                    q += 1
                if T[q][0] == "id" and T[q + 1][1] == "=" and T[q + 2][0] == "num" and is_float_lit(T[q + 2][1]) and T[q + 3][1] == ";":
                    floats.add(T[q][1])
        floats -= ints
        self.floats = floats
        gsites = self.guards.setdefault(key, [])
        ctx = [""]     # block headers (innermost last)
        arms = [None]  # the current match arm pattern of each block
        # statement segments
        seg = []
        depth = 0  # paren/bracket depth inside the current segment
        i = b + 1
        while i < c:
            k, t, _ = T[i]
            if k == "id" and t == "fn" and i + 1 < c and T[i + 1][0] == "id":
                nb = self.header_body(i, c)
                if nb is not None:
                    self.flush(seg, sites)
                    seg, depth = [], 0
                    nc = match_close(T, nb)
                    saved = self.floats
                    self.function(i, nb, nc, path + ["fn " + T[i + 1][1]])
                    self.floats = saved
                    i = nc + 1
                    continue
            if k == "id" and t == "impl" and T[i - 1][1] in ("}", ";", "{"):
                nb = self.header_body(i, c)
                if nb is not None:
                    self.flush(seg, sites)
                    seg, depth = [], 0
                    nc = match_close(T, nb)
                    saved = self.floats
                    self.items(nb + 1, nc, path + [self.impl_name(i, nb)])
                    self.floats = saved
                    i = nc + 1
                    continue
            if k == "op" and t == "#" and i + 1 < c and T[i + 1][1] == "[":
                ni, text, _ = self.attr_at(i)
                i = ni
                continue
            if k == "op":
                if t in ("(", "["):
                    depth += 1
                elif t in (")", "]"):
                    depth = max(0, depth - 1)
                if t in (";", "{", "}") or (depth == 0 and t in (",", "=>")):
                    self.flush(seg, sites)
                    self.flush_guards(seg, t, gsites, ctx, arms)
                    if t == "{":
                        header = join([T[x] for x in seg]) if seg else (arms[-1] or "")
                        ctx.append(header)
                        arms.append(None)
                    elif t == "}":
                        if len(ctx) > 1:
                            ctx.pop()
                            arms.pop()
                    elif t == "=>":
                        arms[-1] = join([T[x] for x in seg]) + " =>"
                    elif t == ",":
                        arms[-1] = None
                    seg, depth = [], 0
                    i += 1
                    continue
            seg.append(i)
            i += 1
        self.flush(seg, sites)
        self.flush_guards(seg, ";", gsites, ctx, arms)

    def has_cmp(self, toks):
        gen = 0
        for q, (k, t, _) in enumerate(toks):
            if k != "op":
                if k == "id" and t == "contains" and q > 0 and toks[q - 1][1] == ".":
                    return True
                continue
            if t in CMP_OPS:
                return True
            if t == "<":
                if q > 0 and toks[q - 1][1] == "::":
                    gen += 1
                else:
                    return True
            elif t == ">":
                if gen > 0:
                    gen -= 1
                else:
                    return True
        return False

    def flush_guards(self, idxs, term, gsites, ctx, arms):
        """guards of one statement segment: conditions with a comparison, early exits with the condition they
        sit under, `?`, and calls of the clamp / checked / validation families"""
        if not idxs:
            return
        T = self.toks
        toks = [T[x] for x in idxs]
        first = toks[0][1] if toks[0][0] == "id" else None
        if first in ("use", "const", "static"):
            return
        text = None

        def seg_text():
            return join(toks)

        # the condition this statement sits under
        def under():
            if arms[-1]:
                return arms[-1]
            for h in reversed(ctx):
                if h and h.split(" ", 1)[0].split("(")[0] in CTRL or (h and h.endswith("=>")):
                    return h
            return "fn"

        # conditions
        cond = None
        if term == "{":
            if first in ("if", "while"):
                cond = toks[1:]
            elif first == "else" and len(toks) > 1 and toks[1][1] == "if":
                cond = toks[2:]
        if cond is not None and self.has_cmp(cond):
            gsites.append((first if first != "else" else "if", join(cond)))
        if term == "=>":
            d = 0
            for q, (k, t, _) in enumerate(toks):
                if k == "op" and t in ("(", "["):
                    d += 1
                elif k == "op" and t in (")", "]"):
                    d -= 1
                elif k == "id" and t == "if" and d == 0 and q > 0:
                    c2 = toks[q + 1:]
                    if self.has_cmp(c2):
                        gsites.append(("match-if", join(c2)))
                    break
        # early exits
        if first in ("return", "break", "continue"):
            gsites.append((first, seg_text() + "  @ " + under()))
        # `?` and guard calls
        n = len(toks)
        for q, (k, t, _) in enumerate(toks):
            if k == "op" and t == "?" and q > 0 and (toks[q - 1][0] in ("id", "num") or toks[q - 1][1] in (")", "]", "?")):
                gsites.append(("?", seg_text()))
            elif k == "id" and q + 1 < n and toks[q + 1][1] == "(" and GUARD_CALL.match(t):
                prev = toks[q - 1][1] if q > 0 else None
                if t == "get" and (q + 2 >= n or toks[q + 2][1] == ")"):
                    continue  # BigEndian::get(): a value getter
                if prev in (".", "::") or STRONG_GUARD_CALL.match(t):
                    gsites.append(("call " + t, seg_text()))

    def is_float_operand_left(self, idxs, p):
        """idxs[p] is an operator; is the operand ending at idxs[p-1] evidently a float?"""
        T = self.toks
        if p == 0:
            return False
        k, t, _ = T[idxs[p - 1]]
        if k == "num":
            return is_float_lit(t)
        if k == "id":
            if t in ("f32", "f64") and p >= 2 and T[idxs[p - 2]][1] == "as":
                return True
            if p >= 2 and T[idxs[p - 2]][1] == ".":
                return t in self.float_fields
            return t in self.floats
        if k == "op" and t == ")":
            # method call: find the name before the matching `(`
            d = 0
            q = p - 1
            while q >= 0:
                tt = T[idxs[q]]
                if tt[0] == "op" and tt[1] == ")":
                    d += 1
                elif tt[0] == "op" and tt[1] == "(":
                    d -= 1
                    if d == 0:
                        break
                q -= 1
            if q >= 1 and T[idxs[q - 1]][0] == "id" and T[idxs[q - 1]][1] in FLOAT_METHODS:
                return True
        return False

    def is_float_operand_right(self, idxs, p):
        T = self.toks
        q = p + 1
        n = len(idxs)
        # skip prefix operators
        while q < n and T[idxs[q]][0] == "op" and T[idxs[q]][1] in ("-", "*", "&", "!", "("):
            q += 1
        if q >= n:
            return False
        k, t, _ = T[idxs[q]]
        if k == "num":
            return is_float_lit(t)
        if k != "id":
            return False
        # a path / field chain  a.b.c  or  f32::CONST
        if t in ("f32", "f64"):
            return True
        last = t
        first = True
        field = False
        q += 1
        while q + 1 < n and T[idxs[q]][0] == "op" and T[idxs[q]][1] == "." and T[idxs[q + 1]][0] == "id":
            last = T[idxs[q + 1]][1]
            field = True
            first = False
            q += 2
        if q < n and T[idxs[q]][0] == "op" and T[idxs[q]][1] == "(":
            return last in FLOAT_METHODS
        if q + 1 < n and T[idxs[q]][1] == "as" and T[idxs[q + 1]][1] in ("f32", "f64"):
            return True
        if field:
            return last in self.float_fields
        return first and last in self.floats

    def looks_generic_close(self, idxs, p):
        """idxs[p], idxs[p+1] are adjacent `>` `>`: closing two generic argument lists?  Decided on the whole
        token stream (segments are cut at commas): walk back to two unmatched `<`."""
        T = self.toks
        nxt = T[idxs[p] + 2] if idxs[p] + 2 < len(T) else None
        if nxt is None or (nxt[0] == "op" and (nxt[1] in ("::", "=", ">", ",", ")", "{", ";", "]", "}") or (nxt[1] == "(" and nxt[2]))):
            return True
        need = 2
        q = idxs[p] - 1
        par = 0
        steps = 0
        while q >= 0 and need > 0 and steps < 200:
            steps += 1
            k, t, _ = T[q]
            if k == "op":
                if t == "<":
                    if par == 0:
                        need -= 1
                elif t == ">":
                    if par == 0:
                        need += 1
                elif t in (")", "]"):
                    par += 1
                elif t in ("(", "["):
                    if par == 0:
                        return False
                    par -= 1
                elif t in ("::", ",", "&", "->", "=", "+", "?", "*", "!", "$", ":") or (t == ";" and par > 0):
                    pass
                else:
                    return False
            elif k == "id":
                if t in ("if", "while", "return", "let", "match", "else", "in", "as") and par == 0:
                    return False
            elif k == "num" and par == 0:
                return False
            q -= 1
        return need <= 0

    def flush(self, idxs, sites):
        if not idxs:
            return
        T = self.toks
        # `use a::*;` and `const X: T = …;` inside a function body: no run-time arithmetic
        first = T[idxs[0]]
        if first[0] == "id" and first[1] in ("use", "const", "static"):
            return
        text = None
        found = []
        shifts = set()
        n = len(idxs)
        p = 0
        while p < n:
            k, t, glued = T[idxs[p]]
            prev = T[idxs[p - 1]] if p > 0 else None
            prev_t = prev[1] if prev else None
            if k == "op":
                op = None
                if t == ">" and p + 1 < n and T[idxs[p + 1]][1] == ">" and T[idxs[p + 1]][2] and idxs[p + 1] == idxs[p] + 1:
                    if not self.looks_generic_close(idxs, p) and prev is not None and not (prev[0] == "op" and prev_t in PREFIX_CTX):
                        op = ">>"
                        shifts.add(p)
                    p += 1  # consume the second `>`
                elif t in BIN:
                    unary = prev is None or (prev[0] == "op" and prev_t in PREFIX_CTX) or (prev[0] == "id" and prev_t in KEYWORDS and prev_t not in ("self", "Self", "true", "false", "crate", "super"))
                    if t == "-" and unary:
                        nxt = T[idxs[p + 1]] if p + 1 < n else None
                        if nxt is not None and nxt[0] != "num":
                            if not self.is_float_operand_right(idxs, p):
                                op = "neg"
                    elif t in ("*", "&") and unary:
                        pass
                    elif t == "<<" and p + 2 < n and T[idxs[p + 1]][0] == "id" and T[idxs[p + 2]][1] == "as":
                        pass  # `<<T as Trait>::X ...`
                    elif unary:
                        pass
                    else:
                        if not (self.is_float_operand_left(idxs, p) or self.is_float_operand_right(idxs, p)):
                            op = t
                if op:
                    found.append(("arith", op))
                elif t == "[" and prev is not None and ((prev[0] == "id" and prev_t not in KEYWORDS) or (prev[0] == "op" and prev_t in (")", "]", "?")) or (prev[0] == "id" and prev_t in ("self",))):
                    # index expression (not a macro `name![`, attribute, type or array literal)
                    if not (p >= 2 and T[idxs[p - 2]][1] in ("#",)):
                        # content
                        d, q = 0, p
                        while q < n:
                            tt = T[idxs[q]]
                            if tt[0] == "op" and tt[1] == "[":
                                d += 1
                            elif tt[0] == "op" and tt[1] == "]":
                                d -= 1
                                if d == 0:
                                    break
                            q += 1
                        inner = [T[x] for x in idxs[p + 1:q]]
                        if inner and not (len(inner) == 1 and inner[0][1] == ".."):
                            found.append(("index", join(inner)))
            elif k == "id":
                nxt_t = T[idxs[p + 1]][1] if p + 1 < n else None
                if prev_t == "." and nxt_t in ("(", "::") and t in TRAP_METHODS:
                    # receiver float?
                    if not (t in ("abs", "neg", "sum", "product") and self.is_float_operand_left(idxs, p - 1)):
                        if not (t in ("sum", "product") and nxt_t == "::" and p + 3 < n and T[idxs[p + 3]][1] in ("f32", "f64")):
                            found.append(("arith", t))
                elif prev_t == "." and nxt_t == "(" and t in ("unwrap", "expect"):
                    found.append(("unwrap", t))
                elif nxt_t == "!" and t in ASSERTS and p + 2 < n and T[idxs[p + 2]][1] in ("(", "[", "{"):
                    found.append(("assert", t))
            p += 1
        if found:
            tl = []
            for q, x in enumerate(idxs):
                if q in shifts:
                    tl.append(("op", ">>", False))
                elif q - 1 in shifts:
                    continue
                else:
                    tl.append(T[x])
            text = join(tl)
            if self.rel.startswith("read-fonts/generated/") and GETTER.match(text):
                return
            for (kind, op) in found:
                sites.append((kind, op, text))


def is_float_lit(t):
    if t.startswith(("0x", "0o", "0b")):
        return False
    return "." in t or t.endswith(("f32", "f64")) or bool(re.search(r"\d[eE][+-]?\d", t))


# -------------------------------------------------------------------------------------- inventory

GUARDS = {}
ALL_GUARDS = {}


def scope_files(repo):
    files = set()
    for pat in SCOPE:
        for p in glob.glob(os.path.join(repo, pat), recursive=True):
            files.add(os.path.relpath(p, repo))
    out = []
    for f in sorted(files):
        if any(fnmatch.fnmatch(f, e) for e in EXCLUDE):
            continue
        out.append(f)
    return out


def inventory(repo):
    """-> (dict key -> sorted list of [kind, op, text, count], problems)"""
    problems = []
    scans = {}
    for f in scope_files(repo):
        try:
            src = open(os.path.join(repo, f), encoding="utf-8").read()
            scans[f] = FileScan(f, src)
        except (LexError, IndexError, UnicodeDecodeError, RecursionError) as e:
            problems.append(f"{f}: cannot tokenise/parse ({type(e).__name__}: {e})")
    # modules declared `#[cfg(test)] mod x;`
    test_files = set()
    for f, sc in scans.items():
        d = os.path.dirname(f)
        base = os.path.basename(f)
        stem = d if base in ("mod.rs", "lib.rs", "main.rs") else os.path.join(d, base[:-3])
        for m in sc.test_mods:
            test_files.add(os.path.join(stem, m + ".rs"))
            test_files.add(os.path.join(stem, m) + os.sep)
    inv = {}
    ginv = {}
    all_guards = {}
    for f, sc in scans.items():
        if sc.whole_file_test or f in test_files or any(f.startswith(t) for t in test_files if t.endswith(os.sep)):
            continue
        for path, sites in sc.funcs.items():
            gs = sc.guards.get(path, [])
            ac = all_guards.setdefault(f"{f} :: {path}", {})
            for g in gs:
                ac[g] = ac.get(g, 0) + 1
            fn_name = path.split("fn ")[-1]
            tracked = bool(sites) or bool(PRECHECK_FN.search(fn_name)) or any(g[0].startswith("call ") and STRONG_GUARD_CALL.match(g[0][5:]) for g in gs)
            if not tracked:
                continue
            key = f"{f} :: {path}"
            gc = ginv.setdefault(key, {})
            for g in gs:
                gc[g] = gc.get(g, 0) + 1
            if not sites:
                inv.setdefault(key, {})
                continue
            cnt = {}
            for s in sites:
                cnt[s] = cnt.get(s, 0) + 1
            cur = inv.setdefault(key, {})
            for s, c in cnt.items():
                cur[s] = cur.get(s, 0) + c
    out = {}
    for key, cnt in inv.items():
        out[key] = sorted([list(s) + [c] for s, c in cnt.items()])
    global GUARDS, ALL_GUARDS
    ALL_GUARDS = {key: sorted([list(g) + [c] for g, c in cnt.items()]) for key, cnt in all_guards.items()}
    GUARDS = {key: sorted([list(g) + [c] for g, c in cnt.items()]) for key, cnt in ginv.items()}
    return out, problems, len(scans)


def kernel_map():
    """(file, fn) -> list of (qual, kernel) from the authoritative kernel table"""
    km = {}
    if os.path.exists(KERNELS):
        for e in json.load(open(KERNELS))["functions"]:
            km.setdefault((e["file"], e["fn"]), []).append((e.get("qual", ""), e.get("kernel", "")))
    return km


def kernel_of(km, key):
    f, path = key.split(" :: ", 1)
    parts = path.split("::fn ")
    fn = parts[-1] if len(parts) > 1 else path[3:] if path.startswith("fn ") else None
    if fn is None or (f, fn) not in km:
        return None
    for qual, kern in km[(f, fn)]:
        q = qual.lstrip("=")
        # arith_sites quals are raw header texts (`impl<'a> Foo<'a>`, `macro_rules! name`): compare on
        # the identifiers they mention
        words = [w for w in re.findall(r"[A-Za-z_][A-Za-z0-9_]*", q) if w not in ("impl", "a", "macro_rules", "for", "mod")]
        if all(w in path for w in words):
            return kern
    return None


def review_status(rules, key, sites):
    """first matching rule of arith_scope_review.json wins: {"match": regex on key, "status": ..., "note": ...,
    optional "kinds": [...] (every site kind must be in the list), "max_arith": n}"""
    for r in rules:
        if re.search(r["match"], key):
            if "kinds" in r and not all(s[0] in r["kinds"] for s in sites):
                continue
            if "not_text" in r and any(re.search(r["not_text"], s[2]) for s in sites if s[0] == "arith"):
                continue
            return r["status"], r.get("note", "")
    return None


def fingerprint(sites):
    return hashlib.sha256(json.dumps(sites, sort_keys=True).encode()).hexdigest()[:16]


def main():
    ap = argparse.ArgumentParser()
    ap.add_argument("--repo", default="/repo")
    ap.add_argument("--out", default=None)
    ap.add_argument("--report", default=None)
    ap.add_argument("--init", action="store_true", help="rewrite translate/arith_scope.json from the current tree")
    ap.add_argument("--dump", action="store_true", help="print the current inventory")
    a = ap.parse_args()
    inv, problems, nfiles = inventory(a.repo)
    if a.dump:
        print(json.dumps(inv, indent=1))
        return 0
    table = json.load(open(TABLE)) if os.path.exists(TABLE) else {"functions": {}}
    km = kernel_map()
    if a.init:
        rules = json.load(open(REVIEW))["rules"] if os.path.exists(REVIEW) else []
        out = {"comment": "reviewed raw-operation multisets per function; generated by arith_scope.py --init, statuses from arith_sites.json (kernels) and arith_scope_review.json (hand review rules); see arith_scope.py",
               "functions": {}}
        for key in sorted(inv):
            old = table["functions"].get(key)
            kern = kernel_of(km, key)
            rs = review_status(rules, key, inv[key])
            if kern:
                status, note = f"kernel:{kern}", "raw operators tied statement by statement in arith_sites.json"
            elif rs:
                status, note = rs
            elif old and old.get("sites") == inv[key] and old.get("status") != "explored:unreviewed-bulk":
                status, note = old["status"], old.get("note", "")
            elif not inv[key]:
                status, note = "benign:guard-only", "no raw trapping operation: tracked for its guards (pre-check helper or caller of an ensure_* / validate* / check_* guard)"
            else:
                status, note = "explored:unreviewed-bulk", ""
            e = {"status": status, "sites": inv[key], "guards": GUARDS.get(key, [])}
            if note:
                e["note"] = note
            out["functions"][key] = e
        with open(TABLE, "w") as f:
            json.dump(out, f, indent=0, separators=(",", ":"))
            f.write("\n")
        print(f"wrote {TABLE}: {len(out['functions'])} functions")
        return 0

    unparsed = list(problems)
    tied = 0
    by_status = {}
    by_status_sites = {}
    kinds = {}
    for key in sorted(set(inv) | set(table["functions"])):
        cur = inv.get(key)
        old = table["functions"].get(key)
        if cur is None and key in ALL_GUARDS:
            # the function still exists but no longer qualifies for tracking: it lost its raw operations or
            # the guard call that made it tracked
            o = {tuple(g[:2]): g[2] for g in old.get("guards", [])}
            c = {tuple(g[:2]): g[2] for g in ALL_GUARDS[key]}
            gone = [f"{k[0]} `{k[1]}`" for k in sorted(o) if o[k] > c.get(k, 0)]
            new = [f"{k[0]} `{k[1]}`" for k in sorted(c) if c[k] > o.get(k, 0)]
            lost = "; ".join(f"{s[0]} `{s[1]}` in `{s[2]}`" for s in old["sites"][:3])
            unparsed.append(f"{key} [{old['status']}]: GUARD multiset changed / tracked operations gone; GONE guards: {' | '.join(gone) or '-'} ; NEW guards: {' | '.join(new) or '-'}" + (f" ; raw operations no longer present: {lost}" if lost else ""))
            continue
        if cur is None:
            unparsed.append(f"{key}: function with reviewed raw operations is gone from the source (renamed / removed / no raw operation left): re-review")
            continue
        if old is None:
            ex = "; ".join(f"{s[0]} `{s[1]}` in `{s[2]}`" for s in cur[:3])
            unparsed.append(f"{key}: NEW function with raw operations, not reviewed: {ex}")
            continue
        if old["sites"] != cur:
            o = {tuple(s[:3]): s[3] for s in old["sites"]}
            c = {tuple(s[:3]): s[3] for s in cur}
            added = [f"{k[0]} `{k[1]}` in `{k[2]}`" + (f" x{c[k] - o.get(k, 0)}" if c[k] - o.get(k, 0) > 1 else "") for k in sorted(c) if c[k] > o.get(k, 0)]
            removed = [f"{k[0]} `{k[1]}` in `{k[2]}`" for k in sorted(o) if o[k] > c.get(k, 0)]
            unparsed.append(f"{key} [{old['status']}]: raw-operation multiset changed; NEW: {' | '.join(added) or '-'} ; GONE: {' | '.join(removed) or '-'}")
            continue
        og = old.get("guards", [])
        cg = GUARDS.get(key, [])
        if og != cg:
            o = {tuple(g[:2]): g[2] for g in og}
            c = {tuple(g[:2]): g[2] for g in cg}
            added = [f"{k[0]} `{k[1]}`" for k in sorted(c) if c[k] > o.get(k, 0)]
            removed = [f"{k[0]} `{k[1]}`" for k in sorted(o) if o[k] > c.get(k, 0)]
            unparsed.append(f"{key} [{old['status']}]: GUARD multiset changed (the raw operations are unchanged: a guard was removed, weakened or replaced); GONE: {' | '.join(removed) or '-'} ; NEW: {' | '.join(added) or '-'}")
            continue
        tied += 1
        st = old["status"]
        cls = st.split(":", 1)[0] if st != "explored:unreviewed-bulk" else st
        by_status[cls] = by_status.get(cls, 0) + 1
        n = sum(s[3] for s in cur)
        by_status_sites[cls] = by_status_sites.get(cls, 0) + n
        for s in cur:
            kinds[s[0]] = kinds.get(s[0], 0) + s[3]
    detail = {}
    for key, e in table["functions"].items():
        detail[e["status"]] = detail.get(e["status"], 0) + 1
    samples = [
        {"scope-inventory": {"files": nfiles, "functions_with_raw_ops": len(inv), "tied_to_reviewed_table": tied,
                             "functions_by_status": by_status, "sites_by_status": by_status_sites, "sites_by_kind": kinds,
                             "guards_tied": sum(g[2] for gs in GUARDS.values() for g in gs)}},
        {"statuses": dict(sorted(detail.items(), key=lambda kv: -kv[1])[:40])},
    ]
    for want in ("read-fonts/src/tables/variations.rs :: impl DeltaSetIndexMap::fn get",
                 "incremental-font-transfer/src/patchmap.rs :: fn compute_format2_new_entry_index"):
        if want in inv and want in table["functions"]:
            samples.append({"fn": want, "status": table["functions"][want]["status"], "sites": inv[want][:4]})
    rep = {"obligations": tied, "unparsed": unparsed, "samples": samples, "functions": len(inv),
           "by_status": by_status, "inventory": inv}
    if a.report:
        os.makedirs(os.path.dirname(a.report), exist_ok=True)
        json.dump(rep, open(a.report, "w"), indent=0)
    else:
        rep.pop("inventory")
        print(json.dumps(rep, indent=1)[:6000])
    return 0


if __name__ == "__main__":
    sys.exit(main())
