#!/usr/bin/env python3
"""
translate/c02_autohint_loops.py — C02 translator: the other hand-written cyclic scan loops of the autohinter.

Same technique as translate/c02_blues.py (whose parser it reuses and extends by `while c { … }`, `return …;`,
expression statements and the `?` operator): each loop of the table LOOPS below is located by an anchor in its
function, parsed, and its CONTROL SKELETON is emitted into lean/FontVerif/Gen/AutohintLoops.lean as one step
function per loop body over `FontVerif.LoopIter.St`.  Each loop declares which Rust variable is the moving index
(`last` slot of St) and which the target index (`segFirst` slot); `contour.next(e)` / `contour.prev(e)` are
translated to `cnext n e` / `cprev n e` (Model/LoopIter.lean; indices are offsets from `contour.first()`, n = number
of points of the contour) after the bodies of `Contour::next` / `Contour::prev` in autohint/outline.rs have been
compared with the expected text; a declared link expression (`point.next()` where `point` was fetched at the moving
index) becomes `lnk <index>` for an arbitrary function `lnk` (the theorem assumes the ring invariant on it).
Conditions / assignments over control variables, literals and these functions are exact, every other condition is
`o k tick`, every other value written to a control variable `h k tick`; `expr?` is a possible exit (`o k tick`).
Statements without control effect are dropped and listed.

Props/C02Autohint.lean proves termination of every generated loop for all oracles.  The translator fails (exit 1,
reason in the report) when an anchor is missing / ambiguous or a statement is outside the subset.

usage: c02_autohint_loops.py [--repo /repo] [--override REL=path]… --out <dir or file.lean> [--report report.json]
"""
import argparse
import json
import os
import re
import sys

sys.path.insert(0, os.path.dirname(os.path.abspath(__file__)))
import c02_blues as B  # noqa: E402

Unsupported = B.Unsupported
AH = "skrifa/src/outline/autohint/"

LOOPS = [
    dict(id="dirs", file=AH + "outline.rs", func="compute_directions",
         anchor=r"let\s+mut\s+out_y\s*=\s*0\s*;\s*loop\s*\{",
         step="dirsStep", last="next_ix", seg="first_ix",
         nested=[dict(step="dirsInterStep", last="inter_ix", seg="next_ix")],
         what="compute_directions: accumulate deltas around the contour until `next_ix` is back at `first_ix` "
              "(do-while port with `continue`), nested `while inter_ix != next_ix`"),
    dict(id="segStart", file=AH + "topo/segments.rs", func="build_segments",
         anchor=r"last_ix\s*=\s*point_ix\s*;\s*loop\s*\{",
         step="segStartStep", last="point_ix", seg="last_ix", nested=[],
         what="build_segments: walk backward to the start of the edge the contour starts on"),
    dict(id="edgePts", file=AH + "hint/outline.rs", func="align_edge_points",
         anchor=r"let\s+last_ix\s*=\s*segment\s*\.\s*last\s*\(\s*\)\s*;\s*loop\s*\{",
         step="edgePtsStep", last="point_ix", seg="last_ix", nested=[],
         link=dict(expr="point.next()", binding="let point = points.get_mut(point_ix)?;", index="point_ix"),
         what="align_edge_points: move the points of a segment, following `Point::next` from segment.first() "
              "to segment.last()"),
]

LOOPS += [
    dict(id="dirsBack", file=AH + "outline.rs", func="compute_directions",
         anchor=r"let\s+mut\s+point\s*=\s*points\[first_ix\]\s*;\s*while\s+prev_ix\s*!=\s*first_ix\s*\{",
         while_cond="prev_ix != first_ix",
         step="dirsBackStep", last="prev_ix", seg="first_ix", nested=[],
         what="compute_directions: walk backward from contour.first() to the first non-near point "
              "(`while prev_ix != first_ix`)"),
    dict(id="segMain", file=AH + "topo/segments.rs", func="build_segments",
         anchor=r"let\s+mut\s+passed\s*=\s*false\s*;\s*loop\s*\{",
         step="segMainStep", last="point_ix", seg="last_ix", flag="passed", generic=True, nested=[],
         what="build_segments: the main loop over the points of a contour; `passed` is set at the first visit of "
              "`last_ix`, the loop breaks at the second (or returns when more than 1000 segments exist)"),
    dict(id="weak", file=AH + "hint/outline.rs", func="align_weak_points",
         anchor=r"let\s+mut\s+last_touched_ix\s*;\s*'outer\s*:\s*loop\s*\{",
         step="weakStep", last="point_ix", seg="last_ix", generic=True, fuel="lastIx + 2",
         nested=[dict(step="weakSkipStep", last="point_ix", seg="last_ix"),
                 dict(step="weakFindStep", last="point_ix", seg="last_ix")],
         what="align_weak_points: `'outer` loop over the touched points of a contour (indices relative to the contour "
              "slice, last_ix = len - 1): nested `while` skipping touched neighbours, nested `loop` finding the next "
              "touched point or leaving by `break 'outer`; `point_ix` only ever grows"),
]

LOOPS += [
    dict(id="insertEdge", file=AH + "topo/mod.rs", func="insert_edge",
         anchor=r"let\s+mut\s+ix\s*=\s*edges\.len\(\)\s*-\s*1\s*;\s*while\s+ix\s*>\s*0\s*\{",
         while_cond="ix > 0",
         step="insertEdgeStep", last="ix", seg="unused_slot", generic=True, nested=[],
         what="Axis::insert_edge: move the new edge down to its place (`while ix > 0 { …; ix -= 1 }`); "
              "St.segFirst is unused"),
]

GD = "skrifa/src/outline/glyf/deltas.rs"
LOOPS += [
    dict(id="deltaFirst", file=GD, func="interpolate_deltas",
         anchor=r"let\s+first_point_ix\s*=\s*point_ix\s*;\s*while\s+point_ix\s*<=\s*end_point_ix\s*&&\s*!flags\.get\(point_ix\)\?\.has_marker\(PointMarker::HAS_DELTA\)\s*\{",
         while_cond="point_ix <= end_point_ix && !flags.get(point_ix)?.has_marker(PointMarker::HAS_DELTA)",
         step="deltaFirstStep", last="point_ix", seg="end_point_ix", generic=True, nested=[],
         what="glyf interpolate_deltas: search the first point of the contour that has a delta"),
    dict(id="deltaNext", file=GD, func="interpolate_deltas",
         anchor=r"let\s+mut\s+cur_delta_ix\s*=\s*point_ix\s*;\s*point_ix\s*\+=\s*1\s*;\s*while\s+point_ix\s*<=\s*end_point_ix\s*\{",
         while_cond="point_ix <= end_point_ix",
         step="deltaNextStep", last="point_ix", seg="end_point_ix", generic=True, nested=[],
         what="glyf interpolate_deltas: walk the rest of the contour, interpolating between points with deltas; "
              "entered after `point_ix += 1`"),
    dict(id="widths", file=AH + "metrics/mod.rs", func="sort_and_quantize_widths",
         anchor=r"let\s+mut\s+ix\s*=\s*1\s*;\s*while\s+ix\s*<\s*table\.len\(\)\s*\{",
         while_cond="ix < table.len()", len_expr="table.len()",
         step="widthsStep", last="ix", seg="table_len", generic=True, nested=[],
         what="sort_and_quantize_widths: cluster the sorted widths (`while ix < table.len()`, `ix` advanced by 1 or 2); "
              "St.segFirst = table.len()"),
]

CONTOUR_FNS = {
    "range": "pub fn range(self) -> Range<usize> { self.first()..self.last() + 1 }",
    "next": "pub fn next(self, index: usize) -> usize { if index >= self.last_ix as usize { self.first_ix as usize } else { index + 1 } }",
    "prev": "pub fn prev(self, index: usize) -> usize { if index <= self.first_ix as usize { self.last_ix as usize } else { index - 1 } }",
}


def camel(x):
    parts = x.split("_")
    return parts[0] + "".join(p.capitalize() for p in parts[1:])


# ------------------------------------------------------------------------------------------------------------
# parser extension

class Parser(B.Parser):
    def __init__(self, src, line0):
        super().__init__(src, line0)
        self.saw_try = False

    def scan_balanced(self):
        """raw text up to the `;` at ()/[]/{} depth 0"""
        d = 0
        j = self.i
        while j < len(self.s):
            c = self.s[j]
            if c in "([{":
                d += 1
            elif c in ")]}":
                d -= 1
                if d < 0:
                    self.fail("unbalanced bracket")
            elif d == 0 and c == ";":
                txt = " ".join(self.s[self.i:j].split())
                self.i = j + 1
                return txt
            elif c in "\"'":
                self.fail("string / char / lifetime token outside the subset")
            j += 1
        self.fail("unterminated statement")

    def expr_until_semicolon(self):
        e = self.scan_balanced()
        if re.search(r"\breturn\b|\bbreak\b|\bcontinue\b|\bloop\b|\bwhile\b|\bfor\b", e):
            self.fail("control transfer / loop inside an expression is outside the subset")
        if "?" in e:
            self.saw_try = True
        return e

    def if_stmt(self):
        ln = self.line()
        assert self.kw("if")
        if self.peek_kw("let"):
            self.fail("`if let` is outside the subset")
        cond = self.scan("{;}")
        if not self.s.startswith("{", self.i):
            self.fail("expected `{` after the condition")
        if re.search(r"\breturn\b|\bbreak\b|\bcontinue\b", cond):
            self.fail("control transfer inside a condition is outside the subset")
        cid = self.nconds
        self.nconds += 1
        node = {"k": "if", "line": ln, "cond": cond, "id": cid}
        if "?" in cond:
            node["try_id"] = self.nconds
            self.nconds += 1
        node["then"] = self.block()
        node["else"] = []
        if self.kw("else"):
            node["else"] = [self.if_stmt()] if self.peek_kw("if") else self.block()
        return node

    def stmt(self):
        self.ws()
        ln = self.line()
        if self.kw("for"):
            hdr = self.scan("{;}")
            if not self.s.startswith("{", self.i):
                self.fail("expected `{` after the `for` header")
            if "?" in hdr or re.search(r"\breturn\b|\bbreak\b|\bcontinue\b", hdr):
                self.fail("control transfer inside a `for` header is outside the subset")
            body = self.block()
            return {"k": "for", "line": ln, "text": f"for {hdr} {{ … }}", "body": body}
        m = re.match(r"'(\w+)\s*:\s*(?=loop\b)", self.s[self.i:])
        if m:
            self.i += m.end()
            st = self.stmt()
            st["label"] = m.group(1)
            return st
        m = re.match(r"break\s+'(\w+)\s*;", self.s[self.i:])
        if m:
            self.i += m.end()
            return {"k": "break", "line": ln, "label": m.group(1)}
        if self.kw("while"):
            if self.peek_kw("let"):
                self.fail("`while let` is outside the subset")
            cond = self.scan("{;}")
            if not self.s.startswith("{", self.i):
                self.fail("expected `{` after the while condition")
            if re.search(r"\breturn\b|\bbreak\b|\bcontinue\b", cond):
                self.fail("control transfer inside a condition is outside the subset")
            cid = self.nconds
            self.nconds += 1
            pre = []
            if "?" in cond:
                pre = [{"k": "try", "line": ln, "id": self.nconds, "text": f"while {cond}",
                        "inner": {"k": "let", "line": ln, "text": f"(`?` in the condition of `while {cond}`)", "call": True}}]
                self.nconds += 1
            body = self.block()
            test = {"k": "if", "line": ln, "cond": cond, "id": cid, "then": [],
                    "else": [{"k": "break", "line": ln}], "while": True}
            return {"k": "loop", "line": ln, "body": pre + [test] + body, "while": True}
        if self.kw("return"):
            e = self.scan_balanced()
            return {"k": "break", "line": ln, "ret": True, "label": "fn"}
        start = self.i
        self.saw_try = False
        m = re.match(r"\*\s*([A-Za-z_]\w*)\s*(?:[-+*/%|&^]|<<|>>)?=(?!=)", self.s[self.i:])
        if m:       # assignment through a reference: data
            self.i += m.end()
            e = self.expr_until_semicolon()
            st = {"k": "let", "line": ln, "text": f"*{m.group(1)} … = {e};", "call": True, "deref": m.group(1)}
            if self.saw_try:
                self.fail("`?` in this position is outside the subset")
            return st
        try:
            st = super().stmt()
        except Unsupported as ex:
            if "statement is outside the subset" not in str(ex):
                raise
            # expression statement: a (method) call
            self.i = start
            if (re.match(r"(if|match|for|while|loop|let)\b", self.s[self.i:]) or
                    not re.match(r"[A-Za-z_][\w:]*(\s*\.\s*\w+|\s*\[[^\]\n]*\])*\s*\(", self.s[self.i:])):
                raise
            e = self.expr_until_semicolon()
            st = {"k": "let", "line": ln, "text": e + ";", "call": True}
        if self.saw_try:
            self.saw_try = False
            if st["k"] not in ("let", "assign"):
                self.fail("`?` in this position is outside the subset")
            cid = self.nconds
            self.nconds += 1
            return {"k": "try", "line": ln, "id": cid, "inner": st, "text": st["text"]}
        return st


# ------------------------------------------------------------------------------------------------------------
# generator for one anchored loop (and its nested loops)

TOK = re.compile(r"\s*(@\d+@|[A-Za-z_]\w*|\d+|==|!=|<=|>=|&&|\|\||[-+<>!()])")


class LoopGen:
    def __init__(self, spec, nconds_base=0):
        self.spec = spec
        self.link = spec.get("link")
        self.dropped = []
        self.exact = {}
        self.opaque = {}
        self.tries = {}
        self.dropped_conds = {}
        self.havocs = []          # (line, text)
        self.exact_assign_lines = set()
        self.defs = []
        self.nested_specs = list(spec.get("nested", []))
        self.loop_names = {}
        self.fresh = 0
        self.link_bound = False
        self.checked = []
        self.flag = spec.get("flag")
        self.generic = bool(spec.get("generic"))
        self.depth = 0

    def state(self, slots, src=None):
        """state literal from the Lean locals (or from the fields of the record `src`)"""
        a, b = camel(slots[0]), camel(slots[1])
        core = f"⟨{a}, {b}, n, tick⟩"
        return f"⟨{core}, {camel(self.flag)}⟩" if self.flag else core

    # -- expressions ------------------------------------------------------------------------------------
    def havoc(self, line, text):
        key = (line, text)
        if key not in self.havocs:
            self.havocs.append(key)
        return f"(h {self.havocs.index(key)} tick)"

    def ctl(self, e, names, boolean, line, allow_havoc_arg=True):
        """Lean text of `e` if it is a control expression over `names`, else None"""
        e = e.strip()
        if self.spec.get("len_expr"):
            e = e.replace(self.spec["len_expr"], self.spec["seg"])
        subs = []
        if self.link and self.link["expr"] in e:
            if self.link["index"] not in names:
                return None
            if not self.link_bound:
                raise Unsupported(f"line {line}: `{self.link['expr']}` used but the binding `{self.link['binding']}` "
                                  f"was not seen before it in the loop body")
            e = e.replace(self.link["expr"], f"@{len(subs)}@")
            subs.append(f"lnk {camel(self.link['index'])}")
        while True:
            m = re.search(r"\bcontour\s*\.\s*(next|prev)\s*\(", e)
            if not m:
                break
            d, j = 0, m.end() - 1
            while True:
                if e[j] == "(":
                    d += 1
                elif e[j] == ")":
                    d -= 1
                    if d == 0:
                        break
                j += 1
                if j >= len(e):
                    return None
            arg = e[m.end():j]
            a = self.ctl(arg, names, False, line)
            if a is None:
                if not allow_havoc_arg:
                    return None
                a = self.havoc(line, f"argument `{arg}` of contour.{m.group(1)}")
            elif not re.fullmatch(r"\w+", a):
                a = f"({a})"
            e = e[:m.start()] + f"@{len(subs)}@" + e[j + 1:]
            subs.append(f"c{m.group(1)} n {a}")
        toks = []
        i = 0
        while i < len(e):
            m = TOK.match(e, i)
            if not m:
                return None
            toks.append(m.group(1))
            i = m.end()
        out = []
        for t in toks:
            if re.fullmatch(r"@\d+@", t):
                s = subs[int(t[1:-1])]
                out.append(s if len(toks) == 1 else f"({s})")
            elif t in names:
                out.append(camel(t))
            elif re.fullmatch(r"\d+", t):
                out.append(t)
            elif t in B.LEAN_OP:
                if not boolean and t not in "+-()":
                    return None
                out.append(B.LEAN_OP[t])
            else:
                return None
        if not out:
            return None
        if boolean and not any(t in ("==", "!=", "<=", ">=", "<", ">") for t in toks):
            return None
        return " ".join(out).replace("( ", "(").replace(" )", ")").replace("¬ ", "¬")

    def cond1(self, e, names, line):
        e = e.strip()
        if self.flag and e == self.flag:
            return f"{camel(self.flag)} = true"
        if self.flag and re.fullmatch(r"!\s*" + self.flag, e):
            return f"{camel(self.flag)} = false"
        return self.ctl(e, names, True, line, allow_havoc_arg=False)

    def cond(self, st, names):
        c = self.cond1(st["cond"], names, st["line"])
        if c is not None:
            self.exact[st["id"]] = (st["line"], st["cond"], c)
            return c
        # top-level conjunction: exact control conjuncts ∧ one oracle for the data conjuncts
        parts, d, cur = [], 0, ""
        e = st["cond"]
        i = 0
        while i < len(e):
            if e[i] in "([":
                d += 1
            elif e[i] in ")]":
                d -= 1
            if d == 0 and e.startswith("&&", i):
                parts.append(cur); cur = ""; i += 2
                continue
            if d == 0 and e.startswith("||", i):
                parts = None
                break
            cur += e[i]
            i += 1
        if parts is not None and parts:
            parts.append(cur)
            tr = [self.cond1(x, names, st["line"]) for x in parts]
            if any(t is not None for t in tr) and any(t is None for t in tr):
                ex = [t for t in tr if t is not None]
                lean = " ∧ ".join(f"({t})" for t in ex) + f" ∧ o {st['id']} tick"
                self.opaque[st["id"]] = (st["line"], st["cond"] + "   [control conjuncts exact: " + ", ".join(ex) + "]")
                return lean
        self.opaque[st["id"]] = (st["line"], st["cond"])
        return f"o {st['id']} tick"

    def assign_value(self, st, names):
        v = camel(st["var"])
        if self.flag and st["var"] == self.flag:
            if st["op"] == "" and st["rhs"].strip() in ("true", "false"):
                self.exact_assign_lines.add(st["line"])
                return st["rhs"].strip()
            raise Unsupported(f"line {st['line']}: assignment to the flag `{self.flag}` is not a literal")
        rhs = self.ctl(st["rhs"], names, False, st["line"])
        if rhs is None or st["op"] not in ("", "+", "-"):
            return self.havoc(st["line"], st["text"])[1:-1]
        self.exact_assign_lines.add(st["line"])
        if st["op"] == "":
            return rhs
        return f"{v} {st['op']} {rhs}" if re.fullmatch(r"\w+", rhs) else f"{v} {st['op']} ({rhs})"

    # -- classification ---------------------------------------------------------------------------------
    def ctl_let(self, st, names):
        """(rust name, lean value) if `st` is `let [mut] x = <control expression>;` else None"""
        if st["k"] != "let" or st.get("call"):
            return None
        m = re.fullmatch(r"let (?:mut )?([A-Za-z_]\w*)(?: ?: ?[\w<>]+)? = (.*);", st["text"])
        if not m:
            return None
        if not (re.search(r"\bcontour\s*\.\s*(next|prev)\s*\(", m.group(2)) or
                any(re.search(r"\b" + n + r"\b", m.group(2)) for n in names)):
            return None
        v = self.ctl(m.group(2), names, False, st["line"])
        return (m.group(1), v) if v is not None else None

    def has_effect(self, st, names):
        k = st["k"]
        if k in ("break", "continue", "loop", "try"):
            return True
        if k == "assign":
            return st["var"] in names and not st["proj"]
        if k == "if":
            return bool(st.get("try_id") is not None) or any(self.has_effect(x, names) for x in st["then"] + st["else"])
        if k == "for":
            # a `for` over a finite iterator is a data statement provided its body has no control effect at all
            def clean(x):
                if x["k"] in ("break", "continue", "loop", "try", "for"):
                    return False
                if x["k"] == "assign" and x["var"] in names and not x["proj"]:
                    return False
                if x["k"] == "if":
                    return x.get("try_id") is None and all(clean(y) for y in x["then"] + x["else"])
                return True
            if not all(clean(x) for x in st["body"]):
                raise Unsupported(f"line {st['line']}: a `for` body with control effects is outside the subset")
            return False
        return False

    def check_data(self, st, names):
        txt = st.get("text", "")
        if st.get("deref") in names:
            raise Unsupported(f"line {st['line']}: assignment through `*{st['deref']}` (a control variable)")
        for n in names:
            if re.search(r"&\s*mut\s+" + n + r"\b", txt):
                raise Unsupported(f"line {st['line']}: control variable `{n}` is borrowed mutably")

    def traps(self, lean, pad, line):
        """checked usize subtraction in a translated control expression"""
        out = []
        for g in B.sub_guards(lean):
            self.checked.append((line, g))
            out.append(f"{pad}if {g} then .trap else")
        return out

    def data_sub_guards(self, st, names, pad):
        """usize subtractions on control variables inside a statement that is otherwise dropped stay in the skeleton
        as checked subtractions: `if a < b then .trap else`"""
        def subs(text):
            out = []
            for n in sorted(names):
                for m in re.finditer(r"\b" + n + r"\s*-\s*(\d+|[A-Za-z_]\w*)\b(?!\s*[.(\[])", text):
                    rhs = m.group(1)
                    if re.fullmatch(r"\d+", rhs):
                        out.append(f"{camel(n)} < {rhs}")
                    elif rhs in names:
                        out.append(f"{camel(n)} < {camel(rhs)}")
                    else:
                        raise Unsupported(f"line {st['line']}: `{m.group(0)}`: control variable minus a data value")
            return out
        if st["k"] == "if":
            def walk(x):
                if x["k"] == "if":
                    if subs(x["cond"]):
                        return True
                    return any(walk(y) for y in x["then"] + x["else"])
                return bool(subs(x.get("text", "")))
            if walk(st):
                raise Unsupported(f"line {st['line']}: a dropped `if` subtracts from a control variable")
            return []
        gs = subs(st.get("text", ""))
        for g in gs:
            self.checked.append((st["line"], g))
        return [f"{pad}if {g} then .trap else" for g in gs]

    def drop(self, st, names):
        if st["k"] == "if":
            self.dropped_conds[st["id"]] = (st["line"], st["cond"])
            self.dropped.append((st["line"], f"if {st['cond']} {{ … }}" + (" else { … }" if st["else"] else "")))
            for x in st["then"] + st["else"]:
                self.walk_dropped(x, names)
        else:
            self.check_data(st, names)
            self.dropped.append((st["line"], st["text"]))

    def walk_dropped(self, st, names):
        if st["k"] == "if":
            self.dropped_conds[st["id"]] = (st["line"], st["cond"])
            for x in st["then"] + st["else"]:
                self.walk_dropped(x, names)
        else:
            self.check_data(st, names)

    def assigned(self, stmts, names, acc):
        for st in stmts:
            if st["k"] == "assign" and st["var"] in names and not st["proj"]:
                acc.add(st["var"])
            elif st["k"] == "if":
                self.assigned(st["then"] + st["else"], names, acc)
            elif st["k"] == "loop":
                self.assigned(st["body"], names, acc)
            elif st["k"] == "try":
                self.assigned([st["inner"]], names, acc)
        return acc

    # -- CPS translation --------------------------------------------------------------------------------
    def seq(self, stmts, ind, names, slots):
        pad = "  " * ind
        exit_state = self.state(slots)
        leave = ".exit" if self.depth > 1 else ".brk"      # `return` / `?` / labelled break out of a nested loop
        if not stmts:
            return [f"{pad}.cont {exit_state}"]
        st, rest = stmts[0], stmts[1:]
        k = st["k"]
        if self.link and st.get("text") == self.link["binding"]:
            self.link_bound = True
        if k == "try":
            inner = st["inner"]
            if self.link and inner.get("text") == self.link["binding"]:
                self.link_bound = True
            self.tries[st["id"]] = (st["line"], inner["text"])
            return ([f"{pad}if o {st['id']} tick then", f"{pad}  {leave} {exit_state}", f"{pad}else"] +
                    self.seq([inner] + rest, ind + 1, names, slots))
        cl = self.ctl_let(st, names)
        if cl is not None:
            if cl[0] in slots:
                raise Unsupported(f"line {st['line']}: `let` rebinds the control variable `{cl[0]}`")
            return (self.traps(cl[1], pad, st["line"]) + [f"{pad}let {camel(cl[0])} := {cl[1]}"] +
                    self.seq(rest, ind, names | {cl[0]}, slots))
        if k == "let":
            m = re.match(r"let (?:mut )?([A-Za-z_]\w*)\b", st["text"])
            if m and not st.get("call") and m.group(1) in names:
                if m.group(1) in slots:
                    raise Unsupported(f"line {st['line']}: `let` rebinds the control variable `{m.group(1)}`")
                names = names - {m.group(1)}       # shadowed by a data local
        if not self.has_effect(st, names):
            guards = self.data_sub_guards(st, names, pad)
            self.drop(st, names)
            return guards + self.seq(rest, ind, names, slots)
        if k == "break":
            if st.get("label") and not self.generic and self.depth > 1:
                raise Unsupported(f"line {st['line']}: exit out of a nested loop needs a `generic` loop declaration")
            return [f"{pad}{leave if st.get('label') else '.brk'} {exit_state}"]
        if k == "continue":
            return [f"{pad}.cont {exit_state}"]
        if k == "assign":
            val = self.assign_value(st, names)
            return (self.traps(val, pad, st["line"]) + [f"{pad}let {camel(st['var'])} := {val}"] +
                    self.seq(rest, ind, names, slots))
        if k == "loop":
            if st["line"] not in self.loop_names:
                if not self.nested_specs:
                    raise Unsupported(f"line {st['line']}: nested loop without a declaration in LOOPS")
                ns = self.nested_specs.pop(0)
                for v in (ns["last"], ns["seg"]):
                    if v not in names:
                        raise Unsupported(f"line {st['line']}: nested loop variable `{v}` is not a control variable here")
                asg = self.assigned(st["body"], names, set())
                if not asg <= {ns["last"], ns["seg"]}:
                    raise Unsupported(f"line {st['line']}: nested loop assigns outer control variables {sorted(asg)}")
                self.loop(st["body"], ns["step"], (ns["last"], ns["seg"]))
                self.loop_names[st["line"]] = (ns, asg)
            ns, asg = self.loop_names[st["line"]]
            self.fresh += 1
            r = f"r{self.fresh}"
            lnk = " lnk" if self.link else ""
            fuel = self.spec.get("fuel", "n + 1")
            rebind = []
            if ns["last"] in asg:
                rebind.append(f"{pad}  let {camel(ns['last'])} := {r}.last")
            if ns["seg"] in asg:
                rebind.append(f"{pad}  let {camel(ns['seg'])} := {r}.segFirst")
            rebind.append(f"{pad}  let tick := {r}.tick")
            inner_state = self.state((ns["last"], ns["seg"]))
            if self.generic:
                out = [f"{pad}match iterG ({ns['step']} o h{lnk}) ({fuel}) {inner_state} with",
                       f"{pad}| none => .stuck",
                       f"{pad}| some (true, {r}) =>"] + rebind + [f"{pad}  {leave} {exit_state}",
                       f"{pad}| some (false, {r}) =>"] + rebind
            else:
                out = [f"{pad}match iter ({ns['step']} o h{lnk}) ({fuel}) {inner_state} with",
                       f"{pad}| none => .stuck",
                       f"{pad}| some {r} =>"] + rebind
            return out + self.seq(rest, ind + 1, names, slots)
        if k == "if":
            pre = []
            if st.get("try_id") is not None:
                self.tries[st["try_id"]] = (st["line"], f"if {st['cond']}")
                pre = [f"{pad}if o {st['try_id']} tick then {leave} {exit_state} else"]
            c = self.cond(st, names)
            return (pre + [f"{pad}if {c} then"] + self.seq(st["then"] + rest, ind + 1, names, slots) +
                    [f"{pad}else"] + self.seq(st["else"] + rest, ind + 1, names, slots))
        raise Unsupported(f"line {st['line']}: internal: statement kind {k}")

    def loop(self, body, name, slots):
        saved = self.link_bound
        self.link_bound = False
        self.depth += 1
        names0 = {slots[0], slots[1]} | ({self.flag} if self.flag else set())
        lines = self.seq(body, 1, names0, slots)
        self.depth -= 1
        self.link_bound = saved
        lnk = " (lnk : Nat → Nat)" if self.link else ""
        sty = "StF" if self.flag else "St"
        oty = f"OutG {sty}" if self.generic else "Out"
        hdr = [f"def {name} (o : Nat → Nat → Bool) (h : Nat → Nat → Nat){lnk} (s : {sty}) : {oty} :=",
               "  let n := s.n",
               f"  let {camel(slots[1])} := s.segFirst",
               f"  let {camel(slots[0])} := s.last",
               "  let tick := s.tick + 1"] + ([f"  let {camel(self.flag)} := s.flag"] if self.flag else [])
        self.defs.append((name, "\n".join(hdr + lines)))


# ------------------------------------------------------------------------------------------------------------

ENTRY = {
    "dirs": ["let mut first_ix = contour.first(); let mut ix = first_ix; let mut prev_ix = contour.prev(first_ix);",
             "first_ix = ix;", "let mut next_ix = first_ix; let mut ix = first_ix;"],
    "dirsBack": ["let mut first_ix = contour.first(); let mut ix = first_ix; let mut prev_ix = contour.prev(first_ix); "
                 "let mut point = points[first_ix]; while prev_ix != first_ix {"],
    "segStart": ["let mut point_ix = contour.first(); let mut last_ix = contour.prev(point_ix);",
                 "last_ix = point_ix; loop { point_ix = contour.prev(point_ix);"],
    "segMain": ["last_ix = point_ix; let mut on_edge = false; let mut passed = false; loop {"],
    "edgePts": ["let mut point_ix = segment.first(); let last_ix = segment.last(); loop {"],
    "insertEdge": ["if edges.len() == 1 { return; } let mut ix = edges.len() - 1; while ix > 0 {"],
    "weak": ["let points = outline.points.get_mut(contour.range())?;",
             "let last_ix = points.len() - 1; let mut point_ix = first_touched_ix; let mut last_touched_ix; 'outer: loop {"],
}


def check_entry(src, spec):
    """the statements that produce the entry state the `…_from_entry` theorems of Props/C02Autohint.lean start from"""
    m = re.search(r"\bfn\s+" + spec["func"] + r"\s*(?:<[^>(]*>)?\s*\(", src)
    fb = src.index("{", m.end())
    flat = " ".join(src[fb:B.match_brace(src, fb) + 1].split())
    for t in ENTRY.get(spec["id"], []):
        if t not in flat:
            raise Unsupported(f"entry state of {spec['step']}: fn {spec['func']} no longer reads `{t[:100]}`")


def locate(src, spec):
    m = re.search(r"\bfn\s+" + spec["func"] + r"\s*(?:<[^>(]*>)?\s*\(", src)
    if not m:
        raise Unsupported(f"anchor: fn {spec['func']} not found in {spec['file']}")
    fb = src.index("{", m.end())
    # skip a `-> T {`-less signature: the first `{` after the parameter list / return type
    fe = B.match_brace(src, fb)
    body = src[fb:fe + 1]
    hits = list(re.finditer(spec["anchor"], body))
    if len(hits) != 1:
        raise Unsupported(f"anchor: expected exactly one match of /{spec['anchor']}/ in fn {spec['func']} "
                          f"({spec['file']}), found {len(hits)}")
    b = fb + hits[0].end() - 1
    return b, B.match_brace(src, b)


def check_contour_fns(src):
    flat = " ".join(src.split())
    for name, text in CONTOUR_FNS.items():
        if text not in flat:
            raise Unsupported(f"Contour::{name} in {AH}outline.rs no longer reads `{text}` (cnext / cprev model it)")


RING_SITES = {
    AH + "topo/mod.rs": [
        "pub fn append_segment_to_edge(&mut self, segment_ix: usize, edge_ix: usize) { let edge = &mut self.edges[edge_ix]; "
        "let first_ix = edge.first_ix; let last_ix = edge.last_ix; edge.last_ix = segment_ix as u16; "
        "let segment = &mut self.segments[segment_ix]; segment.edge_next_ix = Some(first_ix); "
        "self.segments[last_ix as usize].edge_next_ix = Some(segment_ix as u16); }",
        "pub fn next_in_edge<'a>(&self, segments: &'a [Segment]) -> Option<&'a Segment> { "
        "segments.get(self.edge_next_ix.map(|ix| ix as usize)?) }"],
    AH + "topo/edges.rs": [
        "first_ix: segment_ix as u16, last_ix: segment_ix as u16, ..Default::default() }; "
        "axis.insert_edge(edge, top_to_bottom_hinting); axis.segments[segment_ix].edge_next_ix = Some(segment_ix as u16);",
        # the two walks that Model/EdgeRing.lean `walk` transcribes
        "loop { let segment = &mut segments[ix]; segment.edge_ix = Some(edge_ix as u16); if ix == last_ix { break; } "
        "ix = segment .edge_next_ix .map(|ix| ix as usize) .unwrap_or(last_ix); }",
        "if segment_ix == last_segment_ix { break; } segment_ix = next_segment_ix .map(|ix| ix as usize) "
        ".unwrap_or(last_segment_ix); }",
        "let next_segment_ix = segment.edge_next_ix;",
        # which segment indices the two passes of compute_edges hand to new-edge / append
        # (Props/C02EdgeRing.lean compute_edges_links_each_segment_once)
        "for segment_ix in 0..axis.segments.len() { let segment = &axis.segments[segment_ix]; "
        "if group == ScriptGroup::Default { if (segment.height as i32) < segment_length_threshold "
        "|| (segment.delta as i32 > segment_width_threshold) || segment.dir == Direction::None { continue; }",
        "if let Some(edge_ix) = best_edge_ix { axis.append_segment_to_edge(segment_ix, edge_ix); } else {",
        "if group == ScriptGroup::Default { for segment_ix in 0..axis.segments.len() { "
        "let segment = &axis.segments[segment_ix]; if segment.dir != Direction::None { continue; }",
        "{ axis.append_segment_to_edge(segment_ix, edge_ix); } } } link_segments_to_edges(axis);",
        # the CJK link walk that `walkCjk` transcribes, with its entry
        "let first_ix = edge.first_ix as usize; let mut seg1 = &axis.segments[first_ix]; let mut dist2 = 0; "
        "loop { if let Some(link1) = seg1.link(&axis.segments).copied() { "
        "dist2 = (link.pos as i32 - link1.pos as i32).abs(); if dist2 >= edge_distance_threshold { break; } } "
        "if seg1.edge_next_ix == Some(first_ix as u16) { break; } "
        "if let Some(next) = seg1.next_in_edge(&axis.segments) { seg1 = next; } else { break; } }",
    ],
}


BSEARCH_TEXT = (
    "let mut min_ix = 0; let mut max_ix = edges.len(); while min_ix < max_ix { let mid_ix = (min_ix + max_ix) >> 1; "
    "let edge = &edges[mid_ix]; let fpos = edge.fpos as i32; match u.cmp(&fpos) { Ordering::Less => max_ix = mid_ix, "
    "Ordering::Greater => min_ix = mid_ix + 1, Ordering::Equal => { store_point(point, dim, edge.pos); "
    "continue 'points; } } } min_ix")


def check_bsearch(read):
    """Model/LoopIter.lean `bsearch` transcribes the edge binary search of align_strong_points"""
    flat = " ".join(B.strip_comments(read(AH + "hint/outline.rs")).split())
    if BSEARCH_TEXT not in flat:
        raise Unsupported("hint/outline.rs: the binary search of align_strong_points no longer reads as transcribed in "
                          "Model/LoopIter.lean `bsearch`")


CHARSET_REL = "read-fonts/src/tables/postscript/charset.rs"
CHARSET_TEXTS = [
    "while gid >= self.end { let (first, end) = next_range(&mut self.ranges)?; self.prev_end = self.end; "
    "self.first = first; self.end = self.prev_end.checked_add(end)?; }",
    "fn next_range<T: CharsetRange>(ranges: &mut std::slice::Iter<T>) -> Option<(u32, u32)> { ranges .next() "
    ".map(|range| (range.first(), range.n_left() + 1)) }",
    "ranges: std::slice::Iter<'a, T>,",
]


def check_charset(read):
    """Model/LoopIter.lean `charsetSeek` transcribes the range-seeking loop of the CFF charset iterator"""
    flat = " ".join(B.strip_comments(read(CHARSET_REL)).split())
    for t in CHARSET_TEXTS:
        if t not in flat:
            raise Unsupported(f"{CHARSET_REL} no longer reads `{t[:90]}…` (Model/LoopIter.lean charsetSeek transcribes it)")


DICT_REL = "read-fonts/src/tables/postscript/dict.rs"
DICT_TEXTS = [
    # parse_bcd: one `cursor.read::<u8>()?` per turn
    "'outer: loop { let b = cursor.read::<u8>()?; for nibble in [(b >> 4) & 0xF, b & 0xF] { match nibble { 0x0..=0x9 => push(b'0' + nibble)?, 0xA => push(b'.')?, 0xB => push(b'E')?, 0xC => { push(b'E')?; push(b'-')?; } 0xE => push(b'-')?, 0xF => break 'outer, _ => return Err(Error::InvalidNumber), } } }",
    # entries: one `token_iter.next()?` per turn
    'let mut token_iter = tokens(dict_data); std::iter::from_fn(move || loop { let token = match token_iter.next()? { Ok(token) => token, Err(e) => return Some(Err(e)), }; match token { Token::Operand(number) => match stack.push(number) { Ok(_) => continue, Err(e) => return Some(Err(e)), }, Token::Operator(op) => { if op == Operator::Blend || op == Operator::VariationStoreIndex { let state = match blend_state.as_mut() { Some(state) => state, None => return Some(Err(Error::MissingBlendState)), }; if op == Operator::VariationStoreIndex { match stack .get_i32(0) .and_then(|ix| state.set_store_index(ix as u16)) { Ok(_) => {} Err(e) => return Some(Err(e)), } } if op == Operator::Blend { match stack.apply_blend(state) { Ok(_) => continue, Err(e) => return Some(Err(e)), } } } let entry = parse_entry(op, &mut stack); stack.clear(); return Some(entry); } } })',
]


CONSUMER_TEXTS = {
    # skrifa charmap `Mappings::next`: one `iter.next()` … `?` per turn
    "skrifa/src/charmap.rs":
        "fn next(&mut self) -> Option<Self::Item> { loop { let item = match &mut self.0 { MappingsInner::None => None, "
        "MappingsInner::Format4(iter) => iter.next(), MappingsInner::Format12(iter) => iter.next(), }?; "
        "if item.1 != GlyphId::NOTDEF { return Some(item); } } }",
    # skrifa string `LocalizedStrings::next`: one `self.records.next()?` per turn
    "skrifa/src/string.rs":
        "fn next(&mut self) -> Option<Self::Item> { let name = self.name.as_ref()?; loop { "
        "let record = self.records.next()?; if record.name_id() == self.id { "
        "return Some(LocalizedString::new(name, record)); } } }",
}


def check_consumers(read):
    """further one-item-per-turn consumer loops covered by `consume_loop_terminates`"""
    for rel, t in CONSUMER_TEXTS.items():
        if t not in " ".join(B.strip_comments(read(rel)).split()):
            raise Unsupported(f"{rel} no longer reads `{t[:90]}…` (Model/LoopIter.lean consumeLoop transcribes it)")


def check_dict(read):
    """Model/LoopIter.lean `consumeLoop` transcribes these two consumer loops"""
    flat = " ".join(B.strip_comments(read(DICT_REL)).split())
    for t in DICT_TEXTS:
        if t not in flat:
            raise Unsupported(f"{DICT_REL} no longer reads `{t[:90]}…` (Model/LoopIter.lean consumeLoop transcribes it)")


def check_ring_sites(read):
    """Model/EdgeRing.lean (hand-written) transcribes these code sites; they are the only writers of edge_next_ix"""
    writes = 0
    calls = 0
    for rel in read("*"):
        src = B.strip_comments(read(rel))
        calls += len(re.findall(r"\.\s*append_segment_to_edge\s*\(", src.split("#[cfg(test)]")[0]))
        if rel.endswith("topo/edges.rs") and re.search(r"\.\s*dir\s*=(?!=)", src.split("#[cfg(test)]")[0]):
            raise Unsupported(f"{rel}: a segment / edge `dir` is assigned (the two passes are told apart by segment.dir)")
        flat = " ".join(src.split())
        for text in RING_SITES.get(rel, []):
            if text not in flat:
                raise Unsupported(f"{rel}: ring code site no longer reads `{text[:90]}…` (Model/EdgeRing.lean transcribes it)")
        writes += len(re.findall(r"edge_next_ix\s*=(?!=)", src))
    if calls != 2:
        raise Unsupported(f"expected exactly 2 calls of append_segment_to_edge in the autohinter, found {calls}")
    if writes != 3:
        raise Unsupported(f"expected exactly 3 assignments to edge_next_ix in the autohinter, found {writes}")


def generate(read):
    check_contour_fns(B.strip_comments(read(AH + "outline.rs")))
    check_ring_sites(read)
    check_bsearch(read)
    check_charset(read)
    check_dict(read)
    check_consumers(read)
    L_defs, header, stats = [], [], []
    for spec in LOOPS:
        src = B.strip_comments(read(spec["file"]))
        b, e = locate(src, spec)
        check_entry(src, spec)
        line0 = src.count("\n", 0, b) + 1
        p = Parser(src[b:e + 1], line0)
        body = p.block()
        if spec.get("while_cond"):
            body = [{"k": "if", "line": line0, "cond": spec["while_cond"], "id": p.nconds, "then": [],
                     "else": [{"k": "break", "line": line0}], "while": True}] + body
            p.nconds += 1
            if "?" in spec["while_cond"]:
                body = [{"k": "try", "line": line0, "id": p.nconds, "text": f"while {spec['while_cond']}",
                         "inner": {"k": "let", "line": line0, "call": True,
                                   "text": f"(`?` in the condition of `while {spec['while_cond']}`)"}}] + body
                p.nconds += 1
        g = LoopGen(spec)
        g.loop(body, spec["step"], (spec["last"], spec["seg"]))
        if g.nested_specs:
            raise Unsupported(f"{spec['file']}: declared nested loop {g.nested_specs[0]['step']} not found")
        if spec.get("link") and not any("lnk " in t for _, t in g.defs):
            raise Unsupported(f"{spec['file']}: the link expression `{spec['link']['expr']}` is no longer used")
        end = src.count("\n", 0, e) + 1
        header.append(f"   ── {spec['step']}: {spec['file']} fn {spec['func']}, lines {line0}–{end}")
        header.append(f"      {spec['what']}")
        header.append(f"      control variables: `{spec['last']}` ↦ St.last, `{spec['seg']}` ↦ St.segFirst" +
                      "".join(f"; nested {n['step']}: `{n['last']}` ↦ last, `{n['seg']}` ↦ segFirst"
                              for n in spec.get("nested", [])))
        if spec.get("link"):
            header.append(f"      link: `{spec['link']['expr']}` (after `{spec['link']['binding']}`) ↦ lnk {camel(spec['link']['index'])}")
        for cid, (ln, rust, lean) in sorted(g.exact.items()):
            header.append(f"      exact  c{cid} (line {ln}): `{rust}`  ↦  {lean}")
        for cid, (ln, rust) in sorted(g.opaque.items()):
            header.append(f"      oracle c{cid} (line {ln}): `{rust}`  ↦  o {cid} tick")
        for cid, (ln, text) in sorted(g.tries.items()):
            header.append(f"      `?`    c{cid} (line {ln}): `{text}` may return  ↦  if o {cid} tick then .brk")
        for i, (ln, text) in enumerate(g.havocs):
            header.append(f"      havoc  line {ln}: {text}  ↦  h {i} tick")
        for ln, text in sorted(set(g.dropped)):
            header.append(f"      dropped line {ln}: `{text}`")
        for ln, gd in sorted(set(g.checked)):
            header.append(f"      checked subtraction (line {ln}): traps if {gd}")
        for name, text in g.defs:
            L_defs.append(f"/-- {spec['file']} fn {spec['func']}: one execution of the body of " +
                          ("the anchored loop" if name == spec["step"] else "a nested loop") + " -/")
            L_defs.append(text)
            L_defs.append("")
        stats.append({"loop": spec["step"], "lines": [line0, end], "conditions": p.nconds, "exact": len(g.exact),
                      "opaque": len(g.opaque), "try_exits": len(g.tries),
                      "conditions_dropped": len(g.dropped_conds),
                      "exact_assignments": len(g.exact_assign_lines), "havocs": len(g.havocs),
                      "dropped_statements": len(set(g.dropped)), "defs": [n for n, _ in g.defs]})
    L = ["/- GENERATED by translate/c02_autohint_loops.py.  Do not edit.",
         "   Control skeletons of hand-written scan loops of the autohinter (skrifa/src/outline/autohint).",
         "   `o k tick` = truth value of data condition k at loop-body entry number `tick`, `h k tick` = a data value,",
         "   `cnext n i` / `cprev n i` = Contour::next / Contour::prev in offsets from contour.first() (bodies checked).",
         ""] + header + ["-/",
         "import FontVerif.Model.LoopIter",
         "namespace FontVerif.Gen.AutohintLoops",
         "open FontVerif.LoopIter",
         "set_option linter.unusedVariables false",
         ""] + L_defs + ["end FontVerif.Gen.AutohintLoops"]
    hdr = "\n".join(L[1:L.index("-/")])
    if "-/" in hdr or "/-" in hdr:
        raise Unsupported("a source expression contains a Lean comment delimiter")
    return "\n".join(L) + "\n", stats


def main():
    ap = argparse.ArgumentParser()
    ap.add_argument("--repo", default="/repo")
    ap.add_argument("--override", action="append", default=[], help="REL=path: read path instead of <repo>/REL")
    ap.add_argument("--out", required=True)
    ap.add_argument("--report")
    a = ap.parse_args()
    over = dict(x.split("=", 1) for x in a.override)

    def read(rel):
        if rel == "*":      # every Rust file of the autohinter
            root = os.path.join(a.repo, AH)
            return sorted(os.path.relpath(os.path.join(d, f), a.repo) for d, _, fs in os.walk(root) for f in fs
                          if f.endswith(".rs"))
        return open(over.get(rel, os.path.join(a.repo, rel))).read()

    unparsed, lean, stats, changed = [], None, [], False
    try:
        lean, stats = generate(read)
    except (Unsupported, OSError) as ex:
        unparsed.append({"item": "autohint scan loops", "why": str(ex)})
    if lean is not None:
        out = a.out if a.out.endswith(".lean") else os.path.join(a.out, "AutohintLoops.lean")
        os.makedirs(os.path.dirname(os.path.abspath(out)), exist_ok=True)
        old = open(out).read() if os.path.exists(out) else None
        changed = old != lean
        if changed:
            open(out, "w").write(lean)
    if a.report:
        json.dump({"obligations": 0, "samples": [{"c02_autohint_loops": s} for s in stats], "unparsed": unparsed,
                   "changed": changed}, open(a.report, "w"), indent=1)
    if unparsed:
        print("c02_autohint_loops: FAILED: " + unparsed[0]["why"])
        return 1
    print("c02_autohint_loops: " + "; ".join(
        f"{s['loop']} lines {s['lines'][0]}-{s['lines'][1]}: {s['exact']} exact / {s['opaque']} oracle / "
        f"{s['try_exits']} `?` / {s['conditions_dropped']} dropped conditions, {s['exact_assignments']} exact "
        f"assignments, {s['havocs']} havoc, {s['dropped_statements']} statements dropped" for s in stats) +
        (" (file updated)" if changed else ""))
    return 0


if __name__ == "__main__":
    sys.exit(main())
