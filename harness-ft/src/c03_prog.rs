//! J. generated glyph programs, FOUR-way: the linked FreeType interpreter and skrifa's interpreter run
//! the same generated glyph program on the same generated glyph; the Lean step machines
//! (Model/FtStep.lean = ttinterp.c, Model/HintStep.lean = skrifa hint/engine) run the same
//! instruction list on the same initial zone state (`ft.run …`, `sk.run …`).  Correspondence:
//! FreeType's `outline.points`/`tags` vs `ft.run`, skrifa's hinted points (hook
//! `HintingInstance::verif_hinted_points`: 26.6 bits and on-curve flags, no f32) vs `sk.run`; oracle:
//! the two real results are equal.
//!
//! Fonts: 1024 units per em at 16 ppem (scale exactly 1.0: register values can be set and read back
//! exactly) and 1000 units per em at 13 ppem (a fractional scale for MD/MDRP/WCVTF/SSW), left side
//! bearing = xMin so that the first phantom point is the origin.  Every value an instruction pushes
//! (GC, MD, GPV, GFV, RCVT, MPPEM, MPS, GETINFO, ROUND) is stored into a point coordinate
//! (`PUSH o … op; SZP2 1; SVTCA; SCFS`) and so becomes part of the compared outline.
//! Modes: mono (no backward compatibility) and the smooth targets (backward compatibility: x never
//! moves, y not after both IUPs; IUP / INSTCTRL[3] placement is part of the generated program).
use crate::fvlib::common::*;
use crate::ttedge::o::*;
use read_fonts::tables::glyf::CurvePoint;
use skrifa::outline::{Engine, HintingInstance, HintingOptions, SmoothMode, Target};
use skrifa::prelude::*;
use skrifa::raw::FontRef;
use skrifa::MetadataProvider;
use std::os::raw::c_long;
use write_fonts::tables::glyf::{Bbox, Contour, GlyfLocaBuilder, Glyph, SimpleGlyph};
use write_fonts::tables::{head::Head, hhea::Hhea, hmtx::Hmtx, hmtx::LongMetric, maxp::Maxp};

#[repr(C)]
struct FtVector {
    x: c_long,
    y: c_long,
}

extern "C" {
    fn FT_MulFix(a: c_long, b: c_long) -> c_long;
    fn FT_DivFix(a: c_long, b: c_long) -> c_long;
    fn FT_Vector_NormLen(v: *mut FtVector) -> u32;
}

/// `normalize14` (skrifa hook `hint_arith::normalize14`) vs Model/HintVec.lean and the linked
/// `FT_Vector_NormLen` vs Model/FtVec.lean, on i16 stack vectors, point differences and extreme i32 operands;
/// oracles (real vs real): skrifa's result is FreeType's vector / 4 truncated to a short, and the Newton
/// iteration ends below 2^17 (the hypothesis `NormSmall` of the `_partial` theorems), i.e. |V| < 131072.
fn normalize_kernels(cfg: &Config, s: &mut Session) {
    use skrifa::outline::verif_hooks::hint_arith as ha;
    let mut rng = Rng::new(cfg.seed ^ 0x4012);
    let mut one = |s: &mut Session, x: i32, y: i32| {
        let mut v = FtVector { x: x as c_long, y: y as c_long };
        unsafe { FT_Vector_NormLen(&mut v) };
        s.case("ft.normlen", format!("ft.normlen {x} {y}"), format!("{} {}", v.x, v.y));
        let sk = catch(|| ha::normalize14(x, y));
        s.case("sk.norm", format!("sk.norm {x} {y}"), match &sk {
            Ok((a, b)) => format!("{a} {b}"),
            Err(_) => "trap".into(),
        });
        if (x, y) != (0, 0) {
            let small = (v.x as i64).abs() < 131072 && (v.y as i64).abs() < 131072;
            s.oracle("normalize:newton-result-below-2^17", small, || format!("normalize {x} {y}"), || format!("FT_Vector_NormLen -> {} {}", v.x, v.y));
            let expect = (((v.x as i64) / 4) as i16 as i32, ((v.y as i64) / 4) as i16 as i32);
            s.oracle("kernel:normalize14==Normalize", sk == Ok(expect), || format!("normalize {x} {y}"), || format!("skrifa {sk:?} freetype {expect:?}"));
        }
    };
    let edge: Vec<i32> = vec![i32::MIN, i32::MIN + 1, -0x10000, -0x8000, -0x4000, -16352, -1025, -1024, -1023, -3, -1, 0, 1, 2, 3, 4, 1023, 1024, 1025, 11585, 16352, 0x4000, 0x7FFF, 0x8000, 0xFFFF, 0x10000, 0x15555, 0xAAAA, 1 << 20, (1 << 30) - 1, 1 << 30, i32::MAX - 1, i32::MAX];
    for &x in &edge {
        for &y in &edge {
            one(s, x, y);
        }
    }
    let n = if cfg.thorough() { 400_000 } else { 40_000 };
    for _ in 0..n {
        let pick = |rng: &mut Rng| -> i32 {
            match rng.below(5) {
                0 => rng.range(-32768, 32767) as i32,
                1 => rng.range(-70, 70) as i32,
                2 => rng.range(-(1 << 21), 1 << 21) as i32,
                3 => (rng.next() as i32) >> rng.below(31),
                _ => rng.next() as i32,
            }
        };
        let (x, y) = (pick(&mut rng), pick(&mut rng));
        one(s, x, y);
    }
}

pub type AOp = (u16, i32);
pub const PUSH: u16 = 256;
const N_CVT: usize = 64;
const N_TWI: usize = 16;
const GPV: u8 = 0x0C;
const GFV: u8 = 0x0D;

pub fn assemble(ops: &[AOp]) -> Vec<u8> {
    let mut c = vec![];
    for &(o, v) in ops {
        if o == PUSH {
            if (0..=255).contains(&v) {
                c.push(0xB0);
                c.push(v as u8);
            } else {
                assert!((-32768..=32767).contains(&v), "push operand {v}");
                c.push(0xB8);
                c.extend_from_slice(&(v as i16).to_be_bytes());
            }
        } else {
            c.push(o as u8);
        }
    }
    c
}

#[derive(Clone)]
pub struct PGlyph {
    pub pts: Vec<(i16, i16, bool)>,
    pub ends: Vec<usize>,
    pub ops: Vec<AOp>,
    pub label: String,
    pub cvt_used: bool,
}

pub struct PFont {
    pub upem: u16,
    pub cvt: Vec<i16>,
    pub glyphs: Vec<PGlyph>,
    /// control value program (empty: no `prep` table)
    pub prep: Vec<AOp>,
}

pub fn build(f: &PFont) -> Vec<u8> {
    let mut b = GlyfLocaBuilder::new();
    b.add_glyph(&Glyph::Empty).unwrap();
    let (mut max_points, mut max_contours, mut max_ins) = (0, 1, assemble(&f.prep).len());
    let mut metrics = vec![LongMetric::new(f.upem / 2, 0)];
    for g in &f.glyphs {
        let mut contours = vec![];
        let mut start = 0;
        for &e in &g.ends {
            let pts: Vec<CurvePoint> = g.pts[start..=e].iter().map(|(x, y, on)| CurvePoint::new(*x, *y, *on)).collect();
            contours.push(Contour::from(pts));
            start = e + 1;
        }
        let code = assemble(&g.ops);
        max_points = max_points.max(g.pts.len());
        max_contours = max_contours.max(g.ends.len());
        max_ins = max_ins.max(code.len());
        let mut sg = SimpleGlyph { bbox: Bbox::default(), contours, instructions: code };
        sg.recompute_bounding_box();
        // left side bearing = xMin: pp1 = (xMin - lsb, 0) is the origin, nothing is shifted after hinting
        metrics.push(LongMetric::new(f.upem / 2 + 37, sg.bbox.x_min));
        b.add_glyph(&sg).unwrap();
    }
    let (glyf, loca, fmt) = b.build();
    let n = f.glyphs.len() as u16 + 1;
    let head = Head { units_per_em: f.upem, index_to_loc_format: fmt as i16, magic_number: 0x5F0F3CF5, ..Default::default() };
    let maxp = Maxp {
        num_glyphs: n,
        max_points: Some(max_points as u16),
        max_contours: Some(max_contours as u16),
        max_composite_points: Some(0),
        max_composite_contours: Some(0),
        max_zones: Some(2),
        max_twilight_points: Some(N_TWI as u16),
        max_storage: Some(16),
        max_function_defs: Some(8),
        max_instruction_defs: Some(0),
        max_stack_elements: Some(512),
        max_size_of_instructions: Some(max_ins.min(65535) as u16),
        max_component_elements: Some(0),
        max_component_depth: Some(0),
    };
    let up = f.upem as i16;
    let hhea = Hhea { number_of_h_metrics: n, ascender: (up / 5 * 4).into(), descender: (-up / 5).into(), ..Default::default() };
    let hmtx = Hmtx::new(metrics, vec![]);
    let mut fb = write_fonts::FontBuilder::new();
    fb.add_table(&head).unwrap();
    fb.add_table(&maxp).unwrap();
    fb.add_table(&hhea).unwrap();
    fb.add_table(&hmtx).unwrap();
    fb.add_table(&glyf).unwrap();
    fb.add_table(&loca).unwrap();
    let mut cvt = f.cvt.clone();
    cvt.resize(N_CVT, 0);
    let be: Vec<u8> = cvt.iter().flat_map(|v| v.to_be_bytes()).collect();
    fb.add_raw(read_fonts::types::Tag::new(b"cvt "), be);
    if !f.prep.is_empty() {
        fb.add_raw(read_fonts::types::Tag::new(b"prep"), assemble(&f.prep));
    }
    fb.build()
}

// ------------------------------------------------------------------------------------------------
// program generator
// ------------------------------------------------------------------------------------------------

struct G<'a> {
    rng: &'a mut Rng,
    ops: Vec<AOp>,
    n: i32,
    ncont: i32,
    ends: Vec<usize>,
    zp: [i32; 3],
    bc: bool,
    iupx: bool,
    iupy: bool,
    cvt_used: bool,
    kinds: Vec<&'static str>,
    /// magnitude class of operands: 0 small (a few px), 1 medium, 2 large (up to 2^20)
    mag: u8,
}

impl G<'_> {
    fn op(&mut self, o: u8) {
        self.ops.push((o as u16, 0));
    }
    fn push(&mut self, v: i32) {
        if (-32768..=32767).contains(&v) {
            self.ops.push((PUSH, v));
            return;
        }
        // hi * 2^16 + lo with exact MUL (a*b/64) and ADD
        let hi = v >> 16;
        let lo = v & 0xFFFF;
        self.ops.push((PUSH, hi));
        self.ops.push((PUSH, 0x4000));
        self.op(MUL);
        self.ops.push((PUSH, 0x4000));
        self.op(MUL);
        if lo <= 32767 {
            self.ops.push((PUSH, lo));
            self.op(ADD);
        } else {
            self.ops.push((PUSH, 32767));
            self.op(ADD);
            self.ops.push((PUSH, lo - 32767));
            self.op(ADD);
        }
    }
    /// a point number valid in BOTH zones (reference points outlive zone pointer changes)
    fn pt(&mut self, _z: i32) -> i32 {
        self.rng.below((self.n as u64).min(N_TWI as u64)) as i32
    }
    fn dist(&mut self) -> i32 {
        let r = &mut *self.rng;
        match (self.mag, r.below(6)) {
            (_, 0) => *r.pick(&[0, 1, -1, 31, 32, 33, 63, 64, 65, -64, 128, -32]),
            (0, _) => r.range(-300, 300) as i32,
            (1, _) => r.range(-6000, 6000) as i32,
            (_, 1 | 2) => r.range(-6000, 6000) as i32,
            _ => r.range(-(1 << 20), 1 << 20) as i32,
        }
    }
    fn set_zp(&mut self, k: usize, z: i32) {
        if self.zp[k] != z {
            self.push(z);
            self.op(SZP0 + k as u8);
            self.zp[k] = z;
        }
    }
    fn blocked(&self) -> bool {
        self.bc && self.iupx && self.iupy
    }
    /// a value is on top of the stack with an observer point index beneath it: store it into the
    /// observer's y (x in mono mode, sometimes) coordinate
    fn store(&mut self, count: usize) {
        self.push(1);
        self.op(SZP2);
        self.zp[2] = 1;
        let x = !self.bc && self.rng.chance(1, 3);
        self.op(if x { SVTCA_X } else { SVTCA_Y });
        for _ in 0..count {
            self.op(SCFS);
        }
    }
    fn observer(&mut self) {
        let o = self.rng.below(self.n as u64) as i32;
        self.push(o);
    }

    fn vectors(&mut self) {
        let r = self.rng.below(12);
        match r {
            0..=2 => {
                let o = self.rng.below(6) as u8;
                self.op(o);
                self.kinds.push("svtca");
            }
            3 | 4 => {
                // from the stack: unit-ish, unnormalised, tiny, zero, extremes, nearly perpendicular to an axis
                let (x, y): (i32, i32) = match self.rng.below(8) {
                    0 => (0x4000, 0),
                    1 => (0, 0),
                    2 => (self.rng.range(-5, 5) as i32, self.rng.range(-5, 5) as i32),
                    3 => (*self.rng.pick(&[1020, 1023, 1024, 1025, 1030, -1023, -1024, -1025]), 16352),
                    4 => (16352, *self.rng.pick(&[1020, 1023, 1024, 1025, -1023, -1024, -1025, 0, 1, -1])),
                    5 => (*self.rng.pick(&[-32768, 32767, 11585, -11585]), *self.rng.pick(&[-32768, 32767, 11585, -11585, 0])),
                    _ => (self.rng.range(-32768, 32767) as i32, self.rng.range(-32768, 32767) as i32),
                };
                self.push(x);
                self.push(y);
                let fs = self.rng.chance(1, 2);
                self.op(if fs { SFVFS } else { SPVFS });
                self.kinds.push(if fs { "sfvfs" } else { "spvfs" });
            }
            5..=7 => {
                let (z1, z2) = (self.zp[1], self.zp[2]);
                let (a, b) = (self.pt(z1), if self.rng.chance(1, 6) && z1 == z2 { -1 } else { self.pt(z2) });
                let b = if b < 0 { a } else { b };
                // index1 (top) is a zp2 point, index2 a zp1 point
                self.push(a);
                self.push(b);
                let o = match r {
                    5 => SPVTL + self.rng.below(2) as u8,
                    6 => SFVTL + self.rng.below(2) as u8,
                    _ => SDPVTL + self.rng.below(2) as u8,
                };
                self.op(o);
                self.kinds.push(match r {
                    5 => "spvtl",
                    6 => "sfvtl",
                    _ => "sdpvtl",
                });
            }
            8 => {
                self.op(SFVTPV);
                self.kinds.push("sfvtpv");
            }
            _ => {
                // a diagonal pair through the stack
                let d = *self.rng.pick(&[(11585, 11585), (11585, -11585), (14189, 8192), (8192, 14189), (3, 4), (-4, 3)]);
                self.push(d.0);
                self.push(d.1);
                self.op(SPVFS);
                if self.rng.chance(1, 2) {
                    let e = *self.rng.pick(&[(0x4000, 0), (0, 0x4000), (11585, 11585), (-3, 4)]);
                    self.push(e.0);
                    self.push(e.1);
                    self.op(SFVFS);
                }
                self.kinds.push("diag");
            }
        }
    }

    fn state(&mut self) {
        match self.rng.below(14) {
            0 => {
                let k = self.rng.below(3) as usize;
                let z = self.rng.below(2) as i32;
                self.set_zp(k, z);
                self.kinds.push("szp");
            }
            1 => {
                let z = self.rng.below(2) as i32;
                self.push(z);
                self.op(SZPS);
                self.zp = [z, z, z];
                self.kinds.push("szps");
            }
            2..=4 => {
                let k = self.rng.below(3) as u8;
                let z = if k == 0 { self.zp[0] } else if k == 1 { self.zp[0] } else { self.zp[1] };
                let p = self.pt(z);
                self.push(p);
                self.op(SRP0 + k);
                self.kinds.push("srp");
            }
            5 => {
                let o = *self.rng.pick(&[RTG, RTHG, RTDG, RDTG, RUTG, ROFF]);
                self.op(o);
                self.kinds.push("rstate");
            }
            6 => {
                let sel = self.rng.below(256) as i32;
                self.push(sel);
                let o = if self.rng.chance(1, 2) { SROUND } else { S45ROUND };
                self.op(o);
                self.kinds.push("sround");
            }
            7 => {
                let v = *self.rng.pick(&[0, 1, 32, 63, 64, 65, 128, -64]);
                self.push(v);
                self.op(SMD);
                self.kinds.push("smd");
            }
            8 => {
                let v = *self.rng.pick(&[0, 1, 17, 68, 69, 200, 20000, -5]);
                self.push(v);
                self.op(SCVTCI);
                self.kinds.push("scvtci");
            }
            9 => {
                let v = self.rng.range(-300, 300) as i32;
                self.push(v);
                self.op(SSW);
                let c = *self.rng.pick(&[0, 1, 30, 64, -3]);
                self.push(c);
                self.op(SSWCI);
                self.kinds.push("ssw");
            }
            10 => {
                let o = if self.rng.chance(1, 2) { FLIPON } else { FLIPOFF };
                self.op(o);
                self.kinds.push("flip-auto");
            }
            11 => {
                let v = self.rng.range(0, 20) as i32;
                self.push(v);
                self.op(SDB);
                let s = self.rng.range(0, 6) as i32;
                self.push(s);
                self.op(SDS);
                self.kinds.push("sdb-sds");
            }
            12 if self.bc => {
                // INSTCTRL selector 3: value 4 switches backward compatibility off, 0 on
                let v = *self.rng.pick(&[4, 0, 4, 1]);
                self.push(v);
                self.push(3);
                self.op(INSTCTRL);
                self.kinds.push("instctrl3");
            }
            _ => {
                let p = self.pt(self.zp[0]);
                self.push(p);
                self.op(UTP);
                self.kinds.push("utp");
            }
        }
    }

    fn looped(&mut self, z: i32, o: u8) {
        let k = if self.rng.chance(1, 2) { 1 } else { self.rng.range(2, 3) as i32 };
        if k != 1 {
            self.push(k);
            self.op(SLOOP);
        }
        for _ in 0..k {
            let p = self.pt(z);
            self.push(p);
        }
        self.op(o);
    }

    fn action(&mut self) {
        match self.rng.below(42) {
            0..=3 => self.vectors(),
            4..=6 => self.state(),
            7 | 8 => {
                let p = self.pt(self.zp[2]);
                let v = self.dist();
                self.push(p);
                self.push(v);
                self.op(SCFS);
                self.kinds.push("scfs");
            }
            9 | 10 => {
                self.observer();
                let p = self.pt(self.zp[2]);
                self.push(p);
                let a = self.rng.below(2) as u8;
                self.op(GC_CUR + a);
                self.store(1);
                self.kinds.push("gc");
            }
            11 | 12 => {
                self.observer();
                let (p2, p1) = (self.pt(self.zp[0]), self.pt(self.zp[1]));
                self.push(p2);
                self.push(p1);
                let a = self.rng.below(2) as u8;
                self.op(MD_CUR + a);
                self.store(1);
                self.kinds.push("md");
            }
            13 => {
                let o = if self.rng.chance(1, 2) { GPV } else { GFV };
                self.observer();
                self.op(o);
                self.op(POP);
                self.observer();
                self.op(o);
                self.op(SWAP);
                self.op(POP);
                self.store(2);
                self.kinds.push("gpv-gfv");
            }
            14 | 15 => {
                let p = self.pt(self.zp[1]);
                let d = self.dist();
                self.push(p);
                self.push(d);
                let a = self.rng.below(2) as u8;
                self.op(MSIRP + a);
                self.kinds.push("msirp");
            }
            16 => {
                let z = self.zp[1];
                self.looped(z, ALIGNRP);
                self.kinds.push("alignrp");
            }
            17 => {
                let (p1, p2) = (self.pt(self.zp[1]), self.pt(self.zp[0]));
                self.push(p1);
                self.push(p2);
                self.op(ALIGNPTS);
                self.kinds.push("alignpts");
            }
            18 => {
                let p = self.pt(self.zp[2]);
                let (a0, a1) = (self.pt(self.zp[1]), self.pt(self.zp[1]));
                let (b0, b1) = (self.pt(self.zp[0]), self.pt(self.zp[0]));
                for v in [p, a0, a1, b0, b1] {
                    self.push(v);
                }
                self.op(ISECT);
                self.kinds.push("isect");
            }
            19 | 20 => {
                let z = self.zp[2];
                self.looped(z, IP);
                self.kinds.push("ip");
            }
            21 => {
                let z = self.zp[2];
                let a = self.rng.below(2) as u8;
                self.looped(z, SHP + a);
                self.kinds.push("shp");
            }
            22 => {
                let c = if self.zp[2] == 0 { 0 } else { self.rng.below(self.ncont as u64) as i32 };
                self.push(c);
                let a = self.rng.below(2) as u8;
                self.op(SHC + a);
                self.kinds.push("shc");
            }
            23 => {
                let e = self.rng.below(2) as i32;
                self.push(e);
                let a = self.rng.below(2) as u8;
                self.op(SHZ + a);
                self.kinds.push("shz");
            }
            24 | 25 => {
                let k = self.rng.range(1, 2) as i32;
                if k != 1 {
                    self.push(k);
                    self.op(SLOOP);
                }
                for _ in 0..k {
                    let p = self.pt(self.zp[2]);
                    self.push(p);
                }
                let d = self.dist();
                self.push(d);
                self.op(SHPIX);
                self.kinds.push("shpix");
            }
            26 => {
                let p = self.pt(self.zp[0]);
                self.push(p);
                let a = self.rng.below(2) as u8;
                self.op(MDAP + a);
                self.kinds.push("mdap");
            }
            27 => {
                let p = self.pt(self.zp[0]);
                let c = self.rng.below(N_CVT as u64) as i32;
                self.push(p);
                self.push(c);
                let a = self.rng.below(2) as u8;
                self.op(MIAP + a);
                self.cvt_used = true;
                self.kinds.push("miap");
            }
            28 => {
                let p = self.pt(self.zp[1]);
                self.push(p);
                let f = self.rng.below(32) as u8;
                self.op(MDRP + f);
                self.kinds.push("mdrp");
            }
            29 => {
                let p = self.pt(self.zp[1]);
                let c = if self.rng.chance(1, 12) { -1 } else { self.rng.below(N_CVT as u64) as i32 };
                self.push(p);
                self.push(c);
                let f = self.rng.below(32) as u8;
                self.op(MIRP + f);
                self.cvt_used = true;
                self.kinds.push("mirp");
            }
            30 => {
                // IUP; in backward compatibility mode it also sets the "done" flag
                let x = self.rng.chance(1, 2);
                self.op(if x { IUP_X } else { IUP_Y });
                if self.bc {
                    if x {
                        self.iupx = true
                    } else {
                        self.iupy = true
                    }
                }
                self.kinds.push("iup");
            }
            31 => {
                // (when blocked by backward compatibility after both IUPs the arguments stay on the stack)
                self.looped(1, FLIPPT);
                self.kinds.push(if self.blocked() { "flippt-blocked" } else { "flippt" });
            }
            32 => {
                let (a, b) = (self.pt(1), self.pt(1));
                self.push(a.min(b));
                self.push(a.max(b));
                let o = if self.rng.chance(1, 2) { FLIPRGON } else { FLIPRGOFF };
                self.op(o);
                self.kinds.push("fliprg");
            }
            33 => {
                // DELTAP1-3: high nibble so that some exceptions fire (ppem - delta_base is not known here:
                // the nibble is drawn around 16 - 9 and 13 - 9)
                let n = self.rng.range(1, 3) as i32;
                for _ in 0..n {
                    let hi = *self.rng.pick(&[7, 7, 4, 4, 6, 8, 3, 5, 0, 15]);
                    let lo = self.rng.below(16) as i32;
                    let p = self.pt(self.zp[0]);
                    self.push(hi * 16 + lo);
                    self.push(p);
                }
                self.push(n);
                let o = *self.rng.pick(&[DELTAP1, DELTAP1, DELTAP2, DELTAP3]);
                self.op(o);
                self.kinds.push("deltap");
            }
            34 => {
                let n = self.rng.range(1, 2) as i32;
                for _ in 0..n {
                    let hi = *self.rng.pick(&[7, 7, 4, 4, 6, 8]);
                    let lo = self.rng.below(16) as i32;
                    let c = self.rng.below(N_CVT as u64) as i32;
                    self.push(hi * 16 + lo);
                    self.push(c);
                }
                self.push(n);
                let o = *self.rng.pick(&[DELTAC1, DELTAC1, DELTAC2, DELTAC3]);
                self.op(o);
                self.cvt_used = true;
                self.kinds.push("deltac");
            }
            35 => {
                let c = self.rng.below(N_CVT as u64) as i32;
                let v = self.dist();
                self.push(c);
                self.push(v);
                let f = self.rng.chance(1, 2);
                self.op(if f { WCVTF } else { WCVTP });
                self.cvt_used = true;
                self.kinds.push(if f { "wcvtf" } else { "wcvtp" });
            }
            36 => {
                self.observer();
                let c = self.rng.below(N_CVT as u64) as i32;
                self.push(c);
                self.op(RCVT);
                self.store(1);
                self.cvt_used = true;
                self.kinds.push("rcvt");
            }
            37 => {
                self.observer();
                match self.rng.below(3) {
                    0 => self.op(MPPEM),
                    1 => self.op(MPS),
                    _ => {
                        let sel = if self.rng.chance(1, 2) { 1 << self.rng.below(14) } else { self.rng.below(1 << 14) as i32 };
                        self.push(sel);
                        self.op(GETINFO);
                    }
                }
                self.store(1);
                self.kinds.push("info");
            }
            38 => {
                self.observer();
                let v = self.dist();
                self.push(v);
                let o = if self.rng.chance(3, 4) { ROUND } else { NROUND };
                let ab = self.rng.below(4) as u8;
                self.op(o + ab);
                self.store(1);
                self.kinds.push("round");
            }
            40 | 41 => {
                // read a phantom point (glyph zone points n .. n+3): original (unrounded) or current (rounded)
                // coordinate, or its distance to a glyph point
                self.set_zp(2, 1);
                self.set_zp(0, 1);
                self.set_zp(1, 1);
                self.observer();
                let ph = self.n + self.rng.below(4) as i32;
                if self.rng.chance(2, 3) {
                    self.push(ph);
                    let a = self.rng.below(2) as u8;
                    self.op(GC_CUR + a);
                } else {
                    let q = self.pt(1);
                    self.push(ph);
                    self.push(q);
                    let a = self.rng.below(2) as u8;
                    self.op(MD_CUR + a);
                }
                self.store(1);
                self.kinds.push("phantom");
            }
            _ => {
                // arithmetic on two values, stored
                self.observer();
                let (a, b) = (self.dist(), self.dist());
                self.push(a);
                self.push(b);
                let o = *self.rng.pick(&[ADD, SUB, MUL, DIV, NEG, ABS]);
                if o == NEG || o == ABS {
                    self.op(POP);
                } else if o == DIV && b == 0 {
                    self.op(POP);
                    self.push(7);
                }
                self.op(o);
                self.store(1);
                self.kinds.push("arith");
            }
        }
    }
}

/// a control value program: everything happens in the twilight zone (the glyph zone is empty there);
/// what it leaves behind — cvt, twilight points, cut-ins, minimum distance, single width, delta base and
/// shift, auto flip, instruct control bit 2 (selector 3: backward compatibility off) — is what the glyph
/// programs of the font start from.  Selectors 1 and 2 of INSTCTRL are left to the `info` edge family.
fn gen_prep(rng: &mut Rng) -> (Vec<AOp>, String) {
    let mut g = G { rng, ops: vec![], n: N_TWI as i32, ncont: 1, ends: vec![], zp: [1, 1, 1], bc: false, iupx: false, iupy: false, cvt_used: true, kinds: vec![], mag: 1 };
    g.push(0);
    g.op(SZPS);
    g.zp = [0, 0, 0];
    let steps = g.rng.range(3, 12);
    for _ in 0..steps {
        match g.rng.below(16) {
            0..=2 => {
                // retained state setters (no zone changes, no UTP on the glyph zone)
                match g.rng.below(7) {
                    0 => {
                        let v = *g.rng.pick(&[0, 1, 32, 63, 64, 65, 128, 20]);
                        g.push(v);
                        g.op(SMD);
                    }
                    1 => {
                        let v = *g.rng.pick(&[0, 1, 10, 17, 68, 69, 200, 20000]);
                        g.push(v);
                        g.op(SCVTCI);
                    }
                    2 => {
                        let v = g.rng.range(-300, 300) as i32;
                        g.push(v);
                        g.op(SSW);
                    }
                    3 => {
                        let c = *g.rng.pick(&[0, 1, 30, 64]);
                        g.push(c);
                        g.op(SSWCI);
                    }
                    4 => {
                        let o = if g.rng.chance(1, 2) { FLIPON } else { FLIPOFF };
                        g.op(o);
                    }
                    5 => {
                        let v = g.rng.range(0, 20) as i32;
                        g.push(v);
                        g.op(SDB);
                    }
                    _ => {
                        let v = g.rng.range(0, 6) as i32;
                        g.push(v);
                        g.op(SDS);
                    }
                }
                g.kinds.push("p-state");
            }
            3 | 4 => {
                // INSTCTRL selector 3: 4 sets the bit, 0 clears it, anything else is ignored
                let v = *g.rng.pick(&[4, 4, 0, 5, 1]);
                g.push(v);
                g.push(3);
                g.op(INSTCTRL);
                g.kinds.push("p-instctrl3");
            }
            5 | 6 => {
                let c = g.rng.below(N_CVT as u64) as i32;
                let v = g.dist();
                g.push(c);
                g.push(v);
                let f = g.rng.chance(1, 2);
                g.op(if f { WCVTF } else { WCVTP });
                g.kinds.push("p-wcvt");
            }
            7 => {
                let hi = *g.rng.pick(&[7, 4, 7, 4, 6]);
                let lo = g.rng.below(16) as i32;
                let c = g.rng.below(N_CVT as u64) as i32;
                g.push(hi * 16 + lo);
                g.push(c);
                g.push(1);
                let o = *g.rng.pick(&[DELTAC1, DELTAC2, DELTAC3]);
                g.op(o);
                g.kinds.push("p-deltac");
            }
            8..=10 => {
                // place twilight points: MIAP sets original and current position from a cvt value
                let x = g.rng.chance(1, 2);
                g.op(if x { SVTCA_X } else { SVTCA_Y });
                let p = g.pt(0);
                let c = g.rng.below(N_CVT as u64) as i32;
                g.push(p);
                g.push(c);
                let a = g.rng.below(2) as u8;
                g.op(MIAP + a);
                g.kinds.push("p-miap");
            }
            11 => {
                let p = g.pt(0);
                let r = g.pt(0);
                g.push(r);
                g.op(SRP0);
                let d = g.dist();
                g.push(p);
                g.push(d);
                g.op(MSIRP);
                g.kinds.push("p-msirp");
            }
            12 => {
                let p = g.pt(0);
                let v = g.dist();
                g.push(p);
                g.push(v);
                g.op(SCFS);
                g.kinds.push("p-scfs");
            }
            13 => {
                let n = *g.rng.pick(&[0, 0xFF, 0x100 | 16, 0x100 | 13, 0x100 | 12, 0x800 | 13, 0x800 | 16, 0x900 | 14, 0x1FF, 0x3F00 | 20]);
                g.push(n);
                g.op(SCANCTRL);
                g.kinds.push("p-scanctrl");
            }
            _ => {
                g.vectors();
            }
        }
    }
    let label = g.kinds.join(",");
    (g.ops, label)
}

fn gen_glyph(rng: &mut Rng, bc: bool, idx: usize) -> PGlyph {
    let mag = (idx % 3) as u8;
    let ncont = rng.range(1, 3) as usize;
    let mut pts = vec![];
    let mut ends = vec![];
    // every sixth glyph lives on a coarse lattice: equal coordinates (coincident references of IUP / IP,
    // zero-length lines of SPVTL / ISECT, equal original positions) are the rule there, not the exception
    let lattice = idx % 6 == 3;
    let coord = |rng: &mut Rng| -> i16 {
        if lattice {
            return *rng.pick(&[0i16, 0, 128, 128, 256, 320]);
        }
        match mag {
            0 => rng.range(-200, 400) as i16,
            1 => rng.range(-2000, 3000) as i16,
            _ => rng.range(-16000, 16000) as i16,
        }
    };
    for _ in 0..ncont {
        let k = rng.range(2, 5) as usize;
        for _ in 0..k {
            let on = !rng.chance(1, 8);
            pts.push((coord(rng), coord(rng), on));
        }
        ends.push(pts.len() - 1);
    }
    let n = pts.len() as i32;
    let mut g = G { rng, ops: vec![], n, ncont: ncont as i32, ends: ends.clone(), zp: [1, 1, 1], bc, iupx: false, iupy: false, cvt_used: false, kinds: vec![], mag };
    let steps = g.rng.range(4, 14);
    // in backward compatibility mode some programs start with both IUPs (everything later is blocked unless
    // INSTCTRL[3] switches the mode off), most interpolate at the end
    if bc && g.rng.chance(1, 6) {
        g.op(IUP_X);
        g.op(IUP_Y);
        g.iupx = true;
        g.iupy = true;
        g.kinds.push("early-iup");
    }
    // a third of the programs first give some twilight points a position (SCFS in the twilight zone sets the
    // original position too), so that mixed-zone measurements and moves (MD, MDRP, MIRP, IP, SHP, ISECT,
    // SPVTL … with one zone pointer at the twilight zone) see non-trivial twilight coordinates
    if !g.blocked() && g.rng.chance(1, 3) {
        g.push(0);
        g.op(SZP2);
        let k = g.rng.range(2, 5) as i32;
        for t in 0..k {
            let t = if g.rng.chance(1, 4) { g.rng.below((g.n as u64).min(N_TWI as u64)) as i32 } else { t };
            for x in [true, false] {
                if x && g.bc {
                    continue;
                }
                g.op(if x { SVTCA_X } else { SVTCA_Y });
                let v = g.dist();
                g.push(t);
                g.push(v);
                g.op(SCFS);
            }
        }
        g.push(1);
        g.op(SZP2);
        g.op(SVTCA_X);
        g.kinds.push("twilight-init");
    }
    for _ in 0..steps {
        g.action();
    }
    if g.rng.chance(3, 4) {
        g.op(IUP_X);
        g.op(IUP_Y);
    }
    let label = g.kinds.join(",");
    let _ = &g.ends;
    PGlyph { pts, ends, ops: g.ops, label, cvt_used: g.cvt_used }
}

// ------------------------------------------------------------------------------------------------
// runners
// ------------------------------------------------------------------------------------------------

#[derive(Clone, Copy, PartialEq, Debug)]
pub enum Mode {
    Mono,
    Normal,
    Light,
    Lcd,
    VLcd,
}

impl Mode {
    fn code(self) -> i32 {
        match self {
            Mode::Mono => 0,
            Mode::Normal => 1,
            Mode::Light => 2,
            Mode::Lcd => 3,
            Mode::VLcd => 4,
        }
    }
    fn bc(self) -> bool {
        self != Mode::Mono
    }
    fn skrifa(self) -> Target {
        match self {
            Mode::Mono => Target::Mono,
            Mode::Normal => SmoothMode::Normal.into(),
            Mode::Light => SmoothMode::Light.into(),
            Mode::Lcd => SmoothMode::Lcd.into(),
            Mode::VLcd => SmoothMode::VerticalLcd.into(),
        }
    }
    fn freetype(self) -> freetype::face::LoadFlag {
        use freetype::face::LoadFlag;
        match self {
            Mode::Mono => LoadFlag::TARGET_MONO,
            Mode::Normal => LoadFlag::TARGET_NORMAL,
            Mode::Light => LoadFlag::TARGET_LIGHT,
            Mode::Lcd => LoadFlag::TARGET_LCD,
            Mode::VLcd => LoadFlag::TARGET_LCD_V,
        }
    }
}

pub fn ft_flags(m: Mode) -> freetype::face::LoadFlag {
    m.freetype()
}
pub fn sk_target(m: Mode) -> Target {
    m.skrifa()
}

pub fn ft_points(lib: &freetype::Library, data: &[u8], gid: u32, ppem: u32, mode: Mode) -> Option<Vec<(i64, i64, bool)>> {
    use freetype::face::LoadFlag;
    let face = lib.new_memory_face2(data.to_vec(), 0).ok()?;
    face.set_pixel_sizes(ppem, ppem).ok()?;
    face.load_glyph(gid, LoadFlag::NO_BITMAP | LoadFlag::NO_AUTOHINT | mode.freetype()).ok()?;
    let raw = face.glyph().raw();
    let o = &raw.outline;
    let n = o.n_points as usize;
    let pts = unsafe { std::slice::from_raw_parts(o.points, n) };
    let tags = unsafe { std::slice::from_raw_parts(o.tags, n) };
    Some(pts.iter().zip(tags).map(|(p, t)| (p.x as i64, p.y as i64, (*t as u8) & 1 != 0)).collect())
}

pub fn sk_points(data: &[u8], gid: u32, ppem: u32, mode: Mode) -> Result<Vec<(i64, i64, bool)>, String> {
    let font = FontRef::new(data).map_err(|e| format!("{e:?}"))?;
    let outlines = font.outline_glyphs();
    let h = HintingInstance::new(&outlines, Size::new(ppem as f32), LocationRef::default(), HintingOptions { engine: Engine::Interpreter, target: mode.skrifa() })
        .map_err(|e| format!("{e:?}"))?;
    let g = outlines.get(GlyphId::new(gid)).ok_or("no glyph")?;
    let (pts, _, _) = h.verif_hinted_points(&g, false).map_err(|e| format!("{e:?}"))?;
    Ok(pts.into_iter().map(|(x, y, on)| (x as i64, y as i64, on)).collect())
}

fn render(v: &[(i64, i64, bool)]) -> String {
    let mut out = vec![];
    for (x, y, on) in v {
        out.push(x.to_string());
        out.push(y.to_string());
        out.push((*on as u8).to_string());
    }
    if out.is_empty() {
        "-".into()
    } else {
        out.join(" ")
    }
}

/// the request line of one glyph (without the side prefix)
fn request(f: &PFont, g: &PGlyph, ppem: u32, mode: Mode) -> String {
    let scale = unsafe { FT_DivFix((ppem as c_long) * 64, f.upem as c_long) } as i64;
    let sc = |v: i64| unsafe { FT_MulFix(v as c_long, scale as c_long) } as i64;
    let mut v: Vec<i64> = vec![mode.bc() as i64, mode.code() as i64, ppem as i64, scale, 0, g.pts.len() as i64];
    // glyph zone incl. the four phantom points (never referenced by the generated programs): pp1 is the
    // origin, pp2 the rounded advance; the vertical ones are not needed
    v.push(g.pts.len() as i64 + 4);
    for (x, y, on) in &g.pts {
        let (ox, oy) = (sc(*x as i64), sc(*y as i64));
        v.extend([ox, oy, ox, oy, *x as i64, *y as i64, *on as i64]);
    }
    // the four phantom points as SCALED, UNROUNDED values (tt_loader_set_pp / setup_phantom_points, then
    // scaling): pp1 = origin (lsb = xMin), pp2 = advance, pp3 / pp4 from the hhea ascender / descender (no OS/2,
    // no vmtx) with x = advance / 2 under grayscale subpixel hinting (the normal target).  Each model derives the
    // (original, current) pair the interpreter starts with itself (`hintPhantom`: copy first, round second).
    let adv = (f.upem / 2 + 37) as i64;
    let up = f.upem as i16;
    let (asc, desc) = ((up / 5 * 4) as i64, (-up / 5) as i64);
    let vx = if mode == Mode::Normal { adv / 2 } else { 0 };
    for (ux, uy) in [(0, 0), (adv, 0), (vx, asc), (vx, desc)] {
        v.extend([sc(ux), sc(uy), sc(ux), sc(uy), ux, uy, 1]);
    }
    v.push(N_TWI as i64);
    for _ in 0..N_TWI {
        v.extend([0, 0, 0, 0]);
    }
    v.push(g.ends.len() as i64);
    v.extend(g.ends.iter().map(|e| *e as i64));
    v.push(N_CVT as i64);
    // cvt in font units: each model scales it the way its code base does at size setup
    for i in 0..N_CVT {
        v.push(*f.cvt.get(i).unwrap_or(&0) as i64);
    }
    v.push(g.ops.len() as i64);
    for (o, imm) in &g.ops {
        v.push(*o as i64);
        v.push(*imm as i64);
    }
    if !f.prep.is_empty() {
        v.push(f.prep.len() as i64);
        for (o, imm) in &f.prep {
            v.push(*o as i64);
            v.push(*imm as i64);
        }
    }
    v.iter().map(|x| x.to_string()).collect::<Vec<_>>().join(" ")
}

/// one synchronous question to the Lean driver (used only to label a real difference between the two
/// interpreters: `rng.run` runs both MODELS in lock step and names the first instruction they split at)
fn ask_driver(cfg: &Config, line: &str) -> String {
    use std::io::Write;
    use std::process::{Command, Stdio};
    let Ok(mut child) = Command::new(&cfg.driver).stdin(Stdio::piped()).stdout(Stdio::piped()).stderr(Stdio::null()).spawn() else {
        return "driver-unavailable".into();
    };
    {
        let mut stdin = child.stdin.take().unwrap();
        let _ = stdin.write_all(line.as_bytes());
        let _ = stdin.write_all(b"\n");
    }
    match child.wait_with_output() {
        Ok(o) => String::from_utf8_lossy(&o.stdout).lines().next().unwrap_or("").to_string(),
        Err(_) => "driver-unavailable".into(),
    }
}

/// the instructions whose result is a product or quotient of two operands: with operands beyond 2^14
/// FreeType's 64-bit intermediate and skrifa's 32-bit one legitimately differ (outside the ranges of the
/// theorems); a split at any other instruction, or with small operands, is reported
fn beyond_32bit(split: &str) -> Option<&'static str> {
    let t: Vec<i64> = split.split(' ').filter_map(|x| x.parse().ok()).collect();
    if t.len() != 3 {
        return None;
    }
    let (op, maxabs) = (t[1], t[2]);
    let name = match op {
        0x0F => "isect",
        0x39 => "ip",
        0x62 => "div",
        0x63 => "mul",
        _ => return None,
    };
    (maxabs > (1 << 14)).then_some(name)
}

pub fn run_font(cfg: &Config, s: &mut Session, lib: &freetype::Library, f: &PFont, name: &str, ppem: u32, mode: Mode, recorded: &mut usize) {
    let data = build(f);
    for (gi, g) in f.glyphs.iter().enumerate() {
        let gid = gi as u32 + 1;
        let ft = ft_points(lib, &data, gid, ppem, mode);
        let sk = catch(|| sk_points(&data, gid, ppem, mode));
        let req = request(f, g, ppem, mode);
        for k in g.label.split(',') {
            if !k.is_empty() {
                s.count(&format!("prog:kind:{k}"));
            }
        }
        s.count(&format!("prog:mode:{mode:?}"));
        let Some(ft) = ft else {
            s.oracle("prog:freetype-loads-glyph", false, || format!("{name} gid {gid} {mode:?}"), || "load failed".into());
            continue;
        };
        let ft_s = render(&ft);
        s.case("ft.run", format!("ft.run {req}"), ft_s.clone());
        let sk_s = match &sk {
            Ok(Ok(v)) => render(v),
            Ok(Err(e)) => format!("err:{e}"),
            Err(_) => "trap".into(),
        };
        s.case("sk.run", format!("sk.run {req}"), sk_s.clone());
        // outside the ranges of the theorems (a coordinate beyond 2^29) skrifa's i32 and FreeType's long may differ
        let in_range = ft.iter().all(|(x, y, _)| x.abs() < (1 << 29) && y.abs() < (1 << 29));
        if !in_range {
            s.count("prog:result-beyond-2^29");
            continue;
        }
        let ok = ft_s == sk_s;
        let mut split = String::new();
        if !ok {
            split = ask_driver(cfg, &format!("rng.run {req}"));
            if let Some(opname) = beyond_32bit(&split) {
                s.count(&format!("prog:operands-beyond-32bit-range:{opname}"));
                continue;
            }
        }
        if ok || *recorded < 40 {
            s.oracle("prog:skrifa==FreeType-interpreter", ok, || format!("font={name} gid={gid} ppem={ppem} mode={mode:?} case=[{}] ops={:?}", g.label, g.ops), || format!("models split at [{split}] skrifa {sk_s} freetype {ft_s}"));
            if !ok {
                *recorded += 1;
            }
        } else {
            s.count("prog:further-failures-not-recorded");
        }
    }
}

/// directed programs (not random): situations the random generator avoids or rarely reaches
fn directed(bc: bool) -> Vec<PGlyph> {
    let mut v = vec![];
    let sq = |d: i16| -> (Vec<(i16, i16, bool)>, Vec<usize>) {
        (vec![(0, 0, true), (300 + d, 10, true), (320, 400 - d, true), (-20, 380, true), (100, 100, true), (200, 120, true), (190, 250, true), (90, 240, true)], vec![3, 7])
    };
    if bc {
        // FLIPPT after both IUPs in backward compatibility mode is blocked; what happens to its arguments?
        // `PUSH 5; PUSH 1; FLIPPT; PUSH 0 2 1 3; ISECT`: the point ISECT moves is the cell below its four
        // line points: 1 if the blocked FLIPPT left its argument on the stack, 5 if it popped it
        for k in [1, 2] {
            let (pts, ends) = sq(7);
            let mut ops: Vec<AOp> = vec![(IUP_X as u16, 0), (IUP_Y as u16, 0), (PUSH, 5)];
            if k == 2 {
                ops.extend([(PUSH, 2), (SLOOP as u16, 0), (PUSH, 6)]);
            }
            ops.extend([(PUSH, 1), (FLIPPT as u16, 0)]);
            ops.extend([(PUSH, 0), (PUSH, 2), (PUSH, 1), (PUSH, 3), (ISECT as u16, 0)]);
            v.push(PGlyph { pts, ends, ops, label: format!("directed:flippt-blocked-then-isect loop={k}"), cvt_used: false });
        }
    }
    v
}

/// SCANCTRL in the prep: the scan-control flag it leaves.  FreeType: `TT_Load_Glyph` sets
/// `FT_OUTLINE_IGNORE_DROPOUTS` (0x8) on the outline iff `GS.scan_control` is false; skrifa: the retained
/// graphics state of the hinting instance (hook `verif_state`).  An empty glyph program is used so that the
/// flag is the prep's.
fn scan_control(s: &mut Session, lib: &freetype::Library, f: &PFont, ppem: u32, mode: Mode) {
    let probe = PGlyph { pts: vec![(0, 0, true), (100, 0, true), (50, 80, true)], ends: vec![2], ops: vec![], label: String::new(), cvt_used: false };
    let pf = PFont { upem: f.upem, cvt: f.cvt.clone(), glyphs: vec![probe.clone()], prep: f.prep.clone() };
    let data = build(&pf);
    let req = request(&pf, &probe, ppem, mode);
    let ft: Option<bool> = (|| {
        use freetype::face::LoadFlag;
        let face = lib.new_memory_face2(data.clone(), 0).ok()?;
        face.set_pixel_sizes(ppem, ppem).ok()?;
        face.load_glyph(1, LoadFlag::NO_BITMAP | LoadFlag::NO_AUTOHINT | mode.freetype()).ok()?;
        Some(face.glyph().raw().outline.flags & 0x8 == 0)
    })();
    let sk: Option<bool> = (|| {
        let font = FontRef::new(&data).ok()?;
        let outlines = font.outline_glyphs();
        let h = HintingInstance::new(&outlines, Size::new(ppem as f32), LocationRef::default(), HintingOptions { engine: Engine::Interpreter, target: mode.skrifa() }).ok()?;
        let st = h.verif_state();
        if st.contains("scan_control: true") {
            Some(true)
        } else if st.contains("scan_control: false") {
            Some(false)
        } else {
            None
        }
    })();
    let show = |v: Option<bool>| match v {
        Some(true) => "1".to_string(),
        Some(false) => "0".to_string(),
        None => "unavailable".to_string(),
    };
    s.case("ft.scan", format!("ft.scan {req}"), show(ft));
    s.case("sk.scan", format!("sk.scan {req}"), show(sk));
    s.count(&format!("prog:scan-control:{}", show(ft)));
    s.oracle("prog:scan_control==FreeType", ft == sk && ft.is_some(), || format!("prep={:?} ppem={ppem} mode={mode:?}", f.prep), || format!("skrifa {sk:?} freetype {ft:?}"));
}

pub fn run(cfg: &Config, s: &mut Session) {
    normalize_kernels(cfg, s);
    let mut rng = Rng::new(cfg.seed ^ 0x9406);
    let lib = freetype::Library::init().unwrap();
    for bc in [false, true] {
        let f = PFont { upem: 1024, cvt: vec![0; N_CVT], glyphs: directed(bc), prep: vec![] };
        if !f.glyphs.is_empty() {
            let mut rec = 0;
            run_font(cfg, s, &lib, &f, &format!("c03_prog_directed_{}", if bc { "bc" } else { "mono" }), 16, if bc { Mode::Normal } else { Mode::Mono }, &mut rec);
        }
    }
    let n_glyphs = if cfg.thorough() { 30000 } else { 5000 };
    let mut recorded = 0usize;
    let cvt: Vec<i16> = (0..N_CVT as i32).map(|i| match i % 8 {
        0 => 0,
        1 => 64 + i as i16,
        2 => -(37 + 3 * i as i16),
        3 => 300 + 11 * i as i16,
        4 => -(500 - i as i16),
        5 => i as i16,
        6 => 1000 + 17 * i as i16,
        _ => -(64 * (i as i16 % 5)),
    }).collect();
    for (upem, ppem, label) in [(1024u16, 16u32, "s1"), (1000, 13, "frac")] {
        for bc in [false, true] {
            let count = if upem == 1024 { n_glyphs } else { n_glyphs / 3 };
            let glyphs: Vec<PGlyph> = (0..count).map(|i| gen_glyph(&mut rng, bc, i)).collect();
            let f = PFont { upem, cvt: cvt.clone(), glyphs, prep: vec![] };
            let name = format!("c03_prog_{label}_{}", if bc { "bc" } else { "mono" });
            if bc {
                run_font(cfg, s, &lib, &f, &name, ppem, Mode::Normal, &mut recorded);
                // the other smooth targets differ only in GETINFO: a slice of the font
                let few = PFont { upem, cvt: cvt.clone(), glyphs: f.glyphs.iter().filter(|g| g.label.contains("info")).take(60).cloned().collect(), prep: vec![] };
                for m in [Mode::Light, Mode::Lcd, Mode::VLcd] {
                    run_font(cfg, s, &lib, &few, &format!("{name}_info"), ppem, m, &mut recorded);
                }
            } else {
                run_font(cfg, s, &lib, &f, &name, ppem, Mode::Mono, &mut recorded);
            }
        }
    }
    // SCANCTRL threshold logic: every flag bit against thresholds at ppem - 1, ppem, ppem + 1, 0 and 0xFF
    for (upem, ppem) in [(1024u16, 16i32), (1000, 13)] {
        for flags in [0x000, 0x100, 0x800, 0x900, 0x200, 0x400, 0x1000, 0x2000, 0x3F00] {
            for thr in [0, 1, ppem - 1, ppem, ppem + 1, 0xFE, 0xFF] {
                for pre in [None, Some(0xFF), Some(0)] {
                    let mut prep: Vec<AOp> = vec![];
                    if let Some(p0) = pre {
                        prep.extend([(PUSH, p0), (SCANCTRL as u16, 0)]);
                    }
                    prep.extend([(PUSH, flags | thr), (SCANCTRL as u16, 0)]);
                    let f = PFont { upem, cvt: cvt.clone(), glyphs: vec![], prep };
                    scan_control(s, &lib, &f, ppem as u32, Mode::Mono);
                }
            }
        }
    }
    // fonts with a control value program: the retained graphics state, the cvt, the twilight zone and the
    // backward-compatibility switch (INSTCTRL selector 3) the glyph programs start from
    let n_fonts = if cfg.thorough() { 400 } else { 60 };
    for i in 0..n_fonts {
        let bc = i % 2 == 1;
        let (upem, ppem) = if i % 5 == 4 { (1000u16, 13u32) } else { (1024, 16) };
        let (prep, plabel) = gen_prep(&mut rng);
        for k in plabel.split(',') {
            if !k.is_empty() {
                s.count(&format!("prog:kind:{k}"));
            }
        }
        let glyphs: Vec<PGlyph> = (0..25).map(|j| gen_glyph(&mut rng, bc, j)).collect();
        let f = PFont { upem, cvt: cvt.clone(), glyphs, prep };
        let mode = if !bc { Mode::Mono } else { *rng.pick(&[Mode::Normal, Mode::Normal, Mode::Light, Mode::Lcd, Mode::VLcd]) };
        run_font(cfg, s, &lib, &f, &format!("c03_prog_prep_{i}"), ppem, mode, &mut recorded);
        scan_control(s, &lib, &f, ppem, mode);
    }
}
