//! Layer L — interpreter CONTROL FLOW, both transcriptions against both real interpreters.
//!
//! Lean side: `Model/FtControl.lean` (FreeType 2.12.1 `TT_RunIns` and the control instructions), C02's
//! `Model/Interp.lean` (skrifa `Engine::run` …) with the data subset of `Model/HintControl.lean`, the side
//! conditions of `Model/CtlCompare.lean`; driver commands `sk.ctl`, `ft.ctl`, `cmp.ctl` (Drv/C03Control.lean).
//!
//! Every case is a font (1024 units per em, 16 ppem: scale exactly 1.0, Target::Mono) with generated fpgm /
//! prep / glyph programs over the control opcodes (IF ELSE EIF JMPR JROT JROF FDEF IDEF ENDF CALL LOOPCALL,
//! undefined opcodes) and a small data subset; the programs write what they see (top of stack, stack depth,
//! storage) into x coordinates of glyph points with SCFS, so the outcome, the final points and (for errors) the
//! kind are observable through the public loaders:
//!   * skrifa: `HintingInstance::new` (fpgm, prep) and the hook `verif_hinted_points` (non-pedantic: points as they
//!     were when the program stopped; pedantic: the `HintErrorKind`),
//!   * FreeType: `FT_Load_Glyph` return code and outline, without and with `FT_LOAD_PEDANTIC`.
//! Correspondence: `sk.ctl` / `ft.ctl` in both modes.  Oracle (real vs real): whenever the lock-step run of the two
//! MODELS (`cmp.ctl`) meets no side-condition clause, the two real interpreters must agree; a clause that fires is
//! counted by name; a model divergence without a clause is a failure.  Directed programs pin every known
//! deviation (oracle `ctl:directed…`, listed in known_findings.d/C03.json when it is a real difference).
//! The program generators are copies of C02's control-subset generators (harness/src/bin/c02.rs), adapted.
use crate::fvlib::common::*;
use read_fonts::tables::glyf::CurvePoint;
use skrifa::outline::{DrawError, Engine, HintingInstance, HintingOptions, Target};
use skrifa::prelude::*;
use skrifa::raw::FontRef;
use skrifa::MetadataProvider;
use std::io::Write;
use std::process::{Command, Stdio};
use write_fonts::tables::glyf::{Bbox, Contour, GlyfLocaBuilder, Glyph, SimpleGlyph};
use write_fonts::tables::{head::Head, hhea::Hhea, hmtx::Hmtx, hmtx::LongMetric, maxp::Maxp};

#[derive(Clone, Debug)]
pub struct Case {
    pub max_stack: u16,
    pub n_funcs: u16,
    pub n_idefs: u16,
    pub n_cvt: u16,
    pub n_pts: u16,
    pub n_sto: u16,
    pub fpgm: Vec<u8>,
    pub prep: Vec<u8>,
    pub glyph: Vec<u8>,
    pub label: String,
}

fn xs_of(n: u16) -> Vec<i16> {
    (0..n as i16).map(|i| 100 + 37 * (i % 7) + 5 * i).collect()
}

fn build(c: &Case) -> Vec<u8> {
    let xs = xs_of(c.n_pts);
    let pts: Vec<CurvePoint> = xs.iter().enumerate().map(|(i, x)| CurvePoint::on_curve(*x, if i % 2 == 0 { 50 + 3 * i as i16 } else { 600 - 2 * i as i16 })).collect();
    let contour: Contour = pts.into();
    let mut sg = SimpleGlyph { bbox: Bbox::default(), contours: vec![contour], instructions: c.glyph.clone() };
    sg.recompute_bounding_box();
    let xmin = sg.bbox.x_min;
    let mut b = GlyfLocaBuilder::new();
    b.add_glyph(&Glyph::Empty).unwrap();
    b.add_glyph(&sg).unwrap();
    let (glyf, loca, fmt) = b.build();
    let head = Head { units_per_em: 1024, index_to_loc_format: fmt as i16, magic_number: 0x5F0F3CF5, ..Default::default() };
    let maxp = Maxp {
        num_glyphs: 2,
        max_points: Some(c.n_pts),
        max_contours: Some(1),
        max_composite_points: Some(0),
        max_composite_contours: Some(0),
        max_zones: Some(2),
        max_twilight_points: Some(4),
        max_storage: Some(c.n_sto),
        max_function_defs: Some(c.n_funcs),
        max_instruction_defs: Some(c.n_idefs),
        max_stack_elements: Some(c.max_stack),
        max_size_of_instructions: Some(c.glyph.len().max(c.prep.len()).min(65535) as u16),
        max_component_elements: Some(0),
        max_component_depth: Some(0),
    };
    let hhea = Hhea { number_of_h_metrics: 2, ascender: 800.into(), descender: (-200).into(), ..Default::default() };
    // left side bearing = xMin: pp1 = (0, 0), nothing is shifted after hinting
    let hmtx = Hmtx::new(vec![LongMetric::new(512, 0), LongMetric::new(640, xmin)], vec![]);
    let mut fb = write_fonts::FontBuilder::new();
    fb.add_table(&head).unwrap();
    fb.add_table(&maxp).unwrap();
    fb.add_table(&hhea).unwrap();
    fb.add_table(&hmtx).unwrap();
    fb.add_table(&glyf).unwrap();
    fb.add_table(&loca).unwrap();
    if !c.fpgm.is_empty() {
        fb.add_raw(read_fonts::types::Tag::new(b"fpgm"), c.fpgm.clone());
    }
    if !c.prep.is_empty() {
        fb.add_raw(read_fonts::types::Tag::new(b"prep"), c.prep.clone());
    }
    if c.n_cvt > 0 {
        fb.add_raw(read_fonts::types::Tag::new(b"cvt "), vec![0u8; c.n_cvt as usize * 2]);
    }
    fb.build()
}

fn kind_text(e: &DrawError) -> String {
    match e {
        DrawError::HintingFailed(h) => {
            let kind = format!("{:?}", h.kind);
            let kind = kind.split('(').next().unwrap_or("").to_string();
            match kind.as_str() {
                "InvalidPointIndex" => "Data1".into(),
                "InvalidStorageIndex" => "Data2".into(),
                _ => kind,
            }
        }
        other => format!("other:{other:?}"),
    }
}

fn render_xs(xs: &[i64]) -> String {
    if xs.is_empty() {
        "ok -".into()
    } else {
        format!("ok {}", xs.iter().map(|x| x.to_string()).collect::<Vec<_>>().join(" "))
    }
}

/// skrifa through the public constructor and the hinted-points hook
fn sk_observe(data: &[u8], n_pts: usize, pedantic: bool) -> String {
    let font = match FontRef::new(data) {
        Ok(f) => f,
        Err(e) => return format!("font-failed {e}"),
    };
    let outlines = font.outline_glyphs();
    let inst = match HintingInstance::new(&outlines, Size::new(16.0), LocationRef::default(), HintingOptions { engine: Engine::Interpreter, target: Target::Mono }) {
        Ok(i) => i,
        Err(e) => return format!("err:new:{}", kind_text(&e)),
    };
    let Some(g) = outlines.get(GlyphId::new(1)) else { return "no-glyph".into() };
    match inst.verif_hinted_points(&g, pedantic) {
        Ok((pts, _, _)) => render_xs(&pts.iter().take(n_pts).map(|p| p.0 as i64).collect::<Vec<_>>()),
        Err(e) => format!("err:draw:{}", kind_text(&e)),
    }
}

/// FreeType through `FT_Load_Glyph`
fn ft_observe(lib: &freetype::Library, data: &[u8], n_pts: usize, pedantic: bool) -> String {
    let Ok(face) = lib.new_memory_face2(data.to_vec(), 0) else { return "face-failed".into() };
    if face.set_pixel_sizes(16, 16).is_err() {
        return "size-failed".into();
    }
    // FT_LOAD_NO_BITMAP | FT_LOAD_NO_AUTOHINT | FT_LOAD_TARGET_MONO | FT_LOAD_PEDANTIC
    let mut flags: i32 = 0x8 | 0x8000 | (2 << 16);
    if pedantic {
        flags |= 0x80;
    }
    let mut raw_face = face.raw() as *const freetype::ffi::FT_FaceRec as *mut freetype::ffi::FT_FaceRec;
    let rc = unsafe { freetype::ffi::FT_Load_Glyph(raw_face, 1, flags) };
    let _ = &mut raw_face;
    if rc != 0 {
        return format!("err:{rc}");
    }
    let raw = face.glyph().raw();
    let o = &raw.outline;
    let n = o.n_points as usize;
    let pts = unsafe { std::slice::from_raw_parts(o.points, n) };
    render_xs(&pts.iter().take(n_pts).map(|p| p.x as i64).collect::<Vec<_>>())
}

fn request(c: &Case) -> String {
    let mut v: Vec<i64> = vec![c.n_pts as i64, c.n_cvt as i64, c.n_sto as i64, c.max_stack as i64, c.n_funcs as i64, c.n_idefs as i64, 2];
    v.extend(xs_of(c.n_pts).iter().map(|x| *x as i64));
    // phantom points: pp1 at the origin, pp2 at the rounded advance (640 units = 10 px), vertical ones unused
    v.extend([0, 640, 0, 0]);
    for p in [&c.fpgm, &c.prep, &c.glyph] {
        v.push(p.len() as i64);
        v.extend(p.iter().map(|b| *b as i64));
    }
    v.iter().map(|x| x.to_string()).collect::<Vec<_>>().join(" ")
}

fn query_driver(cfg: &Config, reqs: &[String]) -> Vec<String> {
    let Ok(mut child) = Command::new(&cfg.driver).stdin(Stdio::piped()).stdout(Stdio::piped()).stderr(Stdio::null()).spawn() else {
        return vec![];
    };
    let mut stdin = child.stdin.take().unwrap();
    let buf: Vec<u8> = reqs.iter().flat_map(|r| r.bytes().chain(std::iter::once(b'\n'))).collect();
    let w = std::thread::spawn(move || {
        let _ = stdin.write_all(&buf);
    });
    let out = child.wait_with_output().map(|o| String::from_utf8_lossy(&o.stdout).to_string()).unwrap_or_default();
    let _ = w.join();
    out.lines().map(|l| l.to_string()).collect()
}

// ------------------------------------------------------------------------------------------------
// program generators (copied from harness/src/bin/c02.rs, control subset; data opcodes restricted to the
// subset both data models implement; observation markers added)
// ------------------------------------------------------------------------------------------------

const OP_ELSE: u8 = 0x1B;
const OP_JMPR: u8 = 0x1C;
const OP_DUP: u8 = 0x20;
const OP_POP: u8 = 0x21;
const OP_SWAP: u8 = 0x23;
const OP_DEPTH: u8 = 0x24;
const OP_LOOPCALL: u8 = 0x2A;
const OP_CALL: u8 = 0x2B;
const OP_FDEF: u8 = 0x2C;
const OP_ENDF: u8 = 0x2D;
const OP_WS: u8 = 0x42;
const OP_RS: u8 = 0x43;
const OP_SCFS: u8 = 0x48;
const OP_IF: u8 = 0x58;
const OP_EIF: u8 = 0x59;
const OP_ADD: u8 = 0x60;
const OP_SUB: u8 = 0x61;
const OP_JROT: u8 = 0x78;
const OP_JROF: u8 = 0x79;
const OP_IDEF: u8 = 0x89;
const DATA_OPS: [u8; 16] = [0x20, 0x21, 0x22, 0x23, 0x24, 0x60, 0x61, 0x65, 0x50, 0x53, 0x54, 0x5A, 0x5B, 0x5C, 0x18, 0x4D];
const UNKNOWN_OPS: [u8; 9] = [0x28, 0x7B, 0x83, 0x84, 0x8F, 0x90, 0x93, 0xAF, 0x91];

fn push_val(out: &mut Vec<u8>, v: i32) {
    if (0..=255).contains(&v) {
        out.extend_from_slice(&[0xB0, v as u8]);
    } else {
        let w = v as i16 as u16;
        out.extend_from_slice(&[0xB8, (w >> 8) as u8, w as u8]);
    }
}

fn push_w(out: &mut Vec<u8>, v: i32) {
    let w = v as i16 as u16;
    out.extend_from_slice(&[0xB8, (w >> 8) as u8, w as u8]);
}

fn small(rng: &mut Rng) -> i32 {
    match rng.below(10) {
        0 => 0,
        1 => 1,
        2 => -1,
        3 => rng.range(-3, 8) as i32,
        4 => rng.range(-2000, 2000) as i32,
        _ => rng.range(0, 6) as i32,
    }
}

/// where observation markers may write: glyph points (`Some(n)`: glyph program) or storage slots (fpgm / prep)
#[derive(Clone, Copy)]
struct Obs {
    pts: Option<u16>,
    sto: u16,
}

/// write the top of the stack (kept) or the stack depth into a point / storage slot
fn marker(rng: &mut Rng, out: &mut Vec<u8>, o: Obs) {
    let depth = rng.chance(1, 2);
    out.push(if depth { OP_DEPTH } else { OP_DUP });
    match o.pts {
        Some(n) if n > 0 => {
            push_val(out, rng.below(n as u64) as i32);
            out.extend_from_slice(&[OP_SWAP, OP_SCFS]);
        }
        _ if o.sto > 0 => {
            push_val(out, rng.below(o.sto as u64) as i32);
            out.extend_from_slice(&[OP_SWAP, OP_WS]);
        }
        _ => out.push(OP_POP),
    }
}

fn gen_block(rng: &mut Rng, out: &mut Vec<u8>, len: usize, depth: u32, keys: &[i32], o: Obs) {
    for _ in 0..len {
        match rng.below(100) {
            0..=21 => push_val(out, small(rng)),
            22..=24 => {
                let n = rng.below(5) as usize;
                match rng.below(3) {
                    0 => {
                        out.extend_from_slice(&[0x40, n as u8]);
                        for _ in 0..n {
                            out.push(rng.below(7) as u8);
                        }
                    }
                    1 => {
                        out.extend_from_slice(&[0x41, n as u8]);
                        for _ in 0..n {
                            let w = small(rng) as i16 as u16;
                            out.extend_from_slice(&[(w >> 8) as u8, w as u8]);
                        }
                    }
                    _ => {
                        let k = rng.below(8) as u8;
                        out.push(0xB0 + k);
                        for _ in 0..=k {
                            out.push(rng.below(6) as u8);
                        }
                    }
                }
            }
            25..=36 => marker(rng, out, o),
            37..=49 => out.push(*rng.pick(&DATA_OPS)),
            50..=59 if depth < 4 => {
                if rng.chance(9, 10) {
                    push_val(out, rng.below(2) as i32);
                }
                out.push(OP_IF);
                let n = rng.below(4) as usize;
                gen_block(rng, out, n, depth + 1, keys, o);
                if rng.chance(1, 2) {
                    out.push(OP_ELSE);
                    let n = rng.below(4) as usize;
                    gen_block(rng, out, n, depth + 1, keys, o);
                }
                if rng.chance(9, 10) {
                    out.push(OP_EIF);
                }
            }
            60..=69 => {
                if rng.chance(19, 20) {
                    push_val(out, *rng.pick(keys));
                }
                out.push(OP_CALL);
            }
            70..=75 => {
                push_val(out, rng.range(-1, 5) as i32);
                push_val(out, *rng.pick(keys));
                out.push(OP_LOOPCALL);
            }
            76..=85 => {
                let off = match rng.below(8) {
                    0 => 0,
                    1 => 1,
                    2 => rng.range(-12, -1) as i32,
                    3 => rng.range(-300, 300) as i32,
                    _ => rng.range(2, 9) as i32,
                };
                push_val(out, off);
                match rng.below(3) {
                    0 => out.push(OP_JMPR),
                    1 => {
                        push_val(out, rng.below(2) as i32);
                        out.push(OP_JROT)
                    }
                    _ => {
                        push_val(out, rng.below(2) as i32);
                        out.push(OP_JROF)
                    }
                }
            }
            86..=88 => out.push(*rng.pick(&[OP_ELSE, OP_EIF, OP_ENDF, OP_IF])),
            89..=91 => out.push(*rng.pick(&UNKNOWN_OPS)),
            _ => out.push(*rng.pick(&DATA_OPS)),
        }
    }
}

/// a cushion of values so that random data opcodes rarely underflow
fn cushion(rng: &mut Rng, out: &mut Vec<u8>) {
    let n = 3 + rng.below(6) as usize;
    out.extend_from_slice(&[0x40, n as u8]);
    for _ in 0..n {
        out.push(rng.below(5) as u8);
    }
}

fn gen_def_program(rng: &mut Rng, keys: &[i32], n_defs: usize, body: usize, o: Obs, clean_exit: bool) -> Vec<u8> {
    let mut out = vec![];
    for _ in 0..n_defs {
        let idef = rng.chance(1, 5);
        if idef {
            push_val(&mut out, *rng.pick(&UNKNOWN_OPS) as i32);
            out.push(OP_IDEF);
        } else {
            if rng.chance(29, 30) {
                push_val(&mut out, *rng.pick(keys));
            }
            out.push(OP_FDEF);
        }
        let n = rng.below(6) as usize;
        gen_block(rng, &mut out, n, 1, keys, o);
        match rng.below(30) {
            0 => {}
            1 => out.push(OP_FDEF),
            2 => out.push(OP_IDEF),
            _ => out.push(OP_ENDF),
        }
    }
    if body > 0 {
        cushion(rng, &mut out);
        gen_block(rng, &mut out, body, 0, keys, o);
    }
    if rng.chance(1, 16) {
        out.extend_from_slice(match rng.below(3) {
            0 => &[0xB8, 0x01][..],
            1 => &[0x40, 5, 1][..],
            _ => &[0x41][..],
        });
    } else if clean_exit {
        // leave nothing on the stack (skrifa hands the font program's stack to the control value program)
        out.push(0x22);
    }
    out
}

/// `PUSH n ; L: PUSH 1; SUB; DUP; PUSHW off; SWAP; JROT` — counted loop with exactly n-1 backward jumps taken
fn counted_loop(out: &mut Vec<u8>, n: i32, body: &[u8]) {
    push_w(out, n);
    let top = out.len();
    out.extend_from_slice(body);
    out.extend_from_slice(&[0xB0, 1, OP_SUB, OP_DUP]);
    let jrot_pc = out.len() + 4;
    push_w(out, top as i32 - jrot_pc as i32);
    out.extend_from_slice(&[OP_SWAP, OP_JROT, OP_POP]);
}

fn fdef(out: &mut Vec<u8>, key: i32, body: &[u8]) {
    push_val(out, key);
    out.push(OP_FDEF);
    out.extend_from_slice(body);
    out.push(OP_ENDF);
}

fn call(out: &mut Vec<u8>, key: i32) {
    push_val(out, key);
    out.push(OP_CALL);
}

/// glyph-program prologue: copy the storage slots the control value program wrote into points
fn storage_to_points(out: &mut Vec<u8>, n_sto: u16, n_pts: u16) {
    for k in 0..n_sto.min(n_pts) {
        push_val(out, k as i32);
        push_val(out, k as i32);
        out.extend_from_slice(&[OP_RS, OP_SCFS]);
    }
}

/// `point k := counter` marker with a constant
fn mark_const(out: &mut Vec<u8>, k: i32, v: i32) {
    push_val(out, k);
    push_val(out, v);
    out.push(OP_SCFS);
}

fn gen_case(rng: &mut Rng, i: usize) -> Case {
    let mut c = Case {
        max_stack: *rng.pick(&[0u16, 2, 8, 24, 24, 64]),
        n_funcs: rng.below(7) as u16,
        n_idefs: rng.below(3) as u16,
        n_cvt: *rng.pick(&[0u16, 0, 1, 7, 40]),
        n_pts: *rng.pick(&[3u16, 5, 9]),
        n_sto: *rng.pick(&[0u16, 2, 4, 4]),
        fpgm: vec![],
        prep: vec![],
        glyph: vec![],
        label: String::new(),
    };
    let keys: Vec<i32> = vec![0, 1, 2, 3, 0, 1, rng.range(-2, 9) as i32, *rng.pick(&[5, 6, 100, -1, 255])];
    // FreeType 2.12.1: min(formula, 100 * numGlyphs) with numGlyphs = 2
    let lim_sk_fc = 300 + 22 * c.n_cvt as i32;
    let lim_sk_g = ((c.n_pts as i32 + 4) * 10).max(50) + (c.n_cvt as i32 / 10).max(50);
    let lim_ft = 200;
    let og = Obs { pts: Some(c.n_pts), sto: c.n_sto };
    let op = Obs { pts: None, sto: c.n_sto };
    match i % 16 {
        0 => {
            // counted backward loop at one of the budget boundaries (skrifa's, FreeType's), fpgm or prep
            let base = *rng.pick(&[lim_sk_fc, lim_ft]);
            let n = base + rng.range(-1, 2) as i32 + 1;
            let mut p = vec![];
            counted_loop(&mut p, n, &[]);
            if rng.chance(1, 2) {
                c.fpgm = p
            } else {
                c.prep = p
            }
            c.label = "budget-jump-fc".into();
        }
        1 => {
            let base = *rng.pick(&[lim_sk_g, lim_ft.min(lim_sk_g), 20]);
            let n = base + rng.range(-1, 2) as i32 + 1;
            let mut p = vec![];
            counted_loop(&mut p, n, &[]);
            mark_const(&mut p, 1, 77);
            c.glyph = p;
            c.label = "budget-jump-glyph".into();
        }
        2 => {
            // LOOPCALL budget: total iterations around a limit, split over two LOOPCALLs
            c.n_funcs = 2;
            let mut f = vec![];
            fdef(&mut f, 0, &[0x18]);
            let in_glyph = rng.chance(1, 2);
            let lim = if in_glyph { *rng.pick(&[lim_sk_g, lim_ft.min(lim_sk_g)]) } else { *rng.pick(&[lim_sk_fc, lim_ft]) };
            let total = lim + rng.range(-1, 1) as i32;
            let a = rng.range(0, total as i64) as i32;
            let mut p = vec![];
            push_w(&mut p, a);
            push_val(&mut p, 0);
            p.push(OP_LOOPCALL);
            push_w(&mut p, total - a + rng.range(0, 1) as i32);
            push_val(&mut p, 0);
            p.push(OP_LOOPCALL);
            c.fpgm = f;
            if in_glyph {
                mark_const(&mut p, 0, 55);
                c.glyph = p
            } else {
                c.prep = p
            }
            c.label = "budget-loopcall".into();
        }
        3 => {
            // call chain at the depth limit: f_k calls f_{k+1}; depth 31 / 32 / 33
            let depth = 31 + rng.below(3) as i32;
            c.n_funcs = (depth + 1) as u16;
            let mut f = vec![];
            for k in 0..depth {
                let mut body = vec![];
                if k + 1 < depth {
                    call(&mut body, k + 1);
                }
                fdef(&mut f, k, &body);
            }
            c.fpgm = f;
            let mut p = vec![];
            call(&mut p, 0);
            if rng.chance(1, 2) {
                c.prep = p
            } else {
                mark_const(&mut p, 2, 99);
                c.glyph = p
            }
            c.label = format!("call-depth-{depth}");
        }
        4 => {
            // self / mutual recursion
            c.n_funcs = 2;
            let mut f = vec![];
            let mut b0 = vec![];
            call(&mut b0, 1);
            let mut b1 = vec![];
            call(&mut b1, 0);
            fdef(&mut f, 0, &b0);
            fdef(&mut f, 1, &b1);
            c.fpgm = f;
            let mut p = vec![];
            mark_const(&mut p, 0, 11);
            call(&mut p, 0);
            mark_const(&mut p, 1, 22);
            c.glyph = p;
            c.label = "recursion".into();
        }
        5 if i % 1024 == 5 => {
            // exponential call tree: reaches the 1 000 000 instruction cap
            let depth = 19 + rng.below(2) as i32;
            c.n_funcs = (depth + 1) as u16;
            let mut f = vec![];
            fdef(&mut f, 0, &[0x18]);
            for k in 1..=depth {
                let mut body = vec![];
                call(&mut body, k - 1);
                call(&mut body, k - 1);
                fdef(&mut f, k, &body);
            }
            c.fpgm = f;
            let mut p = vec![];
            call(&mut p, depth);
            c.prep = p;
            c.label = "instruction-cap".into();
        }
        6 => {
            // value stack exactly full / overflow: capacity = max_stack + 32 on both sides
            let cap = c.max_stack as usize + 32;
            let n = cap + rng.below(3) as usize - 1;
            let mut p = vec![0x40, n.min(255) as u8];
            p.extend(std::iter::repeat(1u8).take(n.min(255)));
            p.push(OP_DEPTH);
            if rng.chance(1, 2) {
                p.push(OP_DUP);
            }
            p.push(0x22);
            mark_const(&mut p, 0, 5);
            c.glyph = p;
            c.label = "stack-capacity".into();
        }
        7 => {
            // definition slots: more FDEFs than slots, aliasing keys, negative / huge keys
            c.n_funcs = rng.below(4) as u16;
            let mut f = vec![];
            if rng.chance(1, 3) {
                // both tables have max(maxp, 64) slots: fill them to 62..=66 distinct keys
                c.n_funcs = *rng.pick(&[0u16, 3, 64, 65]);
                let n = 62 + rng.below(5) as i32;
                let base = *rng.pick(&[0, 1, 30]);
                for k in 0..n {
                    fdef(&mut f, base + if rng.chance(1, 8) { 200 + k } else { k }, &[0x18]);
                }
            }
            for _ in 0..rng.below(6) {
                let k = *rng.pick(&[0, 1, 2, 3, 7, -1, 300, 2, 0]);
                fdef(&mut f, k, &[0x18]);
            }
            for _ in 0..rng.below(4) {
                call(&mut f, *rng.pick(&[0, 1, 2, 3, 7, -1, 300]));
            }
            c.fpgm = f;
            c.label = "def-slots".into();
        }
        8 => {
            // FDEF without ENDF / nested definition, in fpgm or prep, then a CALL of it
            c.n_funcs = 2;
            let mut p = vec![];
            push_val(&mut p, 0);
            p.push(OP_FDEF);
            p.push(0x18);
            match rng.below(3) {
                0 => {}
                1 => p.extend_from_slice(&[0xB0, 1, OP_FDEF, OP_ENDF, OP_ENDF]),
                _ => p.extend_from_slice(&[0xB0, 0x83, OP_IDEF, OP_ENDF]),
            }
            if rng.chance(1, 2) {
                c.fpgm = p
            } else {
                c.prep = p
            }
            c.label = "def-malformed".into();
        }
        9 => {
            // IDEF of an undefined opcode (used from prep and glyph), of a DEFINED opcode, an undefined one without IDEF
            c.n_idefs = 1 + rng.below(2) as u16;
            let op_ = *rng.pick(&UNKNOWN_OPS[..8]);
            let defined = *rng.pick(&[OP_ADD, OP_DUP, 0x18]);
            let mut f = vec![];
            push_val(&mut f, op_ as i32);
            f.push(OP_IDEF);
            f.extend_from_slice(&[0xB0, 9]);
            f.push(OP_ENDF);
            if rng.chance(1, 2) {
                push_val(&mut f, defined as i32);
                f.push(OP_IDEF);
                f.extend_from_slice(&[0xB0, 3, 0xB0, 4]);
                f.push(OP_ENDF);
            }
            c.fpgm = f;
            let mut g = vec![0xB0, 1, 0xB0, 2, defined, op_];
            g.extend_from_slice(&[OP_DEPTH, 0xB0, 0, OP_SWAP, OP_SCFS, 0xB0, 1, OP_SWAP, OP_SCFS]);
            if rng.chance(1, 3) {
                g.push(*rng.pick(&UNKNOWN_OPS));
                mark_const(&mut g, 2, 9);
            }
            c.glyph = g;
            c.label = "idef".into();
        }
        10 => {
            // jumps into the middle of instructions: the operand bytes of a push are themselves opcodes
            let mut g = vec![];
            cushion(rng, &mut g);
            // PUSHB[2] <op> <op> <op>; later a backward jump lands on the second byte
            let inner: [u8; 3] = [*rng.pick(&[OP_DUP, OP_DEPTH, OP_POP, 0x18]), *rng.pick(&[OP_DUP, OP_ADD, OP_SWAP, OP_EIF]), *rng.pick(&[OP_POP, OP_DEPTH, 0x18])];
            let at = g.len();
            g.push(0xB2);
            g.extend_from_slice(&inner);
            g.extend_from_slice(&[OP_POP, OP_POP, OP_POP]);
            // first pass falls through to here; a flag in storage / on the stack is not available without storage,
            // so use a forward jump over the backward one the second time: IF guarded by DEPTH parity is enough
            mark_const(&mut g, 0, 1);
            let land = at as i32 + 1 + rng.below(3) as i32;
            let here = g.len() as i32 + 3; // after PUSHW
            push_w(&mut g, land - here);
            g.push(OP_JMPR);
            mark_const(&mut g, 1, 2);
            c.glyph = g;
            c.label = "jump-into-operands".into();
        }
        11 => {
            // truncated pushes at the very end, ill-nested IF / ELSE / EIF
            let mut g = vec![];
            cushion(rng, &mut g);
            mark_const(&mut g, 0, 3);
            match rng.below(6) {
                0 => g.extend_from_slice(&[0xB0, 0, OP_IF, 0xB0, 1, OP_IF, OP_EIF]),
                1 => g.extend_from_slice(&[0xB0, 1, OP_IF, OP_ELSE, OP_IF, OP_EIF]),
                2 => g.extend_from_slice(&[OP_ELSE, 0xB0, 7, OP_EIF, OP_EIF]),
                3 => g.extend_from_slice(&[0xB0, 0, OP_IF, OP_ELSE, OP_ELSE, 0xB0, 4, OP_EIF, 0xB0, 5]),
                4 => g.extend_from_slice(&[0xB0, 0, OP_IF, 0xB9, 1]),
                _ => g.extend_from_slice(&[0xB0, 0, OP_IF, 0x41, 3, 0, 1]),
            }
            marker(rng, &mut g, og);
            match rng.below(4) {
                0 => g.extend_from_slice(&[0xB8, 1]),
                1 => g.extend_from_slice(&[0x40, 4, 1]),
                2 => g.push(0x41),
                _ => {}
            }
            c.glyph = g;
            c.label = "ill-nested".into();
        }
        12 => {
            // glyph program: definition attempt, ENDF outside a call
            let mut g = vec![];
            cushion(rng, &mut g);
            mark_const(&mut g, 0, 8);
            if rng.chance(1, 2) {
                push_val(&mut g, 0);
                g.push(if rng.chance(1, 2) { OP_FDEF } else { OP_IDEF });
                g.push(OP_ENDF);
            } else {
                g.push(OP_ENDF);
            }
            mark_const(&mut g, 1, 9);
            c.fpgm = gen_def_program(rng, &keys, 2, 0, op, true);
            c.glyph = g;
            c.label = "glyph-def".into();
        }
        _ => {
            // random structured programs in all three places
            let (a, b) = (rng.below(5) as usize, rng.below(4) as usize);
            let fsto = if rng.chance(1, 8) { c.n_sto } else { 0 };
            let clean = rng.chance(7, 8);
            c.fpgm = gen_def_program(rng, &keys, a, b, Obs { pts: None, sto: fsto }, clean);
            if rng.chance(2, 3) {
                let (a, b) = (rng.below(2) as usize, rng.below(8) as usize);
                c.prep = gen_def_program(rng, &keys, a, b, op, false);
            }
            let mut g = vec![];
            storage_to_points(&mut g, c.n_sto, c.n_pts);
            cushion(rng, &mut g);
            let n = rng.below(10) as usize;
            gen_block(rng, &mut g, n, 0, &keys, og);
            c.glyph = g;
            c.label = "random".into();
        }
    }
    c
}

/// programs that pin the known deviations (and a few situations where the two agree although the code differs)
fn directed() -> Vec<Case> {
    let base = Case { max_stack: 16, n_funcs: 4, n_idefs: 1, n_cvt: 0, n_pts: 5, n_sto: 4, fpgm: vec![], prep: vec![], glyph: vec![], label: String::new() };
    let mut v = vec![];
    let mut add = |label: &str, fpgm: &[u8], prep: &[u8], glyph: &[u8]| {
        v.push(Case { fpgm: fpgm.to_vec(), prep: prep.to_vec(), glyph: glyph.to_vec(), label: label.into(), ..base.clone() });
    };
    // JMPR with offset 0 and a deeper stack: FreeType stays on the JMPR and takes the next cell (5) as offset and skips the first marker
    add("jmpr-zero-offset-deeper-stack", &[], &[], &[0xB1, 5, 0, OP_JMPR, 0xB1, 0, 11, OP_SCFS, 0xB1, 1, 22, OP_SCFS]);
    // JMPR with offset 0 and nothing else on the stack: both stop
    add("jmpr-zero-offset-empty-stack", &[], &[], &[0xB1, 0, 11, OP_SCFS, 0xB0, 0, OP_JMPR, 0xB1, 1, 22, OP_SCFS]);
    // AA: FreeType pops one cell, skrifa none
    add("aa-pops", &[], &[], &[0xB1, 7, 9, 0x7F, 0xB0, 0, OP_SWAP, OP_SCFS]);
    // DEBUG: FreeType stops with Debug_OpCode, skrifa pops and goes on
    add("debug-opcode", &[], &[], &[0xB1, 0, 11, OP_SCFS, 0xB0, 5, 0x4F, 0xB1, 1, 22, OP_SCFS]);
    // the control value program starts with the stack the font program left (skrifa) / an empty stack (FreeType)
    add("prep-inherits-fpgm-stack", &[0xB0, 7], &[OP_DEPTH, 0xB0, 0, OP_SWAP, OP_WS], &[0xB1, 0, 0, OP_RS, OP_SCFS]);
    // storage written by the font program survives into prep / glyph (skrifa), is cleared (FreeType)
    add("fpgm-storage-survives", &[0xB1, 1, 33, OP_WS], &[], &[0xB1, 0, 1, OP_RS, OP_SCFS]);
    // LOOPCALL with count 0 of an undefined function: FreeType Invalid_Reference, skrifa nothing
    add("loopcall-zero-count-undefined", &[], &[], &[0xB1, 0, 11, OP_SCFS, 0xB1, 0, 3, OP_LOOPCALL, 0xB1, 1, 22, OP_SCFS]);
    // backward jump to a negative address: FreeType Bad_Argument (the prep fails, no glyph loads), skrifa ends Ok
    add("jump-negative-target-prep", &[], &[0xB8, 0xFF, 0x9C, OP_JMPR], &[0xB1, 0, 11, OP_SCFS]);
    add("jump-negative-target-glyph", &[], &[], &[0xB1, 0, 11, OP_SCFS, 0xB8, 0xFF, 0x9C, OP_JMPR, 0xB1, 1, 22, OP_SCFS]);
    // jump out of a function past its ENDF: FreeType Bad_Argument, skrifa goes on in the font program
    add("jump-past-definition-end", &[0xB0, 0, OP_FDEF, 0xB0, 4, OP_JMPR, OP_ENDF, 0x18, 0x18, 0xB0, 1, OP_FDEF, OP_ENDF], &[], &[0xB1, 0, 11, OP_SCFS, 0xB0, 0, OP_CALL, 0xB1, 1, 22, OP_SCFS]);
    // FDEF with a key beyond 16 bits / negative: FreeType Too_Many_Function_Defs, skrifa defines it
    add("fdef-key-negative", &[0xB8, 0xFF, 0xFF, OP_FDEF, OP_ENDF], &[], &[0xB1, 0, 11, OP_SCFS]);
    // more FDEFs than maxp.maxFunctionDefs (4 here), fewer than 64: both allocate at least 64 slots (fixed 1409846)
    add("fdef-beyond-maxp-below-64", &[0xB0, 0, OP_FDEF, OP_ENDF, 0xB0, 1, OP_FDEF, OP_ENDF, 0xB0, 2, OP_FDEF, OP_ENDF, 0xB0, 3, OP_FDEF, OP_ENDF, 0xB0, 4, OP_FDEF, 0xB1, 2, 44, OP_SCFS, OP_ENDF], &[], &[0xB1, 0, 11, OP_SCFS, 0xB0, 4, OP_CALL]);
    // partial stack underflow: JROT with one cell
    add("jrot-partial-underflow", &[], &[], &[0xB1, 0, 11, OP_SCFS, 0xB0, 1, OP_JROT, 0xB1, 1, 22, OP_SCFS]);
    // SWAP / ADD with one cell: FreeType zeroes the present cell too
    add("add-partial-underflow", &[], &[], &[0xB0, 7, OP_ADD, 0xB0, 0, OP_SWAP, OP_SCFS]);
    // end of the font program reached inside a call (jump over the ENDF is rejected by FreeType; use a definition
    // whose body jumps back before its own FDEF instead): see jump-negative / past-end above.
    // opcode 0x92 (GETDATA) with an IDEF in a static font: FreeType's stack grows by one stale cell
    add("getdata-idef-static", &[0xB0, 0x92, OP_IDEF, OP_ENDF], &[], &[0xB1, 4, 6, 0x92, OP_DEPTH, 0xB0, 0, OP_SWAP, OP_SCFS]);
    v
}

fn class(r: &str) -> &'static str {
    if r.starts_with("ok") {
        "ok"
    } else if r.starts_with("err:") {
        "err"
    } else {
        "other"
    }
}

pub fn run(cfg: &Config, s: &mut Session) {
    let mut rng = Rng::new(cfg.seed ^ 0xC71);
    let lib = freetype::Library::init().unwrap();
    let n = if cfg.thorough() { 24000 } else { 4000 };
    let mut cases = directed();
    let n_directed = cases.len();
    for i in 0..n {
        cases.push(gen_case(&mut rng, i));
    }
    let reqs: Vec<String> = cases.iter().map(request).collect();
    let mut cmp_reqs = vec![];
    for r in &reqs {
        cmp_reqs.push(format!("cmp.ctl 0 {r}"));
        cmp_reqs.push(format!("cmp.ctl 1 {r}"));
    }
    let cmp = query_driver(cfg, &cmp_reqs);
    s.oracle("ctl:driver-answers-every-cmp-request", cmp.len() == cmp_reqs.len(), || format!("{} requests", cmp_reqs.len()), || format!("{} answers", cmp.len()));
    if cmp.len() != cmp_reqs.len() {
        return;
    }
    // which runs leave the modelled opcode subset (a jump into operand bytes can reach any opcode): the models
    // answer `tainted`, those runs are not compared (counted)
    let mut taint_reqs = vec![];
    for r in &reqs {
        for p in 0..2 {
            taint_reqs.push(format!("sk.ctl {p} {r}"));
            taint_reqs.push(format!("ft.ctl {p} {r}"));
        }
    }
    let taint = query_driver(cfg, &taint_reqs);
    if taint.len() != taint_reqs.len() {
        s.oracle("ctl:driver-answers-every-taint-request", false, || format!("{} requests", taint_reqs.len()), || format!("{} answers", taint.len()));
        return;
    }
    let mut recorded = 0usize;
    for (i, c) in cases.iter().enumerate() {
        let data = build(c);
        let req = &reqs[i];
        s.count(&format!("ctl:kind:{}", c.label.split('-').next().unwrap_or("")));
        for ped in [false, true] {
            let p = ped as u8;
            let sk = match catch(|| sk_observe(&data, c.n_pts as usize, ped)) {
                Ok(r) => r,
                Err(_) => "trap".into(),
            };
            let ft = ft_observe(&lib, &data, c.n_pts as usize, ped);
            let (sk_tainted, ft_tainted) = (taint[4 * i + 2 * ped as usize] == "tainted", taint[4 * i + 2 * ped as usize + 1] == "tainted");
            if sk_tainted {
                s.count("ctl:tainted:sk");
            } else {
                s.case("sk.ctl", format!("sk.ctl {p} {req}"), sk.clone());
            }
            if ft_tainted {
                s.count("ctl:tainted:ft");
            } else {
                s.case("ft.ctl", format!("ft.ctl {p} {req}"), ft.clone());
            }
            s.count(&format!("ctl:outcome:sk:{}", sk.split(' ').next().unwrap_or("")));
            s.count(&format!("ctl:outcome:ft:{}", ft.split(' ').next().unwrap_or("")));
            let verdict = &cmp[2 * i + ped as usize];
            let same_real = sk == ft || (class(&sk) == "err" && class(&ft) == "err");
            let describe = || format!("case={} pedantic={ped} maxStack={} funcs={} idefs={} cvt={} pts={} storage={} fpgm={:02x?} prep={:02x?} glyph={:02x?}", c.label, c.max_stack, c.n_funcs, c.n_idefs, c.n_cvt, c.n_pts, c.n_sto, c.fpgm, c.prep, c.glyph);
            if i < n_directed {
                // directed programs: the two real interpreters are compared unconditionally
                s.oracle("ctl:directed:skrifa==FreeType", same_real, describe, || format!("models: {verdict}; skrifa {sk}; freetype {ft}"));
                s.count(&format!("ctl:directed:{}:{}", c.label, verdict));
                continue;
            }
            if verdict == "tainted" {
                s.count("ctl:cmp:tainted");
            } else if verdict.starts_with("same") {
                s.count("ctl:cmp:same");
                if same_real || recorded < 40 {
                    s.oracle("ctl:no-side-condition=>skrifa==FreeType", same_real, describe, || format!("models: {verdict}; skrifa {sk}; freetype {ft}"));
                    if !same_real {
                        recorded += 1;
                    }
                }
            } else if let Some(rest) = verdict.strip_prefix("diff:") {
                // strip the opcode suffix of the data / underflow clauses for the histogram
                let mut parts = rest.splitn(2, ':');
                let stage = parts.next().unwrap_or("");
                let clause = parts.next().unwrap_or("");
                let clause_key: String = clause.rsplitn(2, ':').last().filter(|_| clause.starts_with("underflow") || clause.starts_with("data") || clause.starts_with("precheck")).unwrap_or(clause).to_string();
                s.count(&format!("ctl:cmp:diff:{stage}:{clause_key}"));
                if !same_real {
                    s.count("ctl:cmp:diff:real-interpreters-differ-too");
                }
            } else {
                s.oracle("ctl:models-diverge-only-under-a-side-condition", false, describe, || format!("models: {verdict}; skrifa {sk}; freetype {ft}"));
            }
        }
    }
}
