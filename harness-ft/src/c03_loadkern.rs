//! K. the glyph LOADER, three-way: Model/HintLoad.lean (skrifa glyf/mod.rs `load_composite`, `load_simple`,
//! phantom points, hdmx, advance rounding) and Model/FtLoad.lean (ttgload.c `load_truetype_glyph`,
//! `TT_Process_Composite_Component`, `TT_Hint_Glyph`, `compute_glyph_metrics`, ftobjs.c grid-fit of the
//! advance) against the real code on generated composite glyphs: components are instruction-free
//! polygons (all points on-curve) with every combination of WE_HAVE_A_SCALE / X_AND_Y_SCALE / TWO_BY_TWO,
//! SCALED / UNSCALED_COMPONENT_OFFSET, ROUND_XY_TO_GRID, USE_MY_METRICS, offsets and point anchors, odd
//! header boxes, side bearings and advances; fonts with and without an `hdmx` record for the size and
//! with `post.isFixedPitch` set or not; unhinted, mono (no backward compatibility) and smooth targets.
//! FreeType: `outline.points` + `metrics.horiAdvance`; skrifa: hook `verif_hinted_points` (hinted) or the
//! drawn path (unhinted; one path element per point) + `AdjustedMetrics::advance_width`.
use crate::fvlib::common::*;
use crate::prog::Mode;
use read_fonts::tables::glyf::{Anchor, CurvePoint, Transform};
use read_fonts::types::{F2Dot14, GlyphId16};
use skrifa::outline::{pen::PathElement, DrawSettings, Engine, HintingInstance, HintingOptions};
use skrifa::prelude::*;
use skrifa::raw::FontRef;
use skrifa::MetadataProvider;
use std::os::raw::c_long;
use write_fonts::tables::glyf::{Bbox, Component, ComponentFlags, CompositeGlyph, Contour, GlyfLocaBuilder, Glyph, SimpleGlyph};
use write_fonts::tables::{head::Head, hhea::Hhea, hmtx::Hmtx, hmtx::LongMetric, maxp::Maxp, post::Post};

extern "C" {
    fn FT_DivFix(a: c_long, b: c_long) -> c_long;
    fn FT_Hypot(x: c_long, y: c_long) -> c_long;
}

#[derive(Clone)]
struct SimpleG {
    pts: Vec<(i16, i16)>,
    ends: Vec<usize>,
    x_min: i16,
    lsb: i16,
    adv: u16,
}

#[derive(Clone)]
struct CompRef {
    target: usize,
    flags: u16,
    xform: [i16; 4], // xx yx xy yy raw F2Dot14
    arg1: i32,
    arg2: i32,
    point_anchor: bool,
}

#[derive(Clone)]
struct CompG {
    comps: Vec<CompRef>,
    x_min: i16,
    lsb: i16,
    adv: u16,
}

struct LFont {
    upem: u16,
    simples: Vec<SimpleG>,
    composites: Vec<CompG>,
    hdmx: Vec<(u8, Vec<u8>)>,
    fixed_pitch: bool,
}

const ARGS_ARE_XY: u16 = 0x0002;
const ROUND_XY: u16 = 0x0004;
const HAVE_SCALE: u16 = 0x0008;
const HAVE_XY_SCALE: u16 = 0x0040;
const HAVE_2X2: u16 = 0x0080;
const USE_MY_METRICS: u16 = 0x0200;
const SCALED_OFFSET: u16 = 0x0800;
const UNSCALED_OFFSET: u16 = 0x1000;

fn f2(rng: &mut Rng) -> i16 {
    match rng.below(6) {
        0 => 0x4000,
        1 => *rng.pick(&[0i16, -0x4000, 0x2000, 0x7FFF, i16::MIN, 1, -1, 0x2D41, 0x6000]),
        2 => rng.range(0x3000, 0x5000) as i16,
        _ => rng.range(-0x8000, 0x7FFF) as i16,
    }
}

fn gen_font(rng: &mut Rng, upem: u16, ppems: &[u32]) -> LFont {
    let n_simple = 6;
    let mut simples = vec![];
    for i in 0..n_simple {
        let mut pts = vec![];
        let mut ends = vec![];
        // glyph 1 is empty (no contours at all is not a simple glyph: give it one far point? no: keep every
        // simple glyph non-empty; the empty component case is gid 0)
        let nc = if i == 0 { 1 } else { rng.range(1, 2) as usize };
        for _ in 0..nc {
            let k = rng.range(3, 5) as usize;
            for _ in 0..k {
                let c = |rng: &mut Rng| -> i16 {
                    match rng.below(6) {
                        0 => *rng.pick(&[0i16, 1, -1, 63, 64, 65, 500, -500]),
                        1 => rng.range(-8000, 8000) as i16,
                        _ => rng.range(-(upem as i64) / 2, upem as i64) as i16,
                    }
                };
                pts.push((c(rng), c(rng)));
            }
            ends.push(pts.len() - 1);
        }
        let true_min = pts.iter().map(|p| p.0).min().unwrap();
        let x_min = if rng.chance(1, 5) { true_min.saturating_add(rng.range(-40, 40) as i16) } else { true_min };
        let lsb = match rng.below(4) {
            0 => x_min,
            1 => 0,
            _ => rng.range(-200, 300) as i16,
        };
        let adv = match rng.below(5) {
            0 => 0,
            1 => upem,
            _ => rng.range(1, 2 * upem as i64) as u16,
        };
        simples.push(SimpleG { pts, ends, x_min, lsb, adv });
    }
    let mut composites = vec![];
    for _ in 0..40 {
        let n = rng.range(1, 3) as usize;
        let mut comps = vec![];
        let mut base_points = 0usize;
        for k in 0..n {
            let target = rng.below(n_simple as u64) as usize;
            let mut flags: u16 = 0;
            let xform: [i16; 4] = match rng.below(5) {
                0 | 1 => [0x4000, 0, 0, 0x4000],
                2 => {
                    flags |= HAVE_SCALE;
                    let s = f2(rng);
                    [s, 0, 0, s]
                }
                3 => {
                    flags |= HAVE_XY_SCALE;
                    [f2(rng), 0, 0, f2(rng)]
                }
                _ => {
                    flags |= HAVE_2X2;
                    [f2(rng), f2(rng), f2(rng), f2(rng)]
                }
            };
            for (bit, p) in [(ROUND_XY, 2u64), (USE_MY_METRICS, 3), (SCALED_OFFSET, 3), (UNSCALED_OFFSET, 4)] {
                if rng.chance(1, p) {
                    flags |= bit;
                }
            }
            let point_anchor = k > 0 && base_points > 0 && rng.chance(1, 3);
            let (arg1, arg2) = if point_anchor {
                (rng.below(base_points as u64) as i32, rng.below(simples[target].pts.len() as u64) as i32)
            } else {
                flags |= ARGS_ARE_XY;
                let o = |rng: &mut Rng| -> i32 {
                    match rng.below(5) {
                        0 => 0,
                        1 => *rng.pick(&[1, -1, 31, 32, 33, 63, 64, 65, -64, 100]),
                        _ => rng.range(-(upem as i64), upem as i64) as i32,
                    }
                };
                (o(rng), o(rng))
            };
            base_points += simples[target].pts.len();
            comps.push(CompRef { target, flags, xform, arg1, arg2, point_anchor });
        }
        let x_min = rng.range(-300, 300) as i16;
        let lsb = if rng.chance(1, 3) { x_min } else { rng.range(-200, 300) as i16 };
        let adv = rng.range(0, 2 * upem as i64) as u16;
        composites.push(CompG { comps, x_min, lsb, adv });
    }
    let n_glyphs = 1 + simples.len() + composites.len();
    let hdmx = if rng.chance(2, 3) {
        let mut v = vec![];
        for p in ppems {
            if rng.chance(3, 4) {
                v.push((*p as u8, (0..n_glyphs).map(|_| rng.below(200) as u8).collect()));
            }
        }
        v
    } else {
        vec![]
    };
    LFont { upem, simples, composites, hdmx, fixed_pitch: rng.chance(1, 3) }
}

fn build(f: &LFont) -> Vec<u8> {
    let mut b = GlyfLocaBuilder::new();
    b.add_glyph(&Glyph::Empty).unwrap();
    let mut metrics = vec![LongMetric::new(f.upem / 2, 0)];
    let (mut max_points, mut max_contours) = (0, 0);
    for g in &f.simples {
        let mut contours = vec![];
        let mut start = 0;
        for &e in &g.ends {
            contours.push(Contour::from(g.pts[start..=e].iter().map(|(x, y)| CurvePoint::new(*x, *y, true)).collect::<Vec<_>>()));
            start = e + 1;
        }
        let mut sg = SimpleGlyph { bbox: Bbox::default(), contours, instructions: vec![] };
        sg.recompute_bounding_box();
        sg.bbox.x_min = g.x_min;
        max_points = max_points.max(g.pts.len());
        max_contours = max_contours.max(g.ends.len());
        metrics.push(LongMetric::new(g.adv, g.lsb));
        b.add_glyph(&sg).unwrap();
    }
    let (mut max_cp, mut max_cc) = (0, 0);
    for g in &f.composites {
        let mut glyph: Option<CompositeGlyph> = None;
        let (mut np, mut nc) = (0, 0);
        for c in &g.comps {
            let anchor = if c.point_anchor { Anchor::Point { base: c.arg1 as u16, component: c.arg2 as u16 } } else { Anchor::Offset { x: c.arg1 as i16, y: c.arg2 as i16 } };
            let t = Transform { xx: F2Dot14::from_bits(c.xform[0]), yx: F2Dot14::from_bits(c.xform[1]), xy: F2Dot14::from_bits(c.xform[2]), yy: F2Dot14::from_bits(c.xform[3]) };
            let flags = ComponentFlags {
                round_xy_to_grid: c.flags & ROUND_XY != 0,
                use_my_metrics: c.flags & USE_MY_METRICS != 0,
                scaled_component_offset: c.flags & SCALED_OFFSET != 0,
                unscaled_component_offset: c.flags & UNSCALED_OFFSET != 0,
                overlap_compound: false,
            };
            let comp = Component::new(GlyphId16::new(c.target as u16 + 1), anchor, t, flags);
            let bbox = Bbox { x_min: g.x_min, y_min: -100, x_max: 900, y_max: 800 };
            np += f.simples[c.target].pts.len();
            nc += f.simples[c.target].ends.len();
            match &mut glyph {
                None => glyph = Some(CompositeGlyph::new(comp, bbox)),
                Some(gl) => gl.add_component(comp, bbox),
            }
        }
        max_cp = max_cp.max(np);
        max_cc = max_cc.max(nc);
        metrics.push(LongMetric::new(g.adv, g.lsb));
        b.add_glyph(&glyph.unwrap()).unwrap();
    }
    let (glyf, loca, fmt) = b.build();
    let n = metrics.len() as u16;
    let head = Head { units_per_em: f.upem, index_to_loc_format: fmt as i16, magic_number: 0x5F0F3CF5, ..Default::default() };
    let maxp = Maxp {
        num_glyphs: n,
        max_points: Some(max_points as u16),
        max_contours: Some(max_contours as u16),
        max_composite_points: Some(max_cp as u16),
        max_composite_contours: Some(max_cc as u16),
        max_zones: Some(2),
        max_twilight_points: Some(4),
        max_storage: Some(4),
        max_function_defs: Some(4),
        max_instruction_defs: Some(0),
        max_stack_elements: Some(64),
        max_size_of_instructions: Some(0),
        max_component_elements: Some(3),
        max_component_depth: Some(1),
    };
    let up = f.upem as i16;
    let hhea = Hhea { number_of_h_metrics: n, ascender: (up / 5 * 4).into(), descender: (-up / 5).into(), ..Default::default() };
    let hmtx = Hmtx::new(metrics, vec![]);
    let mut fb = write_fonts::FontBuilder::new();
    fb.add_table(&head).unwrap();
    fb.add_table(&maxp).unwrap();
    fb.add_table(&hhea).unwrap();
    fb.add_table(&hmtx).unwrap();
    fb.add_table(&glyf).unwrap();
    fb.add_table(&loca).unwrap();
    let post = Post::new(Default::default(), Default::default(), Default::default(), f.fixed_pitch as u32, 0, 0, 0, 0);
    fb.add_table(&post).unwrap();
    if !f.hdmx.is_empty() {
        let mut recs = f.hdmx.clone();
        recs.sort_by_key(|r| r.0);
        let rec_size = (2 + n as usize + 3) & !3;
        let mut t: Vec<u8> = vec![0, 0];
        t.extend_from_slice(&(recs.len() as i16).to_be_bytes());
        t.extend_from_slice(&(rec_size as u32).to_be_bytes());
        for (ppem, widths) in &recs {
            let mut r = vec![*ppem, *widths.iter().max().unwrap_or(&0)];
            r.extend_from_slice(widths);
            r.resize(rec_size, 0);
            t.extend_from_slice(&r);
        }
        fb.add_raw(read_fonts::types::Tag::new(b"hdmx"), t);
    }
    fb.build()
}

fn request(f: &LFont, ci: usize, ppem: u32, hinted: bool, bc: bool) -> String {
    let g = &f.composites[ci];
    let gid = 1 + f.simples.len() + ci;
    let scale = unsafe { FT_DivFix((ppem as c_long) * 64, f.upem as c_long) } as i64;
    let hdmx: i64 = f.hdmx.iter().find(|r| r.0 as u32 == ppem).map(|r| r.1[gid] as i64).unwrap_or(-1);
    let mut v: Vec<i64> = vec![hinted as i64, bc as i64, f.fixed_pitch as i64, scale, hdmx, g.x_min as i64, g.lsb as i64, g.adv as i64, g.comps.len() as i64];
    for c in &g.comps {
        let s = &f.simples[c.target];
        let x4 = |k: usize| (c.xform[k] as c_long) * 4;
        let hx = unsafe { FT_Hypot(x4(0), x4(2)) } as i64;
        let hy = unsafe { FT_Hypot(x4(3), x4(1)) } as i64;
        v.extend([c.flags as i64, c.xform[0] as i64, c.xform[1] as i64, c.xform[2] as i64, c.xform[3] as i64, c.arg1 as i64, c.arg2 as i64, hx, hy, s.x_min as i64, s.lsb as i64, s.adv as i64, s.pts.len() as i64]);
        for (x, y) in &s.pts {
            v.push(*x as i64);
            v.push(*y as i64);
        }
    }
    v.iter().map(|x| x.to_string()).collect::<Vec<_>>().join(" ")
}

fn ft_load(lib: &freetype::Library, data: &[u8], gid: u32, ppem: u32, mode: Option<Mode>) -> Option<String> {
    use freetype::face::LoadFlag;
    let face = lib.new_memory_face2(data.to_vec(), 0).ok()?;
    face.set_pixel_sizes(ppem, ppem).ok()?;
    let flags = match mode {
        None => LoadFlag::NO_BITMAP | LoadFlag::NO_HINTING,
        Some(m) => LoadFlag::NO_BITMAP | LoadFlag::NO_AUTOHINT | crate::prog::ft_flags(m),
    };
    face.load_glyph(gid, flags).ok()?;
    let raw = face.glyph().raw();
    let o = &raw.outline;
    let pts = unsafe { std::slice::from_raw_parts(o.points, o.n_points as usize) };
    let mut out = vec![(face.glyph().metrics().horiAdvance as i64).to_string()];
    for p in pts {
        out.push((p.x as i64).to_string());
        out.push((p.y as i64).to_string());
    }
    Some(out.join(" "))
}

fn sk_load(data: &[u8], gid: u32, ppem: u32, mode: Option<Mode>) -> Result<String, String> {
    let font = FontRef::new(data).map_err(|e| format!("{e:?}"))?;
    let outlines = font.outline_glyphs();
    let g = outlines.get(GlyphId::new(gid)).ok_or("no glyph")?;
    let mut path: Vec<PathElement> = vec![];
    let mut out = vec![];
    match mode {
        None => {
            let m = g.draw(DrawSettings::unhinted(Size::new(ppem as f32), LocationRef::default()), &mut path).map_err(|e| format!("{e:?}"))?;
            out.push(((m.advance_width.ok_or("no advance")? as f64 * 64.0).round() as i64).to_string());
            for e in &path {
                match e {
                    PathElement::MoveTo { x, y } | PathElement::LineTo { x, y } => {
                        out.push(((*x as f64 * 64.0).round() as i64).to_string());
                        out.push(((*y as f64 * 64.0).round() as i64).to_string());
                    }
                    PathElement::Close => {}
                    other => return Err(format!("unexpected element {other:?}")),
                }
            }
        }
        Some(m) => {
            let h = HintingInstance::new(&outlines, Size::new(ppem as f32), LocationRef::default(), HintingOptions { engine: Engine::Interpreter, target: crate::prog::sk_target(m) })
                .map_err(|e| format!("{e:?}"))?;
            let metrics = g.draw(DrawSettings::hinted(&h, false), &mut path).map_err(|e| format!("{e:?}"))?;
            out.push(((metrics.advance_width.ok_or("no advance")? as f64 * 64.0).round() as i64).to_string());
            let (pts, _, _) = h.verif_hinted_points(&g, false).map_err(|e| format!("{e:?}"))?;
            for (x, y, _) in pts {
                out.push(x.to_string());
                out.push(y.to_string());
            }
        }
    }
    Ok(out.join(" "))
}

/// the CFF hinter's scale `(scale + 32) / 64`: the two source expressions (cff/mod.rs: plain i32 `+` and `/`;
/// psft.c: `ADD_INT32( x_scale, 32 ) / 64`, wrapping add, truncating division) evaluated as written on every
/// scale the size grid produces and on boundary values, against Model/CffScale.lean.  Neither library exposes
/// the value: the tie of the REAL code at this step is the hinted-CFF differential (layers G, H: scales with
/// low six bits >= 32 occur at most sizes, e.g. 11 ppem / 1000 upem = 46137), which is an oracle.
fn cff_scale(s: &mut Session) {
    let mut scales: Vec<i64> = vec![];
    for upem in [1000i64, 1024, 2048, 256, 16384] {
        for ppem in 4..=100i64 {
            scales.push(unsafe { FT_DivFix((ppem * 64) as c_long, upem as c_long) } as i64);
        }
    }
    for b in boundary_i32() {
        scales.push(b as i64);
    }
    for k in 0..130i64 {
        scales.extend([k, -k, 65536 + k, i32::MAX as i64 - k, i32::MIN as i64 + k]);
    }
    for v in scales {
        let x = v as i32;
        let sk = catch(|| (x + 32) / 64);
        s.case("sk.cffscale", format!("sk.cffscale {x}"), trap_or(sk.clone()));
        let ft = ((x as u32).wrapping_add(32) as i32) / 64;
        s.case("ft.cffscale", format!("ft.cffscale {x}"), ft.to_string());
        s.count(if x >= 0 && x % 64 >= 32 { "cffscale:rounds-up" } else { "cffscale:other" });
        if let Ok(v) = sk {
            s.oracle("kernel:cff-hint-scale", v == ft, || format!("scale {x}"), || format!("skrifa {v} freetype {ft}"));
        }
    }
}

pub fn run(cfg: &Config, s: &mut Session) {
    cff_scale(s);
    let mut rng = Rng::new(cfg.seed ^ 0x10AD);
    let lib = freetype::Library::init().unwrap();
    let n_fonts = if cfg.thorough() { 300 } else { 40 };
    let mut recorded = 0;
    for fi in 0..n_fonts {
        let upem = *rng.pick(&[1000u16, 1024, 2048, 2048, 64]);
        let ppems: Vec<u32> = if cfg.thorough() { vec![7, 9, 12, 13, 16, 24, 40] } else { vec![9, 13, 16] };
        let f = gen_font(&mut rng, upem, &ppems);
        let data = build(&f);
        for &ppem in &ppems {
            for mode in [None, Some(Mode::Mono), Some(Mode::Normal), Some(Mode::Lcd)] {
                let (hinted, bc) = match mode {
                    None => (false, false),
                    Some(Mode::Mono) => (true, false),
                    Some(_) => (true, true),
                };
                for ci in 0..f.composites.len() {
                    let gid = (1 + f.simples.len() + ci) as u32;
                    let req = request(&f, ci, ppem, hinted, bc);
                    let ft = ft_load(&lib, &data, gid, ppem, mode);
                    let sk = catch(|| sk_load(&data, gid, ppem, mode));
                    let Some(ft) = ft else {
                        s.count("load:freetype-refuses");
                        continue;
                    };
                    let sk_s = match sk {
                        Ok(Ok(v)) => v,
                        Ok(Err(e)) => format!("err:{e}"),
                        Err(_) => "trap".into(),
                    };
                    let g = &f.composites[ci];
                    for c in &g.comps {
                        for (bit, name) in [(ROUND_XY, "round-xy"), (USE_MY_METRICS, "use-my-metrics"), (SCALED_OFFSET, "scaled-offset"), (HAVE_2X2, "2x2"), (HAVE_SCALE, "scale"), (HAVE_XY_SCALE, "xy-scale")] {
                            if c.flags & bit != 0 {
                                s.count(&format!("load:flag:{name}"));
                            }
                        }
                        s.count(if c.point_anchor { "load:anchor:point" } else { "load:anchor:offset" });
                    }
                    s.count(&format!("load:mode:{}", match mode { None => "unhinted".to_string(), Some(m) => format!("{m:?}") }));
                    if hinted && !bc {
                        s.count(if f.hdmx.iter().any(|r| r.0 as u32 == ppem) { if f.fixed_pitch { "load:hdmx:record+fixed-pitch" } else { "load:hdmx:record" } } else { "load:hdmx:none" });
                    }
                    s.case("ft.load", format!("ft.load {req}"), ft.clone());
                    s.case("sk.load", format!("sk.load {req}"), sk_s.clone());
                    let ok = ft == sk_s;
                    if ok || recorded < 30 {
                        s.oracle("load:skrifa==FreeType", ok, || format!("font#{fi} upem={upem} gid={gid} ppem={ppem} mode={mode:?} fixed_pitch={} hdmx={:?} req=[{req}]", f.fixed_pitch, f.hdmx.iter().map(|r| r.0).collect::<Vec<_>>()), || format!("skrifa {sk_s} freetype {ft}"));
                        if !ok {
                            recorded += 1;
                        }
                    } else {
                        s.count("load:further-failures-not-recorded");
                    }
                }
            }
        }
    }
}
