//! D. generated "geometry" fonts for the whole-outline differential: random simple glyphs
//! (on/off-curve mixes, contours that start off-curve or are entirely off-curve, single points,
//! extreme coordinates), random composites (offsets, point anchors, 2x2 transforms, ROUND_XY_TO_GRID,
//! USE_MY_METRICS, (UN)SCALED_COMPONENT_OFFSET, nesting), random side bearings / advances / header
//! boxes, several units-per-em.  No instructions: this exercises scaling, phantom points, composite
//! assembly and advance rounding of FreeTypeScaler in every hinting mode.
use crate::fvlib::common::*;
use read_fonts::tables::glyf::{Anchor, CurvePoint, Transform};
use read_fonts::types::{F2Dot14, GlyphId16};
use write_fonts::tables::glyf::{Bbox, Component, ComponentFlags, CompositeGlyph, Contour, GlyfLocaBuilder, Glyph, SimpleGlyph};
use write_fonts::tables::{head::Head, hhea::Hhea, hmtx::Hmtx, hmtx::LongMetric, maxp::Maxp};

fn coord(rng: &mut Rng, upem: u16) -> i16 {
    let u = upem as i64;
    match rng.below(8) {
        0 => *rng.pick(&[0i16, 1, -1, 2, 3, 63, 64, 65, 127, 128, 255, 256, 1000, -1000]),
        1 => rng.range(-16384, 16383) as i16,
        // glyf stores point-to-point deltas in an i16: keep every coordinate within ±2^14
        2 => *rng.pick(&[16383i16, -16384, 16382, -16383]),
        _ => rng.range((-u / 2).max(-16384), (u + u / 2).min(16383)) as i16,
    }
}

fn simple(rng: &mut Rng, upem: u16) -> (SimpleGlyph, usize) {
    let n_contours = 1 + rng.below(3) as usize;
    let mut contours = vec![];
    let mut total = 0;
    for _ in 0..n_contours {
        let n = match rng.below(6) {
            0 => 1,
            1 => 2,
            _ => 3 + rng.below(9) as usize,
        };
        let style = rng.below(5);
        let pts: Vec<CurvePoint> = (0..n)
            .map(|i| {
                let on = match style {
                    0 => true,            // polygon
                    1 => false,           // all off-curve
                    2 => i % 2 == 1,      // starts off-curve, alternating
                    3 => i != 0,          // first point off
                    _ => rng.chance(1, 2),
                };
                CurvePoint::new(coord(rng, upem), coord(rng, upem), on)
            })
            .collect();
        total += n;
        contours.push(Contour::from(pts));
    }
    let mut g = SimpleGlyph { bbox: Bbox::default(), contours, instructions: vec![] };
    g.recompute_bounding_box();
    if rng.chance(1, 6) {
        // a header box that is not the true box (both scalers take pp1 from it)
        g.bbox.x_min = g.bbox.x_min.saturating_add(rng.range(-50, 50) as i16);
    }
    (g, total)
}

fn f2(rng: &mut Rng) -> F2Dot14 {
    F2Dot14::from_bits(match rng.below(5) {
        0 => 0x4000,
        1 => *rng.pick(&[0i16, -0x4000, 0x2000, 0x7FFF, i16::MIN, 1, -1, 0x2D41]),
        _ => rng.range(-0x8000, 0x7FFF) as i16,
    })
}

fn composite(rng: &mut Rng, upem: u16, gid: usize, point_counts: &[usize]) -> CompositeGlyph {
    let n = 1 + rng.below(3) as usize;
    let mut glyph: Option<CompositeGlyph> = None;
    let mut base_points = 0usize;
    for k in 0..n {
        let target = 1 + rng.below(gid as u64 - 1) as usize;
        let anchor = if k > 0 && base_points > 0 && point_counts[target] > 0 && rng.chance(1, 4) {
            Anchor::Point { base: rng.below(base_points as u64) as u16, component: rng.below(point_counts[target] as u64) as u16 }
        } else {
            Anchor::Offset { x: coord(rng, upem) / 2, y: coord(rng, upem) / 2 }
        };
        let transform = match rng.below(4) {
            0 | 1 => Transform::default(),
            2 => { let s = f2(rng); Transform { xx: s, yy: if rng.chance(1, 2) { s } else { f2(rng) }, ..Default::default() } }
            _ => Transform { xx: f2(rng), yx: f2(rng), xy: f2(rng), yy: f2(rng) },
        };
        let flags = ComponentFlags {
            round_xy_to_grid: rng.chance(1, 2),
            use_my_metrics: rng.chance(1, 4),
            scaled_component_offset: rng.chance(1, 4),
            unscaled_component_offset: rng.chance(1, 4),
            overlap_compound: rng.chance(1, 4),
        };
        let c = Component::new(GlyphId16::new(target as u16), anchor, transform, flags);
        let bbox = Bbox { x_min: coord(rng, upem) / 4, y_min: coord(rng, upem) / 4, x_max: coord(rng, upem), y_max: coord(rng, upem) };
        base_points += point_counts[target];
        match &mut glyph {
            None => glyph = Some(CompositeGlyph::new(c, bbox)),
            Some(g) => g.add_component(c, bbox),
        }
    }
    glyph.unwrap()
}

pub fn build(rng: &mut Rng, n_glyphs: usize) -> Vec<u8> {
    let upem = *rng.pick(&[16u16, 64, 1000, 1000, 1024, 2048, 2048, 4096, 16384]);
    let mut b = GlyfLocaBuilder::new();
    b.add_glyph(&Glyph::Empty).unwrap();
    let mut point_counts = vec![0usize];
    let mut max_points = 0;
    let mut max_contours = 0;
    for gid in 1..n_glyphs {
        if gid >= 3 && rng.chance(1, 3) {
            let c = composite(rng, upem, gid, &point_counts);
            let total: usize = c.components().iter().map(|c| point_counts[c.glyph.to_u16() as usize]).sum();
            point_counts.push(total);
            b.add_glyph(&c).unwrap();
        } else if rng.chance(1, 12) {
            point_counts.push(0);
            b.add_glyph(&Glyph::Empty).unwrap();
        } else {
            let (g, n) = simple(rng, upem);
            max_points = max_points.max(n);
            max_contours = max_contours.max(g.contours.len());
            point_counts.push(n);
            b.add_glyph(&g).unwrap();
        }
    }
    let (glyf, loca, fmt) = b.build();
    let n = n_glyphs as u16;
    let head = Head {
        units_per_em: upem,
        index_to_loc_format: fmt as i16,
        magic_number: 0x5F0F3CF5,
        // bit 3: "force ppem to integer values" (changes FreeType's scale rounding path)
        flags: if rng.chance(1, 3) { 0x0008 } else { 0 },
        ..Default::default()
    };
    let maxp = Maxp {
        num_glyphs: n,
        max_points: Some(max_points as u16),
        max_contours: Some(max_contours as u16),
        max_composite_points: Some(point_counts.iter().copied().max().unwrap_or(0).min(65535) as u16),
        max_composite_contours: Some(64),
        max_zones: Some(2),
        max_twilight_points: Some(0),
        max_storage: Some(0),
        max_function_defs: Some(0),
        max_instruction_defs: Some(0),
        max_stack_elements: Some(0),
        max_size_of_instructions: Some(0),
        max_component_elements: Some(4),
        max_component_depth: Some(8),
    };
    let hhea = Hhea { number_of_h_metrics: n, ascender: (upem as i16 / 5 * 4).into(), descender: (-(upem as i16) / 5).into(), ..Default::default() };
    let hmtx = Hmtx::new(
        (0..n)
            .map(|_| {
                let adv = match rng.below(6) {
                    0 => 0,
                    1 => *rng.pick(&[1u16, 65535, 32768, 32767]),
                    _ => rng.below(2 * upem as u64 + 1) as u16,
                };
                LongMetric::new(adv, coord(rng, upem) / 8)
            })
            .collect(),
        vec![],
    );
    let mut fb = write_fonts::FontBuilder::new();
    fb.add_table(&head).unwrap();
    fb.add_table(&maxp).unwrap();
    fb.add_table(&hhea).unwrap();
    fb.add_table(&hmtx).unwrap();
    fb.add_table(&glyf).unwrap();
    fb.add_table(&loca).unwrap();
    fb.build()
}

/// Polygon-only fonts for the correspondence of Model/Scale.lean: every glyph is made of on-curve
/// points only, so the drawn path lists exactly the scaled points (`M p0 L p1 … Z` per contour).
struct Polygons {
    upem: u16,
    data: Vec<u8>,
    /// per glyph (gid = index + 1): flattened points, xMin, lsb, advance
    glyphs: Vec<(Vec<(i16, i16)>, i16, i16, u16)>,
}

fn polygon_font(rng: &mut Rng, n_glyphs: usize) -> Polygons {
    let upem = *rng.pick(&[64u16, 1000, 1000, 1024, 2048, 2048, 4096, 16384]);
    let mut b = GlyfLocaBuilder::new();
    b.add_glyph(&Glyph::Empty).unwrap();
    let mut glyphs = vec![];
    let mut max_points = 0;
    let mut metrics = vec![LongMetric::new(upem / 2, 0)];
    for _ in 1..n_glyphs {
        let n_contours = 1 + rng.below(3) as usize;
        let mut contours = vec![];
        let mut flat = vec![];
        for _ in 0..n_contours {
            let n = 1 + rng.below(8) as usize;
            let pts: Vec<CurvePoint> = (0..n).map(|_| CurvePoint::new(coord(rng, upem), coord(rng, upem), true)).collect();
            flat.extend(pts.iter().map(|p| (p.x, p.y)));
            contours.push(Contour::from(pts));
        }
        let mut g = SimpleGlyph { bbox: Bbox::default(), contours, instructions: vec![] };
        g.recompute_bounding_box();
        if rng.chance(1, 4) {
            g.bbox.x_min = g.bbox.x_min.saturating_add(rng.range(-300, 300) as i16);
        }
        let lsb = match rng.below(4) {
            0 => g.bbox.x_min, // pp1 = 0: no shift
            1 => coord(rng, upem),
            _ => g.bbox.x_min.saturating_sub(rng.range(-200, 200) as i16),
        };
        let adv = match rng.below(6) {
            0 => 0,
            1 => *rng.pick(&[1u16, 65535, 32768, 32767]),
            _ => rng.below(2 * upem as u64 + 1) as u16,
        };
        max_points = max_points.max(flat.len());
        metrics.push(LongMetric::new(adv, lsb));
        glyphs.push((flat, g.bbox.x_min, lsb, adv));
        b.add_glyph(&g).unwrap();
    }
    let (glyf, loca, fmt) = b.build();
    let n = n_glyphs as u16;
    let head = Head { units_per_em: upem, index_to_loc_format: fmt as i16, magic_number: 0x5F0F3CF5, ..Default::default() };
    let maxp = Maxp {
        num_glyphs: n,
        max_points: Some(max_points as u16),
        max_contours: Some(3),
        max_composite_points: Some(0),
        max_composite_contours: Some(0),
        max_zones: Some(2),
        max_twilight_points: Some(0),
        max_storage: Some(0),
        max_function_defs: Some(0),
        max_instruction_defs: Some(0),
        max_stack_elements: Some(0),
        max_size_of_instructions: Some(0),
        max_component_elements: Some(0),
        max_component_depth: Some(0),
    };
    let hhea = Hhea { number_of_h_metrics: n, ascender: (upem as i16 / 5 * 4).into(), descender: (-(upem as i16) / 5).into(), ..Default::default() };
    let hmtx = Hmtx::new(metrics, vec![]);
    let mut fb = write_fonts::FontBuilder::new();
    fb.add_table(&head).unwrap();
    fb.add_table(&maxp).unwrap();
    fb.add_table(&hhea).unwrap();
    fb.add_table(&hmtx).unwrap();
    fb.add_table(&glyf).unwrap();
    fb.add_table(&loca).unwrap();
    Polygons { upem, data: fb.build(), glyphs }
}

/// `value * 64` of a pen coordinate, when the f32 still holds the 26.6 integer exactly
fn bits(v: f32) -> Option<i64> {
    let b = (v as f64) * 64.0;
    if b.abs() < 16_777_216.0 && b.fract() == 0.0 { Some(b as i64) } else { None }
}

fn scale_correspondence(cfg: &Config, s: &mut Session) {
    use skrifa::outline::{pen::PathElement, DrawSettings};
    use skrifa::prelude::{LocationRef, Size};
    use skrifa::MetadataProvider;
    let mut rng = Rng::new(cfg.seed ^ 0x5CA1E);
    let (fonts, glyphs) = if cfg.thorough() { (60, 40) } else { (10, 24) };
    let lib = freetype::Library::init().unwrap();
    for _ in 0..fonts {
        let pf = polygon_font(&mut rng, glyphs);
        let Ok(mut face) = lib.new_memory_face2(pf.data.clone(), 0) else {
            s.count("scale:freetype-open-failed");
            continue;
        };
        let font = skrifa::raw::FontRef::new(&pf.data).unwrap();
        let outlines = font.outline_glyphs();
        let ppems: Vec<u32> = {
            let mut v = vec![1u32, 7, 12, 13, 16, 31, 50, 113, 255];
            v.push(1 + rng.below(300) as u32);
            v
        };
        for &ppem in &ppems {
            if face.set_pixel_sizes(ppem, ppem).is_err() {
                s.count("scale:set-size-failed");
                continue;
            }
            let p = ppem as i64 * 64;
            for (i, (pts, x_min, lsb, adv)) in pf.glyphs.iter().enumerate() {
                let gid = i as u32 + 1;
                let args = format!(
                    "{p} {} {x_min} {lsb} {adv} {}",
                    pf.upem,
                    pts.iter().map(|(x, y)| format!("{x} {y}")).collect::<Vec<_>>().join(" ")
                );
                // FreeType, real
                use freetype::face::LoadFlag;
                let ft: Option<(i64, Vec<(i64, i64)>)> = face.load_glyph(gid, LoadFlag::NO_BITMAP | LoadFlag::NO_HINTING).ok().map(|_| {
                    let raw = face.glyph().raw();
                    let o = &raw.outline;
                    let v = unsafe { std::slice::from_raw_parts(o.points, o.n_points as usize) };
                    (raw.metrics.horiAdvance as i64, v.iter().map(|q| (q.x as i64, q.y as i64)).collect())
                });
                // skrifa, real
                let sk: Option<(i64, Vec<(i64, i64)>)> = (|| {
                    let g = outlines.get(skrifa::GlyphId::new(gid))?;
                    let mut path: Vec<PathElement> = vec![];
                    let m = catch(|| g.draw(DrawSettings::unhinted(Size::new(ppem as f32), LocationRef::default()), &mut path)).ok()?.ok()?;
                    let mut out = vec![];
                    for e in &path {
                        match e {
                            PathElement::MoveTo { x, y } | PathElement::LineTo { x, y } => out.push((bits(*x)?, bits(*y)?)),
                            PathElement::Close => {}
                            _ => return None,
                        }
                    }
                    Some((bits(m.advance_width?)?, out))
                })();
                let render = |r: &(i64, Vec<(i64, i64)>)| {
                    let mut v = vec![r.0];
                    for (x, y) in &r.1 {
                        v.push(*x);
                        v.push(*y);
                    }
                    join(&v)
                };
                match &ft {
                    Some(r) if r.1.len() == pts.len() => s.case("ft.simple", format!("ft.simple {args}"), render(r)),
                    _ => s.count("scale:freetype-no-result"),
                }
                match &sk {
                    Some(r) if r.1.len() == pts.len() => s.case("sk.simple", format!("sk.simple {args}"), render(r)),
                    _ => s.count("scale:skrifa-no-exact-result"),
                }
                if let (Some(a), Some(b)) = (&ft, &sk) {
                    s.oracle("scale:skrifa-points-and-advance==freetype", a == b,
                        || format!("upem={} ppem={ppem} gid={gid} {args}", pf.upem), || format!("freetype {} skrifa {}", render(a), render(b)));
                }
            }
        }
    }
}

pub fn run(cfg: &Config, s: &mut Session) {
    scale_correspondence(cfg, s);
    use fauntlet::{Hinting, HintingTarget::*};
    let mut rng = Rng::new(cfg.seed ^ 0x5E0_AE7);
    let dir = std::path::PathBuf::from(format!("/tmp/c03-geom-{}-{}", cfg.seed, std::process::id()));
    let _ = std::fs::create_dir_all(&dir);
    let modes = [
        None,
        Some(Hinting::Interpreter(Mono)),
        Some(Hinting::Interpreter(Normal)),
        Some(Hinting::Interpreter(Light)),
        Some(Hinting::Interpreter(Lcd)),
        Some(Hinting::Interpreter(VerticalLcd)),
    ];
    let (fonts, glyphs) = if cfg.thorough() { (120, 40) } else { (16, 28) };
    let ppems: Vec<u32> = if cfg.thorough() { vec![0, 1, 2, 5, 7, 8, 11, 12, 13, 16, 17, 23, 31, 50, 72, 113, 255, 256, 1000] } else { vec![0, 1, 7, 12, 13, 16, 31, 113, 256] };
    for i in 0..fonts {
        let data = match catch(|| build(&mut rng, glyphs)) {
            Ok(d) => d,
            Err(e) => {
                s.notes.push(format!("geometry font {i}: generator panicked: {e}"));
                s.count("geom:generator-panic");
                continue;
            }
        };
        let path = dir.join(format!("c03_geom_{i}.ttf"));
        std::fs::write(&path, &data).unwrap();
        crate::differential(cfg, s, &path, &ppems, &modes);
    }
    if std::env::var_os("C03_KEEP").is_none() {
        let _ = std::fs::remove_dir_all(&dir);
    }
}
