//! E. generated TrueType programs: both interpreters (the linked FreeType's and skrifa's) run the same
//! random but well-formed `fpgm` / `prep` / glyph programs over random geometry; the resulting
//! outlines and advances go through the same whole-outline differential as the corpus.
//! Nothing here is modelled in Lean: this widens the oracle of the property statement to opcode
//! semantics the tiny hinted corpus (a handful of fonts) barely touches.
//!
//! The generator keeps the programs valid (stack discipline, point / cvt / storage / function indices
//! in range, zone pointers tracked) so that both engines execute every instruction.
use crate::fvlib::common::*;
use read_fonts::tables::glyf::CurvePoint;
use write_fonts::tables::glyf::{Bbox, Contour, GlyfLocaBuilder, Glyph, SimpleGlyph};
use write_fonts::tables::{head::Head, hhea::Hhea, hmtx::Hmtx, hmtx::LongMetric, maxp::Maxp};

const N_CVT: i32 = 24;
const N_STORAGE: i32 = 8;
const N_TWILIGHT: i32 = 8;
const N_FUNCS: i32 = 4;
/// every glyph has at least this many points, so functions may address points below it
const MIN_POINTS: i32 = 8;

pub struct Gen<'a> {
    rng: &'a mut Rng,
    code: Vec<u8>,
    /// number of real points of the glyph the program runs on (phantoms follow)
    n_points: i32,
    n_contours: i32,
    zp: [i32; 3],
    ppems: &'a [u32],
    in_function: bool,
    /// prep: there is no glyph zone, nothing may address a point
    no_points: bool,
    features: u32,
}

/// feature bits: which instruction families a font may use (lets a failure be narrowed by family)
pub const F_MOVES: u32 = 1;
pub const F_VECTORS: u32 = 2;
pub const F_TWILIGHT: u32 = 4;
pub const F_DELTA: u32 = 8;
pub const F_ROUNDSTATE: u32 = 16;
pub const F_CALLS: u32 = 32;
pub const F_IUP: u32 = 64;
pub const F_MISC: u32 = 128;
pub const F_CVT: u32 = 256;

impl<'a> Gen<'a> {
    fn op(&mut self, b: u8) {
        self.code.push(b);
    }
    fn push(&mut self, vals: &[i32]) {
        if vals.is_empty() {
            return;
        }
        if vals.iter().all(|v| (0..=255).contains(v)) && self.rng.chance(1, 2) {
            if vals.len() <= 8 {
                self.code.push(0xB0 + vals.len() as u8 - 1);
            } else {
                self.code.push(0x40);
                self.code.push(vals.len() as u8);
            }
            for v in vals {
                self.code.push(*v as u8);
            }
        } else {
            if vals.len() <= 8 {
                self.code.push(0xB8 + vals.len() as u8 - 1);
            } else {
                self.code.push(0x41);
                self.code.push(vals.len() as u8);
            }
            for v in vals {
                self.code.extend_from_slice(&(*v as i16).to_be_bytes());
            }
        }
    }
    fn has(&self, f: u32) -> bool {
        self.features & f != 0
    }
    /// a valid point index for zone pointer `zpi`
    fn point(&mut self, zpi: usize) -> i32 {
        if self.zp.contains(&0) {
            // while any zone pointer addresses the twilight zone, instructions that set a reference point
            // from a point of another zone must leave it in range for every zone
            let _ = zpi;
            self.rng.below(N_TWILIGHT.min(MIN_POINTS) as u64) as i32
        } else if self.in_function {
            self.rng.below(MIN_POINTS as u64) as i32
        } else if self.rng.chance(1, 10) {
            // phantom points are addressable
            self.n_points + self.rng.below(4) as i32
        } else {
            self.rng.below(self.n_points as u64) as i32
        }
    }
    fn cvt(&mut self) -> i32 {
        self.rng.below(N_CVT as u64) as i32
    }
    fn f26(&mut self) -> i32 {
        match self.rng.below(5) {
            0 => *self.rng.pick(&[0, 1, -1, 31, 32, 33, 63, 64, 65, -32, -64, 128]),
            1 => self.rng.range(-200, 200) as i32,
            _ => self.rng.range(-2000, 2000) as i32,
        }
    }

    /// leaves exactly one value on the stack
    fn expr(&mut self, depth: u32) {
        let mut k = if depth >= 3 { self.rng.below(3) } else { self.rng.below(12) };
        if self.no_points && (k == 3 || k == 4) {
            k = 0;
        }
        match k {
            0 | 1 => {
                let v = self.f26();
                self.push(&[v]);
            }
            2 => {
                if self.has(F_CVT) {
                    let c = self.cvt();
                    self.push(&[c]);
                    self.op(0x45); // RCVT
                } else {
                    let v = self.f26();
                    self.push(&[v]);
                }
            }
            3 => {
                let p = self.point(2);
                self.push(&[p]);
                let a = self.rng.below(2) as u8;
                self.op(0x46 + a); // GC[a]
            }
            4 => {
                // MD[a] p1 p2: zp0 / zp1 (pops p2 (zp1)… FreeType: args[0] with zp0? use the documented
                // order: p1 uses zp0, p2 uses zp1)
                let p1 = self.point(0);
                let p2 = self.point(1);
                self.push(&[p2, p1]);
                let a = self.rng.below(2) as u8;
                self.op(0x49 + a);
            }
            5 => {
                let s = self.rng.below(N_STORAGE as u64) as i32;
                self.push(&[s]);
                self.op(0x43); // RS
            }
            6 => {
                if self.has(F_MISC) && self.rng.chance(1, 2) {
                    // GETINFO with one or more selector bits (version, rotation, stretch, variations,
                    // vertical phantom, grayscale, the ClearType bits 6‥12)
                    let sel = match self.rng.below(3) {
                        0 => 1 << self.rng.below(13),
                        1 => self.rng.below(0x2000) as i32,
                        _ => 0x1FFF,
                    };
                    self.push(&[sel]);
                    self.op(0x88);
                    // keep it small enough to be used as a coordinate: result bits live above bit 7
                    self.push(&[64]);
                    self.op(0x62); // DIV: (x * 64) / 64 … a no-op that still exercises DIV
                    self.push(&[4096]);
                    self.op(0x62); // / 64 (4096 is 64.0 in 26.6)
                } else {
                    let o = if self.rng.chance(1, 2) { 0x4B } else { 0x4C };
                    self.op(o) // MPPEM / MPS
                }
            }
            7 => {
                self.expr(depth + 1);
                let u = *self.rng.pick(&[0x64u8, 0x65, 0x66, 0x67, 0x68, 0x69, 0x6A, 0x6B, 0x6C, 0x6D, 0x56, 0x57, 0x5C]);
                self.op(u); // ABS NEG FLOOR CEILING ROUND[ab] NROUND[ab] ODD EVEN NOT
            }
            8 | 9 => {
                self.expr(depth + 1);
                self.expr(depth + 1);
                let b = *self.rng.pick(&[0x60u8, 0x61, 0x63, 0x8B, 0x8C, 0x50, 0x51, 0x52, 0x53, 0x54, 0x55, 0x5A, 0x5B]);
                self.op(b); // ADD SUB MUL MAX MIN LT LTEQ GT GTEQ EQ NEQ AND OR
            }
            10 => {
                // DIV with a non-zero literal divisor
                self.expr(depth + 1);
                let mut d = self.f26();
                if d == 0 {
                    d = 64;
                }
                self.push(&[d]);
                self.op(0x62);
            }
            _ => {
                // stack shuffles that keep one value: DUP POP, SWAP POP, DEPTH POP …
                self.expr(depth + 1);
                match self.rng.below(3) {
                    0 => {
                        self.op(0x20);
                        self.op(0x21);
                    }
                    1 => {
                        let v = self.f26();
                        self.push(&[v]);
                        self.op(0x23);
                        self.op(0x21);
                    }
                    _ => {
                        self.op(0x24);
                        self.op(0x21);
                    }
                }
            }
        }
    }

    fn with_loop(&mut self) -> usize {
        if self.rng.chance(1, 3) {
            let n = 2 + self.rng.below(3) as i32;
            self.push(&[n]);
            self.op(0x17); // SLOOP
            n as usize
        } else {
            1
        }
    }

    /// one stack-neutral statement
    fn stmt(&mut self, depth: u32) {
        let k = self.rng.below(40);
        match k {
            0..=3 if self.has(F_VECTORS) => match self.rng.below(8) {
                0 => { let a = self.rng.below(2) as u8; self.op(a) }            // SVTCA
                1 => { let a = self.rng.below(2) as u8; self.op(0x02 + a) }     // SPVTCA
                2 => { let a = self.rng.below(2) as u8; self.op(0x04 + a) }     // SFVTCA
                3 => {
                    // SPVTL / SFVTL / SDPVTL [a] p1 p2 (p1: zp2? FreeType: p1 in zp2? — SPVTL: p1 zp2, p2 zp1)
                    let (o, z1, z2) = *self.rng.pick(&[(0x06u8, 2usize, 1usize), (0x08, 2, 1), (0x86, 2, 1)]);
                    let p1 = self.point(z1);
                    let mut p2 = self.point(z2);
                    if p2 == p1 && self.zp[z1] == self.zp[z2] {
                        p2 = (p1 + 1) % MIN_POINTS;
                    }
                    self.push(&[p2, p1]);
                    let a = self.rng.below(2) as u8;
                    self.op(o + a);
                }
                4 | 5 => {
                    // SPVFS / SFVFS x y (2.14, any vector: the engines normalise)
                    let (x, y) = match self.rng.below(3) {
                        0 => (0x4000, 0),
                        1 => (11585, 11585),
                        _ => (self.rng.range(-16384, 16384) as i32, self.rng.range(-16384, 16384) as i32),
                    };
                    let (x, y) = if x == 0 && y == 0 { (1, 0) } else { (x, y) };
                    self.push(&[x, y]);
                    self.op(if k % 2 == 0 { 0x0A } else { 0x0B });
                }
                6 => self.op(0x0E), // SFVTPV
                _ => {
                    // GPV / GFV push two values
                    { let o = if self.rng.chance(1, 2) { 0x0C } else { 0x0D }; self.op(o) }
                    self.op(0x21);
                    self.op(0x21);
                }
            },
            4..=5 => {
                let zi = self.rng.below(3) as usize;
                let p = self.point(zi);
                let which = self.rng.below(3) as usize;
                let p = if which == 0 { self.point(0) } else if which == 1 { self.point(1) } else { p };
                // SRP0 uses zp0 later, SRP1 zp0?, simply keep indices valid for every zone
                let p = p.min(N_TWILIGHT - 1).min(MIN_POINTS - 1);
                self.push(&[p]);
                self.op(0x10 + which as u8);
            }
            6 if self.has(F_TWILIGHT) => {
                let z = self.rng.below(2) as i32;
                let which = self.rng.below(4) as usize;
                self.push(&[z]);
                self.op(0x13 + which as u8);
                if which == 3 {
                    self.zp = [z; 3];
                } else {
                    self.zp[which] = z;
                }
                // reference points set while a pointer addressed the glyph zone may be out of range for the
                // twilight zone (FreeType skips such an instruction unless pedantic, skrifa stops the
                // program: not what this generator is after): re-seat them
                for r in 0..3u8 {
                    let p = self.rng.below(N_TWILIGHT.min(MIN_POINTS) as u64) as i32;
                    self.push(&[p]);
                    self.op(0x10 + r);
                }
            }
            7..=8 if self.has(F_ROUNDSTATE) => match self.rng.below(9) {
                0 => self.op(0x18),
                1 => self.op(0x19),
                2 => self.op(0x3D),
                3 => self.op(0x7D),
                4 => self.op(0x7C),
                5 => self.op(0x7A),
                6 | 7 => {
                    let n = self.rng.below(256) as i32;
                    self.push(&[n]);
                    { let o = if self.rng.chance(1, 2) { 0x76 } else { 0x77 }; self.op(o) }
                }
                _ => {
                    let d = self.rng.range(0, 128) as i32;
                    self.push(&[d]);
                    self.op(0x1A); // SMD
                }
            },
            9 if self.has(F_CVT) => {
                let v = self.rng.range(0, 200) as i32;
                self.push(&[v]);
                { let o = *self.rng.pick(&[0x1Du8, 0x1E, 0x1F]); self.op(o) } // SCVTCI SSWCI SSW
            }
            10..=12 if self.has(F_MOVES) => {
                // MDAP[a] p (zp0)
                let p = self.point(0);
                self.push(&[p]);
                let a = self.rng.below(2) as u8;
                self.op(0x2E + a);
            }
            13..=14 if self.has(F_MOVES) && self.has(F_CVT) => {
                // MIAP[a] p cvt
                let p = self.point(0);
                let c = self.cvt();
                self.push(&[p, c]);
                let a = self.rng.below(2) as u8;
                self.op(0x3E + a);
            }
            15..=17 if self.has(F_MOVES) => {
                // MDRP[abcde] p (zp1), reference rp0 in zp0
                let p = self.point(1);
                self.push(&[p]);
                let f = self.rng.below(32) as u8;
                self.op(0xC0 + f);
            }
            18..=19 if self.has(F_MOVES) && self.has(F_CVT) => {
                let p = self.point(1);
                let c = self.cvt();
                self.push(&[p, c]);
                let f = self.rng.below(32) as u8;
                self.op(0xE0 + f);
            }
            20 if self.has(F_MOVES) => {
                // MSIRP[a] p d
                let p = self.point(1);
                self.push(&[p]);
                self.expr(depth + 1);
                let a = self.rng.below(2) as u8;
                self.op(0x3A + a);
            }
            21..=22 if self.has(F_MOVES) => {
                // looped point instructions
                let n = self.with_loop();
                let (o, z) = *self.rng.pick(&[(0x3Cu8, 1usize), (0x39, 2), (0x32, 2), (0x33, 2), (0x80, 0)]);
                // ALIGNRP (zp1) IP (zp2) SHP[a] (zp2) FLIPPT (zp0)
                let pts: Vec<i32> = (0..n).map(|_| self.point(z)).collect();
                self.push(&pts);
                self.op(o);
            }
            23 if self.has(F_MOVES) => {
                // SHPIX p… d
                let n = self.with_loop();
                let pts: Vec<i32> = (0..n).map(|_| self.point(2)).collect();
                self.push(&pts);
                self.expr(depth + 1);
                self.op(0x38);
            }
            24..=25 if self.has(F_MOVES) => {
                // SCFS p value
                let p = self.point(2);
                self.push(&[p]);
                self.expr(depth + 1);
                self.op(0x48);
            }
            26 if self.has(F_MOVES) && !self.in_function => match self.rng.below(5) {
                0 => {
                    // SHC[a] contour (zp2 must be the glyph zone for a meaningful contour)
                    let c = self.rng.below(self.n_contours.max(1) as u64) as i32;
                    if self.zp[2] == 1 {
                        self.push(&[c]);
                        let a = self.rng.below(2) as u8;
                        self.op(0x34 + a);
                    }
                }
                1 => {
                    let z = if self.has(F_TWILIGHT) { self.rng.below(2) as i32 } else { 1 };
                    self.push(&[z]);
                    let a = self.rng.below(2) as u8;
                    self.op(0x36 + a); // SHZ[a]
                }
                2 => {
                    // ALIGNPTS p1 (zp1) p2 (zp0)
                    let p1 = self.point(1);
                    let p2 = self.point(0);
                    self.push(&[p1, p2]);
                    self.op(0x27);
                }
                3 => {
                    // ISECT p (zp2) a0 a1 (zp1) b0 b1 (zp0)
                    let p = self.point(2);
                    let (a0, a1, b0, b1) = (self.point(1), self.point(1), self.point(0), self.point(0));
                    self.push(&[p, a0, a1, b0, b1]);
                    self.op(0x0F);
                }
                _ => {
                    let p = self.point(0);
                    self.push(&[p]);
                    self.op(0x29); // UTP
                }
            },
            27 if self.has(F_IUP) && !self.in_function => {
                let a = self.rng.below(2) as u8;
                self.op(0x30 + a);
            }
            28..=29 if self.has(F_DELTA) => {
                // DELTAPn / DELTACn with steps that fire at one of the sizes under test
                let n = 1 + self.rng.below(3) as usize;
                let is_c = self.has(F_CVT) && self.rng.chance(1, 3);
                let range = self.rng.below(3) as i32;
                let mut v = vec![];
                for _ in 0..n {
                    let ppem = *self.rng.pick(self.ppems) as i32;
                    let rel = if self.rng.chance(3, 4) { (ppem - 9 - 16 * range).clamp(0, 15) } else { self.rng.below(16) as i32 };
                    let arg = (rel << 4) | self.rng.below(16) as i32;
                    let target = if is_c { self.cvt() } else { self.point(0) };
                    v.push(arg);
                    v.push(target);
                }
                v.push(n as i32);
                self.push(&v);
                self.op(match (is_c, range) {
                    (false, 0) => 0x5D,
                    (false, 1) => 0x71,
                    (false, _) => 0x72,
                    (true, 0) => 0x73,
                    (true, 1) => 0x74,
                    (true, _) => 0x75,
                });
            }
            30 if self.has(F_DELTA) => {
                let v = self.rng.below(7) as i32;
                self.push(&[v]);
                self.op(0x5F); // SDS
            }
            31 if self.has(F_CVT) => {
                // WCVTP / WCVTF c value
                let c = self.cvt();
                self.push(&[c]);
                self.expr(depth + 1);
                { let o = if self.rng.chance(1, 2) { 0x44 } else { 0x70 }; self.op(o) }
            }
            32 => {
                let s = self.rng.below(N_STORAGE as u64) as i32;
                self.push(&[s]);
                self.expr(depth + 1);
                self.op(0x42); // WS
            }
            33..=34 if depth < 2 => {
                // IF … [ELSE …] EIF
                self.expr(depth + 1);
                self.op(0x58);
                let zp = self.zp;
                let n = 1 + self.rng.below(3);
                for _ in 0..n {
                    self.stmt(depth + 1);
                }
                // zone pointers may differ per branch: keep the generator's view conservative by
                // restoring them explicitly at the end of each branch
                self.restore_zp(zp);
                if self.rng.chance(1, 2) {
                    self.op(0x1B);
                    let n = 1 + self.rng.below(3);
                    for _ in 0..n {
                        self.stmt(depth + 1);
                    }
                    self.restore_zp(zp);
                }
                self.op(0x59);
            }
            35 if self.has(F_CALLS) && !self.in_function => {
                let f = self.rng.below(N_FUNCS as u64) as i32;
                if self.rng.chance(1, 3) {
                    let n = 1 + self.rng.below(3) as i32;
                    self.push(&[n, f]);
                    self.op(0x2A); // LOOPCALL
                } else {
                    self.push(&[f]);
                    self.op(0x2B); // CALL
                }
            }
            36 if self.has(F_MISC) => match self.rng.below(6) {
                0 => self.op(0x4D), // FLIPON
                1 => self.op(0x4E), // FLIPOFF
                2 => {
                    let v = self.rng.below(0x400) as i32;
                    self.push(&[v]);
                    self.op(0x85); // SCANCTRL
                }
                3 => {
                    let v = self.rng.below(8) as i32;
                    self.push(&[v]);
                    self.op(0x8D); // SCANTYPE
                }
                4 => {
                    // FLIPRGON / FLIPRGOFF lo hi (zp0 must be the glyph zone)
                    if self.zp[0] == 1 && !self.in_function {
                        let a = self.rng.below(self.n_points as u64) as i32;
                        let b = self.rng.below(self.n_points as u64) as i32;
                        self.push(&[a.min(b), a.max(b)]);
                        { let o = if self.rng.chance(1, 2) { 0x81 } else { 0x82 }; self.op(o) }
                    }
                }
                _ => {
                    let v = self.f26();
                    self.push(&[v]);
                    { let o = *self.rng.pick(&[0x7Eu8, 0x7F, 0x5E]); self.op(o) } // SANGW AA SDB(!)
                }
            },
            37 if self.has(F_MISC) => {
                // ROLL / MINDEX / CINDEX on three literals, then drop them
                let (a, b, c) = (self.f26(), self.f26(), self.f26());
                self.push(&[a, b, c]);
                match self.rng.below(3) {
                    0 => self.op(0x8A),
                    1 => {
                        let k = 1 + self.rng.below(3) as i32;
                        self.push(&[k]);
                        self.op(0x26);
                    }
                    _ => {
                        let k = 1 + self.rng.below(3) as i32;
                        self.push(&[k]);
                        self.op(0x25);
                        self.op(0x21);
                    }
                }
                self.op(0x21);
                self.op(0x21);
                self.op(0x21);
            }
            _ => {
                // an expression evaluated and moved into a point: ties every value-producing opcode to
                // the outline
                if self.has(F_MOVES) {
                    let p = self.point(2);
                    self.push(&[p]);
                    self.expr(depth);
                    self.op(0x48);
                } else {
                    self.expr(depth);
                    self.op(0x21);
                }
            }
        }
    }

    fn restore_zp(&mut self, zp: [i32; 3]) {
        let mut changed = false;
        for i in 0..3 {
            if self.zp[i] != zp[i] {
                self.push(&[zp[i]]);
                self.op(0x13 + i as u8);
                self.zp[i] = zp[i];
                changed = true;
            }
        }
        if changed {
            for r in 0..3u8 {
                let p = self.rng.below(N_TWILIGHT.min(MIN_POINTS) as u64) as i32;
                self.push(&[p]);
                self.op(0x10 + r);
            }
        }
    }
}

fn gen_program(rng: &mut Rng, n_points: i32, n_contours: i32, ppems: &[u32], features: u32, in_function: bool, len: usize) -> Vec<u8> {
    let no_points = features & (F_MOVES | F_VECTORS | F_TWILIGHT | F_IUP | F_DELTA) == 0;
    let mut g = Gen { rng, code: vec![], n_points, n_contours, zp: [1; 3], ppems, in_function, no_points, features };
    if !in_function && features & F_TWILIGHT != 0 {
        // FreeType keeps the twilight zone in the size object: what one glyph program leaves there is seen
        // by the next glyph loaded from the same face, so its output depends on the loading history
        // (skrifa starts every glyph from the state the prep program left).  Re-initialise every twilight
        // point (MIAP in the twilight zone sets the original and the current position) so that both
        // engines are a function of the glyph alone.
        g.push(&[0]);
        g.op(0x13); // SZP0 0
        for p in 0..N_TWILIGHT {
            let c = g.cvt();
            g.push(&[p, c]);
            g.op(0x3E);
        }
        g.push(&[1]);
        g.op(0x13);
    }
    for _ in 0..len {
        g.stmt(0);
    }
    if in_function {
        let zp = [1; 3];
        g.restore_zp(zp);
    }
    g.code
}

pub struct FuzzFont {
    pub data: Vec<u8>,
    pub features: u32,
}

pub fn build(rng: &mut Rng, ppems: &[u32], features: u32, n_glyphs: usize) -> FuzzFont {
    let upem = *rng.pick(&[1000u16, 1024, 2048]);
    // fpgm: FDEF f … ENDF
    let mut fpgm = vec![];
    if features & F_CALLS != 0 {
        for f in 0..N_FUNCS {
            fpgm.push(0xB0);
            fpgm.push(f as u8);
            fpgm.push(0x2C);
            let len = 1 + rng.below(4) as usize;
            fpgm.extend(gen_program(rng, MIN_POINTS, 1, ppems, features & !(F_CALLS | F_TWILIGHT), true, len));
            fpgm.push(0x2D);
        }
    }
    // prep: a few state-setting statements (no point moves: there is no glyph)
    let prep = if rng.chance(1, 2) {
        let len = 1 + rng.below(4) as usize;
        gen_program(rng, MIN_POINTS, 1, ppems, features & (F_ROUNDSTATE | F_CVT | F_MISC), true, len)
    } else {
        vec![]
    };
    let mut b = GlyfLocaBuilder::new();
    b.add_glyph(&Glyph::Empty).unwrap();
    let mut max_points = 0;
    let mut max_ins = fpgm.len().max(prep.len());
    for _ in 1..n_glyphs {
        let n_contours = 1 + rng.below(2) as usize;
        let mut contours = vec![];
        let mut total = 0;
        for c in 0..n_contours {
            let n = if c == 0 { MIN_POINTS as usize + rng.below(5) as usize } else { 3 + rng.below(5) as usize };
            let u = upem as i64;
            let pts: Vec<CurvePoint> = (0..n)
                .map(|i| CurvePoint::new(rng.range(-u / 10, u) as i16, rng.range(-u / 4, u) as i16, i == 0 || rng.chance(2, 3)))
                .collect();
            total += n;
            contours.push(Contour::from(pts));
        }
        let len = 4 + rng.below(if features.count_ones() > 4 { 30 } else { 14 }) as usize;
        let ins = gen_program(rng, total as i32, n_contours as i32, ppems, features, false, len);
        max_points = max_points.max(total);
        max_ins = max_ins.max(ins.len());
        let mut g = SimpleGlyph { bbox: Bbox::default(), contours, instructions: ins };
        g.recompute_bounding_box();
        b.add_glyph(&g).unwrap();
    }
    let (glyf, loca, fmt) = b.build();
    let n = n_glyphs as u16;
    let head = Head { units_per_em: upem, index_to_loc_format: fmt as i16, magic_number: 0x5F0F3CF5, ..Default::default() };
    let maxp = Maxp {
        num_glyphs: n,
        max_points: Some(max_points as u16),
        max_contours: Some(2),
        max_composite_points: Some(0),
        max_composite_contours: Some(0),
        max_zones: Some(2),
        max_twilight_points: Some(N_TWILIGHT as u16),
        max_storage: Some(N_STORAGE as u16),
        max_function_defs: Some(N_FUNCS as u16),
        max_instruction_defs: Some(0),
        max_stack_elements: Some(256),
        max_size_of_instructions: Some(max_ins as u16),
        max_component_elements: Some(0),
        max_component_depth: Some(0),
    };
    let hhea = Hhea { number_of_h_metrics: n, ascender: (upem as i16 / 5 * 4).into(), descender: (-(upem as i16) / 5).into(), ..Default::default() };
    let hmtx = Hmtx::new((0..n).map(|_| LongMetric::new(rng.below(upem as u64 + 1) as u16, rng.range(-50, 100) as i16)).collect(), vec![]);
    let cvt: Vec<i16> = (0..N_CVT).map(|_| rng.range(-(upem as i64) / 2, upem as i64) as i16).collect();
    let mut fb = write_fonts::FontBuilder::new();
    fb.add_table(&head).unwrap();
    fb.add_table(&maxp).unwrap();
    fb.add_table(&hhea).unwrap();
    fb.add_table(&hmtx).unwrap();
    fb.add_table(&glyf).unwrap();
    fb.add_table(&loca).unwrap();
    let be: Vec<u8> = cvt.iter().flat_map(|v| v.to_be_bytes()).collect();
    fb.add_raw(read_fonts::types::Tag::new(b"cvt "), be);
    if !fpgm.is_empty() {
        fb.add_raw(read_fonts::types::Tag::new(b"fpgm"), fpgm);
    }
    if !prep.is_empty() {
        fb.add_raw(read_fonts::types::Tag::new(b"prep"), prep);
    }
    FuzzFont { data: fb.build(), features }
}

pub fn run(cfg: &Config, s: &mut Session) {
    use fauntlet::{Hinting, HintingTarget::*};
    let mut rng = Rng::new(cfg.seed ^ 0x77F0_22);
    let dir = std::path::PathBuf::from(format!("/tmp/c03-ttfuzz-{}-{}", cfg.seed, std::process::id()));
    let _ = std::fs::create_dir_all(&dir);
    let modes = [
        Some(Hinting::Interpreter(Mono)),
        Some(Hinting::Interpreter(Normal)),
        Some(Hinting::Interpreter(Light)),
        Some(Hinting::Interpreter(Lcd)),
        Some(Hinting::Interpreter(VerticalLcd)),
    ];
    let ppems: Vec<u32> = vec![9, 12, 16, 25, 41];
    let families: Vec<u32> = vec![
        F_MOVES,
        F_MOVES | F_ROUNDSTATE,
        F_MOVES | F_CVT,
        F_MOVES | F_VECTORS,
        F_MOVES | F_IUP,
        F_MOVES | F_DELTA | F_CVT,
        F_MOVES | F_TWILIGHT,
        F_MOVES | F_CALLS,
        F_MOVES | F_MISC,
        0x1FF,
        0x1FF,
    ];
    let rounds = if cfg.thorough() { 12 } else { 3 };
    crate::FRESH_INSTANCE_PER_GLYPH.store(true, std::sync::atomic::Ordering::Relaxed);
    for r in 0..rounds {
        for (i, &features) in families.iter().enumerate() {
            let font = match catch(|| build(&mut rng, &ppems, features, 12)) {
                Ok(f) => f,
                Err(e) => {
                    s.notes.push(format!("ttfuzz font {i}: generator panicked: {e}"));
                    s.count("ttfuzz:generator-panic");
                    continue;
                }
            };
            let path = dir.join(format!("c03_tt_{:03x}_{r}_{i}.ttf", font.features));
            std::fs::write(&path, &font.data).unwrap();
            crate::differential(cfg, s, &path, &ppems, &modes);
        }
    }
    crate::FRESH_INSTANCE_PER_GLYPH.store(false, std::sync::atomic::Ordering::Relaxed);
    if std::env::var_os("C03_KEEP").is_none() {
        let _ = std::fs::remove_dir_all(&dir);
    }
}
