//! H. the fonts the repository carries OUTSIDE font-test-data (`klippa/test-data/fonts`: Ubuntu, Roboto,
//! SourceSansPro (CFF), Comfortaa, Sree Krushnadevaraya, the Indic test fonts, NanumMyeongjo …) through
//! the same whole-outline differential, with a size grid that contains EVERY ppem 4‥64: production fonts
//! hit instruction-level thresholds (MIRP cut-in equality, CFF stem crowding) only at a few sizes each,
//! so a sparse grid misses them.  These fonts have thousands of glyphs: the comparison runs on worker
//! threads (one fauntlet::Font = one FT_Library per job), the results are recorded in job order, so
//! the evidence is deterministic.
use crate::fvlib::common::*;
use crate::{eval_glyph, record_glyph, GlyphResult};
use fauntlet::{Hinting, HintingTarget::*, InstanceOptions};
use skrifa::raw::{FileRef, FontRef, TableProvider};
use skrifa::GlyphId;
use std::path::PathBuf;

pub fn extra_fonts() -> Vec<PathBuf> {
    let mut v = vec![];
    for dir in ["/repo/klippa/test-data/fonts"] {
        if let Ok(rd) = std::fs::read_dir(dir) {
            for e in rd.flatten() {
                let p = e.path();
                match p.extension().and_then(|x| x.to_str()) {
                    Some("ttf") | Some("otf") | Some("ttc") => v.push(p),
                    _ => {}
                }
            }
        }
    }
    v.sort();
    v
}

/// does the face carry its own hinting (TrueType programs or a CFF table)?
fn has_hinting(font: &FontRef) -> bool {
    use read_fonts::types::Tag;
    font.table_data(Tag::new(b"fpgm")).is_some()
        || font.table_data(Tag::new(b"prep")).is_some()
        || font.table_data(Tag::new(b"CFF ")).is_some()
        || font.table_data(Tag::new(b"CFF2")).is_some()
}

struct Job {
    path: PathBuf,
    name: String,
    index: usize,
    ppem: u32,
    modes: Vec<Option<Hinting>>,
}

enum ModeOutcome {
    InstantiateNone,
    NotScalable,
    Glyphs { count: u32, clean_with_adv: u32, clean_no_adv: u32, other: Vec<(u32, GlyphResult)> },
}

fn run_job(job: &Job) -> Vec<ModeOutcome> {
    let Some(mut font) = fauntlet::Font::new(&job.path) else {
        return job.modes.iter().map(|_| ModeOutcome::InstantiateNone).collect();
    };
    let mut out = vec![];
    for &mode in &job.modes {
        let options = InstanceOptions::new(job.index, job.ppem, &[], mode);
        let Some((mut ft, mut sk)) = font.instantiate(&options) else {
            out.push(ModeOutcome::InstantiateNone);
            continue;
        };
        if !ft.is_scalable() {
            out.push(ModeOutcome::NotScalable);
            continue;
        }
        let count = sk.glyph_count() as u32;
        let (mut clean_with_adv, mut clean_no_adv, mut other) = (0, 0, vec![]);
        for gid in 0..count {
            match eval_glyph(&mut ft, &mut sk, job.ppem, GlyphId::new(gid)) {
                GlyphResult::Compared { path_same: true, adv: Some((a, b)), .. } if a == b => clean_with_adv += 1,
                GlyphResult::Compared { path_same: true, adv: None, .. } => clean_no_adv += 1,
                r => other.push((gid, r)),
            }
        }
        out.push(ModeOutcome::Glyphs { count, clean_with_adv, clean_no_adv, other });
    }
    out
}

fn bump(s: &mut Session, key: &str, n: u64) {
    if n > 0 {
        *s.dist.entry(key.to_string()).or_insert(0) += n;
    }
}

pub fn run(cfg: &Config, s: &mut Session) {
    let all_modes: Vec<Option<Hinting>> = vec![
        Some(Hinting::Interpreter(Mono)),
        Some(Hinting::Interpreter(Normal)),
        Some(Hinting::Interpreter(Light)),
        Some(Hinting::Interpreter(Lcd)),
        Some(Hinting::Interpreter(VerticalLcd)),
    ];
    let mut jobs: Vec<Job> = vec![];
    for path in extra_fonts() {
        let name = path.file_name().unwrap().to_string_lossy().to_string();
        let Ok(data) = std::fs::read(&path) else {
            s.count("extra:unreadable");
            continue;
        };
        let faces: Vec<FontRef> = match FileRef::new(&data) {
            Ok(FileRef::Font(f)) => vec![f],
            Ok(FileRef::Collection(c)) => c.iter().flatten().collect(),
            Err(_) => {
                s.count("extra:unparsable");
                continue;
            }
        };
        for (index, f) in faces.iter().enumerate() {
            if f.fvar().is_ok() {
                s.count("extra:skip-variable");
                continue;
            }
            let hinted = has_hinting(f);
            s.count(if hinted { "extra:face:with-hinting" } else { "extra:face:without-hinting" });
            let glyphs = f.maxp().map(|m| m.num_glyphs()).unwrap_or(0) as u32;
            // every ppem 4‥64; a few larger
            let mut ppems: Vec<u32> = (4..=64).collect();
            ppems.extend(if cfg.thorough() { vec![0, 1, 2, 3, 72, 96, 100, 127, 128, 200, 256, 1000, 2048] } else { vec![0, 96, 200] });
            for ppem in ppems {
                let mut modes: Vec<Option<Hinting>> = vec![None];
                if ppem != 0 {
                    if hinted {
                        // fonts with many thousand glyphs: all targets on every third size, two targets elsewhere (quick)
                        if cfg.thorough() || glyphs < 1500 || ppem % 3 == 1 {
                            modes.extend(all_modes.iter().copied());
                        } else {
                            modes.extend(all_modes[..2].iter().copied());
                        }
                    } else if cfg.thorough() || ppem % 4 == 0 {
                        // no instructions: the hinted load path still rounds metrics and phantom points
                        modes.extend(all_modes[..2].iter().copied());
                    }
                }
                if !hinted && !cfg.thorough() && ppem % 2 == 1 && ppem > 24 {
                    continue;
                }
                jobs.push(Job { path: path.clone(), name: name.clone(), index, ppem, modes });
            }
        }
    }
    // worker threads pull job indices; results are stored by index and recorded in order
    let n_threads = std::env::var("C03_THREADS").ok().and_then(|v| v.parse().ok()).unwrap_or(6usize).max(1);
    let next = std::sync::atomic::AtomicUsize::new(0);
    let results: std::sync::Mutex<Vec<Option<Vec<ModeOutcome>>>> = std::sync::Mutex::new((0..jobs.len()).map(|_| None).collect());
    std::thread::scope(|scope| {
        for _ in 0..n_threads {
            scope.spawn(|| loop {
                let i = next.fetch_add(1, std::sync::atomic::Ordering::Relaxed);
                if i >= jobs.len() {
                    break;
                }
                let r = run_job(&jobs[i]);
                results.lock().unwrap()[i] = Some(r);
            });
        }
    });
    let results = results.into_inner().unwrap();
    for (job, res) in jobs.iter().zip(results.into_iter()) {
        let Some(res) = res else {
            s.oracle("extra:job-completed", false, || format!("font={} ppem={}", job.name, job.ppem), || "worker did not deliver".into());
            continue;
        };
        for (&mode, outcome) in job.modes.iter().zip(res.into_iter()) {
            match outcome {
                ModeOutcome::InstantiateNone => {
                    s.count("diff:instantiate-none");
                    s.count(&format!("diff:instantiate-none:{}:{}", job.name, if mode.is_some() { "hinted" } else { "unhinted" }));
                }
                ModeOutcome::NotScalable => s.count("diff:skip-not-scalable"),
                ModeOutcome::Glyphs { count: _, clean_with_adv, clean_no_adv, other } => {
                    // clean glyphs in bulk: exactly what record_glyph would have counted one by one
                    let clean = (clean_with_adv + clean_no_adv) as u64;
                    bump(s, "diff:compared", clean);
                    bump(s, &format!("diff:mode:{}", crate::mode_name(mode)), clean);
                    bump(s, "diff:advance-compared", clean_with_adv as u64);
                    bump(s, &format!("extra:compared:{}", job.name), clean);
                    s.oracle_checks += clean + clean_with_adv as u64;
                    for (gid, r) in other {
                        record_glyph(s, &job.name, job.index, job.ppem, mode, GlyphId::new(gid), r);
                    }
                }
            }
        }
    }
}
